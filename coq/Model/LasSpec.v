(* Definitions used in the statements of the theorems about Model/Las.v (no proofs). *)
From Coq Require Import String.
From Coq Require Import ZArith List Bool.
From LasV Require Import Lib.Base Lib.Layout Gen.GenHeaderLayout Gen.GenFormatBits Gen.GenDims Model.Las.
Import ListNotations.
Open Scope list_scope.
Open Scope Z_scope.

(* what the proofs assume of x |-> bits(x*scale+offset): monotone for the binary64 order, never
   two different bit patterns of equal rank (no -0.0 next to +0.0), always finite *)
Definition ap_ok (ap : Z -> Z -> Z -> Z) : Prop :=
  (forall s o x y, x <= y -> f64_key (ap s o x) <= f64_key (ap s o y))
  /\ (forall s o x y, f64_key (ap s o x) = f64_key (ap s o y) -> ap s o x = ap s o y)
  /\ (forall s o x, f64_key F64_MIN <= f64_key (ap s o x) <= f64_key F64_MAX).

(* a chunked writer session: k chunks, optionally EVLRs, close *)
Definition chunk_ops (chunks : list (list (list Z))) (evl : list vlr) : list wop :=
  map (fun c => WPoints c true) chunks ++ (match evl with [] => [] | _ => [WEvlrs evl] end) ++ [WClose].

Definition all_ok (outs : list (result unit)) : Prop := Forall (fun o => o = Ok tt) outs.

Definition wf_vlr (ext : bool) (v : vlr) : bool :=
  Nat.leb (length (v_uid v)) 16 && no_nul (v_uid v) && ascii_ok (v_uid v) && bytes_ok (v_uid v)
  && (0 <=? v_rid v) && (v_rid v <? 65536)
  && Nat.leb (length (v_desc v)) 32 && no_nul (v_desc v) && bytes_ok (v_desc v)
  && bytes_ok (v_data v)
  && (if ext then len (v_data v) <? 2 ^ 64 else len (v_data v) <=? 65535).

(* a header (after enc_header fixed its derived fields) whose every field is in its legal domain *)
Definition wf_header (h : assoc) (vl : list vlr) : bool :=
  let mnr := aint h "version.minor" in
  match header_size_tbl (aint h "version.major") mnr, std_size (compressed_id_to_uncompressed (aint h "point_format_id")) with
  | Some _, Some std =>
      wf_fields (fixed_part (hw_layout mnr)) (hdr_vals h (fixed_part (hw_layout mnr)))
      && forallb (wf_vlr false) vl && forallb (fun v => negb (is_eb_vlr v)) vl
      && bytes_ok (abytes h "extra_header_bytes") && bytes_ok (abytes h "extra_vlr_bytes")
      && (std <=? aint h "point_size") && (len vl <=? MAX_VLRS) && (aint h "number_of_evlrs" <=? MAX_VLRS)
  | _, _ => false
  end.

(* the attribute names a reader recovers (the read layout without signature and variable parts) *)
Definition header_field_names (mnr : Z) : list string :=
  filter (fun n => negb (String.eqb n "signature")) (layout_names (fixed_part (hr_layout mnr))).

Definition recs_ok (ps : Z) (recs : list (list Z)) : bool :=
  forallb (fun r => (len r =? ps) && bytes_ok r) recs.

(* the header that ends up in the one-shot file (mirror of file_of, returning the final field list) *)
Definition final_hdr (ap : Z -> Z -> Z -> Z) (h : assoc) (vl : list vlr) (fmt : Z) (recs : list (list Z)) (evl : list vlr) : result assoc :=
  do hb0 <- enc_header (with_stats h stats0) vl false;
  let off := len (snd hb0) in
  let pts := concat recs in
  do eb <- enc_vlrs true evl;
  let st := stats_of ap fmt h recs in
  let st := match evl with
            | [] => st
            | _ => mkS (s_count st) (s_max st) (s_min st) (s_ret st) (off + len pts) (len evl)
            end in
  do hb <- enc_header (with_stats (fst hb0) st) vl true;
  Ok (fst hb).

(* everything the round-trip theorems ask of the data handed to the writer *)
Definition wf_las (ap : Z -> Z -> Z -> Z) (h : assoc) (vl : list vlr) (fmt : Z) (recs : list (list Z)) (evl : list vlr) : Prop :=
  exists h', final_hdr ap h vl fmt recs evl = Ok h'
    /\ wf_header h' vl = true
    /\ forallb (wf_vlr true) evl = true
    /\ recs_ok (aint h' "point_size") recs = true
    /\ 0 < aint h' "point_size"
    /\ (evl = [] \/ aint h "version.minor" >= 4)
    /\ len evl <= MAX_VLRS
    /\ compressed_id_to_uncompressed (aint h "point_format_id") = fmt.

(* a write trace is a list of positioned writes; an interrupted run applies a prefix of it, the last write torn *)
Definition apply_write (f : list Z) (w : Z * list Z) : list Z := write_at f (fst w) (snd w).
Definition crash_image (trace : list (Z * list Z)) (k j : nat) : list Z :=
  let done := fold_left apply_write (firstn k trace) [] in
  match nth_error trace k with
  | Some (pos, bs) => write_at done pos (firstn j bs)
  | None => done
  end.

Definition is_prefix {A} (p l : list A) : Prop := exists m, p = firstn m l.
Definition reads_prefix_or_fails (img : list Z) (recs : list (list Z)) : Prop :=
  match read_file img with
  | Err _ => True
  | Ok lf => is_prefix (lf_points lf) recs
  end.
