(* Definitions used in the statements of the theorems about Model/Las.v (no proofs). *)
From Coq Require Import String.
From Coq Require Import ZArith List Bool.
From LasV Require Import Lib.Base Lib.Layout Gen.GenHeaderLayout Gen.GenFormatBits Gen.GenDims Model.Las.
Import ListNotations.
Open Scope list_scope.
Open Scope Z_scope.

(* what the proofs assume of x |-> bits(x*scale+offset): monotone for the binary64 order, never
   two different bit patterns of equal rank (no -0.0 next to +0.0), always finite *)
Definition ap_ok (ap : Z -> Z -> Z -> Z) : Prop :=
  (forall s o x y, x <= y -> f64_key (ap s o x) <= f64_key (ap s o y))
  /\ (forall s o x y, f64_key (ap s o x) = f64_key (ap s o y) -> ap s o x = ap s o y)
  /\ (forall s o x, f64_key F64_MIN <= f64_key (ap s o x) <= f64_key F64_MAX).

(* a chunked writer session: k chunks, optionally EVLRs, close *)
Definition chunk_ops (chunks : list (list (list Z))) (evl : list vlr) : list wop :=
  map (fun c => WPoints c true) chunks ++ (match evl with [] => [] | _ => [WEvlrs evl] end) ++ [WClose].

Definition all_ok (outs : list (result unit)) : Prop := Forall (fun o => o = Ok tt) outs.

Definition wf_vlr (ext : bool) (v : vlr) : bool :=
  Nat.leb (length (v_uid v)) 16 && no_nul (v_uid v) && ascii_ok (v_uid v) && bytes_ok (v_uid v)
  && (0 <=? v_rid v) && (v_rid v <? 65536)
  && Nat.leb (length (v_desc v)) 32 && no_nul (v_desc v) && bytes_ok (v_desc v)
  && bytes_ok (v_data v)
  && (if ext then len (v_data v) <? 2 ^ 64 else len (v_data v) <=? 65535).

(* a header (after enc_header fixed its derived fields) whose every field is in its legal domain *)
Definition wf_header (h : assoc) (vl : list vlr) : bool :=
  let mnr := aint h "version.minor" in
  match header_size_tbl (aint h "version.major") mnr, std_size (compressed_id_to_uncompressed (aint h "point_format_id")) with
  | Some _, Some std =>
      wf_fields (fixed_part (hw_layout mnr)) (hdr_vals h (fixed_part (hw_layout mnr)))
      && forallb (wf_vlr false) vl && forallb (fun v => negb (is_eb_vlr v)) vl
      && bytes_ok (abytes h "extra_header_bytes") && bytes_ok (abytes h "extra_vlr_bytes")
      && (std <=? aint h "point_size") && (len vl <=? MAX_VLRS) && (aint h "number_of_evlrs" <=? MAX_VLRS)
  | _, _ => false
  end.

(* the attribute names a reader recovers (the read layout without signature and variable parts) *)
Definition header_field_names (mnr : Z) : list string :=
  filter (fun n => negb (String.eqb n "signature")) (layout_names (fixed_part (hr_layout mnr))).

Definition recs_ok (ps : Z) (recs : list (list Z)) : bool :=
  forallb (fun r => (len r =? ps) && bytes_ok r) recs.
