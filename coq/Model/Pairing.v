(* C01, round 5 - every way of BUILDING the two objects that are written, and the GATE that pairs them.

   What is written is a pair: a header (point format id, the extra dimensions of its PointFormat in ORDER, its VLR list) and
   a record whose memory is laid out by the record's OWN PointFormat (numpy structured dtype: the standard block, then the
   extra dimensions in the order of THAT format). Every entry point that pairs the two - LasData(header, points=rec),
   las.points = rec, LasWriter.write_points(rec) / laspy.open(mode="w"), LasAppender.append_points - compares the two
   formats with PointFormat.__eq__ and then dumps the record's memory verbatim under the header's description.

   Built on Model/ExtraDims.v (C13: descriptors, extra-bytes VLR, write_state / read_state), whose `init_ex` is a header
   made from a PointFormat that already carries extra dimensions, by whatever builder: LasHeader(point_format=fmt),
   laspy.create(point_format=fmt), the point_format setter / set_version_and_point_format / laspy.convert (which
   re-synchronise: extra-bytes VLR last), copy.deepcopy, LasHeader.read_from.

   Definitions only; proofs in Proofs/PairingProofs.v. *)
From Coq Require Import String Ascii.
From Coq Require Import ZArith List Bool.
From LasV Require Import Lib.Base Lib.Layout Gen.GenDims Gen.GenExtraBytes Model.Las Model.ExtraDims.
Import ListNotations.
Open Scope list_scope.
Open Scope Z_scope.

(* DimensionInfo.__eq__ as it is: name, kind, number of bits, NUMBER OF ELEMENTS, description, scales and offsets *)
Definition edim_same (a b : edim) : bool :=
  edim_eqv a b && (et_elems (ed_type a) =? et_elems (ed_type b)).

(* PointFormat.__eq__ on the extra dimensions: pairwise, IN ORDER (zip_longest) *)
Fixpoint fmt_same (a b : list edim) : bool :=
  match a, b with
  | [], [] => true
  | x :: a', y :: b' => edim_same x y && fmt_same a' b'
  | _, _ => false
  end.

(* the gate of every pairing entry point: record format (gr, rex) against header format (gh, hex) *)
Definition gate (gh : Z) (hex : list edim) (gr : Z) (rex : list edim) : bool := (gr =? gh) && fmt_same rex hex.

(* a gate that identifies the extra dimensions BY NAME (same names, each name the same dimension, any order): what a
   "friendlier" equality would be; Proofs/PairingProofs.v shows it pairs records whose values are then exchanged *)
Definition find_same (d : edim) (l : list edim) : bool :=
  match find (fun x => name_eqb (ed_name x) (ed_name d)) l with Some x => edim_same d x | None => false end.
Definition gate_by_name (gh : Z) (hex : list edim) (gr : Z) (rex : list edim) : bool :=
  (gr =? gh) && (length rex =? length hex)%nat && forallb (fun d => find_same d hex) rex && forallb (fun d => find_same d rex) hex.

(* pairing through any entry point, then the object as it is written: the header keeps ITS format and VLR list, the
   record's bytes go out verbatim (recs: the memory of every point, laid out by the RECORD's format)
     others  = the VLRs of the header that are not the extra-bytes VLR,
     eb_last = whether the builder put the extra-bytes VLR after them (a re-synchronising builder) or before *)
Definition pair_up (gh : Z) (hex : list edim) (others : list vlr) (eb_last : bool)
                   (gr : Z) (rex : list edim) (recs : list (list Z)) : result state :=
  if negb (gate gh hex gr rex) then Err ELaspy else
  match std_size gh with
  | None => Err ELaspy
  | Some std =>
      if negb (recs_okb std rex recs) then Err EValue     (* not a record of its own format: outside the quantifier *)
      else init_ex gh hex recs others eb_last
  end.

(* what comes back: written (write_state) and read (read_state) *)
Definition pair_write_read (gh : Z) (hex : list edim) (others : list vlr) (eb_last : bool)
                           (gr : Z) (rex : list edim) (recs : list (list Z)) : result state :=
  do s <- pair_up gh hex others eb_last gr rex recs;
  do w <- write_state s;
  read_state w.

(* the values a record holds, by dimension name, in the caller's memory: cut by the record's OWN format *)
Definition caller_view (std : Z) (rex : list edim) (recs : list (list Z)) : list xrec := map (split_rec std rex) recs.
