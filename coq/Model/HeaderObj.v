(* C07: the header OBJECT. Besides the fields that are serialised, a LasHeader carries auxiliary state: the list of EVLRs
   loaded from a file (None / empty / shorter or longer than the number_of_evlrs counter), the LasData (and its point record)
   it is attached to, the flag `are_points_compressed` (folded into the point_format_id byte by the harness), a stale
   offset_to_point_data, whether it was built by the constructor, read from a file or deep-copied. LasHeader.write_to is a
   function of the fields, the VLR list and ensure_same_size ONLY: each field is serialised from its own attribute.
   Definitions only. *)
From Coq Require Import String.
From Coq Require Import ZArith List Bool.
From LasV Require Import Lib.Base Lib.Layout Model.Las.
Import ListNotations.
Open Scope list_scope.
Open Scope Z_scope.

Inductive origin := FromConstructor | FromFile | DeepCopied | OfWriter | OfAppender.

Record hobj := mkHO {
  ho_fields : assoc;                    (* the attributes that are header fields *)
  ho_vlrs : list vlr;                   (* header.vlrs *)
  ho_evlrs : option (list vlr);         (* header.evlrs: None, or the list loaded / attached, of ANY length *)
  ho_attached_points : option Z;        (* length of the point record of the LasData the header belongs to, if any *)
  ho_origin : origin
}.

Definition write_obj (o : hobj) (ensure_same : bool) : result (assoc * list Z) :=
  enc_header (ho_fields o) (ho_vlrs o) ensure_same.

(* the fields write_to computes itself (layout arithmetic) or that select the layout; every other name is a plain field *)
Definition derived_name (n : string) : bool :=
  String.eqb n "offset_to_point_data" || String.eqb n "header_size" || String.eqb n "number_of_vlrs"
  || String.eqb n "zero" || String.eqb n "signature".
