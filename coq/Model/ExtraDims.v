(* C13 — extra dimensions across add / remove histories.  Definitions only (proofs in Proofs/ExtraDimsProofs.v).

   What is modelled (hand-written, after the code named on each definition):
     LasData.add_extra_dims / remove_extra_dims and the LasData.points setter with PointFormat.__eq__ /
     DimensionInfo.__eq__ (lasdata.py, point/format.py, point/dims.py), LasHeader.__init__ on a PointFormat that already
     carries extra dimensions, LasHeader.add_extra_dims / remove_extra_dims / _sync_extra_bytes_vlr and the
     extra-dimension part of LasHeader.read_from, including un-registered trailing bytes (header.py),
     the extra-dimension / VLR part of laspy.convert (lib.py: the standard block of the converted record is C12's subject
     and a parameter here),
     PointFormat.add_extra_dimension / remove_extra_dimension (point/format.py),
     PackedPointRecord.zeros + copy_fields_from (point/record.py: a new zeroed record, fields copied by name),
     ExtraBytesVlr.record_data_bytes / parse_record_data / type_of_extra_dims (vlrs/known.py).
   What comes from the source on every run (Gen/GenExtraBytes.v, Gen/GenDims.v): the 192-byte ctypes layout of
   ExtraBytesStruct, the scale/offset option bits and the guards of the scale/offset getters, num_elements, the
   identity of the extra-bytes VLR, the table of the 30 element types, the standard dimensions of every format.

   Names and descriptions are byte strings (the UTF-8 encoding laspy stores); scales and offsets are binary64 bit
   patterns; values are raw little-endian bytes per record and per dimension. *)
From Coq Require Import String Ascii.
From Coq Require Import ZArith List Bool.
From LasV Require Import Lib.Base Lib.Layout Gen.GenDims Gen.GenExtraBytes Model.Las.
Import ListNotations.
Open Scope list_scope.
Open Scope Z_scope.

(* ------------------------------------------------------------------------------------ *)
(* element types, dimensions                                                             *)
(* ------------------------------------------------------------------------------------ *)
(* TStd id: one of the documented types of extradims._allowed_extra_dims_types (id = index + 1);
   TOpaque n: an array of n uint8 with n > 3, "undocumented extra bytes" (data type 0) *)
Inductive etype := TStd (id : Z) | TOpaque (n : Z).

Definition type_row (id : Z) : option (Z * string * Z * Z) :=
  find (fun row => let '(i, _, _, _) := row in i =? id) extra_dim_types.

Definition et_elems (t : etype) : Z :=
  match t with
  | TOpaque n => n
  | TStd id => match type_row id with Some (_, _, _, n) => n | None => 0 end
  end.
Definition et_size (t : etype) : Z :=
  match t with
  | TOpaque n => n
  | TStd id => match type_row id with Some (_, _, sz, n) => sz * n | None => 0 end
  end.
Definition et_ok (t : etype) : bool :=
  match t with
  | TOpaque n => (4 <=? n) && (n <=? 255)
  | TStd id => match type_row id with Some _ => true | None => false end
  end.
Definition type_id (t : etype) : Z := match t with TStd id => id | TOpaque _ => 0 end.

Record edim := mkED {
  ed_name : list Z;
  ed_type : etype;
  ed_scale : option (list Z * list Z);      (* scales, offsets: both or none (DimensionInfo._validate) *)
  ed_desc : list Z
}.

Fixpoint name_eqb (a b : list Z) : bool :=
  match a, b with
  | [], [] => true
  | x :: a', y :: b' => (x =? y) && name_eqb a' b'
  | _, _ => false
  end.
Definition mem_name (n : list Z) (l : list (list Z)) : bool := existsb (name_eqb n) l.
Fixpoint nodupb (l : list (list Z)) : bool :=
  match l with [] => true | a :: r => negb (mem_name a r) && nodupb r end.

Definition f64_ok (z : Z) : bool := (0 <=? z) && (z <? 2 ^ 64).
Definition text_ok (s : list Z) : bool := (len s <=? 32) && no_nul s && bytes_ok s.

(* the parameters the property quantifies over: the 30 types, scaled or not, and opaque arrays of 4..255 bytes *)
Definition edim_okb (d : edim) : bool :=
  (1 <=? len (ed_name d)) && text_ok (ed_name d) && text_ok (ed_desc d) && et_ok (ed_type d)
  && match ed_scale d, ed_type d with
     | None, _ => true
     | Some (s, o), TStd id =>
         (len s =? et_elems (TStd id)) && (len o =? et_elems (TStd id)) && forallb f64_ok s && forallb f64_ok o
     | Some _, TOpaque _ => false
     end.

Definition extras_size (ex : list edim) : Z := fold_right (fun d acc => et_size (ed_type d) + acc) 0 ex.
Definition extra_names (ex : list edim) : list (list Z) := map ed_name ex.

(* ------------------------------------------------------------------------------------ *)
(* the 192-byte descriptor (ExtraBytesStruct) and the extra-bytes VLR                    *)
(* ------------------------------------------------------------------------------------ *)
Definition F64_ONE : Z := 0x3FF0000000000000.

(* header._sync_extra_bytes_vlr: options = byte count for data type 0, else the scale/offset flags *)
Definition ed_options (d : edim) : Z :=
  match ed_type d with
  | TOpaque n => n
  | TStd _ => match ed_scale d with Some _ => Z.lor eb_scale_mask eb_offset_mask | None => 0 end
  end.
(* _scale[:num_elements] = value[:num_elements]; untouched entries of a fresh struct are 0.0 *)
Definition ed_scale_at (pick : list Z * list Z -> list Z) (d : edim) (i : nat) : Z :=
  match ed_type d, ed_scale d with
  | TStd id, Some so => nth i (firstn (Z.to_nat (eb_num_elements id (ed_options d))) (pick so)) 0
  | _, _ => 0
  end.

Definition eb_field_value (d : edim) (f : kind * nat * string) : value :=
  let '(k, w, n) := f in
  if String.eqb n "data_type" then VInt (type_id (ed_type d))
  else if String.eqb n "options" then VInt (ed_options d)
  else if String.eqb n "name" then VBytes (ed_name d)
  else if String.eqb n "description" then VBytes (ed_desc d)
  else if String.eqb n "_scale[0]" then VInt (ed_scale_at fst d 0)
  else if String.eqb n "_scale[1]" then VInt (ed_scale_at fst d 1)
  else if String.eqb n "_scale[2]" then VInt (ed_scale_at fst d 2)
  else if String.eqb n "_offset[0]" then VInt (ed_scale_at snd d 0)
  else if String.eqb n "_offset[1]" then VInt (ed_scale_at snd d 1)
  else if String.eqb n "_offset[2]" then VInt (ed_scale_at snd d 2)
  else match k with KUInt | KF64 => VInt 0 | _ => VBytes (zeros w) end.   (* reserved, unused, no_data, min, max *)

Definition eb_vals (d : edim) : list value := map (eb_field_value d) eb_layout.
Definition enc_eb (d : edim) : result (list Z) := enc_fields eb_layout (eb_vals d).

Fixpoint eb_payload (l : list edim) : result (list Z) :=
  match l with
  | [] => Ok []
  | d :: r => do a <- enc_eb d; do b <- eb_payload r; Ok (a ++ b)
  end.

(* an array of n uint8: for n <= 3 numpy gives the very dtype of a documented type *)
Definition opaque_type (n : Z) : etype :=
  match find (fun row => let '(_, k, sz, c) := row in String.eqb k "u" && (sz =? 1) && (c =? n)) extra_dim_types with
  | Some (i, _, _, _) => TStd i
  | None => TOpaque n
  end.

(* ExtraBytesVlr.type_of_extra_dims for one descriptor *)
Definition undescribe (a : assoc) : result edim :=
  let t := aint a "data_type" in
  let opt := aint a "options" in
  let n := Z.to_nat (eb_num_elements t opt) in
  do ty <- (if t =? 0 then Ok (opaque_type opt)
            else match type_row t with Some _ => Ok (TStd t) | None => Err ELaspy end);
  let hs := eb_has_scale t opt in
  let ho := eb_has_offset t opt in
  let sc := if hs || ho then
              Some (if hs then firstn n [aint a "_scale[0]"; aint a "_scale[1]"; aint a "_scale[2]"] else repeat F64_ONE n,
                    if ho then firstn n [aint a "_offset[0]"; aint a "_offset[1]"; aint a "_offset[2]"] else repeat 0 n)
            else None in
  Ok (mkED (abytes a "name") ty sc (abytes a "description")).

Definition dec_eb (bs : list Z) : result edim := undescribe (fst (dec_fields eb_layout bs)).

Definition EB : nat := Z.to_nat eb_struct_size.
Fixpoint dec_ebs (fuel : nat) (data : list Z) : result (list edim) :=
  match fuel with
  | O => Ok []
  | S k => match data with
           | [] => Ok []
           | _ => do d <- dec_eb (firstn EB data); do r <- dec_ebs k (skipn EB data); Ok (d :: r)
           end
  end.

Definition eb_vlr (payload : list Z) : vlr := mkVlr eb_vlr_user_id eb_vlr_record_id eb_vlr_description payload.
Definition not_eb (v : vlr) : bool := negb (is_eb_vlr v).

(* header._sync_extra_bytes_vlr: every extra-bytes VLR is taken out; if there are extra dimensions a new one,
   rebuilt from the point format, is appended at the end *)
Definition sync_vlrs (ex : list edim) (vl : list vlr) : result (list vlr) :=
  let kept := filter not_eb vl in
  match ex with
  | [] => Ok kept
  | _ => do p <- eb_payload ex; Ok (kept ++ [eb_vlr p])
  end.

(* ------------------------------------------------------------------------------------ *)
(* records                                                                               *)
(* ------------------------------------------------------------------------------------ *)
(* one point: the bytes of the standard dimensions, then name -> raw bytes for each extra dimension, in order *)
Definition xrec := (list Z * list (list Z * list Z))%type.

Fixpoint lookup (n : list Z) (m : list (list Z * list Z)) : option (list Z) :=
  match m with
  | [] => None
  | (k, v) :: r => if name_eqb k n then Some v else lookup n r
  end.

(* ScaleAwarePointRecord.zeros(len, header) then copy_fields_from(old): every dimension of the new format that
   the old record has is copied (raw), the others stay zero *)
Definition realloc (ex : list edim) (r : xrec) : xrec :=
  (fst r, map (fun d => (ed_name d, match lookup (ed_name d) (snd r) with
                                    | Some b => b
                                    | None => zeros (Z.to_nat (et_size (ed_type d)))
                                    end)) ex).

Definition rec_bytes (r : xrec) : list Z := fst r ++ concat (map snd (snd r)).

Definition set_field (n v : list Z) (r : xrec) : xrec :=
  (fst r, map (fun kv => if name_eqb (fst kv) n then (fst kv, v) else kv) (snd r)).

Fixpoint split_fields (ex : list edim) (bs : list Z) : list (list Z * list Z) :=
  match ex with
  | [] => []
  | d :: r => let n := Z.to_nat (et_size (ed_type d)) in (ed_name d, firstn n bs) :: split_fields r (skipn n bs)
  end.
Definition split_rec (std : Z) (ex : list edim) (bs : list Z) : xrec := (take std bs, split_fields ex (drop std bs)).

(* ------------------------------------------------------------------------------------ *)
(* state, operations                                                                     *)
(* ------------------------------------------------------------------------------------ *)
Record state := mkSt { st_fmt : Z; st_extras : list edim; st_recs : list xrec; st_vlrs : list vlr }.

Inductive op :=
| Add (ps : list edim)                             (* las.add_extra_dims(params) *)
| Remove (names : list (list Z))                   (* las.remove_extra_dims(names) *)
| Assign (name : list Z) (vals : list (list Z))    (* raw values of one extra dimension, one per record *)
| AssignStd (vals : list (list Z))                 (* raw bytes of the standard dimensions, one block per record *)
| SetPoints (ex : list edim) (recs : list (list Z)) (* las.points = <a record whose own PointFormat has the extra dimensions ex> *)
| RoundTrip                                        (* las = laspy.read(las.write(...)) *)
| Convert (g : Z) (stds : list (list Z))           (* las = laspy.convert(las, point_format_id=g); stds: the standard block of
                                                      every converted record (which dimensions survive there is C12) *)
| Reread (keep : option Z).                        (* write a file whose extra-bytes VLR registers only the first k dimensions
                                                      (Some k) or that has no extra-bytes VLR (None), then read it *)

Definition find_dim (n : list Z) (ex : list edim) : option edim := find (fun d => name_eqb (ed_name d) n) ex.

Definition do_add (s : state) (ps : list edim) : state * result unit :=
  if negb (forallb edim_okb ps) then (s, Err EValue)       (* outside the property's quantifier, not compared *)
  else
    let ex := st_extras s ++ ps in
    match sync_vlrs ex (st_vlrs s) with
    | Ok vl => (mkSt (st_fmt s) ex (map (realloc ex) (st_recs s)) vl, Ok tt)
    | Err e => (s, Err e)
    end.

(* LasData.remove_extra_dims validates the whole list first (a name that is not an extra dimension — standard or
   unknown — or that is given twice), then header.remove_extra_dims, then reallocation *)
Definition do_remove (s : state) (names : list (list Z)) : state * result unit :=
  let cur := extra_names (st_extras s) in
  if negb (forallb (fun n => mem_name n cur) names && nodupb names) then (s, Err ELaspy)
  else
    let ex := filter (fun d => negb (mem_name (ed_name d) names)) (st_extras s) in
    match sync_vlrs ex (st_vlrs s) with
    | Ok vl => (mkSt (st_fmt s) ex (map (realloc ex) (st_recs s)) vl, Ok tt)
    | Err e => (s, Err e)
    end.

Definition do_assign (s : state) (n : list Z) (vals : list (list Z)) : state * result unit :=
  match find_dim n (st_extras s) with
  | None => (s, Err EValue)
  | Some d =>
      if (length vals =? length (st_recs s))%nat
         && forallb (fun v => (len v =? et_size (ed_type d)) && bytes_ok v) vals
      then (mkSt (st_fmt s) (st_extras s) (map (fun p => set_field n (fst p) (snd p)) (combine vals (st_recs s)))
                 (st_vlrs s), Ok tt)
      else (s, Err EValue)
  end.

Definition do_assign_std (s : state) (vals : list (list Z)) : state * result unit :=
  match std_size (st_fmt s) with
  | None => (s, Err EValue)
  | Some std =>
      if (length vals =? length (st_recs s))%nat && forallb (fun v => (len v =? std) && bytes_ok v) vals
      then (mkSt (st_fmt s) (st_extras s) (map (fun p => (fst p, snd (snd p))) (combine vals (st_recs s)))
                 (st_vlrs s), Ok tt)
      else (s, Err EValue)
  end.

(* ---- whole-record assignment: the LasData.points setter ---------------------------------
   The assigned record carries its own PointFormat object (a copy of the record, the record of another LasData or
   of a re-read file): `ex` are its extra dimensions, `recs` the bytes of its points (any number of points).
   The setter compares the two formats with PointFormat.__eq__ / DimensionInfo.__eq__ (name, kind, number of bits,
   description, scales and offsets compared as numbers: -0.0 = 0.0, NaN <> NaN; the element count is NOT compared),
   refuses with IncompatibleDataFormat (a LaspyException) when they differ, and otherwise takes the record and
   re-points its format at the header's PointFormat — so the state keeps st_extras and the following add / remove
   see one format.  (That re-pointing is an aliasing fact of the implementation; here it is the equation
   "extra dimensions of the record = extra dimensions of the header" that the state has by construction, and the
   correspondence check compares both formats of the implementation with st_extras after every step.) *)
Definition et_kind (t : etype) : string :=
  match t with
  | TOpaque _ => "u"
  | TStd id => match type_row id with Some (_, k, _, _) => k | None => "" end
  end.
Definition f64_is_nan (z : Z) : bool := (Z.land (Z.shiftr z 52) 2047 =? 2047) && negb (Z.land z (2 ^ 52 - 1) =? 0).
Definition f64_is_zero (z : Z) : bool := Z.land z (2 ^ 63 - 1) =? 0.
Definition f64_eqv (a b : Z) : bool :=
  negb (f64_is_nan a) && negb (f64_is_nan b) && ((a =? b) || (f64_is_zero a && f64_is_zero b)).
Fixpoint f64s_eqv (a b : list Z) : bool :=
  match a, b with
  | [], [] => true
  | x :: a', y :: b' => f64_eqv x y && f64s_eqv a' b'
  | _, _ => false
  end.
Definition scale_eqv (a b : option (list Z * list Z)) : bool :=
  match a, b with
  | None, None => true
  | Some (s, o), Some (s', o') => f64s_eqv s s' && f64s_eqv o o'
  | _, _ => false
  end.
Definition edim_eqv (a b : edim) : bool :=
  name_eqb (ed_name a) (ed_name b) && String.eqb (et_kind (ed_type a)) (et_kind (ed_type b))
  && (et_size (ed_type a) =? et_size (ed_type b)) && name_eqb (ed_desc a) (ed_desc b)
  && scale_eqv (ed_scale a) (ed_scale b).
Fixpoint fmt_eqv (a b : list edim) : bool :=
  match a, b with
  | [], [] => true
  | x :: a', y :: b' => edim_eqv x y && fmt_eqv a' b'
  | _, _ => false
  end.

(* a record of format (st_fmt s, ex): every point is standard + extra bytes long *)
Definition recs_okb (std : Z) (ex : list edim) (recs : list (list Z)) : bool :=
  forallb (fun b => (len b =? std + extras_size ex) && bytes_ok b) recs.

Definition do_set_points (s : state) (ex : list edim) (recs : list (list Z)) : state * result unit :=
  match std_size (st_fmt s) with
  | None => (s, Err EValue)
  | Some std =>
      if negb (recs_okb std ex recs) then (s, Err EValue)      (* not a record of that format: not compared *)
      else if negb (fmt_eqv ex (st_extras s)) then (s, Err ELaspy)
      else (mkSt (st_fmt s) (st_extras s) (map (split_rec std (st_extras s)) recs) (st_vlrs s), Ok tt)
  end.

(* what a LAS file carries of the state (that header fields, VLR payloads and point bytes survive verbatim is
   C01 / C07 / C08): format id, point size, the VLR list, the bytes of every record *)
Record wire := mkWire { w_fmt : Z; w_psize : Z; w_vlrs : list vlr; w_recs : list (list Z) }.

Definition write_state (s : state) : result wire :=
  match std_size (st_fmt s) with
  | None => Err ELaspy
  | Some std => Ok (mkWire (st_fmt s) (std + extras_size (st_extras s)) (st_vlrs s) (map rec_bytes (st_recs s)))
  end.

Definition bytes_of_string (s : string) : list Z := map (fun c => Z.of_nat (nat_of_ascii c)) (list_ascii_of_string s).
Definition UNREG_NAME : list Z := bytes_of_string "ExtraBytes".
Definition UNREG_DESC : list Z := bytes_of_string "Un-registered ExtraBytes".

(* the dimension the reader makes of point bytes no descriptor registers *)
Definition unreg (n : Z) : edim := mkED UNREG_NAME (opaque_type n) None UNREG_DESC.

(* LasHeader.read_from, the part after the VLRs were read, then the records cut by the resulting format *)
Definition read_state (w : wire) : result state :=
  match std_size (w_fmt w) with
  | None => Err ELaspy
  | Some std =>
      do r <- match filter is_eb_vlr (w_vlrs w) with
              | [] => Ok (w_vlrs w, [])
              | eb :: _ =>
                  if w_psize w =? std then Ok (filter not_eb (w_vlrs w), [])
                  else do ex <- dec_ebs (length (v_data eb)) (v_data eb); Ok (w_vlrs w, ex)
              end;
      let '(vl, ex) := r in
      let fs := std + extras_size ex in
      if w_psize w <? fs then Err ELaspy else
      let ex' := if w_psize w >? fs then ex ++ [unreg (w_psize w - fs)] else ex in
      if forallb (fun b => len b =? w_psize w) (w_recs w)
      then Ok (mkSt (w_fmt w) ex' (map (split_rec std ex') (w_recs w)) vl)
      else Err EValue
  end.

Definition do_roundtrip (s : state) : state * result unit :=
  match write_state s with
  | Err e => (s, Err e)
  | Ok w => match read_state w with
            | Ok s' => (s', Ok tt)
            | Err e => (s, Err e)
            end
  end.

(* laspy.convert: a new PointFormat of the target id gets the source's extra dimensions (the very DimensionInfo objects:
   names, types, scales, offsets, descriptions, order), the header copy is given that format through the point_format
   setter — which re-synchronises the extra-bytes VLR (taken out, rebuilt, appended at the end) —, the record is
   re-made for the new format and every dimension both formats have is copied by name, so every extra dimension keeps
   its raw values.  What becomes of the standard dimensions is property C12: here the new standard blocks are a
   parameter (the correspondence check passes the blocks laspy produced). *)
Definition do_convert (s : state) (g : Z) (stds : list (list Z)) : state * result unit :=
  match std_size g with
  | None => (s, Err ELaspy)
  | Some gstd =>
      if (length stds =? length (st_recs s))%nat && forallb (fun v => (len v =? gstd) && bytes_ok v) stds
      then match sync_vlrs (st_extras s) (st_vlrs s) with
           | Ok vl => (mkSt g (st_extras s) (map (fun p => (fst p, snd (snd p))) (combine stds (st_recs s))) vl, Ok tt)
           | Err e => (s, Err e)
           end
      else (s, Err EValue)
  end.

(* a file whose extra-bytes VLR registers only part of the extra bytes (written by other software, or by laspy after the
   descriptor list was shortened): the VLR keeps its first k descriptors, or is absent *)
Definition cut_vlr (k : Z) (v : vlr) : vlr :=
  if is_eb_vlr v then mkVlr (v_uid v) (v_rid v) (v_desc v) (firstn (Z.to_nat k * EB) (v_data v)) else v.
Definition trunc_vlrs (keep : option Z) (vl : list vlr) : list vlr :=
  match keep with
  | None => filter not_eb vl
  | Some k => map (cut_vlr k) vl
  end.
Definition do_reread (s : state) (keep : option Z) : state * result unit :=
  match write_state s with
  | Err e => (s, Err e)
  | Ok w => match read_state (mkWire (w_fmt w) (w_psize w) (trunc_vlrs keep (w_vlrs w)) (w_recs w)) with
            | Ok s' => (s', Ok tt)
            | Err e => (s, Err e)
            end
  end.

Definition step (s : state) (o : op) : state * result unit :=
  match o with
  | Add ps => do_add s ps
  | Remove names => do_remove s names
  | Assign n vals => do_assign s n vals
  | AssignStd vals => do_assign_std s vals
  | SetPoints ex recs => do_set_points s ex recs
  | RoundTrip => do_roundtrip s
  | Convert g stds => do_convert s g stds
  | Reread keep => do_reread s keep
  end.

Definition run (s : state) (ops : list op) : state := fold_left (fun s o => fst (step s o)) ops s.
(* the same, keeping every intermediate state and outcome (what the driver prints) *)
Fixpoint trace (s : state) (ops : list op) : list (state * result unit) :=
  match ops with
  | [] => []
  | o :: r => let so := step s o in so :: trace (fst so) r
  end.

(* a fresh in-memory LasData: no extra dimension, the given standard bytes, VLRs without an extra-bytes record *)
Definition init (fmt : Z) (stds : list (list Z)) (vl : list vlr) : state :=
  mkSt fmt [] (map (fun b => (b, [])) stds) vl.

(* a LasData made from a PointFormat that already carries the extra dimensions ex (laspy.create(point_format=fmt),
   LasHeader(point_format=fmt) + LasData / laspy.open(mode="w")): LasHeader.__init__ synchronises the extra-bytes VLR
   into its empty VLR list; the other VLRs are appended afterwards (eb_last = false) or assigned through the vlrs
   setter, which synchronises again (eb_last = true).  recs: all bytes of every point. *)
Definition init_ex (fmt : Z) (ex : list edim) (recs : list (list Z)) (vl : list vlr) (eb_last : bool) : result state :=
  match std_size fmt with
  | None => Err ELaspy
  | Some std =>
      do p <- eb_payload ex;
      let ebs := match ex with [] => [] | _ => [eb_vlr p] end in
      Ok (mkSt fmt ex (map (split_rec std ex) recs) (if eb_last then vl ++ ebs else ebs ++ vl))
  end.

(* ------------------------------------------------------------------------------------ *)
(* the hypothesis on names, the invariant                                                *)
(* ------------------------------------------------------------------------------------ *)
(* The names a point format already uses are of two sorts.
   rec_names: the fields of the RECORD (the numpy dtype of PointFormat.dtype(): X, Y, Z, intensity, bit_fields,
   raw_classification / classification_flags, ... — the composed fields are there under their own names).  The record's
   field names must be pairwise different, so an extra dimension can never carry one of them: this is the hypothesis.
   sub_names: the sub fields unpacked from the composed fields (return_number, synthetic, withheld, overlap, ...): they are
   dimensions of the PointFormat but no fields of the record, so an extra dimension MAY be called like one of them (round 6:
   the hypothesis no longer excludes them) — las[name] then names the standard sub field, las.points.array[name] the extra
   dimension; add / remove / convert / the reader go by the extra dimension of that name and leave the standard one alone. *)
Definition rec_names (fmt : Z) : list (list Z) :=
  flat_map (fun row => if fst (fst row) =? fmt then map (fun f => let '(n, _, _, _) := f in bytes_of_string n) (snd row) else [])
           point_formats.
Definition sub_names (fmt : Z) : list (list Z) :=
  flat_map (fun row => if fst row =? fmt then map (fun f => let '(n, _, _) := f in bytes_of_string n) (snd row) else [])
           sub_fields.
(* every standard dimension name of the format, composed and unpacked *)
Definition std_names (fmt : Z) : list (list Z) := rec_names fmt ++ sub_names fmt.

(* PointFormat.dimensions: the standard dimensions in the order of the format — a composed field stands for its sub fields —
   then the extra dimensions.  The standard part is a function of the format id alone: no add / remove may touch it. *)
Definition subs_of (fmt : Z) (composed : string) : list (list Z) :=
  flat_map (fun row => if fst row =? fmt
                       then flat_map (fun f => let '(n, c, _) := f in if String.eqb c composed then [bytes_of_string n] else []) (snd row)
                       else [])
           sub_fields.
Definition std_dim_names (fmt : Z) : list (list Z) :=
  flat_map (fun row => if fst (fst row) =? fmt
                       then flat_map (fun f => let '(n, _, _, _) := f in
                                               match subs_of fmt n with [] => [bytes_of_string n] | l => l end) (snd row)
                       else [])
           point_formats.
Definition dim_names (s : state) : list (list Z) := std_dim_names (st_fmt s) ++ extra_names (st_extras s).

Definition reread_kept (keep : option Z) (ex : list edim) : list edim :=
  match keep with None => [] | Some k => firstn (Z.to_nat k) ex end.

(* the names an Add introduces are new: pairwise different, not extra dimensions already, no fields of the record
   (names of sub fields of this or another format, aliases, coordinates are names like any other) *)
Definition op_okb (s : state) (o : op) : bool :=
  match o with
  | Add ps => nodupb (extra_names ps)
              && forallb (fun n => negb (mem_name n (extra_names (st_extras s))) && negb (mem_name n (rec_names (st_fmt s))))
                         (extra_names ps)
  | Convert g _ =>        (* no extra dimension is called like a field of the target format's record *)
      forallb (fun n => negb (mem_name n (rec_names g))) (extra_names (st_extras s))
  | Reread keep =>        (* the dimension "ExtraBytes" the reader invents is new (or every dimension stays registered), and
                             it is one of the opaque arrays the property speaks about: at most 255 bytes *)
      let kept := reread_kept keep (st_extras s) in
      (length kept =? length (st_extras s))%nat
      || (negb (mem_name UNREG_NAME (extra_names kept)) && negb (mem_name UNREG_NAME (rec_names (st_fmt s)))
          && (extras_size (skipn (length kept) (st_extras s)) <=? 255))
  | _ => true
  end.
Fixpoint ops_okb (s : state) (ops : list op) : bool :=
  match ops with
  | [] => true
  | o :: r => op_okb s o && ops_okb (fst (step s o)) r
  end.

(* names of the dimensions an operation speaks about *)
Definition op_names (o : op) : list (list Z) :=
  match o with
  | Add ps => extra_names ps
  | Remove names => names
  | Assign n _ => [n]
  | AssignStd _ => []
  | SetPoints ex _ => extra_names ex          (* every dimension of the record *)
  | RoundTrip => []
  | Convert _ _ => []
  | Reread _ => [UNREG_NAME]                  (* the dimension that takes the bytes no descriptor registers any more *)
  end.
Definition op_touches_std (o : op) : bool := match o with AssignStd _ | SetPoints _ _ | Convert _ _ => true | _ => false end.
(* operations that rebuild the extra-bytes VLR from the point format (header._sync_extra_bytes_vlr) *)
Definition op_syncs (o : op) : bool := match o with Add _ | Remove _ | Convert _ _ => true | _ => false end.
Definition op_rereads (o : op) : bool := match o with Reread _ => true | _ => false end.

Definition field_of (n : list Z) (r : xrec) : option (list Z) := lookup n (snd r).

(* a record is laid out as the format says: the standard block, then one entry per extra dimension, in order,
   under its name and of its size *)
Definition rec_wf (std : Z) (ex : list edim) (r : xrec) : Prop :=
  len (fst r) = std
  /\ map fst (snd r) = extra_names ex
  /\ map (fun kv => len (snd kv)) (snd r) = map (fun d => et_size (ed_type d)) ex.

(* (I3) the extra-bytes VLR: exactly one, describing exactly the extra dimensions in order, iff there are any *)
Definition vlr_inv (ex : list edim) (vl : list vlr) : Prop :=
  match ex with
  | [] => filter is_eb_vlr vl = []
  | _ => exists p, eb_payload ex = Ok p /\ filter is_eb_vlr vl = [eb_vlr p] /\ dec_ebs (length p) p = Ok ex
  end.

(* the base invariant: record layout = format, legal parameters, distinct names that are no fields of the record *)
Record InvB (s : state) : Prop := mkInvB {
  inv_fmt : exists std, std_size (st_fmt s) = Some std /\ 0 <= std
            /\ forall r, In r (st_recs s) -> rec_wf std (st_extras s) r;        (* layout; gives (I2), see rec_wf_len *)
  inv_dims : forallb edim_okb (st_extras s) = true;
  inv_names : nodupb (extra_names (st_extras s)) = true
              /\ forallb (fun n => negb (mem_name n (rec_names (st_fmt s)))) (extra_names (st_extras s)) = true
}.

(* the full invariant: base + (I3).  It holds for every in-memory LasData laspy builds, after every add / remove /
   conversion, and for every file whose extra-bytes VLR registers all extra bytes. *)
Definition Inv (s : state) : Prop := InvB s /\ vlr_inv (st_extras s) (st_vlrs s).

(* what holds right after reading a file that has un-registered trailing bytes, until the next add / remove /
   conversion rebuilds the VLR: the VLR (if any) describes exactly the dimensions before the last one, and the last
   one is the opaque "ExtraBytes" dimension holding the n bytes nothing registers *)
Definition vlr_desc (reg : list edim) (vl : list vlr) : Prop :=
  match filter is_eb_vlr vl with
  | [] => reg = []
  | [v] => exists p, eb_payload reg = Ok p /\ v = eb_vlr p /\ dec_ebs (length p) p = Ok reg
  | _ => False
  end.
Definition vlr_part (ex : list edim) (vl : list vlr) : Prop :=
  exists reg n, ex = reg ++ [unreg n] /\ 1 <= n /\ vlr_desc reg vl.
Definition Inv2 (s : state) : Prop :=
  InvB s /\ (vlr_inv (st_extras s) (st_vlrs s) \/ vlr_part (st_extras s) (st_vlrs s)).

(* ------------------------------------------------------------------------------------ *)
(* several live objects (round 4)                                                        *)
(* ------------------------------------------------------------------------------------ *)
(* las[idx] (LasData.__getitem__ on an index list / index array / integer; a slice or a mask is the list of the positions
   it selects): numpy's rule for one entry — i stands for i + n when -n <= i < 0; outside -n .. n-1 the whole selection is
   refused with IndexError and nothing happens.  The new LasData gets a deep copy of the header (same point format, same
   extra dimensions, same VLR list) and the selected records, in the order of the index. *)
Definition norm_index (n i : Z) : option Z :=
  if (0 <=? i) && (i <? n) then Some i
  else if (- n <=? i) && (i <? 0) then Some (i + n)
  else None.

Fixpoint pick_recs (recs : list xrec) (idx : list Z) : option (list xrec) :=
  match idx with
  | [] => Some []
  | i :: r => match norm_index (len recs) i with
              | None => None
              | Some j => match nth_error recs (Z.to_nat j), pick_recs recs r with
                          | Some x, Some xs => Some (x :: xs)
                          | _, _ => None
                          end
              end
  end.

Definition select (s : state) (idx : list Z) : result state :=
  match pick_recs (st_recs s) idx with
  | Some recs => Ok (mkSt (st_fmt s) (st_extras s) recs (st_vlrs s))
  | None => Err EIndex
  end.

(* The LasData a history works on, and every other LasData that is alive: those the current one was obtained from and
   those that were obtained from it.  Each is a value of its own: nothing done to the current one reaches them. *)
Record world := mkW { w_cur : state; w_others : list state }.

Inductive wop :=
| WOp (o : op)                            (* an operation of the history, on the current LasData *)
| WNew (o : op)                           (* the operation RETURNS a LasData (laspy.read of the written file, laspy.convert):
                                             the history goes on with it, the one it was made from stays alive *)
| WSelect (cont_new : bool) (idx : list Z) (* sel = las[idx]; the history goes on with sel (true) or with las (false) *)
| WCopy.                                  (* another LasData with the same content (header deep-copied and points.copy(),
                                             reader.read() a second time ...) *)

Definition wstep (w : world) (o : wop) : world * result unit :=
  match o with
  | WOp o => (mkW (fst (step (w_cur w) o)) (w_others w), snd (step (w_cur w) o))
  | WNew o => match snd (step (w_cur w) o) with
              | Ok _ => (mkW (fst (step (w_cur w) o)) (w_others w ++ [w_cur w]), Ok tt)
              | Err e => (w, Err e)
              end
  | WSelect b idx => match select (w_cur w) idx with
                     | Ok s' => (if b then mkW s' (w_others w ++ [w_cur w]) else mkW (w_cur w) (w_others w ++ [s']), Ok tt)
                     | Err e => (w, Err e)
                     end
  | WCopy => (mkW (w_cur w) (w_others w ++ [w_cur w]), Ok tt)
  end.

Definition wrun (w : world) (ops : list wop) : world := fold_left (fun w o => fst (wstep w o)) ops w.
Fixpoint wtrace (w : world) (ops : list wop) : list (world * result unit) :=
  match ops with
  | [] => []
  | o :: r => let wo := wstep w o in wo :: wtrace (fst wo) r
  end.

Definition wop_okb (w : world) (o : wop) : bool :=
  match o with
  | WOp o | WNew o => op_okb (w_cur w) o
  | _ => true
  end.
Fixpoint wops_okb (w : world) (ops : list wop) : bool :=
  match ops with
  | [] => true
  | o :: r => wop_okb w o && wops_okb (fst (wstep w o)) r
  end.

Definition WInv (w : world) : Prop := Inv2 (w_cur w) /\ Forall Inv2 (w_others w).

(* ------------------------------------------------------------------------------------ *)
(* what belongs to the CALLER (round 5)                                                  *)
(* ------------------------------------------------------------------------------------ *)
(* Three things a caller holds and may change between two operations of a history:
   (1) the objects it passed as parameters: ExtraBytesParams objects (with their own scales / offsets arrays), the arrays,
       the lists.  PointFormat.add_extra_dimension takes VALUES: name, type, description and the numbers of the scales and
       offsets as they are when add_extra_dims is called; what the caller does to its objects afterwards reaches nothing.
       cw_params are the caller's ExtraBytesParams objects; CAddParams passes some of them as they are now.
   (2) the header's point count: a counter next to the record, refreshed by the points setter (update_header) and by
       reading a file, and STALE in a LasData(header, points) made from a header that counts other points (a copy of a
       file's header with one chunk of it, a slice, an attribute assignment).  No operation of this model reads it:
       LasData.add_extra_dims / remove_extra_dims allocate len(points) records.
   (3) the VLR list: `las.vlrs` is a list the caller may extend with the list of another file (its extra-bytes VLR
       included), reorder, fill with duplicates (CEditVlrs vl false: the list is now vl, nothing else happens), or
       replace through the vlrs setter, which synchronises (CEditVlrs vl true).  After an in-place edit (I3) is the
       caller's business until the next add / remove re-synchronises: _sync_extra_bytes_vlr takes out EVERY
       extra-bytes VLR, wherever it stands, and appends the one that describes the point format. *)
Definition set_vlrs (s : state) (vl : list vlr) : state := mkSt (st_fmt s) (st_extras s) (st_recs s) vl.

(* LasHeader.vlrs = vl: the list is replaced, then _sync_extra_bytes_vlr *)
Definition assign_vlrs (s : state) (vl : list vlr) : state * result unit :=
  match sync_vlrs (st_extras s) vl with
  | Ok vl' => (set_vlrs s vl', Ok tt)
  | Err e => (s, Err e)
  end.

Record cworld := mkCW {
  cw_w : world;
  cw_count : Z;            (* header.point_count of the current LasData: a counter, possibly stale *)
  cw_dirty : bool;         (* the VLR list of the current LasData was edited in place and not synchronised since *)
  cw_params : list edim    (* the caller's ExtraBytesParams objects, as they are now *)
}.

Inductive cop :=
| CW (o : wop)                              (* an operation of the world of live objects *)
| CEditVlrs (vl : list vlr) (setter : bool) (* the VLR list of the current LasData becomes vl: in place / through the setter *)
| CSetCount (n : Z)                         (* header.point_count = n *)
| CRewrap (idx : list Z) (cnt : option Z)   (* LasData(header', points[idx]) with header' a copy of the header (None: it
                                               keeps the count it has) or the header of the file the points were read from
                                               as a chunk (Some n); no update_header; the history goes on with it *)
| CNewParam (d : edim)                      (* p = ExtraBytesParams(...) *)
| CSetParam (i : nat) (d : edim)            (* the caller changes its i-th params object (any attribute, arrays in place) *)
| CAddParams (idx : list nat).              (* las.add_extra_dims([p_i, ...]) *)

(* operations after which header.point_count is the number of points of the (new) current LasData: the points setter
   calls update_header; a file that is read says how many points it has.  laspy.convert copies the header as it is. *)
Definition op_refreshes (o : op) : bool :=
  match o with Add _ | Remove _ | SetPoints _ _ | RoundTrip | Reread _ => true | _ => false end.
Definition wop_refreshes (o : wop) : bool :=
  match o with WOp o | WNew o => op_refreshes o | WSelect b _ => b | WCopy => false end.
Definition wop_syncs (o : wop) : bool := match o with WOp o | WNew o => op_syncs o | _ => false end.
Definition is_ok (r : result unit) : bool := match r with Ok _ => true | Err _ => false end.

Definition cw_cur (c : cworld) : state := w_cur (cw_w c).

Definition cworld_op (c : cworld) (o : wop) : cworld * result unit :=
  let r := wstep (cw_w c) o in
  (mkCW (fst r)
        (if is_ok (snd r) && wop_refreshes o then len (st_recs (w_cur (fst r))) else cw_count c)
        (if is_ok (snd r) && wop_syncs o then false else cw_dirty c)
        (cw_params c), snd r).

Fixpoint set_nth {A} (i : nat) (x : A) (l : list A) : list A :=
  match l, i with
  | [], _ => []
  | _ :: r, O => x :: r
  | a :: r, S k => a :: set_nth k x r
  end.

Fixpoint pick_params (ps : list edim) (idx : list nat) : option (list edim) :=
  match idx with
  | [] => Some []
  | i :: r => match nth_error ps i, pick_params ps r with
              | Some d, Some ds => Some (d :: ds)
              | _, _ => None
              end
  end.

Definition cstep (c : cworld) (o : cop) : cworld * result unit :=
  match o with
  | CW o => cworld_op c o
  | CEditVlrs vl false =>
      (mkCW (mkW (set_vlrs (cw_cur c) vl) (w_others (cw_w c))) (cw_count c) true (cw_params c), Ok tt)
  | CEditVlrs vl true =>
      match assign_vlrs (cw_cur c) vl with
      | (s', Ok _) => (mkCW (mkW s' (w_others (cw_w c))) (cw_count c) false (cw_params c), Ok tt)
      | (_, Err e) => (c, Err e)
      end
  | CSetCount n => (mkCW (cw_w c) n (cw_dirty c) (cw_params c), Ok tt)
  | CRewrap idx cnt =>
      match select (cw_cur c) idx with
      | Ok s' => (mkCW (mkW s' (w_others (cw_w c) ++ [cw_cur c]))
                       (match cnt with Some n => n | None => cw_count c end) (cw_dirty c) (cw_params c), Ok tt)
      | Err e => (c, Err e)
      end
  | CNewParam d => (mkCW (cw_w c) (cw_count c) (cw_dirty c) (cw_params c ++ [d]), Ok tt)
  | CSetParam i d => (mkCW (cw_w c) (cw_count c) (cw_dirty c) (set_nth i d (cw_params c)), Ok tt)
  | CAddParams idx =>
      match pick_params (cw_params c) idx with
      | Some ds => cworld_op c (WOp (Add ds))
      | None => (c, Err EIndex)
      end
  end.

Definition crun (c : cworld) (ops : list cop) : cworld := fold_left (fun c o => fst (cstep c o)) ops c.
Fixpoint ctrace (c : cworld) (ops : list cop) : list (cworld * result unit) :=
  match ops with
  | [] => []
  | o :: r => let co := cstep c o in co :: ctrace (fst co) r
  end.

(* operations that neither read nor write the VLR list *)
Definition op_local (o : op) : bool := match o with Assign _ _ | AssignStd _ | SetPoints _ _ => true | _ => false end.

(* the hypothesis on names (wop_okb), and: while the VLR list is the caller's (edited in place), the next operation that
   looks at it is one that synchronises it — an add, a remove (or a conversion in place) on that LasData.  Writing a file, reading it back, copying
   or selecting from a LasData whose VLR list the caller has filled with foreign extra-bytes VLRs is not what the
   property speaks about. *)
Definition cop_okb (c : cworld) (o : cop) : bool :=
  match o with
  | CW (WOp o) => op_okb (cw_cur c) o && (negb (cw_dirty c) || op_local o || op_syncs o)
  | CW o => wop_okb (cw_w c) o && negb (cw_dirty c)
  | CRewrap _ _ => negb (cw_dirty c)
  | CAddParams idx => match pick_params (cw_params c) idx with
                      | Some ds => op_okb (cw_cur c) (Add ds)
                      | None => true
                      end
  | _ => true
  end.
Fixpoint cops_okb (c : cworld) (ops : list cop) : bool :=
  match ops with
  | [] => true
  | o :: r => cop_okb c o && cops_okb (fst (cstep c o)) r
  end.

(* every live object satisfies its invariant; the current one at least the base invariant (record layout = point format,
   legal distinct names), and the full one whenever its VLR list is not in the caller's hands *)
Definition CInv (c : cworld) : Prop :=
  (if cw_dirty c then InvB (cw_cur c) else Inv2 (cw_cur c)) /\ Forall Inv2 (w_others (cw_w c)).

Definition is_count_op (o : cop) : bool := match o with CSetCount _ => true | _ => false end.
Definition is_param_write (o : cop) : bool := match o with CSetParam _ _ | CNewParam _ => true | _ => false end.
