(* An ALIASING model of LasData objects derived from one another (C01).

   A LasData does not contain its header and its point format: it REFERS to a LasHeader object, which refers to a
   PointFormat object (las.points.point_format is las.header.point_format). The heap below holds the header objects and
   the format objects; a LasData holds the address of its header and its records.

   Deriving a LasData from another one - las[...] (LasData.__getitem__), laspy.convert, reading back what was written -
   takes a DEEP COPY of the header: a new header object referring to a new format object, equal in value. An edit through
   the public API of one LasData (add_extra_dim, header setters, vlrs.append, las.points = ...) modifies the objects THAT
   LasData refers to, in place. LasData.write is file_of of what the object refers to at that moment.

   Definitions only; proofs in Proofs/DataAliasProofs.v. *)
From Coq Require Import String.
From Coq Require Import ZArith List Bool.
From LasV Require Import Lib.Base Lib.Layout Gen.GenHeaderLayout Gen.GenFormatBits Gen.GenDims Model.Las Model.WriterAlias.
Import ListNotations.
Open Scope list_scope.
Open Scope Z_scope.

Record hobj := mkHO { ho_fields : assoc; ho_vlrs : list vlr; ho_evlrs : list vlr; ho_fmt : nat }.
Record lobj := mkLO { lo_hdr : nat; lo_recs : list (list Z) }.
Record dworld := mkDW { dw_fmts : list fdesc; dw_hdrs : list hobj; dw_objs : list lobj }.

(* what an in-place edit of ONE LasData leaves in the objects it refers to: header fields set, the VLR / EVLR lists,
   the value of its format object (add / remove extra dimensions), its records (re-laid out, re-assigned) *)
Record dedit := mkDE { de_sets : list (string * value); de_vlrs : option (list vlr); de_evlrs : option (list vlr);
                       de_fmt : option fdesc; de_recs : option (list (list Z)) }.

Inductive dop :=
| DSelect (i : nat) (sel : list nat)     (* las_i[sel]: a new LasData holding the selected records *)
| DCopy (i : nat)                        (* laspy.convert(las_i) / laspy.read(las_i.write()): a new LasData, equal contents *)
| DEdit (i : nat) (e : dedit)            (* one public operation on las_i, in place *)
| DWrite (i : nat)                       (* las_i.write(): the bytes; nothing changes *)
| DCreate (f : assoc) (vl evl : list vlr) (d : fdesc) (recs : list (list Z)).
                                         (* round 7: laspy.create() / LasData(LasHeader(..)) / laspy.read(file) while other LasData are live:
                                            a new LasData on a NEW header object referring to a NEW format object, made from nothing that
                                            is live (defaults included: no array, list or format object of it is an object of another one) *)

Definition opt_or {A} (o : option A) (d : A) : A := match o with Some x => x | None => d end.

(* deepcopy(header): a NEW header object that refers to a NEW format object *)
Definition alloc_copy (w : dworld) (ha : nat) : option (dworld * nat) :=
  match nth_error (dw_hdrs w) ha with
  | None => None
  | Some h =>
      match nth_error (dw_fmts w) (ho_fmt h) with
      | None => None
      | Some d =>
          Some (mkDW (dw_fmts w ++ [d])
                     (dw_hdrs w ++ [mkHO (ho_fields h) (ho_vlrs h) (ho_evlrs h) (length (dw_fmts w))])
                     (dw_objs w),
                length (dw_hdrs w))
      end
  end.

Definition select (sel : list nat) (recs : list (list Z)) : list (list Z) :=
  flat_map (fun k => match nth_error recs k with Some r => [r] | None => [] end) sel.

Definition derive (w : dworld) (i : nat) (f : list (list Z) -> list (list Z)) : dworld :=
  match nth_error (dw_objs w) i with
  | None => w
  | Some o =>
      match alloc_copy w (lo_hdr o) with
      | None => w
      | Some (w', ha) => mkDW (dw_fmts w') (dw_hdrs w') (dw_objs w' ++ [mkLO ha (f (lo_recs o))])
      end
  end.

(* a LasData made from nothing that is live: fresh format object, fresh header object *)
Definition create (w : dworld) (f : assoc) (vl evl : list vlr) (d : fdesc) (recs : list (list Z)) : dworld :=
  mkDW (dw_fmts w ++ [d]) (dw_hdrs w ++ [mkHO f vl evl (length (dw_fmts w))]) (dw_objs w ++ [mkLO (length (dw_hdrs w)) recs]).

Definition edit_obj (w : dworld) (i : nat) (e : dedit) : dworld :=
  match nth_error (dw_objs w) i with
  | None => w
  | Some o =>
      match nth_error (dw_hdrs w) (lo_hdr o) with
      | None => w
      | Some h =>
          let h' := mkHO (fold_left (fun a p => aset a (fst p) (snd p)) (de_sets e) (ho_fields h))
                         (opt_or (de_vlrs e) (ho_vlrs h)) (opt_or (de_evlrs e) (ho_evlrs h)) (ho_fmt h) in
          mkDW (match de_fmt e with Some d => set_nth (ho_fmt h) d (dw_fmts w) | None => dw_fmts w end)
               (set_nth (lo_hdr o) h' (dw_hdrs w))
               (match de_recs e with Some r => set_nth i (mkLO (lo_hdr o) r) (dw_objs w) | None => dw_objs w end)
      end
  end.

(* everything LasData.write looks at, resolved through the addresses *)
Record dview := mkDV { dv_fields : assoc; dv_vlrs : list vlr; dv_evlrs : list vlr; dv_fmt : fdesc; dv_recs : list (list Z) }.

Definition view (w : dworld) (i : nat) : option dview :=
  match nth_error (dw_objs w) i with
  | None => None
  | Some o =>
      match nth_error (dw_hdrs w) (lo_hdr o) with
      | None => None
      | Some h =>
          match nth_error (dw_fmts w) (ho_fmt h) with
          | None => None
          | Some d => Some (mkDV (ho_fields h) (ho_vlrs h) (ho_evlrs h) d (lo_recs o))
          end
      end
  end.

Section Data.
  Variable ap : Z -> Z -> Z -> Z.

  Definition write_view (v : dview) : result (list Z) :=
    file_of ap (hdr_of (dv_fields v) (dv_fmt v)) (dv_vlrs v) (fd_id (dv_fmt v)) (dv_recs v)
            (if aint (dv_fields v) "version.minor" >=? 4 then dv_evlrs v else []).

  Definition write_obj (w : dworld) (i : nat) : result (list Z) :=
    match view w i with Some v => write_view v | None => Err EIndex end.

  Definition dstep (w : dworld) (op : dop) : dworld * option (result (list Z)) :=
    match op with
    | DSelect i sel => (derive w i (select sel), None)
    | DCopy i => (derive w i (fun r => r), None)
    | DEdit i e => (edit_obj w i e, None)
    | DWrite i => (w, Some (write_obj w i))
    | DCreate f vl evl d recs => (create w f vl evl d recs, None)
    end.

  Fixpoint drun (w : dworld) (ops : list dop) : dworld * list (result (list Z)) :=
    match ops with
    | [] => (w, [])
    | op :: r =>
        let '(w', o) := dstep w op in
        let '(w'', os) := drun w' r in
        (w'', match o with Some x => x :: os | None => os end)
    end.
End Data.

(* the object an operation modifies *)
Definition target (op : dop) : option nat := match op with DEdit i _ => Some i | _ => None end.

(* SEPARATION: no two LasData refer to the same header object, no two header objects to the same format object *)
Definition sep (w : dworld) : Prop :=
  NoDup (map lo_hdr (dw_objs w))
  /\ (forall o, In o (dw_objs w) -> (lo_hdr o < length (dw_hdrs w))%nat)
  /\ NoDup (map ho_fmt (dw_hdrs w))
  /\ (forall h, In h (dw_hdrs w) -> (ho_fmt h < length (dw_fmts w))%nat).

(* a single LasData, as laspy.read / laspy.create / LasData(header, points) makes it *)
Definition world_of (f : assoc) (vl evl : list vlr) (d : fdesc) (recs : list (list Z)) : dworld :=
  mkDW [d] [mkHO f vl evl 0] [mkLO 0 recs].
