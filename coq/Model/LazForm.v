(* C14 - the FORMS of the argument `laz_backend`.  Definitions only (proofs: Proofs/LazFormProofs.v).

   Every entry point that takes a backend selection (laspy.read, laspy.open r / w / a, LasReader, LasWriter, LasAppender,
   LasData.write) accepts it absent (None), as ONE backend - an enum member or any other conforming backend object - or
   as an iterable of backends (list, tuple, set, iterator, generator).  The entry points hand the argument on unchanged;
   the three `_create_laz_backend` replace None by the default selection and normalise the rest with
   `try: x = iter(x) except TypeError: x = (x,)`.  Gen/GenC14.v (`gen_reader_backends`, `gen_writer_backends`,
   `gen_appender_backends`, emitted only when the source has exactly that shape at the three places and every entry
   point passes `laz_backend=laz_backend` on) says which backends the loop then visits; the functions below read /
   append with an argument of a given form. *)
From Coq Require Import ZArith List Bool.
From LasV Require Import Lib.Base Gen.GenC14 Model.Las Model.Laz.
Import ListNotations.
Open Scope list_scope.
Open Scope Z_scope.

(* a selection that names no backend at all (an empty list) is not a selection of a conforming backend *)
Definition form_names_a_backend (f : c14_form) : bool :=
  match f with C14Many [] => false | _ => true end.
(* ... and one that can serve a source that cannot seek names the serial variant somewhere *)
Definition form_names_serial (f : c14_form) : bool := existsb negb (gen_reader_backends f).

(* laspy.read(source, laz_backend=<form>) of a seekable / a non-seekable source *)
Definition B_read_form (B : backend) (f : c14_form) (src : list Z) : result lazfile := B_read B (gen_reader_backends f) src.
Definition B_read_ns_form (B : backend) (f : c14_form) (src : list Z) : result lazfile := B_read_ns B (gen_reader_backends f) src.
(* the point source under a reader opened with laz_backend=<form> *)
Definition B_source_form (B : backend) (f : c14_form) := B_source B (gen_reader_backends f).

(* laspy.open(dest, mode="a", laz_backend=<form>): the appender of the first backend of the normalised selection that
   constructs; by the contract every variant's appender constructs on a finished stream, so that is the first one *)
Definition B_append_form ap (B : backend) (f : c14_form) (src : list Z) (chunks : list (list (list Z))) : result (list Z) :=
  match gen_appender_backends f with
  | [] => Err ELaspy
  | p :: _ => B_append ap B p src chunks
  end.

(* the writer: the variant whose compressor is constructed (None when the selection is empty: the write is refused) *)
Definition writer_variant (f : c14_form) : option bool :=
  match gen_writer_backends f with [] => None | p :: _ => Some p end.

(* the variants the loop of LasReader._create_laz_backend tries to construct, in order, until one constructs *)
Fixpoint select_tried {dst : Type} (d_open : bool -> bool -> list Z -> list Z -> result dst)
    (backends : list bool) (seekable : bool) (d src : list Z) : list bool :=
  match backends with
  | [] => []
  | p :: r => match d_open p seekable d src with
              | Ok _ => [p]
              | Err _ => p :: select_tried d_open r seekable d src
              end
  end.
