(* C05: the reader's cursor. The model IS the translation of LasReader.read_points / seek
   (Gen/GenCursor.v) wrapped into a step function; CursorSpec is the abstract cursor of the property. *)
From Coq Require Import ZArith List Bool.
From LasV Require Import Lib.Base Gen.GenCursor.
Import ListNotations.
Open Scope Z_scope.

Inductive cop := CRead (n : Z) | CSeek (pos whence : Z) | CNext (k : Z) | CReadAll.
Inductive cout := OSlice (a b : Z) | OSeek (idx : Z) | OErr (e : err).

(* implementation side: header count, points_read, record index the point source stands at *)
Record cstate := mkC { c_n : Z; c_read : Z; c_src : Z }.

Definition do_read (s : cstate) (n : Z) : cstate * Z * Z :=
  let '(pr, k) := gen_read_points (c_n s) (c_read s) n in
  if k <? 0 then (mkC (c_n s) pr (c_src s), c_src s, c_src s)          (* empty record, source untouched *)
  else (mkC (c_n s) pr (c_src s + k), c_src s, c_src s + k).          (* k records from where the source stands *)

Definition cstep (s : cstate) (op : cop) : cstate * cout :=
  match op with
  | CRead n => let '(s', a, b) := do_read s n in (s', OSlice a b)
  | CReadAll => let '(s', a, b) := do_read s (-1) in (s', OSlice a b)
  | CNext k => let '(s', a, b) := do_read s k in
               if a =? b then (s', OErr EStop) else (s', OSlice a b)
  | CSeek pos whence =>
      match gen_seek (c_n s) (c_read s) pos whence with
      | Ok (pr, idx) => (mkC (c_n s) pr idx, OSeek pr)
      | Err e => (s, OErr e)
      end
  end.

Definition crun (s : cstate) (ops : list cop) : cstate * list cout :=
  fold_left (fun acc op => let '(s', o) := cstep (fst acc) op in (s', snd acc ++ [o])) ops (s, []).

(* ---------------- the abstract cursor of the property ---------------- *)
Record sstate := mkSp { sp_n : Z; sp_c : Z }.

Definition spec_read (s : sstate) (k : Z) : sstate * Z * Z :=
  let rem := sp_n s - sp_c s in
  let m := if k <? 0 then rem else Z.min k rem in
  let m := Z.max m 0 in
  (mkSp (sp_n s) (sp_c s + m), sp_c s, sp_c s + m).

Definition spec_step (s : sstate) (op : cop) : sstate * cout :=
  match op with
  | CRead n => let '(s', a, b) := spec_read s n in (s', OSlice a b)
  | CReadAll => let '(s', a, b) := spec_read s (-1) in (s', OSlice a b)
  | CNext k => let '(s', a, b) := spec_read s k in
               if a =? b then (s', OErr EStop) else (s', OSlice a b)
  | CSeek pos whence =>
      if (whence =? 0) || (whence =? 1) || (whence =? 2) then
        let t := if whence =? 0 then pos else if whence =? 1 then sp_c s + pos else sp_n s + pos in
        if (0 <=? t) && (t <? sp_n s) then (mkSp (sp_n s) t, OSeek t) else (s, OErr EIndex)
      else (s, OErr EValue)
  end.

Definition srun (s : sstate) (ops : list cop) : sstate * list cout :=
  fold_left (fun acc op => let '(s', o) := spec_step (fst acc) op in (s', snd acc ++ [o])) ops (s, []).

(* empty slices carry no records: compared up to their position *)
Definition norm_out (o : cout) : cout :=
  match o with OSlice a b => if a =? b then OSlice 0 0 else o | _ => o end.

Definition slice_in_bounds (n : Z) (o : cout) : Prop :=
  match o with OSlice a b => 0 <= a <= b /\ b <= n | _ => True end.
