(* The LAS file model: (E)VLR codec, header codec, header statistics, the streaming writer,
   the reader and the appender, over bytes = list Z. Definitions only (proofs in Proofs/).
   Field sequences come from Gen/GenHeaderLayout.v (extracted from write_to / read_from on every
   run); tables from Gen/GenDims.v; the compressed bit from Gen/GenFormatBits.v. *)
From Coq Require Import String.
From Coq Require Import ZArith List Bool.
From LasV Require Import Lib.Base Lib.Layout Gen.GenHeaderLayout Gen.GenFormatBits Gen.GenDims.
Import ListNotations.
Open Scope list_scope.
Open Scope Z_scope.

(* ------------------------------------------------------------------------------------ *)
(* VLRs                                                                                  *)
(* ------------------------------------------------------------------------------------ *)
Record vlr := mkVlr { v_uid : list Z; v_rid : Z; v_desc : list Z; v_data : list Z }.

Definition vlr_w_layout (ext : bool) : layout := if ext then vlr_write_layout_ext else vlr_write_layout_std.
Definition vlr_r_layout (ext : bool) : layout := if ext then vlr_read_layout_ext else vlr_read_layout_std.

Definition vlr_vals (v : vlr) : list value :=
  [VBytes [0; 0]; VBytes (v_uid v); VInt (v_rid v); VInt (len (v_data v)); VBytes (v_desc v)].

Definition enc_vlr (ext : bool) (v : vlr) : result (list Z) :=
  if negb ext && (len (v_data v) >? 65535) then Err EValue
  else do hb <- enc_fields (fixed_part (vlr_w_layout ext)) (vlr_vals v); Ok (hb ++ v_data v).

Fixpoint enc_vlrs (ext : bool) (l : list vlr) : result (list Z) :=
  match l with
  | [] => Ok []
  | v :: r => do a <- enc_vlr ext v; do b <- enc_vlrs ext r; Ok (a ++ b)
  end.

Definition ascii_ok (s : list Z) : bool := forallb (fun b => b <? 128) s.

(* lenient, as VLRList.read_from over a stream that may end early *)
Fixpoint dec_vlrs (ext : bool) (n : nat) (bs : list Z) : result (list vlr * list Z) :=
  match n with
  | O => Ok ([], bs)
  | S k =>
      let '(a, rest) := dec_fields (fixed_part (vlr_r_layout ext)) bs in
      let dl := Z.to_nat (aint a "record_length") in
      let uid := abytes a "user_id" in
      if ascii_ok uid then
        do r <- dec_vlrs ext k (skipn dl rest);
        Ok (mkVlr uid (aint a "record_id") (abytes a "description") (firstn dl rest) :: fst r, snd r)
      else Err EValue
  end.

(* ------------------------------------------------------------------------------------ *)
(* tables                                                                                *)
(* ------------------------------------------------------------------------------------ *)
Definition compat (maj mnr fmt : Z) : bool :=
  existsb (fun row => let '(a, b, fs) := row in (a =? maj) && (b =? mnr) && existsb (Z.eqb fmt) fs)
          version_to_point_fmt.
Definition known_version (maj mnr : Z) : bool :=
  existsb (fun row => let '(a, b, _) := row in (a =? maj) && (b =? mnr)) version_to_point_fmt.

Definition std_size (fmt : Z) : option Z :=
  match find (fun row => fst (fst row) =? fmt) point_formats with
  | Some row => Some (snd (fst row))
  | None => None
  end.

Definition header_size_tbl (maj mnr : Z) : option Z :=
  match find (fun row => let '(a, b, _) := row in (a =? maj) && (b =? mnr)) las_headers_size with
  | Some row => Some (snd row)
  | None => None
  end.

Definition max_point_count (maj mnr : Z) : Z :=
  if (maj <? 1) || ((maj =? 1) && (mnr <=? 3)) then 2 ^ 32 - 1 else 2 ^ 64 - 1.

Definition hw_layout (mnr : Z) : layout :=
  if mnr >=? 4 then hdr_write_layout_4 else if mnr =? 3 then hdr_write_layout_3
  else if mnr =? 2 then hdr_write_layout_2 else hdr_write_layout_1.
Definition hr_layout (mnr : Z) : layout :=
  if mnr >=? 4 then hdr_read_layout_4 else if mnr =? 3 then hdr_read_layout_3
  else if mnr =? 2 then hdr_read_layout_2 else hdr_read_layout_1.

(* ------------------------------------------------------------------------------------ *)
(* header codec                                                                          *)
(* ------------------------------------------------------------------------------------ *)
Definition LASF : list Z := [76; 65; 83; 70].

Definition wval (h : assoc) (n : string) : value :=
  if String.eqb n "zero" then VInt 0
  else if String.eqb n "signature" then VBytes LASF
  else match aget h n with Some v => v | None => VInt 0 end.

Definition hdr_vals (h : assoc) (l : layout) : list value := map (fun f => wval h (snd f)) l.

(* LasHeader.write_to: returns the header with its offset updated, and the bytes *)
Definition enc_header (h : assoc) (vl : list vlr) (ensure_same : bool) : result (assoc * list Z) :=
  let maj := aint h "version.major" in
  let mnr := aint h "version.minor" in
  if aint h "point_count" >? max_point_count maj mnr then Err ELaspy else
  do vb <- enc_vlrs false vl;
  match header_size_tbl maj mnr with
  | None => Err EOther
  | Some hs0 =>
      let hs := hs0 + len (abytes h "extra_header_bytes") in
      let off := hs + len vb + len (abytes h "extra_vlr_bytes") in
      if ensure_same && negb (off =? aint h "offset_to_point_data") then Err ELaspy else
      let h' := aset (aset (aset h "offset_to_point_data" (VInt off)) "header_size" (VInt hs))
                     "number_of_vlrs" (VInt (len vl)) in
      let l := fixed_part (hw_layout mnr) in
      do fb <- enc_fields l (hdr_vals h' l);
      Ok (h', fb ++ abytes h "extra_header_bytes" ++ vb ++ abytes h "extra_vlr_bytes")
  end.

(* extra-bytes VLR: user id "LASF_Spec", record id 4, payload a multiple of 192 bytes *)
Definition LASF_Spec : list Z := [76; 65; 83; 70; 95; 83; 112; 101; 99].
Definition list_eqb (a b : list Z) : bool := (length a =? length b)%nat && forallb (fun p => fst p =? snd p) (combine a b).
Definition is_eb_vlr (v : vlr) : bool :=
  list_eqb (v_uid v) LASF_Spec && (v_rid v =? 4) && (len (v_data v) mod 192 =? 0).

Definition eb_type_size (t opt : Z) : option Z :=
  if t =? 0 then Some opt
  else match find (fun row => let '(i, _, _, _) := row in i =? t) extra_dim_types with
       | Some (_, _, sz, n) => Some (sz * n)
       | None => None
       end.
Fixpoint eb_total (fuel : nat) (data : list Z) : option Z :=
  match fuel with
  | O => Some 0
  | S k => match data with
           | [] => Some 0
           | _ => match eb_type_size (nth 2 data 0) (nth 3 data 0), eb_total k (skipn 192 data) with
                  | Some a, Some b => Some (a + b)
                  | _, _ => None
                  end
           end
  end.

Record rheader := mkRH {
  rh_fields : assoc; rh_vlrs : list vlr; rh_evlrs : option (list vlr);
  rh_fmt : Z; rh_compressed : bool; rh_psize : Z; rh_offset : Z
}.

Definition MAX_VLRS : Z := 100000.

(* LasHeader.read_from on a seekable source holding `src` *)
Definition dec_header (src : list Z) (read_evlrs : bool) : result rheader :=
  let hb := firstn 227 src in
  let sig := firstn 4 hb in
  if (length sig =? 0)%nat then Err ELaspy else
  if negb (list_eqb sig LASF) then Err ELaspy else
  if (length hb <? 227)%nat then Err ELaspy else
  let off0 := le_dec (firstn 4 (skipn 96 hb)) in
  let stream := if off0 <? 227 then src else firstn (Z.to_nat off0) src in
  let mnr := le_dec (firstn 1 (skipn 25 stream)) in
  let '(a, rest) := dec_fields (fixed_part (hr_layout mnr)) stream in
  let pos := len stream - len rest in
  let hs := aint a "header_size" in
  if pos >? hs then Err ELaspy else
  let extra := firstn (Z.to_nat (hs - pos)) rest in
  let rest2 := skipn (Z.to_nat (hs - pos)) rest in
  let nv := aint a "number_of_vlrs" in
  if nv >? MAX_VLRS then Err EFuel else
  do vr <- dec_vlrs false (Z.to_nat nv) rest2;
  let '(vl, rest3) := vr in
  let pos2 := len stream - len rest3 in
  let off := aint a "offset_to_point_data" in
  if pos2 >? off then Err ELaspy else
  let pad := firstn (Z.to_nat (off - pos2)) rest3 in
  let fid0 := aint a "point_format_id" in
  let fid := compressed_id_to_uncompressed fid0 in
  match std_size fid with
  | None => Err ELaspy
  | Some std =>
      let ps := aint a "point_size" in
      let ebs := filter is_eb_vlr vl in
      let drop_eb := match ebs with [] => false | _ => ps =? std end in
      let fsize := match ebs with
                   | [] => Some std
                   | eb :: _ => if ps =? std then Some std
                                else match eb_total (length (v_data eb)) (v_data eb) with
                                     | Some t => Some (std + t) | None => None end
                   end in
      match fsize with
      | None => Err ELaspy
      | Some fs =>
          if ps <? fs then Err ELaspy else
          let vl' := if drop_eb then filter (fun v => negb (is_eb_vlr v)) vl else vl in
          let a' := aset (aset a "extra_header_bytes" (VBytes extra)) "extra_vlr_bytes" (VBytes pad) in
          let nev := aint a "number_of_evlrs" in
          if nev >? MAX_VLRS then Err EFuel else
          do ev <- (if mnr >=? 4 then
                      if read_evlrs then
                        if nev >? 0 then
                          do r <- dec_vlrs true (Z.to_nat nev) (skipn (Z.to_nat (aint a "start_of_first_evlr")) src);
                          Ok (Some (fst r))
                        else Ok (Some [])
                      else Ok None
                    else Ok None);
          Ok (mkRH a' vl' ev fid (is_point_format_compressed fid0) ps off)
      end
  end.

(* ------------------------------------------------------------------------------------ *)
(* point records and header statistics                                                   *)
(* ------------------------------------------------------------------------------------ *)
Definition sle32 (bs : list Z) : Z :=
  let v := le_dec (firstn 4 bs) in if v >=? 2 ^ 31 then v - 2 ^ 32 else v.
Definition rec_coord (axis : nat) (r : list Z) : Z := sle32 (skipn (4 * axis) r).
Definition rec_ret (fmt : Z) (r : list Z) : Z :=
  let b := nth 14 r 0 in if fmt >=? 6 then Z.land b 15 else Z.land b 7.

(* binary64 bit patterns (non-NaN) compared through a monotone integer key *)
Definition f64_key (a : Z) : Z := if a <? 2 ^ 63 then a else 2 ^ 63 - a.
Definition f64_lt (a b : Z) : bool := f64_key a <? f64_key b.
Definition fmax (a b : Z) : Z := if f64_lt a b then b else a.   (* python max(a, b) *)
Definition fmin (a b : Z) : Z := if f64_lt b a then b else a.   (* python min(a, b) *)
Definition F64_MAX : Z := 0x7FEFFFFFFFFFFFFF.
Definition F64_MIN : Z := 0xFFEFFFFFFFFFFFFF.

Definition zmax_list (d : Z) (l : list Z) : Z := fold_left Z.max l d.
Definition zmin_list (d : Z) (l : list Z) : Z := fold_left Z.min l d.

Definition axis_name (pre : string) (i : nat) : string :=
  String.append pre (match i with O => "[0]" | S O => "[1]" | _ => "[2]" end)%string.
Definition by_return_name (i : nat) : string :=
  String.append "number_of_points_by_return[" (String.append
    (match i with
     | 0 => "0" | 1 => "1" | 2 => "2" | 3 => "3" | 4 => "4" | 5 => "5" | 6 => "6" | 7 => "7" | 8 => "8"
     | 9 => "9" | 10 => "10" | 11 => "11" | 12 => "12" | 13 => "13" | _ => "14" end)%nat "]")%string.

Definition count_ret (fmt : Z) (recs : list (list Z)) (k : Z) : Z :=
  len (filter (fun r => rec_ret fmt r =? k) recs).

(* running statistics of the records written so far (kept apart from the other header fields) *)
Record stats := mkS { s_count : Z; s_max : list Z; s_min : list Z; s_ret : list Z; s_evlr_start : Z; s_nevlr : Z }.

(* header.partial_reset *)
Definition stats0 : stats := mkS 0 [F64_MIN; F64_MIN; F64_MIN] [F64_MAX; F64_MAX; F64_MAX] (repeat 0 15) 0 0.

Definition set_list (pre : nat -> string) (l : list Z) (h : assoc) : assoc :=
  fold_left (fun h p => aset h (pre (fst p)) (VInt (snd p))) (combine (seq 0 (length l)) l) h.

(* the header as written: the statistics poured into the field list *)
Definition with_stats (h : assoc) (st : stats) : assoc :=
  let h := set_list (axis_name "maxs") (s_max st) h in
  let h := set_list (axis_name "mins") (s_min st) h in
  let h := set_list by_return_name (s_ret st) h in
  aset (aset (aset h "point_count" (VInt (s_count st))) "start_of_first_evlr" (VInt (s_evlr_start st)))
       "number_of_evlrs" (VInt (s_nevlr st)).

Definition stats_of_header (h : assoc) : stats :=
  mkS (aint h "point_count") (map (fun i => aint h (axis_name "maxs" i)) (seq 0 3))
      (map (fun i => aint h (axis_name "mins" i)) (seq 0 3)) (map (fun i => aint h (by_return_name i)) (seq 0 15))
      (aint h "start_of_first_evlr") (aint h "number_of_evlrs").

Definition zero_extrema (st : stats) : stats :=
  mkS (s_count st) [0; 0; 0] [0; 0; 0] (s_ret st) (s_evlr_start st) (s_nevlr st).
Definition reset_extrema (st : stats) : stats :=
  mkS (s_count st) [F64_MIN; F64_MIN; F64_MIN] [F64_MAX; F64_MAX; F64_MAX] (s_ret st) (s_evlr_start st) (s_nevlr st).

Definition write_at (f : list Z) (pos : Z) (bs : list Z) : list Z :=
  let p := Z.to_nat pos in
  firstn p f ++ zeros (p - length f) ++ bs ++ skipn (p + length bs) f.

Section Stats.
  (* x -> bits of (x * scale + offset) in binary64; supplied by the driver, an hypothesis in proofs *)
  Variable ap : Z -> Z -> Z -> Z.

  (* header.grow on a chunk (the implementation fails on an empty one; callers guard) *)
  Definition grow (fmt : Z) (h : assoc) (st : stats) (recs : list (list Z)) : stats :=
    match recs with
    | [] => st
    | r0 :: _ =>
      let ext (i : nat) (cur : list Z) (pick : Z -> list Z -> Z) (comb : Z -> Z -> Z) :=
          comb (nth i cur 0) (ap (aint h (axis_name "scales" i)) (aint h (axis_name "offsets" i))
                                 (pick (rec_coord i r0) (map (rec_coord i) recs))) in
      mkS (s_count st + len recs)
          (map (fun i => ext i (s_max st) zmax_list fmax) (seq 0 3))
          (map (fun i => ext i (s_min st) zmin_list fmin) (seq 0 3))
          (map (fun p => snd p + count_ret fmt recs (Z.of_nat (fst p) + 1)) (combine (seq 0 15) (s_ret st)))
          (s_evlr_start st) (s_nevlr st)
    end.

  (* ---------------------------------------------------------------------------------- *)
  (* the streaming writer (uncompressed)                                                 *)
  (* ---------------------------------------------------------------------------------- *)
  Record wstate := mkW { w_h : assoc; w_st : stats; w_vlrs : list vlr; w_fmt : Z; w_file : list Z; w_pos : Z; w_done : bool }.

  Inductive wop :=
  | WPoints (recs : list (list Z)) (same_format : bool)
  | WEvlrs (l : list vlr)
  | WClose.

  Definition wopen (h : assoc) (vl : list vlr) (fmt : Z) : result wstate :=
    if negb (compat (aint h "version.major") (aint h "version.minor") fmt) then Err ELaspy else
    do hb <- enc_header (with_stats h stats0) vl false;
    Ok (mkW (fst hb) stats0 vl fmt (snd hb) (len (snd hb)) false).

  Definition wstep (s : wstate) (op : wop) : wstate * result unit :=
    match op with
    | WPoints recs same =>
        match recs with
        | [] => (s, Ok tt)
        | _ =>
          if w_done s then (s, Err ELaspy) else
          if negb same then (s, Err ELaspy) else
          if max_point_count (aint (w_h s) "version.major") (aint (w_h s) "version.minor") - s_count (w_st s) <? len recs
          then (s, Err ELaspy) else
          let bytes := concat recs in
          (mkW (w_h s) (grow (w_fmt s) (w_h s) (w_st s) recs) (w_vlrs s) (w_fmt s)
               (write_at (w_file s) (w_pos s) bytes) (w_pos s + len bytes) false, Ok tt)
        end
    | WEvlrs l =>
        if aint (w_h s) "version.minor" <? 4 then (s, Err ELaspy) else
        match l with
        | [] => (s, Ok tt)
        | _ =>
          match enc_vlrs true l with
          | Err e => (s, Err e)
          | Ok eb =>
            let st := w_st s in
            let st' := mkS (s_count st) (s_max st) (s_min st) (s_ret st) (w_pos s) (len l) in
            (mkW (w_h s) st' (w_vlrs s) (w_fmt s) (write_at (w_file s) (w_pos s) eb) (w_pos s + len eb) true, Ok tt)
          end
        end
    | WClose =>
        let st := if s_count (w_st s) =? 0 then zero_extrema (w_st s) else w_st s in
        match enc_header (with_stats (w_h s) st) (w_vlrs s) true with
        | Err e => (s, Err e)
        | Ok hb => (mkW (fst hb) st (w_vlrs s) (w_fmt s) (write_at (w_file s) 0 (snd hb)) (len (snd hb)) true, Ok tt)
        end
    end.

  Definition wrun (s : wstate) (ops : list wop) : wstate * list (result unit) :=
    fold_left (fun acc op => let '(s', o) := wstep (fst acc) op in (s', snd acc ++ [o])) ops (s, []).

  (* statistics of a whole point sequence: what the final header must say *)
  Definition stats_of (fmt : Z) (h : assoc) (recs : list (list Z)) : stats :=
    match recs with [] => zero_extrema stats0 | _ => grow fmt h stats0 recs end.

  (* the one-shot file, as a pure function of the data: the specification the writer refines *)
  Definition file_of (h : assoc) (vl : list vlr) (fmt : Z) (recs : list (list Z)) (evl : list vlr) : result (list Z) :=
    do hb0 <- enc_header (with_stats h stats0) vl false;
    let off := len (snd hb0) in
    let pts := concat recs in
    do eb <- enc_vlrs true evl;
    let st := stats_of fmt h recs in
    let st := match evl with
              | [] => st
              | _ => mkS (s_count st) (s_max st) (s_min st) (s_ret st) (off + len pts) (len evl)
              end in
    do hb <- enc_header (with_stats (fst hb0) st) vl true;
    Ok (snd hb ++ pts ++ eb).

  (* ---------------------------------------------------------------------------------- *)
  (* the appender (uncompressed)                                                         *)
  (* ---------------------------------------------------------------------------------- *)
  Record astate := mkA { a_h : assoc; a_st : stats; a_vlrs : list vlr; a_fmt : Z; a_psize : Z; a_evlrs : option (list vlr);
                         a_file : list Z; a_pos : Z }.

  Definition aopen (src : list Z) : result astate :=
    do rh <- dec_header src false;
    let h := rh_fields rh in
    let st := stats_of_header h in
    let pos := s_count st * rh_psize rh + rh_offset rh in
    if (aint h "version.minor" >=? 4) && (s_nevlr st >? 0) then
      if pos >? s_evlr_start st then Err EOther else
      do r <- dec_vlrs true (Z.to_nat (s_nevlr st)) (skipn (Z.to_nat (s_evlr_start st)) src);
      Ok (mkA h st (rh_vlrs rh) (rh_fmt rh) (rh_psize rh) (Some (fst r)) src pos)
    else Ok (mkA h st (rh_vlrs rh) (rh_fmt rh) (rh_psize rh) None src pos).

  Definition apoints (s : astate) (recs : list (list Z)) (same : bool) : astate * result unit :=
    match recs with
    | [] => (s, Ok tt)
    | _ =>
      if negb same then (s, Err ELaspy) else
      if max_point_count (aint (a_h s) "version.major") (aint (a_h s) "version.minor") - s_count (a_st s) <? len recs
      then (s, Err ELaspy) else
      let bytes := concat recs in
      let st0 := if s_count (a_st s) =? 0 then reset_extrema (a_st s) else a_st s in
      (mkA (a_h s) (grow (a_fmt s) (a_h s) st0 recs) (a_vlrs s) (a_fmt s) (a_psize s) (a_evlrs s)
           (write_at (a_file s) (a_pos s) bytes) (a_pos s + len bytes), Ok tt)
    end.

  Definition aclose (s : astate) : result (list Z) :=
    let st := a_st s in
    let '(st', f) :=
      match a_evlrs s with
      | Some (e :: es) =>
          match enc_vlrs true (e :: es) with
          | Ok eb => (mkS (s_count st) (s_max st) (s_min st) (s_ret st) (a_pos s) (s_nevlr st), write_at (a_file s) (a_pos s) eb)
          | Err _ => (st, a_file s)
          end
      | _ => (st, a_file s)
      end in
    do hb <- enc_header (with_stats (a_h s) st') (a_vlrs s) true;
    Ok (write_at f 0 (snd hb)).

  Definition arun (src : list Z) (chunks : list (list (list Z))) : result (list Z) :=
    do s <- aopen src;
    aclose (fold_left (fun s c => fst (apoints s c true)) chunks s).
End Stats.

(* ------------------------------------------------------------------------------------ *)
(* the reader                                                                            *)
(* ------------------------------------------------------------------------------------ *)
Fixpoint chunks_of (fuel : nat) (ps : nat) (data : list Z) : list (list Z) :=
  match fuel with
  | O => []
  | S k => match data with [] => [] | _ => firstn ps data :: chunks_of k ps (skipn ps data) end
  end.

(* bytes delivered for `n` records starting at record index `c` (lenient at EOF), then
   np.frombuffer: ValueError unless a whole number of records *)
Definition read_records (src : list Z) (offset ps c n : Z) : result (list (list Z)) :=
  let data := firstn (Z.to_nat (n * ps)) (skipn (Z.to_nat (offset + c * ps)) src) in
  if ps <=? 0 then Err EValue else
  if len data mod ps =? 0 then Ok (chunks_of (length data) (Z.to_nat ps) data) else Err EValue.

Record lasfile := mkLF { lf_h : rheader; lf_points : list (list Z) }.

Definition read_file (src : list Z) : result lasfile :=
  do rh <- dec_header src true;
  let cnt := aint (rh_fields rh) "point_count" in
  if cnt <=? 0 then Ok (mkLF rh [])
  else do recs <- read_records src (rh_offset rh) (rh_psize rh) 0 cnt; Ok (mkLF rh recs).
