(* READING SESSIONS with chunk iterators (C01, round 6), on the abstract cursor of Model/Cursor.v (the implementation's cursor
   refines it: C05_refines).

   reader.chunk_iterator(k) has no state of its own: each step is read_points(k) on the reader, the iteration stops at the first
   empty record. So WHEN the iterator was created, and what was read or sought between two of its steps, does not matter: draining
   it gives the records from where the cursor stands to the end, in consecutive non-empty pieces.

   Definitions only; proofs in Proofs/ReadBackProofs.v. *)
From Coq Require Import ZArith List Bool.
From LasV Require Import Lib.Base Model.Cursor.
Import ListNotations.
Open Scope Z_scope.

(* list(it): steps until StopIteration (fuel: at most that many steps) *)
Fixpoint drain (fuel : nat) (s : sstate) (k : Z) : sstate * list (Z * Z) :=
  match fuel with
  | O => (s, [])
  | S f =>
      match spec_step s (CNext k) with
      | (s', OSlice a b) => let '(s'', l) := drain f s' k in (s'', (a, b) :: l)
      | (s', _) => (s', [])
      end
  end.

(* consecutive non-empty pieces that cover [a, b) exactly *)
Fixpoint tiles (a b : Z) (l : list (Z * Z)) : Prop :=
  match l with
  | [] => a = b
  | (x, y) :: r => x = a /\ a < y /\ y <= b /\ tiles y b r
  end.

(* the records named by a piece *)
Definition piece {A} (recs : list A) (p : Z * Z) : list A :=
  firstn (Z.to_nat (snd p - fst p)) (skipn (Z.to_nat (fst p)) recs).

(* the cursor after a history *)
Definition after (n : Z) (ops : list cop) : sstate := fold_left (fun s op => fst (spec_step s op)) ops (mkSp n 0).
