(* Several writers alive at the same time (definitions only). Each operation of an interleaved history addresses ONE of them.
   The model keeps the writers' states apart by construction; Proofs/MultiProofs.v states what that means for the files
   (interleave_independent), and the harness checks the implementation against it: writers / appenders / LasData objects created from
   one header object must not influence each other through it. *)
From Coq Require Import String.
From Coq Require Import ZArith List Bool.
From LasV Require Import Lib.Base Lib.Layout Model.Las.
Import ListNotations.
Open Scope list_scope.
Open Scope Z_scope.

Fixpoint upd {A} (l : list A) (i : nat) (x : A) : list A :=
  match l, i with
  | [], _ => []
  | _ :: r, O => x :: r
  | y :: r, S k => y :: upd r k x
  end.

Section Multi.
  Variable ap : Z -> Z -> Z -> Z.

  (* one step of the ensemble: operation `snd iop` on writer number `fst iop` (no such writer: nothing happens) *)
  Definition mstep (sys : list wstate) (iop : nat * wop) : list wstate :=
    match nth_error sys (fst iop) with
    | Some s => upd sys (fst iop) (fst (wstep ap s (snd iop)))
    | None => sys
    end.

  Definition mrun (sys : list wstate) (ops : list (nat * wop)) : list wstate := fold_left mstep ops sys.

  (* the operations of an interleaved history that address writer i, in order *)
  Definition proj (i : nat) (ops : list (nat * wop)) : list wop :=
    map snd (filter (fun p => Nat.eqb (fst p) i) ops).
End Multi.
