(* C16 — model of laspy/copc.py's concurrent HTTP fetching as labelled transition systems.

   Queue strategy (http_queue_strategy + HttpFetcherThread.run): shared FIFO of ranges (queue.Queue with its
   `unfinished_tasks` counter: put +1, task_done -1, join blocks until 0), result FIFO (queue.SimpleQueue), worker threads
   that INTERPRET the instruction list extracted from HttpFetcherThread.run (Gen/GenFetch.v: gen_worker_prog), a main thread
   that interprets the list extracted from http_queue_strategy (gen_main_prog).  One step = one queue operation or one
   request completion; a schedule is any list of thread ids (0 = main, S i = worker i); a step that is not enabled
   (blocking get on an empty queue, join with unfinished tasks) is `None`.

   Executor strategy (http_thread_executor_strategy): jobs taken in FIFO order by pool threads, job = seek ; read on the job's
   stream (its own or — for the refutation — one shared stream), futures, main collects by submission index (or by completion
   order — refutation), `with` block = shutdown(wait=True): idle workers exit once shutdown began, main leaves when all exited.

   One range request (HttpRangeStream.read) is INTERPRETED from gen_stream_read against a server that answers with a status and
   a body or not at all; `fails r` of the transition systems is instantiated with stream_fails gen_stream_read server.
   http_queue_strategy's prologue also exists step by step (pstate / pstep: one step per put and per thread start), and is
   proved to refine the atomic `init` (Proofs/FetchPrologueProofs.v).

   The stdlib queue / concurrent.futures / threading semantics above are assumed (documented behaviour), not verified. *)
From Coq Require Import ZArith List Bool Lia.
From LasV Require Import Lib.Base Gen.GenFetch.
Import ListNotations.
Open Scope list_scope.
Open Scope Z_scope.

Definition range := (Z * Z)%type.          (* (offset, size) *)

(* the bytes the server (or the local file) holds for a range *)
Definition slice (file : list Z) (r : range) : list Z := take (snd r) (drop (fst r) file).

(* what a local (non-HTTP) source yields in CopcReader._fetch_all_chunks: the ranges in the order of byte_queries *)
Definition local_read (file : list Z) (ranges : list range) : list Z := concat (map (slice file) ranges).

(* list.sort(key=...) : stable; insertion sort *)
Fixpoint insert_on {A} (key : A -> Z) (x : A) (l : list A) : list A :=
  match l with
  | [] => [x]
  | y :: r => if key x <=? key y then x :: l else y :: insert_on key x r
  end.
Definition isort_on {A} (key : A -> Z) (l : list A) : list A := fold_right (insert_on key) [] l.
Definition sort_by_offset (ranges : list range) : list range := isort_on fst ranges.

Definition set_nth {A} (i : nat) (x : A) (l : list A) : list A := firstn i l ++ x :: skipn (S i) l.

(* ------------------------------------------------------------------------------------------------ one range request *)
(* HttpRangeStream.read(n) at position pos, INTERPRETED from the statement list extracted from the source
   (Gen/GenFetch.v: gen_stream_read).  The server answers a request for (pos, n) with a status and a body, or not at all
   (`None`: session.get raises — connection error, retries exhausted).  requests.Response.raise_for_status raises for
   the client and server error classes, 400 <= status < 600 (assumed, documented behaviour). *)
Record response := mkResp { r_status : Z; r_body : list Z }.
Definition http_error (st : Z) : bool := (400 <=? st) && (st <? 600).
Inductive rres := RData (d : list Z) (pos : Z) | RExc (pos : Z).     (* value returned / exception; position afterwards *)

Fixpoint sread (prog : list sinstr) (server : range -> option response) (pos n : Z) (resp : option response) : rres :=
  match prog with
  | [] => RExc pos                                  (* falls off the end: returns None, nothing the callers can copy *)
  | SZeroEmpty :: p => if n =? 0 then RData [] pos else sread p server pos n resp
  | SRequest :: p => match server (pos, n) with None => RExc pos | Some r => sread p server pos n (Some r) end
  | SRaiseForStatus :: p =>
      match resp with
      | Some r => if http_error (r_status r) then RExc pos else sread p server pos n resp
      | None => RExc pos
      end
  | SAdvance :: p => sread p server (pos + n) n resp
  | SReturnContent :: p => match resp with Some r => RData (r_body r) pos | None => RExc pos end
  end.
Definition stream_read (prog : list sinstr) (server : range -> option response) (pos n : Z) : rres := sread prog server pos n None.

(* the request for range r (seek(offset) ; read(size)) ends in an exception *)
Definition stream_fails (prog : list sinstr) (server : range -> option response) (r : range) : bool :=
  match stream_read prog server (fst r) (snd r) with RExc _ => true | RData _ _ => false end.

(* a server that, when it does not answer with an error status, sends exactly the requested bytes *)
Definition honest (file : list Z) (server : range -> option response) : Prop :=
  forall r resp, server r = Some resp -> http_error (r_status resp) = false -> r_body resp = slice file r.

(* ------------------------------------------------------------------------------------------------ queue strategy *)
Inductive item := IData (r : range) | IExc (r : range).      (* (data, offset) tuple of range r | the exception of range r *)
Definition item_range (i : item) : range := match i with IData r => r | IExc r => r end.
Definition item_key (i : item) : Z := fst (item_range i).
Definition item_data (file : list Z) (i : item) : list Z := match i with IData r => slice file r | IExc _ => [] end.

Inductive wstate := WRun (pc : nat) (cur : option range) (failed : bool) | WExit.
Inductive mstatus := MRunning | MReturned | MRaised (r : range).

Record state := mkS {
  s_q : list range;          (* query_queue *)
  s_unf : nat;               (* query_queue.unfinished_tasks *)
  s_resq : list item;        (* result_queue *)
  s_ws : list wstate;
  s_todo : list minstr;      (* what main still has to execute *)
  s_local : list item;       (* main's `results` list (everything taken out of result_queue) *)
  s_buf : list Z;            (* out_compressed_bytes as assembled *)
  s_status : mstatus }.

Definition is_exit (w : wstate) : bool := match w with WExit => true | _ => false end.
(* a worker that holds no range and has nothing to publish: it has left its loop, or stands at the head of it (pc 0) *)
Definition w_idle (w : wstate) : bool := match w with WExit => true | WRun O _ _ => true | WRun (S _) _ _ => false end.
Definition all_exited (s : state) : bool := forallb is_exit (s_ws s).
Definition main_done (s : state) : bool := match s_status s with MRunning => false | _ => true end.

Section Queue.
Variable wp : list winstr.          (* the worker's loop body *)
Variable file : list Z.
Variable fails : range -> bool.     (* the requests that fail *)

Definition next_pc (pc : nat) : nat := if Nat.eqb (S pc) (length wp) then O else S pc.

Definition with_w (s : state) (i : nat) (w : wstate) (q : list range) (unf : nat) (resq : list item) : state :=
  mkS q unf resq (set_nth i w (s_ws s)) (s_todo s) (s_local s) (s_buf s) (s_status s).

Definition wstep (s : state) (i : nat) : option state :=
  match nth_error (s_ws s) i with
  | Some (WRun pc cur failed) =>
    let same w := Some (with_w s i w (s_q s) (s_unf s) (s_resq s)) in
    let nxt := next_pc pc in
    match nth_error wp pc with
    | None => None
    | Some ITestEmpty =>
        match s_q s with [] => same WExit | _ :: _ => same (WRun nxt cur failed) end
    | Some (ITake blocking) =>
        match s_q s with
        | [] => if blocking then None else same WExit
        | r :: q' => Some (with_w s i (WRun nxt (Some r) false) q' (s_unf s) (s_resq s))
        end
    | Some IFetch =>
        match cur with
        | Some r => same (WRun nxt cur (fails r))
        | None => same WExit                     (* NameError: the thread dies *)
        end
    | Some IPutResult =>
        match cur, failed with
        | Some r, false => Some (with_w s i (WRun nxt cur failed) (s_q s) (s_unf s) (s_resq s ++ [IData r]))
        | _, _ => same (WRun nxt cur failed)     (* not on this path *)
        end
    | Some IPutExc =>
        match cur, failed with
        | Some r, true => Some (with_w s i (WRun nxt cur failed) (s_q s) (s_unf s) (s_resq s ++ [IExc r]))
        | _, _ => same (WRun nxt cur failed)
        end
    | Some ITaskDone =>
        match s_unf s with
        | O => same WExit                        (* ValueError('task_done() called too many times') *)
        | S u => Some (with_w s i (WRun nxt cur failed) (s_q s) u (s_resq s))
        end
    | Some IBreakIfFailed => if failed then same WExit else same (WRun nxt cur failed)
    end
  | _ => None
  end.

Definition with_m (s : state) (resq : list item) (todo : list minstr) (local : list item) (buf : list Z) (st : mstatus) : state :=
  mkS (s_q s) (s_unf s) resq (s_ws s) todo local buf st.

Definition mstep (s : state) : option state :=
  match s_status s with
  | MRunning =>
    match s_todo s with
    | [] => Some (with_m s (s_resq s) [] (s_local s) (s_buf s) MReturned)
    | MPutAll :: t => Some (with_m s (s_resq s) t (s_local s) (s_buf s) MRunning)      (* only meaningful in the prologue *)
    | MStart _ :: t => Some (with_m s (s_resq s) t (s_local s) (s_buf s) MRunning)
    | MJoin :: t => if Nat.eqb (s_unf s) 0 then Some (with_m s (s_resq s) t (s_local s) (s_buf s) MRunning) else None
    | MDrain :: t =>
        match s_resq s with
        | [] => Some (with_m s [] t (s_local s) (s_buf s) MRunning)
        | IData r :: rq => Some (with_m s rq (MDrain :: t) (s_local s ++ [IData r]) (s_buf s) MRunning)
        | IExc r :: rq => Some (with_m s rq (MDrain :: t) (s_local s ++ [IExc r]) (s_buf s) (MRaised r))
        end
    | MSort :: t => Some (with_m s (s_resq s) t (isort_on item_key (s_local s)) (s_buf s) MRunning)
    | MAssemble :: t => Some (with_m s (s_resq s) t (s_local s) (concat (map (item_data file) (s_local s))) MRunning)
    end
  | _ => None
  end.

Definition step (s : state) (t : nat) : option state :=
  match t with O => mstep s | S i => wstep s i end.

Definition run_one (s : state) (t : nat) : state := match step s t with Some s' => s' | None => s end.
Definition run (s : state) (sched : list nat) : state := fold_left run_one sched s.

Inductive reach (s0 : state) : state -> Prop :=
| reach_refl : reach s0 s0
| reach_step : forall s t s', reach s0 s -> step s t = Some s' -> reach s0 s'.

Definition stuck (s : state) : Prop := forall t, step s t = None.

(* number of schedule entries that were enabled steps *)
Fixpoint effective (s : state) (sched : list nat) : nat :=
  match sched with
  | [] => O
  | t :: r => match step s t with Some s' => S (effective s' r) | None => effective s r end
  end.

End Queue.

(* ------------------------------------------------------------------------------------------------ main's prologue, step by step *)
(* http_queue_strategy's prologue at the granularity of ITS queue operations and thread starts: `for query in byte_queries:
   query_queue.put(query)` is one step per put, `for _ in range(k): HttpFetcherThread(..).start()` one step per start (k is
   evaluated once, when the function is entered: it depends on the arguments only); leaving a loop is a step of its own.
   A worker exists (can be scheduled) from the moment it was started.  Threads: 0 = main, S i = the i-th worker started. *)
Definition fresh_worker : wstate := WRun 0 None false.
Record pstate := mkP { p_toput : list range; p_tostart : nat; p_s : state }.

Fixpoint start_count (mp : list minstr) (n workers : nat) : nat :=
  match mp with
  | [] => O
  | MStart use_min :: _ => if use_min then Nat.min n workers else workers
  | _ :: t => start_count t n workers
  end.

Definition pinit (mp : list minstr) (ranges : list range) (workers : nat) : pstate :=
  mkP ranges (start_count mp (length ranges) workers) (mkS [] 0 [] [] mp [] [] MRunning).

Section Prologue.
Variable wp : list winstr.
Variable file : list Z.
Variable fails : range -> bool.

Definition pmstep (ps : pstate) : option pstate :=
  let s := p_s ps in
  match s_status s, s_todo s with
  | MRunning, MPutAll :: t =>
      match p_toput ps with
      | r :: rest => Some (mkP rest (p_tostart ps)
                               (mkS (s_q s ++ [r]) (S (s_unf s)) (s_resq s) (s_ws s) (s_todo s) (s_local s) (s_buf s) (s_status s)))
      | [] => Some (mkP [] (p_tostart ps) (with_m s (s_resq s) t (s_local s) (s_buf s) MRunning))
      end
  | MRunning, MStart _ :: t =>
      match p_tostart ps with
      | S k => Some (mkP (p_toput ps) k
                         (mkS (s_q s) (s_unf s) (s_resq s) (s_ws s ++ [fresh_worker]) (s_todo s) (s_local s) (s_buf s) (s_status s)))
      | O => Some (mkP (p_toput ps) O (with_m s (s_resq s) t (s_local s) (s_buf s) MRunning))
      end
  | _, _ => option_map (mkP (p_toput ps) (p_tostart ps)) (mstep file s)
  end.

Definition pstep (ps : pstate) (t : nat) : option pstate :=
  match t with
  | O => pmstep ps
  | S i => option_map (mkP (p_toput ps) (p_tostart ps)) (wstep wp fails (p_s ps) i)
  end.

Definition prun_one (ps : pstate) (t : nat) : pstate := match pstep ps t with Some ps' => ps' | None => ps end.
Definition prun (ps : pstate) (sched : list nat) : pstate := fold_left prun_one sched ps.

Inductive preach (ps0 : pstate) : pstate -> Prop :=
| preach_refl : preach ps0 ps0
| preach_step : forall ps t ps', preach ps0 ps -> pstep ps t = Some ps' -> preach ps0 ps'.

Definition pstuck (ps : pstate) : Prop := forall t, pstep ps t = None.

End Prologue.

(* what the step-by-step state looks like from the point of view of the atomic prologue below: the ranges still to be put
   are already queued, the workers still to be started already exist (and have not moved) *)
Fixpoint strip_prologue (mp : list minstr) : list minstr :=
  match mp with
  | MPutAll :: t => strip_prologue t
  | MStart _ :: t => strip_prologue t
  | _ => mp
  end.
Definition pabs (ps : pstate) : state :=
  let s := p_s ps in
  mkS (s_q s ++ p_toput ps) (s_unf s + length (p_toput ps)) (s_resq s) (s_ws s ++ repeat fresh_worker (p_tostart ps))
      (strip_prologue (s_todo s)) (s_local s) (s_buf s) (s_status s).

(* the prologue of http_queue_strategy as ONE step: every range queued, then the workers started *)
Definition init (mp : list minstr) (ranges : list range) (workers : nat) : state :=
  match mp with
  | MPutAll :: MStart use_min :: rest =>
      mkS ranges (length ranges) [] (repeat fresh_worker (if use_min then Nat.min (length ranges) workers else workers))
          rest [] [] MRunning
  | _ => mkS [] 0 [] [] mp [] [] MRunning
  end.

(* termination measure *)
Definition wmeasure (wp : list winstr) (w : wstate) : nat :=
  match w with
  | WExit => 0
  | WRun O _ _ => 1
  | WRun pc _ _ => 2 * (length wp - pc) + 2
  end%nat.
Definition wsum (wp : list winstr) (ws : list wstate) : nat := fold_right (fun w a => wmeasure wp w + a)%nat O ws.
Definition measure (wp : list winstr) (s : state) : nat :=
  ((2 * length wp + 1) * length (s_q s) + wsum wp (s_ws s) + length (s_resq s)
   + match s_status s with MRunning => S (length (s_todo s)) | _ => 0 end)%nat.

Definition prologue_len (mp : list minstr) : nat :=
  length (filter (fun i => match i with MPutAll | MStart _ => true | _ => false end) mp).
Definition pmeasure (wp : list winstr) (ps : pstate) : nat :=
  (measure wp (pabs ps) + length (p_toput ps) + p_tostart ps + prologue_len (s_todo (p_s ps)))%nat.

(* the loop this code had before it was repaired: test for emptiness, then a blocking take *)
Definition old_worker_prog : list winstr := [ITestEmpty; ITake true; IFetch; IPutResult; IPutExc; ITaskDone].

(* ------------------------------------------------------------------------------------------------ executor strategy *)
Inductive fres := FData (d : list Z) | FExc (r : range).
Inductive xw := XIdle | XJob (i : nat) (r : range) (pc : nat) | XExit.
Inductive outcome := OReturned (out : list Z) | ORaised (r : range).
Inductive xmain := XCollect (k : nat) (acc : list (list Z)) | XShutdown (o : outcome) | XDone (o : outcome).

Record xstate := mkX {
  x_pending : list (nat * range);     (* the pool's work queue: (submission index, range) *)
  x_pos : list Z;                     (* range_start of the streams *)
  x_fut : list (option fres);         (* the futures, by submission index *)
  x_order : list nat;                 (* completion order *)
  x_ws : list xw;
  x_main : xmain }.

Definition is_xexit (w : xw) : bool := match w with XExit => true | _ => false end.

Section Exec.
Variable per_job : bool.            (* every job gets its own HttpRangeStream *)
Variable collect : collect_order.
Variable job : list jinstr.
Variable file : list Z.
Variable fails : range -> bool.

Definition sidx (i : nat) : nat := if per_job then i else O.

Definition with_xw (s : xstate) (w : nat) (st : xw) (pending : list (nat * range)) (pos : list Z)
                   (fut : list (option fres)) (order : list nat) : xstate :=
  mkX pending pos fut order (set_nth w st (x_ws s)) (x_main s).

Definition xwstep (s : xstate) (w : nat) : option xstate :=
  match nth_error (x_ws s) w with
  | Some XIdle =>
      match x_pending s with
      | (i, r) :: p => Some (with_xw s w (XJob i r 0) p (x_pos s) (x_fut s) (x_order s))
      | [] => match x_main s with
              | XShutdown _ => Some (with_xw s w XExit [] (x_pos s) (x_fut s) (x_order s))
              | _ => None                                  (* waits for work *)
              end
      end
  | Some (XJob i r pc) =>
      match nth_error job pc with
      | Some JSeek => Some (with_xw s w (XJob i r (S pc)) (x_pending s) (set_nth (sidx i) (fst r) (x_pos s)) (x_fut s) (x_order s))
      | Some JRead =>
          let p := nth (sidx i) (x_pos s) 0 in
          let rq := (p, snd r) in
          if fails rq
          then Some (with_xw s w XIdle (x_pending s) (x_pos s) (set_nth i (Some (FExc rq)) (x_fut s)) (x_order s ++ [i]))
          else Some (with_xw s w XIdle (x_pending s) (set_nth (sidx i) (p + snd r) (x_pos s))
                             (set_nth i (Some (FData (slice file rq))) (x_fut s)) (x_order s ++ [i]))
      | None => Some (with_xw s w XIdle (x_pending s) (x_pos s) (set_nth i (Some (FData [])) (x_fut s)) (x_order s ++ [i]))
      end
  | _ => None
  end.

Definition with_xm (s : xstate) (m : xmain) : xstate := mkX (x_pending s) (x_pos s) (x_fut s) (x_order s) (x_ws s) m.

Definition xmstep (s : xstate) : option xstate :=
  match x_main s with
  | XCollect k acc =>
      if Nat.eqb k (length (x_fut s)) then Some (with_xm s (XShutdown (OReturned (concat acc))))
      else
        let j := match collect with BySubmission => Some k | ByCompletion => nth_error (x_order s) k end in
        match j with
        | None => None
        | Some j =>
            match nth j (x_fut s) None with
            | None => None                                   (* future.result() blocks *)
            | Some (FData d) => Some (with_xm s (XCollect (S k) (acc ++ [d])))
            | Some (FExc r) => Some (with_xm s (XShutdown (ORaised r)))
            end
        end
  | XShutdown o => if forallb is_xexit (x_ws s) then Some (with_xm s (XDone o)) else None
  | XDone _ => None
  end.

Definition xstep (s : xstate) (t : nat) : option xstate :=
  match t with O => xmstep s | S w => xwstep s w end.

Definition xrun_one (s : xstate) (t : nat) : xstate := match xstep s t with Some s' => s' | None => s end.
Definition xrun (s : xstate) (sched : list nat) : xstate := fold_left xrun_one sched s.

Inductive xreach (s0 : xstate) : xstate -> Prop :=
| xreach_refl : xreach s0 s0
| xreach_step : forall s t s', xreach s0 s -> xstep s t = Some s' -> xreach s0 s'.

Definition xstuck (s : xstate) : Prop := forall t, xstep s t = None.

End Exec.

Definition xinit (ranges : list range) (workers : nat) : xstate :=
  let n := length ranges in
  mkX (combine (seq 0 n) ranges) (repeat 0 (S n)) (repeat None n) [] (repeat XIdle (Nat.min n workers)) (XCollect 0 []).

Definition xwmeasure (job : list jinstr) (w : xw) : nat :=
  match w with
  | XIdle => 1
  | XJob _ _ pc => 2 + (length job - pc)
  | XExit => 0
  end%nat.
Definition xwsum (job : list jinstr) (ws : list xw) : nat := fold_right (fun w a => xwmeasure job w + a)%nat O ws.
Definition xmeasure (job : list jinstr) (s : xstate) : nat :=
  ((length job + 3) * length (x_pending s) + xwsum job (x_ws s)
   + match x_main s with XCollect k _ => 3 + (length (x_fut s) - k) | XShutdown _ => 1 | XDone _ => 0 end)%nat.

(* first failing range in submission order *)
Fixpoint first_failing (fails : range -> bool) (ranges : list range) : option range :=
  match ranges with [] => None | r :: t => if fails r then Some r else first_failing fails t end.

(* ------------------------------------------------------------------------------------------------ successive queries of one reader *)
(* What CopcReader keeps of a query's fetched blocks for the queries that follow (Gen/GenFetch.v: gen_fetch_site, extracted from
   _fetch_all_chunks and the code around it).  FsDirect - nothing: every query hands ITS byte ranges and ITS zero-filled buffer
   to the strategy.  FsMemo - a block cache in the reader; the source has none, the constructor is here for the contrast and the
   refutation below: blocks fetched by earlier queries are reused, looked up by their start offset only, or by the whole range
   (offset, size).  `fetch` is what the strategy run of a query yields for the ranges it is handed; every query of a session has
   its own (its own schedule, its own failing requests). *)
Definition memo := list (range * list Z).
Definition memo_get (by_offset_only : bool) (m : memo) (r : range) : option (list Z) :=
  option_map snd (find (fun e : range * list Z => (fst (fst e) =? fst r) && (by_offset_only || (snd (fst e) =? snd r))) m).

(* ChunkIter over a buffer: consecutive blocks of the given sizes *)
Fixpoint split_by (sizes : list Z) (buf : list Z) : list (list Z) :=
  match sizes with [] => [] | n :: t => take n buf :: split_by t (drop n buf) end.

Definition reader_query (site : fetch_site) (fetch : list range -> outcome) (m : memo) (ranges : list range) : outcome * memo :=
  match site with
  | FsDirect => (fetch ranges, m)
  | FsMemo k =>
      let missing := filter (fun r => match memo_get k m r with None => true | Some _ => false end) ranges in
      match fetch missing with
      | ORaised r => (ORaised r, m)
      | OReturned buf =>
          let m' := m ++ combine missing (split_by (map snd missing) buf) in
          (OReturned (concat (map (fun r => match memo_get k m' r with Some b => b | None => [] end) ranges)), m')
      end
  end.

Fixpoint reader_session (site : fetch_site) (m : memo) (qs : list (list range * (list range -> outcome))) : list outcome :=
  match qs with
  | [] => []
  | (ranges, fetch) :: t => let om := reader_query site fetch m ranges in fst om :: reader_session site (snd om) t
  end.

(* a complete run of one of the two strategies, as _fetch_all_chunks starts it, on the given ranges against the given server *)
Inductive strategy_run (file : list Z) (server : range -> option response) (ranges : list range) : outcome -> Prop :=
| SRQueue : forall n ps, (1 <= n)%nat ->
    preach gen_worker_prog file (stream_fails gen_stream_read server) (pinit gen_main_prog ranges (gen_fetch_workers n)) ps ->
    main_done (p_s ps) = true ->
    strategy_run file server ranges
      (match s_status (p_s ps) with MRaised r => ORaised r | _ => OReturned (s_buf (p_s ps)) end)
| SRExec : forall n s o, (1 <= n)%nat ->
    xreach gen_exec_stream_per_job gen_exec_collect gen_exec_job file (stream_fails gen_stream_read server)
           (xinit ranges (gen_fetch_workers n)) s ->
    x_main s = XDone o -> strategy_run file server ranges o.

(* what a query has to yield: the local read of its ranges, or the exception of one of ITS requests that failed *)
Definition query_spec (file : list Z) (server : range -> option response) (ranges : list range) (o : outcome) : Prop :=
  if existsb (stream_fails gen_stream_read server) ranges
  then exists r, o = ORaised r /\ In r ranges /\ stream_fails gen_stream_read server r = true
  else o = OReturned (local_read file ranges).

(* one query of a session: its ranges, the server as it answers during this query, what the strategy run it starts yields *)
Record squery := mkQ { q_ranges : list range; q_server : range -> option response; q_fetch : list range -> outcome }.

(* ------------------------------------------------------------------------------------------------ the transport under a range request *)
(* HttpRangeStream.session = requests_retry_session(): a requests.Session whose adapter (requests.adapters.HTTPAdapter) retries with
   urllib3.util.Retry(total, connect, read, status_forcelist) - Gen/GenFetch.v: gen_retry, extracted from requests_retry_session.
   One range request = up to 1 + total ATTEMPTS at the connection level.  An attempt is answered by a response; or the connection
   is refused (a connect error); or it is dropped before any response arrives (a read error); or the response head arrives and the
   connection breaks while the body is read (the body is read by requests AFTER the adapter has returned: never retried).
   urllib3.util.Retry.increment: a failed attempt takes one from `total` and one from the counter of its kind; the request is
   given up when a counter would become negative; a response whose status is in status_forcelist counts as a failed attempt
   (of `total` only). *)
Inductive answer := ARefused | ADropped | ACut | AResp (r : response).
(* what the adapter's send yields: a response / it raises, retries exhausted / a response whose body cannot be read *)
Inductive tres := TResp (r : response) | TExhausted | TCut.
Definition forced (sts : list Z) (st : Z) : bool := existsb (Z.eqb st) sts.
Definition retryable (sts : list Z) (a : answer) : bool :=
  match a with ARefused | ADropped => true | ACut => false | AResp r => forced sts (r_status r) end.
Definition final (a : answer) : tres := match a with AResp r => TResp r | ACut => TCut | _ => TExhausted end.

(* attempts k, k+1, ... of one request against `net` (attempt index -> answer); result and the number of attempts made *)
Fixpoint send_retry (sts : list Z) (total connect read : nat) (net : nat -> answer) (k : nat) : tres * nat :=
  match net k with
  | AResp r => if forced sts (r_status r)
               then match total with O => (TExhausted, S k) | S t => send_retry sts t connect read net (S k) end
               else (TResp r, S k)
  | ACut => (TCut, S k)
  | ARefused => match total with
                | O => (TExhausted, S k)
                | S t => match connect with O => (TExhausted, S k) | S c => send_retry sts t c read net (S k) end
                end
  | ADropped => match total with
                | O => (TExhausted, S k)
                | S t => match read with O => (TExhausted, S k) | S c => send_retry sts t connect c net (S k) end
                end
  end.

Definition send_cfg (cfg : retry_cfg) (net : nat -> answer) : tres * nat :=
  send_retry (rt_statuses cfg) (rt_total cfg) (rt_connect cfg) (rt_read cfg) net 0.

(* the server as HttpRangeStream.read sees it through the session: `None` = session.get raises *)
Definition via_retry (cfg : retry_cfg) (net : range -> nat -> answer) : range -> option response :=
  fun r => match fst (send_cfg cfg (net r)) with TResp x => Some x | _ => None end.

(* ------------------------------------------------------------------------------------------------ what the transport keeps between requests *)
(* State shared by every session / stream / reader / query of the process (Gen/GenFetch.v: gen_transport_kept, extracted from
   requests_retry_session, HttpRangeStream.__init__ / close and the module level of laspy/copc.py).  TkNothing - the source: a
   fresh session with a stock adapter per stream.  TkSlots - not in the source, here for the contrast and the refutation: a pool of
   `capacity` slots, one taken for the duration of a send; `release_when_send_raises = false`: the slot is given back only when
   send RETURNS.  slot_send: the free slots after one send (raises: it ends in an exception), None = no slot is free and nobody
   will ever free one - the send, its worker thread and the query that waits for it block for ever. *)
Definition slots_init (tk : transport_kept) : nat := match tk with TkNothing => O | TkSlots c _ => c end.
Definition slot_send (tk : transport_kept) (free : nat) (raises : bool) : option nat :=
  match tk with
  | TkNothing => Some free
  | TkSlots _ rel => match free with
                     | O => None
                     | S f => if raises && negb rel then Some f else Some free
                     end
  end.
(* the sends of a history of queries, in the order they end *)
Fixpoint slot_history (tk : transport_kept) (free : nat) (sends : list bool) : option nat :=
  match sends with
  | [] => Some free
  | b :: t => match slot_send tk free b with None => None | Some f => slot_history tk f t end
  end.
