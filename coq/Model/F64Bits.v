(* The binary64 formula of the header statistics, x |-> bits (x * scale + offset), INSIDE the model.
   Definitions only (proofs in Proofs/F64BitsProofs.v and Proofs/ApInstance.v).

   Model/Scaling.v gives the arithmetic: fl = option Q (Some q: the finite binary64 value q; None: inf or nan),
   rnd64 (round to nearest even), f_of_Z, f_mul, f_add, f_present X s o = fl (fl (X) * s) + o.
   This file adds the IEEE-754 binary64 interchange encoding (sign bit 63, 11 exponent bits, 52 fraction bits)
   between fl and the integer bit patterns that Model/Las.v stores in the header ("maxs[i]", "scales[i]" ...).

   fl has ONE zero: the pattern of -0.0 decodes to Some 0 and is never produced by the encoder (Some 0 |-> 0 = +0.0).
   None is encoded as the pattern of +inf. *)
From Coq Require Import ZArith QArith Qround List Bool.
From LasV Require Import Lib.Base Model.Las Model.Scaling.
Open Scope Z_scope.

Definition EXP_INF : Z := 0x7FF0000000000000.     (* the pattern of +inf: exponent field 2047, fraction 0 *)
Definition SIGN : Z := 2 ^ 63.
Definition ONE : Z := 0x3FF0000000000000.         (* 1.0 *)
Definition ZERO : Z := 0.                         (* +0.0 *)

(* ---- decoding ---- *)
(* t in [0, 2^63): biased exponent t / 2^52, fraction t mod 2^52 *)
Definition mag_dec (t : Z) : fl :=
  let e := t / 2 ^ 52 in
  let f := t mod 2 ^ 52 in
  if 2047 <=? e then None
  else if e =? 0 then Some (dyadic f (-1074))                 (* zero and the subnormals *)
  else Some (dyadic (2 ^ 52 + f) (e - 1075)).                 (* 1.f * 2^(e-1023) *)

Definition fl_of_bits (b : Z) : fl :=
  if (b <? 0) || (2 ^ 64 <=? b) then None
  else if b <? SIGN then mag_dec b
  else option_map Qopp (mag_dec (b - SIGN)).

(* ---- encoding ---- *)
(* q > 0.  e is the exponent of the last place of q (as in rnd64_pos), m = floor (q / 2^e): for a binary64 value q the
   quotient is an integer below 2^53.  Biased exponent and fraction are read off (e + 1074) * 2^52 + m:
   subnormals have e = -1074 and m < 2^52; normal numbers have 2^52 <= m < 2^53, the leading bit of m carries into the
   exponent field.  Values beyond the finite range are clamped to the pattern of inf. *)
Definition mag_enc (q : Q) : Z :=
  let e := Z.max (flog2 (Qnum q) (Zpos (Qden q)) - 52) (-1074) in
  let m := Qfloor (q * dyadic 1 (- e)) in
  Z.min ((e + 1074) * 2 ^ 52 + m) EXP_INF.

Definition bits_of_fl (x : fl) : Z :=
  match x with
  | None => EXP_INF
  | Some q =>
    match Qnum q with
    | Z0 => 0
    | Zpos _ => mag_enc q
    | Zneg _ => let m := mag_enc (Qopp q) in if m =? 0 then 0 else SIGN + m
    end
  end.

(* ---- the formula of LasHeader.grow: numpy's  X * scale + offset  on binary64, as bit patterns ---- *)
Definition ap64 (s o x : Z) : Z := bits_of_fl (f_present x (fl_of_bits s) (fl_of_bits o)).

Definition is_some {A} (x : option A) : bool := match x with Some _ => true | None => false end.

Definition I32_MIN : Z := - 2 ^ 31.
Definition I32_MAX : Z := 2 ^ 31 - 1.

(* the domain on which the formula behaves: finite positive scale, finite offset, and the images of both ends of the
   int32 range are finite *)
Definition good_scaling (s o : Z) : bool :=
  match fl_of_bits s, fl_of_bits o with
  | Some qs, Some qo =>
      (0 <? Qnum qs) && is_some (f_present I32_MIN (Some qs) (Some qo)) && is_some (f_present I32_MAX (Some qs) (Some qo))
  | _, _ => false
  end.

(* a proof device: a total function that satisfies LasSpec.ap_ok for every argument and coincides with ap64 where it matters *)
Definition clamp32 (x : Z) : Z := Z.max I32_MIN (Z.min I32_MAX x).
Definition ap64w (s o x : Z) : Z :=
  if good_scaling s o then ap64 s o (clamp32 x) else ap64 ONE ZERO (clamp32 x).
