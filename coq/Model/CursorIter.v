(* C05: the complete iteration `for chunk in reader.chunk_iterator(k)` - next() until StopIteration, which ends the loop
   silently - and what is left of the reader afterwards. The reader OUTLIVES the iteration: finishing a loop is not the end of the
   reader's life (a second pass seeks back and reads again), so the loop is a function on cursor states like every other
   operation. next() is the translated code of Gen/GenCursor.v wrapped by Model/Cursor.v (cstep (CNext k)). Definitions only. *)
From Coq Require Import ZArith List Bool.
From LasV Require Import Lib.Base Gen.GenCursor Model.Cursor.
Import ListNotations.
Open Scope Z_scope.

(* at most `fuel` calls of next(); the first StopIteration (or any error) ends the loop and is not seen by the caller *)
Fixpoint for_loop_fuel (fuel : nat) (s : cstate) (k : Z) : cstate * list cout :=
  match fuel with
  | O => (s, [])
  | S f =>
      match cstep s (CNext k) with
      | (s', OSlice a b) => let '(s'', os) := for_loop_fuel f s' k in (s'', OSlice a b :: os)
      | (s', _) => (s', [])
      end
  end.

(* chunks of at least one record each: (records left) + 1 calls are enough *)
Definition for_loop (s : cstate) (k : Z) : cstate * list cout :=
  for_loop_fuel (S (Z.to_nat (c_n s - c_read s))) s k.

(* the chunks tile [a, b): consecutive, none empty, each of k records except a shorter last one *)
Fixpoint tiles (a b k : Z) (os : list cout) : Prop :=
  match os with
  | [] => a = b
  | OSlice x y :: r => x = a /\ a < y /\ y <= b /\ (y = a + k \/ (y = b /\ y < a + k)) /\ tiles y b k r
  | _ => False
  end.

(* a reader whose iterator closes it when exhausted (what must not happen): after the loop every call that reaches the source
   fails *)
Definition closed_after_loop_seek (s : cstate) (pos whence : Z) : cout :=
  match gen_seek (c_n s) (c_read s) pos whence with
  | Ok _ => OErr EValue          (* ValueError: seek of closed file *)
  | Err e => OErr e
  end.
