(* C17 — access paths. A source is a byte string behind a stream interface with capabilities
   (seekable() answers true, has readinto, has a seekable method at all); every method call made on it is logged.
   `read_via` follows laspy.open(source, read_evlrs=e), a list of consumption steps (chunk iterators, read_points
   calls) and LasReader.read(); `consume_via` stops before read(): what the reader shows and what was handed out when
   the caller only inspects it or only iterates:
     lib.open_las (source normalisation: every source kind ends up as a stream with two capabilities),
     LasHeader.read_from / _prefetch_header_data (two reads) / read_evlrs (seek based, position restored),
     LasReader.read_points / read (deferred EVLRs: seek based when seekable, sequential otherwise),
     UncompressedPointReader.read_n_points (readinto when offered), EmptyPointReader (no call at all),
     VLRList.read_from on the original stream (one read per field of the generated EVLR layout).
   `read_mmap` follows lasmmap.LasMMAP.__init__, `mmap_set` an assignment through the mapped record array.
   Definitions only; uncompressed point data only (compressed sources are reported as EOther = not modelled). *)
From Coq Require Import String.
From Coq Require Import ZArith List Bool.
From LasV Require Import Lib.Base Lib.Layout Gen.GenHeaderLayout Gen.GenAccess Model.Las.
Import ListNotations.
Open Scope list_scope.
Open Scope Z_scope.

(* ------------------------------------------------------------------------------------ *)
(* streams                                                                               *)
(* ------------------------------------------------------------------------------------ *)
Inductive sop := ORead (n : Z) | OReadInto (n : Z) | OSeek (p : Z) | OTell | OSeekable.

(* c_has_seekable: the source has a `seekable` method at all. A stream that offers only read() has not: the library asks
   through getattr(stream, "seekable", lambda: False)(), so such a stream counts as not seekable and nothing is called on it *)
Record caps := mkCaps { c_seekable : bool; c_readinto : bool; c_has_seekable : bool }.
(* the source can be moved: it says so *)
Definition can_seek (c : caps) : bool := c_has_seekable c && c_seekable c.
Record stream := mkSt { st_bytes : list Z; st_pos : Z; st_log : list sop }.

(* the bytes from the current position on *)
Definition avail (s : stream) : list Z := skipn (Z.to_nat (st_pos s)) (st_bytes s).

(* read(n): at most n bytes, everything left when n < 0; never an error *)
Definition s_read (n : Z) (s : stream) : list Z * stream :=
  let data := if n <? 0 then avail s else firstn (Z.to_nat n) (avail s) in
  (data, mkSt (st_bytes s) (st_pos s + len data) (st_log s ++ [ORead n])).
(* readinto(buffer of n bytes): the bytes that were filled *)
Definition s_readinto (n : Z) (s : stream) : list Z * stream :=
  let data := firstn (Z.to_nat n) (avail s) in
  (data, mkSt (st_bytes s) (st_pos s + len data) (st_log s ++ [OReadInto n])).
Definition s_seek (p : Z) (s : stream) : stream := mkSt (st_bytes s) p (st_log s ++ [OSeek p]).
Definition s_tell (s : stream) : Z * stream := (st_pos s, mkSt (st_bytes s) (st_pos s) (st_log s ++ [OTell])).
Definition s_seekable (c : caps) (s : stream) : bool * stream :=
  (c_seekable c, mkSt (st_bytes s) (st_pos s) (st_log s ++ [OSeekable])).
(* getattr(stream, "seekable", lambda: False)() *)
Definition s_can_seek (c : caps) (s : stream) : bool * stream :=
  if c_has_seekable c then s_seekable c s else (false, s).

(* ------------------------------------------------------------------------------------ *)
(* header                                                                                *)
(* ------------------------------------------------------------------------------------ *)
(* LasHeader._prefetch_header_data: the constants come from the source (Gen/GenAccess.v) *)
Definition prefetch (s : stream) : result (list Z) * stream :=
  let '(hb, s1) := s_read prefetch_first_read s in
  let sig := firstn 4 hb in
  if (length sig =? 0)%nat then (Err ELaspy, s1) else
  if negb (list_eqb sig LASF) then (Err ELaspy, s1) else
  if len hb <? prefetch_first_read then (Err ELaspy, s1) else
  let off0 := le_dec (firstn (Z.to_nat prefetch_offset_width) (skipn (Z.to_nat prefetch_offset_pos) hb)) in
  let '(rest, s2) := s_read (off0 - len hb) s1 in
  (Ok (hb ++ rest), s2).

(* one stream.read(w) per field, lenient at the end of the data (as dec_fields is) *)
Fixpoint sdec_fields (l : layout) (s : stream) : assoc * stream :=
  match l with
  | [] => ([], s)
  | (k, w, n) :: l' =>
      let '(raw, s1) := s_read (Z.of_nat w) s in
      let '(a, s2) := sdec_fields l' s1 in
      ((n, fst (dec_field k w raw)) :: a, s2)
  end.

(* the fields of an EVLR header up to and including the user id (decoded, and checked, before
   anything else is read), and the fields after it *)
Fixpoint split_after (n : string) (l : layout) : layout * layout :=
  match l with
  | [] => ([], [])
  | f :: l' => if String.eqb (snd f) n then ([f], l')
               else let '(a, b) := split_after n l' in (f :: a, b)
  end.
Definition evlr_layout : layout := fixed_part (vlr_r_layout true).
Definition evlr_head : layout := fst (split_after "user_id" evlr_layout).
Definition evlr_tail : layout := snd (split_after "user_id" evlr_layout).

(* VLRList.read_from(stream, n, extended=True) on the original stream *)
Fixpoint sread_vlrs (n : nat) (s : stream) : result (list vlr) * stream :=
  match n with
  | O => (Ok [], s)
  | S k =>
      let '(a1, s1) := sdec_fields evlr_head s in
      let uid := abytes a1 "user_id" in
      if ascii_ok uid then
        let '(a2, s2) := sdec_fields evlr_tail s1 in
        let '(data, s3) := s_read (aint a2 "record_length") s2 in
        let '(r, s4) := sread_vlrs k s3 in
        (match r with
         | Ok l => Ok (mkVlr uid (aint a2 "record_id") (abytes a2 "description") data :: l)
         | Err e => Err e
         end, s4)
      else (Err EValue, s1)
  end.

Definition with_evlrs (rh : rheader) (ev : option (list vlr)) : rheader :=
  mkRH (rh_fields rh) (rh_vlrs rh) ev (rh_fmt rh) (rh_compressed rh) (rh_psize rh) (rh_offset rh).

Definition h_minor (rh : rheader) : Z := aint (rh_fields rh) "version.minor".
Definition h_nev (rh : rheader) : Z := aint (rh_fields rh) "number_of_evlrs".
Definition h_evstart (rh : rheader) : Z := aint (rh_fields rh) "start_of_first_evlr".
Definition h_count (rh : rheader) : Z := aint (rh_fields rh) "point_count".

(* LasHeader.read_evlrs(stream): the capability is asked once for a 1.4 file, whatever the number of EVLRs *)
Definition hdr_read_evlrs (c : caps) (rh : rheader) (s : stream) : result rheader * stream :=
  if h_minor rh >=? 4 then
    let '(sk, s1) := s_can_seek c s in
    if h_nev rh >? 0 then
      if sk then
        let '(saved, s2) := s_tell s1 in
        let s3 := s_seek (h_evstart rh) s2 in
        let '(r, s4) := sread_vlrs (Z.to_nat (h_nev rh)) s3 in
        match r with
        | Ok l => (Ok (with_evlrs rh (Some l)), s_seek saved s4)
        | Err e => (Err e, s4)
        end
      else (Ok (with_evlrs rh None), s1)
    else (Ok (with_evlrs rh (Some [])), s1)
  else (Ok (with_evlrs rh None), s).

(* laspy.open(source, read_evlrs=e): LasReader.__init__ -> LasHeader.read_from *)
Definition open_reader (c : caps) (read_evlrs : bool) (s : stream) : result rheader * stream :=
  let '(p, s1) := prefetch s in
  match p with
  | Err e => (Err e, s1)
  | Ok data =>
      match dec_header data false with      (* the parse runs on a BytesIO holding the prefetched bytes *)
      | Err e => (Err e, s1)
      | Ok rh =>
          if rh_compressed rh then (Err EOther, s1)      (* not modelled *)
          else if read_evlrs then hdr_read_evlrs c rh s1 else (Ok rh, s1)
      end
  end.

(* ------------------------------------------------------------------------------------ *)
(* points                                                                                *)
(* ------------------------------------------------------------------------------------ *)
(* UncompressedPointReader.read_n_points, then PackedPointRecord.from_buffer *)
Definition read_n_points (c : caps) (ps n : Z) (s : stream) : result (list (list Z)) * stream :=
  if ps <=? 0 then (Err EValue, s) else      (* not reachable: a header that parses has a positive point size *)
  let '(data, s1) := if c_readinto c then s_readinto (n * ps) s else s_read (n * ps) s in
  (if len data mod ps =? 0 then Ok (chunks_of (length data) (Z.to_nat ps) data) else Err EValue, s1).

(* LasReader.read_points(n) with points_read = pr: the records, the new points_read, the stream.
   Nothing left: an empty record, and no point source is created (no call on the stream). *)
Definition read_points (c : caps) (rh : rheader) (pr n : Z) (s : stream) : result (list (list Z)) * Z * stream :=
  let left := h_count rh - pr in
  if left <=? 0 then (Ok [], pr, s) else
  let m := if n <? 0 then left else Z.min n left in
  let '(r, s1) := read_n_points c (rh_psize rh) m s in
  (r, pr + m, s1).

(* for chunk in reader.chunk_iterator(k): the iterator stops at the first empty record *)
Fixpoint chunk_loop (fuel : nat) (c : caps) (rh : rheader) (k pr : Z) (s : stream) : result (list (list Z)) * Z * stream :=
  match fuel with
  | O => (Ok [], pr, s)
  | S fu =>
      let '(r, pr1, s1) := read_points c rh pr k s in
      match r with
      | Err e => (Err e, pr1, s1)
      | Ok [] => (Ok [], pr1, s1)
      | Ok recs =>
          let '(r2, pr2, s2) := chunk_loop fu c rh k pr1 s1 in
          (match r2 with Ok more => Ok (recs ++ more) | Err e => Err e end, pr2, s2)
      end
  end.

Definition is_none {A} (o : option A) : bool := match o with None => true | Some _ => false end.

(* `while gap > 0: skipped = source.read(gap); if not skipped: break; gap -= len(skipped)`: the bytes between the last
   point and the first EVLR are read and dropped. *)
Fixpoint skip_gap (fuel : nat) (gap : Z) (s : stream) : stream :=
  match fuel with
  | O => s
  | S fu =>
      if gap >? 0 then
        let '(d, s1) := s_read gap s in
        if len d =? 0 then s1 else skip_gap fu (gap - len d) s1
      else s
  end.
(* the sources of this model give the bytes that are asked when they are there: the first read gives the whole gap, or
   what is left of the data and then the second one nothing; a third turn is never taken (skip_gap_fuel) *)
Definition skip_fuel : nat := 3.
(* the gap as the source computes it (Gen/GenAccess.v): start_of_first_evlr - (offset_to_point_data + point_count * point size) *)
Definition evlr_gap (rh : rheader) : Z := gen_evlr_gap (h_evstart rh) (rh_offset rh) (h_count rh) (rh_psize rh).

(* the EVLR part of LasReader.read(): load what was not loaded at opening *)
Definition finish_evlrs (c : caps) (rh : rheader) (s : stream) : result rheader * stream :=
  if (h_minor rh >=? 4) && (h_nev rh >? 0) && is_none (rh_evlrs rh) then
    let '(sk, s1) := s_can_seek c s in          (* getattr(self.point_source.source, "seekable", lambda: False)() *)
    if sk then hdr_read_evlrs c rh s1             (* self.read_evlrs() *)
    else
      (* "We are just after the last point: the first evlr generally starts here, bytes that lie before it are skipped" *)
      let '(r, s2) := sread_vlrs (Z.to_nat (h_nev rh)) (skip_gap skip_fuel (evlr_gap rh) s1) in
      (match r with Ok l => Ok (with_evlrs rh (Some l)) | Err e => Err e end, s2)
  else if (h_minor rh >=? 4) && is_none (rh_evlrs rh) then (Ok (with_evlrs rh (Some [])), s)
  else (Ok rh, s).

(* the ways of consuming an open reader before read(): `for chunk in reader.chunk_iterator(k)`, reader.read_points(n) *)
Inductive step := SChunks (k : Z) | SPoints (n : Z).

Fixpoint run_steps (fuel : nat) (c : caps) (rh : rheader) (steps : list step) (pr : Z) (s : stream)
  : result (list (list Z)) * Z * stream :=
  match steps with
  | [] => (Ok [], pr, s)
  | st :: more =>
      let '(r, pr1, s1) := match st with
                           | SChunks k => chunk_loop fuel c rh k pr s
                           | SPoints n => read_points c rh pr n s
                           end in
      match r with
      | Err e => (Err e, pr1, s1)
      | Ok recs =>
          let '(r2, pr2, s2) := run_steps fuel c rh more pr1 s1 in
          (match r2 with Ok m => Ok (recs ++ m) | Err e => Err e end, pr2, s2)
      end
  end.

(* open, consume by the steps, then read(): the result and the call log *)
Definition read_via (c : caps) (read_evlrs : bool) (steps : list step) (src : list Z) : result lasfile * list sop :=
  let '(o, s1) := open_reader c read_evlrs (mkSt src 0 []) in
  match o with
  | Err e => (Err e, st_log s1)
  | Ok rh =>
      let '(r1, pr1, s2) := run_steps (S (length src)) c rh steps 0 s1 in
      match r1 with
      | Err e => (Err e, st_log s2)
      | Ok recs1 =>
          let '(r2, _, s3) := read_points c rh pr1 (-1) s2 in
          match r2 with
          | Err e => (Err e, st_log s3)
          | Ok recs2 =>
              let '(r3, s4) := finish_evlrs c rh s3 in
              match r3 with
              | Err e => (Err e, st_log s4)
              | Ok rh' => (Ok (mkLF rh' (recs1 ++ recs2)), st_log s4)
              end
          end
      end
  end.

(* open and consume by the steps, WITHOUT read(): the header the reader shows then (reader.header, reader.evlrs) and the
   records handed out. No step: the reader is only inspected. *)
Definition consume_via (c : caps) (read_evlrs : bool) (steps : list step) (src : list Z) : result lasfile * list sop :=
  let '(o, s1) := open_reader c read_evlrs (mkSt src 0 []) in
  match o with
  | Err e => (Err e, st_log s1)
  | Ok rh =>
      let '(r1, _, s2) := run_steps (S (length src)) c rh steps 0 s1 in
      match r1 with
      | Err e => (Err e, st_log s2)
      | Ok recs1 => (Ok (mkLF rh recs1), st_log s2)
      end
  end.

(* read_evlrs when the caller does not say (laspy.open(source), laspy.read(source), LasReader(source)): the default of the
   source (Gen/GenAccess.v), the same for every kind of source *)
Definition default_read_evlrs : bool := open_read_evlrs_default.

(* laspy.open(source, read_evlrs=e) alone: the header the reader shows before anything is read (reader.header), and the calls *)
Definition open_via (c : caps) (read_evlrs : bool) (src : list Z) : result rheader * list sop :=
  let '(o, s1) := open_reader c read_evlrs (mkSt src 0 []) in (o, st_log s1).

Definition no_seek_tell (l : list sop) : bool :=
  forallb (fun o => match o with OSeek _ | OTell => false | _ => true end) l.
(* every call of the log is one the source offers *)
Definition offered (c : caps) (o : sop) : bool :=
  match o with
  | ORead _ => true
  | OReadInto _ => c_readinto c
  | OSeekable => c_has_seekable c
  | OSeek _ | OTell => can_seek c
  end.
Definition only_offered (c : caps) (l : list sop) : bool := forallb (offered c) l.
(* the call sequence up to what depends on the optional methods of the source: the capability queries are dropped and a
   readinto(buffer of n bytes) counts as the read(n) it replaces *)
Definition not_query (o : sop) : bool := match o with OSeekable => false | _ => true end.
Definition norm_op (o : sop) : sop := match o with OReadInto n => ORead n | _ => o end.
Definition norm (l : list sop) : list sop := map norm_op (filter not_query l).

(* ------------------------------------------------------------------------------------ *)
(* memory map                                                                            *)
(* ------------------------------------------------------------------------------------ *)
(* LasMMAP.__init__: header from the map (two reads), EVLRs by seeking the map, records =
   np.frombuffer(map, count = point_count, offset = offset_to_point_data): ValueError unless
   the map holds that many whole records (trailing bytes are not records) *)
Definition read_mmap (f : list Z) : result lasfile :=
  if (length f =? 0)%nat then Err EValue else      (* mmap.mmap refuses an empty file *)
  do rh <- dec_header f false;
  if rh_compressed rh then Err EValue else
  do ev <- (if h_minor rh >=? 4 then
              if h_nev rh >? 0 then
                if len f <? h_evstart rh then Err EValue else      (* mmap.seek beyond the end: ValueError *)
                do r <- dec_vlrs true (Z.to_nat (h_nev rh)) (skipn (Z.to_nat (h_evstart rh)) f);
                Ok (Some (fst r))
              else Ok (Some [])
            else Ok None);
  let cnt := Z.max 0 (h_count rh) in
  if len f <? rh_offset rh + cnt * rh_psize rh then Err EValue else
  let data := firstn (Z.to_nat (cnt * rh_psize rh)) (skipn (Z.to_nat (rh_offset rh)) f) in
  Ok (mkLF (with_evlrs rh ev) (chunks_of (length data) (Z.to_nat (rh_psize rh)) data)).

(* las.<dim>[i] = v through the map: the bytes `bs` of the (byte-aligned) field that holds the
   dimension, at byte `o` of record `i`, are stored in place *)
Definition mmap_set (f : list Z) (off ps i o : Z) (bs : list Z) : list Z := write_at f (off + i * ps + o) bs.
(* las.<dim> = values / las[<dim>] = values / las.<dim>[:] = values through the map: one value per record, from record i on *)
Fixpoint mmap_set_from (f : list Z) (off ps i o : Z) (vals : list (list Z)) : list Z :=
  match vals with
  | [] => f
  | bs :: more => mmap_set_from (mmap_set f off ps i o bs) off ps (i + 1) o more
  end.
Definition mmap_set_dim (f : list Z) (off ps o : Z) (vals : list (list Z)) : list Z := mmap_set_from f off ps 0 o vals.

(* ------------------------------------------------------------------------------------ *)
(* the files the independence theorems speak about                                       *)
(* ------------------------------------------------------------------------------------ *)
(* every point the header announces is in the file *)
Definition points_present (f : list Z) (rh : rheader) : Prop :=
  rh_offset rh + Z.max 0 (h_count rh) * rh_psize rh <= len f.
(* f is a byte string whose header parses to rh (EVLRs not looked at), uncompressed, with all its points *)
Definition laid_out (f : list Z) (rh : rheader) : Prop :=
  dec_header f false = Ok rh /\ bytes_ok f = true /\ rh_compressed rh = false /\ 0 < rh_psize rh /\ points_present f rh.
(* the file has EVLRs to fetch: the only case in which the library has to know whether the source can seek *)
Definition needs_evlrs (rh : rheader) : bool := (h_minor rh >=? 4) && (h_nev rh >? 0).
(* EVLRs are loaded when the file is opened iff that was asked for and the source can seek (or there is nothing to load) *)
Definition loads_at_open (c : caps) (e : bool) (rh : rheader) : bool := e && (can_seek c || negb (needs_evlrs rh)).
(* the first EVLR starts right after the last point: what every file written by laspy satisfies *)
Definition evlrs_adjacent (rh : rheader) : Prop :=
  h_minor rh >= 4 -> h_nev rh > 0 -> h_evstart rh = rh_offset rh + Z.max 0 (h_count rh) * rh_psize rh.
(* the first EVLR starts at or after the end of the points: bytes may lie between them (waveform packets, padding). A source
   that cannot seek reads and drops them; one that can seeks over them *)
Definition evlrs_after_points (rh : rheader) : Prop :=
  h_minor rh >= 4 -> h_nev rh > 0 -> rh_offset rh + Z.max 0 (h_count rh) * rh_psize rh <= h_evstart rh.
(* the file was cut inside its point block after a whole number of records (an interrupted copy): `stored` records, fewer
   than the header announces, and nothing after them *)
Definition truncated (f : list Z) (rh : rheader) (stored : Z) : Prop :=
  dec_header f false = Ok rh /\ bytes_ok f = true /\ rh_compressed rh = false /\ 0 < rh_psize rh
  /\ 0 <= stored < h_count rh /\ len f = rh_offset rh + stored * rh_psize rh.

(* ------------------------------------------------------------------------------------ *)
(* sources that return short counts                                                      *)
(* ------------------------------------------------------------------------------------ *)
(* ONE call of read(n) / readinto(buffer of n bytes) on a raw stream, a socket, an unbuffered pipe may give FEWER bytes
   than asked although more are left — but at least one when one is left. `cap` is what this call is able to give (a cap
   below 1 counts as 1); read(n < 0) gives everything (RawIOBase.readall). With n <= cap the call is s_read / s_readinto:
   the sources of the model above are those whose calls are never capped. *)
Definition short_take (cap n : Z) (s : stream) : list Z :=
  if n <? 0 then avail s else firstn (Z.to_nat (Z.min n (Z.max 1 cap))) (avail s).
Definition s_read_short (cap n : Z) (s : stream) : list Z * stream :=
  let data := short_take cap n s in
  (data, mkSt (st_bytes s) (st_pos s + len data) (st_log s ++ [ORead n])).
Definition s_readinto_short (cap n : Z) (s : stream) : list Z * stream :=
  let data := short_take cap (Z.max 0 n) s in
  (data, mkSt (st_bytes s) (st_pos s + len data) (st_log s ++ [OReadInto n])).

(* what a reader has to do to get n bytes from such a source: ask again for what is still missing, until the n bytes are
   there or a call gives nothing (the end of the data). `caps`: what the successive calls are able to give (once the list
   is used up the calls are complete). `into`: through readinto (slices of one buffer) instead of read. *)
Fixpoint s_read_exact (fuel : nat) (into : bool) (caps : list Z) (n : Z) (s : stream) : list Z * stream :=
  match fuel with
  | O => ([], s)
  | S fu =>
      if n <=? 0 then ([], s) else
      let cap := match caps with [] => n | c :: _ => c end in
      let '(d, s1) := if into then s_readinto_short cap n s else s_read_short cap n s in
      if len d =? 0 then ([], s1) else
      let '(d2, s2) := s_read_exact fu into (tl caps) (n - len d) s1 in
      (d ++ d2, s2)
  end.
(* each call that is made gives at least one byte, or is the last: n + 1 calls are always enough *)
Definition read_exact (into : bool) (caps : list Z) (n : Z) (s : stream) : list Z * stream :=
  s_read_exact (S (Z.to_nat n)) into caps n s.
Definition is_read_call (o : sop) : bool := match o with ORead _ | OReadInto _ => true | _ => false end.

(* ------------------------------------------------------------------------------------ *)
(* the point format a header shows                                                       *)
(* ------------------------------------------------------------------------------------ *)
(* LasHeader.read_from builds header.point_format - the dimensions of the records, their names, types and sizes - from the
   point format id, the record size and the FIRST Extra Bytes record among the VLRs (user id "LASF_Spec", record id 4, a
   whole number of 192-byte descriptors: what laspy parses into an ExtraBytesVlr); bytes of the record that nothing
   describes become one opaque dimension. It is decided before the EVLRs are looked at, and nothing that loads EVLRs later
   (LasHeader.read_evlrs, LasReader.read, LasMMAP) touches it: the shapes gen_format_* of Gen/GenAccess.v. A record of
   that type stored among the EVLRs (LAS 1.4 allows it) is an EVLR like any other. *)
Definition LASF_SPEC : list Z := [76; 65; 83; 70; 95; 83; 112; 101; 99].      (* "LASF_Spec" *)
Definition EXTRA_BYTES_RECORD_ID : Z := 4.
Definition EXTRA_BYTES_DESCRIPTOR : Z := 192.
Definition is_extra_bytes_record (v : vlr) : bool :=
  list_eqb (v_uid v) LASF_SPEC && (v_rid v =? EXTRA_BYTES_RECORD_ID) && (len (v_data v) mod EXTRA_BYTES_DESCRIPTOR =? 0).
(* what the point format is a function of: (format id, record size, the descriptors of the extra dimensions if any) *)
Definition format_of (rh : rheader) : Z * Z * option (list Z) :=
  (rh_fmt rh, rh_psize rh, option_map v_data (find is_extra_bytes_record (rh_vlrs rh))).
