(* C14 - the compression glue of laspy around an ABSTRACT LAZ backend.  Definitions only (proofs: Proofs/LazProofs.v,
   LazBackendProofs.v, LazContract.v, LazWitness.v).

   What is modelled: the compress decision (functions translated from LasWriter.__init__, open_las, LasData.write:
   Gen/GenC14.v), the compressed bit (Gen/GenFormatBits.v), the travel of the LasZip record through VLR lists
   (writer / reader / re-writing, with the shape of the statements checked by the translator), and the layout of a
   compressed file as the writer, the reader and the appender of laspy produce / consume it: the header codec and the
   (E)VLR codec of Model/Las.v around an opaque payload produced by the backend.
   What is NOT modelled: the codec itself.  Section Backend takes the backend as variables; `conforming` (below) is the
   backend contract; Proofs/LazContract.v uses its clauses as hypotheses of a closed Section, so every theorem is
   universally quantified over conforming backends.  A real stream may hold absolute file offsets (the chunk table
   offset): a backend here is the backend specialised to the data offset of the file at hand, which is one and the same
   for all the files a single theorem speaks about. *)
From Coq Require Import String.
From Coq Require Import ZArith List Bool.
From LasV Require Import Lib.Base Lib.Layout Gen.GenHeaderLayout Gen.GenFormatBits Gen.GenDims Gen.GenC14 Model.Las Model.LasSpec.
Import ListNotations.
Open Scope list_scope.
Open Scope Z_scope.

(* ------------------------------------------------------------------------------------ *)
(* 1. the decision                                                                       *)
(* ------------------------------------------------------------------------------------ *)
(* the documented rule: an explicit do_compress wins; otherwise a path's ".laz" extension (any letter case);
   otherwise, for a stream, "a backend was passed" *)
Definition rule (do_compress : option bool) (is_path ext_is_laz backend_given : bool) : bool :=
  match do_compress with
  | Some b => b
  | None => if is_path then ext_is_laz else backend_given
  end.

(* ".laz" in any letter case, over character codes *)
Definition ci (c lower : Z) : bool := (c =? lower) || (c =? lower - 32).
Definition ext_is_laz (suffix : list Z) : bool :=
  match suffix with
  | [d; l; a; z] => (d =? 46) && ci l 108 && ci a 97 && ci z 122
  | _ => false
  end.

(* laspy.open(dest, mode="w", do_compress=.., laz_backend=..) -> LasWriter *)
Definition decide_open (is_path is_bytes : bool) (suffix : list Z) (dc : option bool) (backend_given : bool) : bool :=
  gen_writer_decision backend_given (gen_open_decision is_path is_bytes suffix dc).
(* LasData.write(dest, do_compress=.., laz_backend=..) -> _write_to -> LasWriter *)
Definition decide_lasdata (is_path : bool) (suffix : list Z) (dc : option bool) (backend_given : bool) : bool :=
  gen_writer_decision backend_given (gen_lasdata_decision is_path suffix dc).
(* LasWriter(stream, header, do_compress=.., laz_backend=..) *)
Definition decide_writer (dc : option bool) (backend_given : bool) : bool := gen_writer_decision backend_given dc.

(* ------------------------------------------------------------------------------------ *)
(* 2. the LasZip record in VLR lists                                                     *)
(* ------------------------------------------------------------------------------------ *)
(* a record is THE LasZip record when vlr_factory would build a LasZipVlr from it: user id and record id *)
Definition is_laszip (v : vlr) : bool := list_eqb (v_uid v) laszip_user_id && (v_rid v =? laszip_record_id).
Definition mk_laszip (data : list Z) : vlr := mkVlr laszip_user_id laszip_record_id laszip_description data.

(* list.pop(list.index(..)): the FIRST one only *)
Fixpoint remove_first {A} (p : A -> bool) (l : list A) : list A :=
  match l with
  | [] => []
  | x :: r => if p x then r else x :: remove_first p r
  end.
Definition count_lz (l : list vlr) : Z := len (filter is_laszip l).

(* LasWriter.__init__ (private deep copy, pop) then the point writer's write_initial_header_and_vlrs (append) *)
Definition writer_vlrs (user : list vlr) (compress : bool) (data : list Z) : list vlr :=
  (if gen_writer_strips_laszip then remove_first is_laszip user else user)
  ++ (if compress && gen_writer_appends_laszip then [mk_laszip data] else []).
(* LasReader.__init__: the header just read, before any point source exists *)
Definition reader_open_vlrs (file_vlrs : list vlr) (compressed : bool) (count : Z) : list vlr :=
  if compressed && (count =? 0) && gen_reader_pops_laszip_when_empty then remove_first is_laszip file_vlrs else file_vlrs.
(* the lazily created point source (first read_points / seek / read of a non-empty file) *)
Definition reader_touch_vlrs (held : list vlr) (compressed : bool) (count : Z) : list vlr :=
  if compressed && (count >? 0) && gen_reader_pops_laszip then remove_first is_laszip held else held.

(* histories: the VLR list of the header object the user holds, the reader it may come from, the last file written *)
Record vstate := mkV { u_held : list vlr; r_comp : bool; r_count : Z; r_lazy : bool;
                       f_vlrs : list vlr; f_comp : bool; f_count : Z }.
Inductive vop :=
| VWrite (compress : bool) (count : Z) (data : list Z)   (* write what is held (header + `count` points) to a new file *)
| VOpen                                                   (* open the last file: the user now holds the reader's header *)
| VTouch                                                  (* that reader creates its point source *)
| VAdd (v : vlr).                                         (* the user appends a record of his own (never a LasZip one) *)

Definition vstep (s : vstate) (op : vop) : vstate :=
  match op with
  | VWrite c n d => mkV (u_held s) (r_comp s) (r_count s) (r_lazy s) (writer_vlrs (u_held s) c d) c n
  | VOpen => mkV (reader_open_vlrs (f_vlrs s) (f_comp s) (f_count s)) (f_comp s) (f_count s) true
                 (f_vlrs s) (f_comp s) (f_count s)
  | VTouch => if r_lazy s
              then mkV (reader_touch_vlrs (u_held s) (r_comp s) (r_count s)) (r_comp s) (r_count s) false
                       (f_vlrs s) (f_comp s) (f_count s)
              else s
  | VAdd v => if is_laszip v then s
              else mkV (u_held s ++ [v]) (r_comp s) (r_count s) (r_lazy s) (f_vlrs s) (f_comp s) (f_count s)
  end.
Definition vrun (s : vstate) (ops : list vop) : vstate := fold_left vstep ops s.
(* a fresh header: no LasZip record, no reader behind it, nothing written yet *)
Definition vinit (user : list vlr) : vstate := mkV user false 0 false [] false 0.

(* ------------------------------------------------------------------------------------ *)
(* 3. files around an opaque payload                                                     *)
(* ------------------------------------------------------------------------------------ *)
(* header.write_to: the id is written with the compressed bit when are_points_compressed *)
Definition hc (h : assoc) : assoc :=
  aset h "point_format_id" (VInt (uncompressed_id_to_compressed (aint h "point_format_id"))).

Definition lz_set_ev (st : stats) (e k : Z) : stats := mkS (s_count st) (s_max st) (s_min st) (s_ret st) e k.
Definition nonempty {A} (c : list A) : bool := match c with [] => false | _ => true end.

Record lazfile := mkLZ { lz_h : rheader; lz_points : list (list Z) }.

Definition with_vlrs (rh : rheader) (vl : list vlr) (ev : option (list vlr)) : rheader :=
  mkRH (rh_fields rh) vl ev (rh_fmt rh) (rh_compressed rh) (rh_psize rh) (rh_offset rh).

Inductive pop := PRead (n : Z) | PSeek (i : Z).

Section Backend.
  Variable ap : Z -> Z -> Z -> Z.
  (* LazVlr.new_for_compression(format id, number of extra bytes).record_data() *)
  Variable lzdata : Z -> Z -> list Z.
  (* the finished stream (everything the compressor put on the destination, done() included) *)
  Variable cst : Type.
  Variable c_new : list Z -> cst.
  Variable c_feed : cst -> list (list Z) -> cst.
  Variable c_done : cst -> list Z.
  (* the appender: record data, the bytes from the start of the point data to the end of the file *)
  Variable a_open : bool -> list Z -> list Z -> result cst.
  (* the decompressor: parallel?, source seekable?, record data, the bytes from the start of the point data on *)
  Variable dst : Type.
  Variable d_open : bool -> bool -> list Z -> list Z -> result dst.
  Variable d_read : dst -> Z -> result (dst * list (list Z)).
  Variable d_seek : dst -> Z -> result dst.
  (* serial decompressor on a non-seekable source, all points consumed: read_chunk_table_only(), then every
     byte that follows (read_raw_bytes) *)
  Variable d_rest : dst -> result (list Z).

  (* the one-shot file around a payload; `file_of` of Model/Las.v is the instance payload = concat recs *)
  Definition gfile (h : assoc) (vl : list vlr) (fmt : Z) (recs : list (list Z)) (evl : list vlr) (payload : list Z)
    : result (list Z) :=
    do hb0 <- enc_header (with_stats h stats0) vl false;
    let off := len (snd hb0) in
    do eb <- enc_vlrs true evl;
    let st := stats_of ap fmt h recs in
    let st := match evl with [] => st | _ => lz_set_ev st (off + len payload) (len evl) end in
    do hb <- enc_header (with_stats (fst hb0) st) vl true;
    Ok (snd hb ++ payload ++ eb).

  Definition gfinal_hdr (h : assoc) (vl : list vlr) (fmt : Z) (recs : list (list Z)) (evl : list vlr) (payload : list Z)
    : result assoc :=
    do hb0 <- enc_header (with_stats h stats0) vl false;
    let off := len (snd hb0) in
    do eb <- enc_vlrs true evl;
    let st := stats_of ap fmt h recs in
    let st := match evl with [] => st | _ => lz_set_ev st (off + len payload) (len evl) end in
    do hb <- enc_header (with_stats (fst hb0) st) vl true;
    Ok (fst hb).

  (* the LasZip record the LAZ point writer creates for a header *)
  Definition lzd (h : assoc) (fmt : Z) : list Z :=
    lzdata fmt (aint h "point_size" - match std_size fmt with Some s => s | None => 0 end).

  (* the stream of a whole record sequence *)
  Definition enc (d : list Z) (recs : list (list Z)) : list Z :=
    match recs with [] => c_done (c_new d) | _ => c_done (c_feed (c_new d) recs) end.

  (* the compressed file, as a pure function of the data *)
  Definition laz_file_of (h : assoc) (vl : list vlr) (fmt : Z) (recs : list (list Z)) (evl : list vlr) : result (list Z) :=
    gfile (hc h) (writer_vlrs vl true (lzd h fmt)) fmt recs evl (enc (lzd h fmt) recs).
  Definition laz_final_hdr (h : assoc) (vl : list vlr) (fmt : Z) (recs : list (list Z)) (evl : list vlr) : result assoc :=
    gfinal_hdr (hc h) (writer_vlrs vl true (lzd h fmt)) fmt recs evl (enc (lzd h fmt) recs).

  (* an accepted streaming session of the compressing LasWriter: chunks (empty ones are skipped before the point
     writer is reached), optional EVLRs, close.  Refusals are decided before the point writer and are C04's. *)
  Definition lz_session (h : assoc) (vl : list vlr) (fmt : Z) (chunks : list (list (list Z))) (evl : list vlr)
    : result (list Z) :=
    if negb (compat (aint h "version.major") (aint h "version.minor") fmt) then Err ELaspy else
    if nonempty evl && (aint h "version.minor" <? 4) then Err ELaspy else
    let d := lzd h fmt in
    let vl' := writer_vlrs vl true d in
    do hb0 <- enc_header (with_stats (hc h) stats0) vl' false;
    let cs := filter nonempty chunks in
    let st := fold_left (grow ap fmt (fst hb0)) cs stats0 in
    let payload := c_done (fold_left c_feed cs (c_new d)) in
    do eb <- enc_vlrs true evl;
    let st := match evl with [] => st | _ => lz_set_ev st (len (snd hb0) + len payload) (len evl) end in
    let st := if s_count st =? 0 then zero_extrema st else st in
    do hb <- enc_header (with_stats (fst hb0) st) vl' true;
    Ok (snd hb ++ payload ++ eb).

  (* LasReader._create_laz_backend: the first backend that constructs wins; the last error otherwise *)
  Fixpoint select (backends : list bool) (seekable : bool) (d src : list Z) (last : err) : result dst :=
    match backends with
    | [] => Err last
    | p :: r => match d_open p seekable d src with
                | Ok s => Ok s
                | Err e => select r seekable d src e
                end
    end.

  Definition laz_source (backends : list bool) (seekable : bool) (rh : rheader) (src : list Z) : result dst :=
    match backends with
    | [] => Err ELaspy
    | _ => match find is_laszip (rh_vlrs rh) with
           | None => Err EValue
           | Some lz => select backends seekable (v_data lz) (skipn (Z.to_nat (rh_offset rh)) src) EOther
           end
    end.

  (* laspy.read of a seekable source *)
  Definition read_laz (backends : list bool) (src : list Z) : result lazfile :=
    do rh <- dec_header src true;
    let cnt := aint (rh_fields rh) "point_count" in
    let comp := rh_compressed rh in
    let held := reader_open_vlrs (rh_vlrs rh) comp cnt in
    if cnt <=? 0 then Ok (mkLZ (with_vlrs rh held (rh_evlrs rh)) [])
    else if comp then
      do s <- laz_source backends true rh src;
      do r <- d_read s cnt;
      Ok (mkLZ (with_vlrs rh (reader_touch_vlrs held comp cnt) (rh_evlrs rh)) (snd r))
    else
      do recs <- read_records src (rh_offset rh) (rh_psize rh) 0 cnt;
      Ok (mkLZ (with_vlrs rh held (rh_evlrs rh)) recs).

  (* laspy.read of a NON-seekable source: EVLRs cannot be fetched while opening; they are taken from what
     follows the points.  For a compressed file that needs the serial decompressor's buffered tail.  (An empty
     compressed file with EVLRs: the implementation has no backend object then and refuses - known finding; the model
     describes the repaired behaviour, where the decompressor is created for the sake of the EVLRs.) *)
  Definition read_laz_ns (backends : list bool) (src : list Z) : result lazfile :=
    do rh <- dec_header src false;
    let h := rh_fields rh in
    let cnt := aint h "point_count" in
    let comp := rh_compressed rh in
    let nev := aint h "number_of_evlrs" in
    let want_ev := (aint h "version.minor" >=? 4) && (nev >? 0) in
    let no_ev := if aint h "version.minor" >=? 4 then Some [] else None in
    let held := reader_open_vlrs (rh_vlrs rh) comp cnt in
    if comp then
      if (cnt <=? 0) && negb want_ev then Ok (mkLZ (with_vlrs rh held no_ev) [])
      else
        do s <- laz_source backends false rh src;
        do r <- (if cnt <=? 0 then Ok (s, []) else d_read s cnt);
        let held' := if cnt <=? 0 then held else reader_touch_vlrs held comp cnt in
        if want_ev then
          do tail <- d_rest (fst r);
          do v <- dec_vlrs true (Z.to_nat nev) tail;
          Ok (mkLZ (with_vlrs rh held' (Some (fst v))) (snd r))
        else Ok (mkLZ (with_vlrs rh held' no_ev) (snd r))
    else
      do recs <- (if cnt <=? 0 then Ok [] else read_records src (rh_offset rh) (rh_psize rh) 0 cnt);
      if want_ev then
        do v <- dec_vlrs true (Z.to_nat nev) (skipn (Z.to_nat (rh_offset rh + cnt * rh_psize rh)) src);
        Ok (mkLZ (with_vlrs rh held (Some (fst v))) recs)
      else Ok (mkLZ (with_vlrs rh held no_ev) recs).

  (* the point source under the reader's cursor (C05 proves the cursor only asks for slices inside the file and keeps
     the source where it believes it is): one step of the compressed / the uncompressed source *)
  Definition laz_pstep (s : dst) (op : pop) : dst * result (list (list Z)) :=
    match op with
    | PRead n => match d_read s n with Ok (s', r) => (s', Ok r) | Err e => (s, Err e) end
    | PSeek i => match d_seek s i with Ok s' => (s', Ok []) | Err e => (s, Err e) end
    end.
  Definition las_pstep (src : list Z) (off ps : Z) (c : Z) (op : pop) : Z * result (list (list Z)) :=
    match op with
    | PRead n => (c + n, read_records src off ps c n)
    | PSeek i => (i, Ok [])
    end.
  Definition spec_pstep (recs : list (list Z)) (c : Z) (op : pop) : Z * result (list (list Z)) :=
    match op with
    | PRead n => (c + n, Ok (firstn (Z.to_nat n) (skipn (Z.to_nat c) recs)))
    | PSeek i => (i, Ok [])
    end.
  Definition prun {S} (step : S -> pop -> S * result (list (list Z))) (s : S) (ops : list pop)
    : S * list (result (list (list Z))) :=
    fold_left (fun acc op => let '(s', o) := step (fst acc) op in (s', snd acc ++ [o])) ops (s, []).
  (* histories the cursor can produce on a file of `total` points *)
  Fixpoint ops_ok (total c : Z) (ops : list pop) : bool :=
    match ops with
    | [] => true
    | PRead n :: r => (0 <=? n) && (c + n <=? total) && ops_ok total (c + n) r
    | PSeek i :: r => (0 <=? i) && (i <=? total) && ops_ok total i r
    end.

  (* an accepted session of LasAppender on a compressed file: chunks (empty ones skipped), close *)
  Definition lz_astep (fmt : Z) (g : assoc) (st : stats) (c : list (list Z)) : stats :=
    match c with
    | [] => st
    | _ => grow ap fmt g (if s_count st =? 0 then reset_extrema st else st) c
    end.

  Definition lz_arun (parallel : bool) (src : list Z) (chunks : list (list (list Z))) : result (list Z) :=
    do rh <- dec_header src false;
    let h := rh_fields rh in
    let st := stats_of_header h in
    let off := rh_offset rh in
    match find is_laszip (rh_vlrs rh) with
    | None => Err ELaspy
    | Some lz =>
      match a_open parallel (v_data lz) (skipn (Z.to_nat off) src) with
      | Err _ => Err ELaspy
      | Ok cs0 =>
        do evl <- (if (aint h "version.minor" >=? 4) && (s_nevlr st >? 0) then
                     do r <- dec_vlrs true (Z.to_nat (s_nevlr st)) (skipn (Z.to_nat (s_evlr_start st)) src);
                     Ok (Some (fst r))
                   else Ok None);
        let cs := filter nonempty chunks in
        let st1 := fold_left (lz_astep (rh_fmt rh) h) cs st in
        let payload := c_done (fold_left c_feed cs cs0) in
        let '(st2, tail) :=
          match evl with
          | Some (e :: es) =>
              match enc_vlrs true (e :: es) with
              | Ok eb => (lz_set_ev st1 (off + len payload) (s_nevlr st1), eb)
              | Err _ => (st1, [])
              end
          | _ => (st1, [])
          end in
        do hb <- enc_header (with_stats h st2) (rh_vlrs rh) true;
        let body := payload ++ tail in
        Ok (snd hb ++ body ++ skipn (length body) (skipn (Z.to_nat off) src))
      end
    end.
End Backend.

(* ------------------------------------------------------------------------------------ *)
(* 4. a backend as one object, and the contract it has to honour                         *)
(* ------------------------------------------------------------------------------------ *)
Record backend := mkB {
  b_lzdata : Z -> Z -> list Z;
  b_cst : Type; b_new : list Z -> b_cst; b_feed : b_cst -> list (list Z) -> b_cst; b_done : b_cst -> list Z;
  b_aopen : bool -> list Z -> list Z -> result b_cst;
  b_dst : Type; b_dopen : bool -> bool -> list Z -> list Z -> result b_dst;
  b_read : b_dst -> Z -> result (b_dst * list (list Z)); b_seek : b_dst -> Z -> result b_dst;
  b_rest : b_dst -> result (list Z)
}.

Definition B_enc (B : backend) := enc (b_cst B) (b_new B) (b_feed B) (b_done B).
Definition B_lzd (B : backend) := lzd (b_lzdata B).
Definition B_file_of ap (B : backend) := laz_file_of ap (b_lzdata B) (b_cst B) (b_new B) (b_feed B) (b_done B).
Definition B_final_hdr ap (B : backend) := laz_final_hdr ap (b_lzdata B) (b_cst B) (b_new B) (b_feed B) (b_done B).
Definition B_session ap (B : backend) := lz_session ap (b_lzdata B) (b_cst B) (b_new B) (b_feed B) (b_done B).
Definition B_source (B : backend) := laz_source (b_dst B) (b_dopen B).
Definition B_read (B : backend) := read_laz (b_dst B) (b_dopen B) (b_read B).
Definition B_read_ns (B : backend) := read_laz_ns (b_dst B) (b_dopen B) (b_read B) (b_rest B).
Definition B_pstep (B : backend) := laz_pstep (b_dst B) (b_read B) (b_seek B).
Definition B_append ap (B : backend) := lz_arun ap (b_cst B) (b_feed B) (b_done B) (b_aopen B).

(* the backend contract: there are a record length `isz` and an invariant `dpos` ("the decompressor s, opened on
   the (non-)seekable stream of recs for record d followed by tail, stands at record c") such that ... *)
Definition conforming (B : backend) : Prop :=
  exists (isz : list Z -> Z) (dpos : bool -> list Z -> list (list Z) -> list Z -> b_dst B -> Z -> Prop),
  (* the record created for (format, extra bytes) describes records of that length *)
  (forall fmt n std, std_size fmt = Some std -> 0 <= n -> isz (b_lzdata B fmt n) = std + n)
  (* chunked feeding = one-shot feeding (done() included: the destination ends where the stream ends) *)
  /\ (forall d chunks, recs_ok (isz d) (concat chunks) = true -> Forall (fun c => c <> []) chunks ->
        b_done B (fold_left (b_feed B) chunks (b_new B d)) = B_enc B d (concat chunks))
  (* a decompressor that constructs on a finished stream stands at record 0, whatever follows the stream *)
  /\ (forall p sk d recs tail s, recs_ok (isz d) recs = true ->
        b_dopen B p sk d (B_enc B d recs ++ tail) = Ok s -> dpos sk d recs tail s 0)
  (* the serial variant always constructs, the parallel one at least on seekable sources *)
  /\ (forall sk d recs tail, recs_ok (isz d) recs = true -> is_ok (b_dopen B false sk d (B_enc B d recs ++ tail)) = true)
  /\ (forall d recs tail, recs_ok (isz d) recs = true -> is_ok (b_dopen B true true d (B_enc B d recs ++ tail)) = true)
  (* dec n (enc rs) = rs, from any position, in any number of calls *)
  /\ (forall sk d recs tail s c n, dpos sk d recs tail s c -> 0 <= n -> c + n <= len recs ->
        exists s', b_read B s n = Ok (s', firstn (Z.to_nat n) (skipn (Z.to_nat c) recs)) /\ dpos sk d recs tail s' (c + n))
  (* seek i then read yields skipn i *)
  /\ (forall sk d recs tail s c i, dpos sk d recs tail s c -> 0 <= i <= len recs ->
        exists s', b_seek B s i = Ok s' /\ dpos sk d recs tail s' i)
  (* non-seekable source, all points consumed: the chunk table is skipped and the rest of the source obtained *)
  /\ (forall d recs tail s, dpos false d recs tail s (len recs) -> b_rest B s = Ok tail)
  (* the appender continues a finished stream *)
  /\ (forall p d A tail, recs_ok (isz d) A = true ->
        exists s, b_aopen B p d (B_enc B d A ++ tail) = Ok s
          /\ forall Bs, recs_ok (isz d) (concat Bs) = true -> Forall (fun c => c <> []) Bs ->
               b_done B (fold_left (b_feed B) Bs s) = B_enc B d (A ++ concat Bs)).

(* what is asked of the data handed to the compressing writer, on top of wf_las (which speaks about the
   uncompressed file of the same data): the final compressed header is well-formed too (in particular the LasZip
   record fits a VLR), the caller's list holds no LasZip record, the header carries the plain format id *)
Definition wf_laz ap (B : backend) (h : assoc) (vl : list vlr) (fmt : Z) (recs : list (list Z)) (evl : list vlr) : Prop :=
  exists h', B_final_hdr ap B h vl fmt recs evl = Ok h'
    /\ wf_header h' (writer_vlrs vl true (B_lzd B h fmt)) = true
    /\ count_lz vl = 0 /\ aint h "point_format_id" = fmt /\ 0 <= fmt < 64.

(* the header fields that legitimately differ between the two files *)
Definition layout_field (n : string) : bool :=
  String.eqb "offset_to_point_data" n || String.eqb "header_size" n || String.eqb "number_of_vlrs" n
  || String.eqb "point_format_id" n || String.eqb "start_of_first_evlr" n.

(* which backend selections can serve a source: any non-empty one when it is seekable; one that holds the
   serial variant when it is not (the parallel one may refuse: the loop then falls back) *)
Definition backends_ok (backends : list bool) (seekable : bool) : Prop :=
  if seekable then backends <> [] else In false backends.

(* ------------------------------------------------------------------------------------ *)
(* 5. a small concrete backend: plain storage behind a unary record count.              *)
(*    Proofs/LazWitness.v proves it `conforming`: the contract is satisfiable.           *)
(* ------------------------------------------------------------------------------------ *)
(* record data = as many zero bytes as a record is long; stream = 1 1 ... 1 0 <records> *)
Definition store_frame (recs : list (list Z)) : list Z := repeat 1 (length recs) ++ 0 :: concat recs.
Fixpoint count_ones (bs : list Z) : nat :=
  match bs with b :: r => if b =? 1 then S (count_ones r) else O | [] => O end.
Fixpoint take_recs (n ps : nat) (bs : list Z) : list (list Z) :=
  match n with O => [] | S k => firstn ps bs :: take_recs k ps (skipn ps bs) end.
Definition store_parse (d src : list Z) : list (list Z) * list Z :=
  let n := count_ones src in
  let ps := length d in
  let body := skipn (S n) src in
  (take_recs n ps body, skipn (n * ps) body).

Definition store_backend : backend :=
  mkB (fun fmt n => repeat 0 (Z.to_nat (match std_size fmt with Some s => s | None => 0 end + n)))
      (list (list Z)) (fun _ => []) (fun s c => s ++ c) store_frame
      (fun _ d src => Ok (fst (store_parse d src)))
      (list (list Z) * Z * list Z)%type
      (fun p sk d src => if p && negb sk then Err EOther else let '(rs, t) := store_parse d src in Ok (rs, 0, t))
      (fun s n => let '(rs, c, t) := s in
                  if (0 <=? n) && (c + n <=? len rs) then Ok ((rs, c + n, t), firstn (Z.to_nat n) (skipn (Z.to_nat c) rs)) else Err EOther)
      (fun s i => let '(rs, c, t) := s in if (0 <=? i) && (i <=? len rs) then Ok (rs, i, t) else Err EOther)
      (fun s => let '(rs, c, t) := s in if c =? len rs then Ok t else Err EOther).
