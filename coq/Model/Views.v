(* C10: dimension views (laspy/point/dims.py ArrayView, SubFieldView, ScaledArrayView).
   The structure of the three classes is Gen/GenViews.v (read from the AST by tools/py2v_c10.py): which operator is
   routed where, the shape of SubFieldView._do_comparison, of ScaledArrayView.max/min/__getitem__.  The functions below
   interpret those tables, so a change of the source changes the objects the theorems of Props/C10.v are about.

   numpy itself is not modelled beyond
     - integer comparison of the elements of a uint8 array with an integer constant / an integer array,
     - basic and advanced indexing of 1-D and 2-D arrays for the index forms listed in the property (np_index),
     - whole-array max/min as a fold over a total order;
   everything else numpy computes is an abstract parameter (np_binop, the function applied by __array_function__). *)
From Coq Require Import String.
From Coq Require Import ZArith List Bool.
From LasV Require Import Lib.Base Gen.GenFormatBits Gen.GenDims Gen.GenViews Model.SubField.
Import ListNotations.
Open Scope list_scope.
Open Scope Z_scope.

(* ------------------------------------------------------------------------------------------------ *)
(* 1. operator routing (python method resolution over the generated tables)                          *)
(* ------------------------------------------------------------------------------------------------ *)
Definition all_ops : list vbinop := [OpLt; OpLe; OpGt; OpGe; OpEq; OpNe; OpAdd; OpSub; OpMul; OpTrueDiv; OpFloorDiv].

Definition dunder (op : vbinop) : string :=
  match op with
  | OpLt => "__lt__" | OpLe => "__le__" | OpGt => "__gt__" | OpGe => "__ge__" | OpEq => "__eq__" | OpNe => "__ne__"
  | OpAdd => "__add__" | OpSub => "__sub__" | OpMul => "__mul__" | OpTrueDiv => "__truediv__" | OpFloorDiv => "__floordiv__"
  end%string.

Definition is_ordering (op : vbinop) : bool := match op with OpLt | OpLe | OpGt | OpGe => true | _ => false end.
Definition is_comparison (op : vbinop) : bool := match op with OpLt | OpLe | OpGt | OpGe | OpEq | OpNe => true | _ => false end.

Inductive vclass := CArrayView | CSubField | CScaled.

Definition lookup (t : list (string * vroute)) (n : string) : option vroute :=
  match find (fun p => String.eqb (fst p) n) t with Some p => Some (snd p) | None => None end.

(* the class's own method, else the one inherited from ArrayView *)
Definition route_of (c : vclass) (op : vbinop) : option vroute :=
  let own := match c with
             | CArrayView => Some Inherited
             | CSubField => lookup sfv_ops (dunder op)
             | CScaled => lookup sav_ops (dunder op)
             end in
  match own with
  | Some Inherited => lookup av_ops (dunder op)
  | r => r
  end.

(* max/min: multi = several elements per point, args = called with any argument (axis, keepdims, initial, where, ...) *)
Definition reduce_route (c : vclass) (multi args : bool) (r : vreduce) : red_route :=
  match c with
  | CScaled => let '(m, a, n) := match r with RMax => sav_max | RMin => sav_min end in
               if multi then m else if args then a else n
  | _ => match r with RMax => av_max | RMin => av_min end
  end.

(* does the argument-less max/min of a one-element scaled view test the sign of the scale before answering from the grid? *)
Definition grid_guard (r : vreduce) : bool := match r with RMax => sav_max_grid_guard | RMin => sav_min_grid_guard end.

(* evaluation of `view <op> operand` with numpy's own evaluation of `array <op> operand` abstract:
   a Materialised route hands np.array(view) to numpy, the other routes run the class's own code *)
Section Delegation.
  Variables Arr Opnd Res : Type.
  Variable np_binop : vbinop -> Arr -> Opnd -> Res.

  Definition eval_route (r : vroute) (mat : Arr) (x : Opnd) (own : vbinop -> Res) : option Res :=
    match r with
    | Materialised op => Some (np_binop op mat x)
    | DoComparison op | GridComparison op => Some (own op)
    | Inherited => None
    end.

  Definition view_binop (c : vclass) (op : vbinop) (mat : Arr) (x : Opnd) (own : vbinop -> Res) : option Res :=
    match route_of c op with Some r => eval_route r mat x own | None => None end.
End Delegation.

(* ------------------------------------------------------------------------------------------------ *)
(* 1b. the view as the RIGHT operand of a python object, augmented assignment                        *)
(* ------------------------------------------------------------------------------------------------ *)
(* python evaluates `x <op> view` for a python number / sequence x (whose own method answers NotImplemented) with the
   view's REFLECTED method: for a comparison the mirrored comparison of the view (x < v is v > x, == and != are their own
   mirrors), for arithmetic __r<op>__ - TypeError, i.e. no result, when the class has none.  numpy scalars and arrays on
   the left hand over through __array_ufunc__ (section Convert). *)
Definition mirror (op : vbinop) : vbinop :=
  match op with OpLt => OpGt | OpLe => OpGe | OpGt => OpLt | OpGe => OpLe | o => o end.

Definition rdunder (op : vbinop) : option string :=
  match op with
  | OpAdd => Some "__radd__" | OpSub => Some "__rsub__" | OpMul => Some "__rmul__" | OpTrueDiv => Some "__rtruediv__"
  | OpFloorDiv => Some "__rfloordiv__" | _ => None
  end%string.

Definition lookup_r (t : list (string * rroute)) (n : string) : option rroute :=
  match find (fun p => String.eqb (fst p) n) t with Some p => Some (snd p) | None => None end.

(* the class's own reflected method, else the one inherited from ArrayView *)
Definition reflected_route_of (c : vclass) (op : vbinop) : option rroute :=
  match rdunder op with
  | None => None
  | Some n =>
    let own := match c with
               | CArrayView => Some RAbsent
               | CSubField => lookup_r sfv_rops n
               | CScaled => lookup_r sav_rops n
               end in
    match own with
    | Some RAbsent => lookup_r av_rops n
    | r => r
    end
  end.

Section Reflected.
  Variables Arr Opnd Res : Type.
  Variable np_binop : vbinop -> Arr -> Opnd -> Res.      (* numpy's  array <op> operand *)
  Variable np_rbinop : vbinop -> Opnd -> Arr -> Res.     (* numpy's  operand <op> array *)

  (* `x <op> view`; None = python raises TypeError (no result) *)
  Definition view_on_right (c : vclass) (op : vbinop) (x : Opnd) (mat : Arr) (own : vbinop -> Res) : option Res :=
    if is_comparison op then view_binop Arr Opnd Res np_binop c (mirror op) mat x own
    else match reflected_route_of c op with
         | Some (RSwapped op') => Some (np_rbinop op' x mat)
         | _ => None
         end.

  (* `v <op>= x` on a name bound to a view: no class defines an in-place method, python evaluates v = v <op> x *)
  Definition view_inplace (c : vclass) (op : vbinop) (mat : Arr) (x : Opnd) (own : vbinop -> Res) : option Res :=
    if views_inplace_absent && views_operator_surface_closed then view_binop Arr Opnd Res np_binop c op mat x own else None.
End Reflected.

(* __array_ufunc__ / __array_function__: _convert_array_views_to_array over nested lists/tuples of arguments *)
Section Convert.
  Variables V A X : Type.
  Variable mat : V -> A.
  (* a view of the receiver's class (own = true) or of another view class, a plain array, anything else, a list/tuple *)
  Inductive arg := AView (own : bool) (v : V) | AArr (a : A) | AOther (x : X) | ASeq (l : list arg).

  Fixpoint conv (a : arg) : arg :=
    match a with
    | AView true v => AArr (mat v)
    | ASeq l => ASeq (map conv l)
    | _ => a
    end.

  Fixpoint own_views (a : arg) : nat :=
    match a with
    | AView true _ => 1%nat
    | ASeq l => fold_right (fun x n => (own_views x + n)%nat) 0%nat l
    | _ => 0%nat
    end.

  (* the same expression with every own view replaced by its materialisation, written independently of conv *)
  Fixpoint materialised_expr (a : arg) : arg :=
    match a with
    | AView o v => if o then AArr (mat v) else AView o v
    | AArr x => AArr x
    | AOther x => AOther x
    | ASeq l => ASeq (map materialised_expr l)
    end.

  Variable R : Type.
  Definition array_function (f : list arg -> R) (args : list arg) : option R :=
    if av_function_converts_then_applies && av_convert_recurses_lists_tuples then Some (f (map conv args)) else None.
  Definition array_ufunc (f : list arg -> R) (inputs : list arg) : option R :=
    if av_ufunc_converts_then_applies && av_convert_recurses_lists_tuples then Some (f (map conv inputs)) else None.
End Convert.
Arguments AView {V A X}. Arguments AArr {V A X}. Arguments AOther {V A X}. Arguments ASeq {V A X}.

(* ------------------------------------------------------------------------------------------------ *)
(* 2. SubFieldView comparisons, per element (composed byte b, mask m)                                *)
(* ------------------------------------------------------------------------------------------------ *)
(* right operands: python int, numpy integer scalar of a given width/signedness, python/numpy bool,
   anything that is not an integer scalar (floats, arrays: materialised path, numpy's business) *)
Inductive operand := PyInt (c : Z) | NpInt (bits : Z) (signed : bool) (c : Z) | PyBool (b : bool) | NonInt.

Definition operand_int (x : operand) : option Z :=
  match x with PyInt c => Some c | NpInt _ _ c => Some c | PyBool b => Some (if b then 1 else 0) | NonInt => None end.

Definition wrap (bits : Z) (signed : bool) (v : Z) : Z :=
  let m := v mod 2 ^ bits in if signed && (m >=? 2 ^ (bits - 1)) then m - 2 ^ bits else m.

Definition guard_holds (g : cmp_guard) (x : operand) : bool :=
  match g, x with
  | GuardAlways, _ => true
  | GuardIntNotBool, PyInt _ => true
  | GuardIntNotBool, NpInt _ _ _ => true
  | GuardIntNotBool, _ => false
  end.

Definition sfv_path (x : operand) : cmp_lhs * cmp_rhs :=
  if guard_holds sfv_cmp_guard x then sfv_cmp_fast else sfv_cmp_slow.

Definition cmp_lhs_val (l : cmp_lhs) (m b : Z) : Z :=
  match l with LhsMaskedByte => Z.land b m | LhsField => sf_get m b end.

Definition cmp_rhs_val (r : cmp_rhs) (m : Z) (x : operand) : option Z :=
  match r, x with
  | _, NonInt => None
  | RhsValue, _ => operand_int x
  | RhsPyShift, _ => option_map (fun c => Z.shiftl c (sf_lsb m)) (operand_int x)
  | RhsRawShift, NpInt bits sg c => Some (wrap bits sg (Z.shiftl c (sf_lsb m)))     (* shifted in its own width *)
  | RhsRawShift, _ => option_map (fun c => Z.shiftl c (sf_lsb m)) (operand_int x)
  end.

Definition cmp_bool (op : vbinop) (x y : Z) : option bool :=
  match op with
  | OpLt => Some (x <? y) | OpLe => Some (x <=? y) | OpGt => Some (x >? y) | OpGe => Some (x >=? y)
  | OpEq => Some (x =? y) | OpNe => Some (negb (x =? y))
  | _ => None
  end.

(* what the view's own comparison computes for one point *)
Definition sfv_cmp_elem (m b : Z) (op : vbinop) (x : operand) : option bool :=
  let '(l, r) := sfv_path x in
  match cmp_rhs_val r m x with
  | Some y => cmp_bool op (cmp_lhs_val l m b) y
  | None => None
  end.

(* `view <op> x` for one point, following the route of the operator *)
Definition sfv_binop_elem (m b : Z) (op : vbinop) (x : operand) : option bool :=
  match route_of CSubField op with
  | Some (DoComparison op') => sfv_cmp_elem m b op' x
  | Some (Materialised op') => match operand_int x with Some c => cmp_bool op' (sf_get m b) c | None => None end
  | _ => None
  end.

(* arrays of composed bytes *)
Definition sf_materialise (m : Z) (bs : list Z) : list Z := map (sf_get m) bs.
Definition sfv_binop_arr (m : Z) (bs : list Z) (op : vbinop) (x : operand) : list (option bool) :=
  map (fun b => sfv_binop_elem m b op x) bs.
(* numpy: uint8 array <op> integer constant, element by element, in exact integers *)
Definition np_cmp_const (op : vbinop) (vals : list Z) (c : Z) : list (option bool) := map (fun v => cmp_bool op v c) vals.

(* `x <op> view` with an integer constant on the LEFT: python's mirrored comparison of the view *)
Definition sfv_rbinop_arr (m : Z) (bs : list Z) (op : vbinop) (x : operand) : list (option bool) :=
  sfv_binop_arr m bs (mirror op) x.
(* numpy: integer constant <op> uint8 array *)
Definition np_rcmp_const (op : vbinop) (c : Z) (vals : list Z) : list (option bool) := map (fun v => cmp_bool op c v) vals.

(* an integer array operand is never an `int`: materialised path, element by element *)
Definition sfv_cmp_arrarr (m : Z) (bs : list Z) (op : vbinop) (cs : list Z) : list (option bool) :=
  let '(l, r) := sfv_cmp_slow in
  map (fun p => match cmp_rhs_val r m (PyInt (snd p)) with Some y => cmp_bool op (cmp_lhs_val l m (fst p)) y | None => None end)
      (combine bs cs).
Definition np_cmp_arr (op : vbinop) (vals cs : list Z) : list (option bool) :=
  map (fun p => cmp_bool op (fst p) (snd p)) (combine vals cs).

(* ------------------------------------------------------------------------------------------------ *)
(* 3. selections                                                                                     *)
(* ------------------------------------------------------------------------------------------------ *)
(* numpy resolves a slice, a boolean mask or an index list to positions; the model receives the positions *)
Definition pick {A} (ps : list nat) (l : list A) : list A :=
  flat_map (fun p => match nth_error l p with Some x => [x] | None => [] end) ps.
Definition inb (n : nat) (ps : list nat) : bool := forallb (fun p => Nat.ltb p n) ps.
Definition column {A} (j : nat) (m : list (list A)) : list A :=
  flat_map (fun r => match nth_error r j with Some x => [x] | None => [] end) m.
Definition zip_pick {A} (pj : list (nat * nat)) (m : list (list A)) : list A :=
  flat_map (fun q => match nth_error m (fst q) with
                      | Some r => match nth_error r (snd q) with Some x => [x] | None => [] end
                      | None => []
                      end) pj.

(* SubFieldView.__getitem__: a view of array[item] with the same mask *)
Definition sfv_index (ps : list nat) (bs : list Z) : option (list Z) := if inb (length bs) ps then Some (pick ps bs) else None.
Definition np_index1 {A} (ps : list nat) (l : list A) : option (list A) := if inb (length l) ps then Some (pick ps l) else None.

(* ------------------------------------------------------------------------------------------------ *)
(* 4. scaled views over integer grids                                                                *)
(* ------------------------------------------------------------------------------------------------ *)
Inductive axis := AInt (i : nat) | ASel (ps : list nat).
Inductive index :=
  | IxInt (i : nat)              (* v[i] *)
  | IxSlice (ps : list nat)      (* v[a:b:c] *)
  | IxAdv (ps : list nat)        (* v[mask], v[index list] *)
  | IxRow (r : axis)             (* v[r, ...] *)
  | IxPair (r c : axis)          (* v[r, c], at most one of r, c an index list or mask; v[..., c] is v[:, c] *)
  | IxZip (ps js : list nat).    (* v[rows, cols], both index lists (or a mask and a list): pointwise pairs *)

Section Scaled.
  (* S: scales, O: offsets, F: the values numpy computes; ap s o x stands for (x * s) + o in binary64 *)
  Variables S O F : Type.
  Variable ap : S -> O -> Z -> F.

  Definition ap_row (ss : list S) (os : list O) (r : list Z) : list F :=
    map (fun t => ap (fst (fst t)) (snd (fst t)) (snd t)) (combine (combine ss os) r).

  Inductive sview :=
    | VScalar (f : F)                                    (* a value scaled at once *)
    | VRow (fs : list F)                                 (* a point of a multi-element view scaled at once *)
    | V1 (xs : list Z) (s : S) (o : O)                   (* one element per point: x, y, z, 1-element extra dimensions *)
    | V1p (xs : list Z) (ss : list S) (os : list O)      (* 1-D grid with one scale per position *)
    | V2 (rows : list (list Z)) (ss : list S) (os : list O)    (* points x elements, one scale/offset per element *)
    | VMat (k : nat) (m : list (list F)).                      (* a plain 2-D array of values (never produced by a view) *)

  Inductive nd := Sc (f : F) | A1 (l : list F) | A2 (k : nat) (m : list (list F)).   (* A2: shape (length m, k) *)

  Definition materialise (v : sview) : nd :=
    match v with
    | VScalar f => Sc f
    | VRow fs => A1 fs
    | V1 xs s o => A1 (map (ap s o) xs)
    | V1p xs ss os => A1 (ap_row ss os xs)
    | V2 rows ss os => A2 (length ss) (map (ap_row ss os) rows)
    | VMat k m => A2 k m
    end.

  (* results that are plain values (numpy arrays / scalars), as opposed to views *)
  Definition is_value (v : sview) : bool := match v with VScalar _ | VRow _ | VMat _ _ => true | _ => false end.
  Definition of_nd (a : nd) : sview := match a with Sc f => VScalar f | A1 l => VRow l | A2 k m => VMat k m end.

  (* the views a record hands out *)
  Definition wf (v : sview) : Prop :=
    match v with
    | V1 _ _ _ => True
    | V2 rows ss os => length os = length ss /\ Forall (fun r => length r = length ss) rows
    | _ => False
    end.

  Definition is_multi (v : sview) : bool := match v with V2 _ _ _ => true | _ => false end.

  (* numpy indexing of a plain array, for the index forms of the property *)
  Definition np_index (ix : index) (a : nd) : option nd :=
    match a with
    | Sc _ => None
    | A1 l =>
        match ix with
        | IxInt i | IxRow (AInt i) => option_map Sc (nth_error l i)
        | IxSlice ps | IxAdv ps | IxRow (ASel ps) => if inb (length l) ps then Some (A1 (pick ps l)) else None
        | _ => None                                                     (* too many indices *)
        end
    | A2 k m =>
        match ix with
        | IxInt i | IxRow (AInt i) => option_map A1 (nth_error m i)
        | IxSlice ps | IxAdv ps | IxRow (ASel ps) => if inb (length m) ps then Some (A2 k (pick ps m)) else None
        | IxPair (AInt i) (AInt j) =>
            match nth_error m i with Some r => option_map Sc (nth_error r j) | None => None end
        | IxPair (AInt i) (ASel js) =>
            match nth_error m i with Some r => if inb k js then Some (A1 (pick js r)) else None | None => None end
        | IxPair (ASel ps) (AInt j) =>
            if inb (length m) ps && Nat.ltb j k then Some (A1 (column j (pick ps m))) else None
        | IxPair (ASel ps) (ASel js) =>
            if inb (length m) ps && inb k js then Some (A2 (length js) (map (pick js) (pick ps m))) else None
        | IxZip ps js =>
            if Nat.eqb (length ps) (length js) && inb (length m) ps && inb k js
            then Some (A1 (zip_pick (combine ps js) m)) else None
        end
    end.

  (* ScaledArrayView.__getitem__: the first branch of the generated list whose test accepts the index *)
  Definition gi_cond (multi : bool) (ix : index) (b : gi_branch) : bool :=
    match b, ix with
    | GiIntApply, IxInt _ => true
    | GiSliceKeep, IxSlice _ => true
    | GiPairSliceScales, IxPair _ _ => multi
    | GiPairSliceScales, IxZip _ _ => multi
    | GiOtherKeep, _ => true
    | _, _ => false
    end.
  Definition branch_of (multi : bool) (ix : index) : option gi_branch := find (gi_cond multi ix) sav_getitem.

  (* self._apply_scale(self.array[item]) *)
  Definition gi_int_apply (ix : index) (v : sview) : option sview :=
    match ix, v with
    | IxInt i, V1 xs s o => option_map (fun x => VScalar (ap s o x)) (nth_error xs i)
    | IxInt i, V2 rows ss os => option_map (fun r => VRow (ap_row ss os r)) (nth_error rows i)
    | _, _ => None
    end.

  (* self.__class__(self.array[item], self.scale, self.offset) *)
  Definition gi_keep (ix : index) (v : sview) : option sview :=
    match v with
    | V1 xs s o =>
        match ix with
        | IxInt i | IxRow (AInt i) => option_map (fun x => VScalar (ap s o x)) (nth_error xs i)   (* a 0-d grid, same scale *)
        | IxSlice ps | IxAdv ps | IxRow (ASel ps) => if inb (length xs) ps then Some (V1 (pick ps xs) s o) else None
        | _ => None                                                      (* IndexError from self.array[item] *)
        end
    | V2 rows ss os =>
        match ix with
        | IxInt i | IxRow (AInt i) => option_map (fun r => V1p r ss os) (nth_error rows i)
        | IxSlice ps | IxAdv ps | IxRow (ASel ps) => if inb (length rows) ps then Some (V2 (pick ps rows) ss os) else None
        | _ => None     (* all the scales against a grid that lost elements: not a view of the selected values *)
        end
    | _ => None
    end.

  (* scale, offset = self.scale[item[1]], self.offset[item[1]]; a 0-d selection is scaled at once *)
  Definition gi_pair (ix : index) (v : sview) : option sview :=
    match v with
    | V2 rows ss os =>
        let k := length ss in
        match ix with
        | IxPair (AInt i) (AInt j) =>
            match nth_error rows i with
            | Some r => match nth_error r j, nth_error ss j, nth_error os j with
                        | Some x, Some s, Some o => Some (VScalar (ap s o x))
                        | _, _, _ => None
                        end
            | None => None
            end
        | IxPair (AInt i) (ASel js) =>
            match nth_error rows i with
            | Some r => if inb k js then Some (V1p (pick js r) (pick js ss) (pick js os)) else None
            | None => None
            end
        | IxPair (ASel ps) (AInt j) =>
            if inb (length rows) ps then
              match nth_error ss j, nth_error os j with
              | Some s, Some o => Some (V1 (column j (pick ps rows)) s o)
              | _, _ => None
              end
            else None
        | IxPair (ASel ps) (ASel js) =>
            if inb (length rows) ps && inb k js
            then Some (V2 (map (pick js) (pick ps rows)) (pick js ss) (pick js os)) else None
        | IxZip ps js =>
            if Nat.eqb (length ps) (length js) && inb (length rows) ps && inb k js
            then Some (V1p (zip_pick (combine ps js) rows) (pick js ss) (pick js os)) else None
        | _ => None
        end
    | _ => None
    end.

  (* what the last two branches return: a selection of a multi-element view with fewer than 2 dimensions that carries one
     scale per position is scaled at once (GiValuesPerPosition); before that rule it escaped as a 1-D view *)
  Definition gi_finish (multi : bool) (r : sview) : sview :=
    match sav_getitem_values with
    | GiValuesPerPosition => if multi then match r with V1p xs ss os => VRow (ap_row ss os xs) | _ => r end else r
    | GiValuesScalarPairOnly => r
    end.

  Definition view_index (ix : index) (v : sview) : option sview :=
    match branch_of (is_multi v) ix with
    | Some GiIntApply => gi_int_apply ix v
    | Some GiSliceKeep => gi_keep ix v
    | Some GiPairSliceScales => option_map (gi_finish (is_multi v)) (gi_pair ix v)
    | Some GiOtherKeep => option_map (gi_finish (is_multi v)) (gi_keep ix v)
    | None => None
    end.

  (* a further index on a first-level result: numpy's own on values, the view's on views *)
  Definition step_index (ix : index) (x : sview) : option sview :=
    if is_value x then option_map of_nd (np_index ix (materialise x)) else view_index ix x.
  Fixpoint chain (ixs : list index) (x : sview) : option sview :=
    match ixs with [] => Some x | ix :: r => match step_index ix x with Some y => chain r y | None => None end end.
  Fixpoint np_chain (ixs : list index) (a : nd) : option nd :=
    match ixs with [] => Some a | ix :: r => match np_index ix a with Some b => np_chain r b | None => None end end.

  (* max / min over the whole array *)
  Variable fle : F -> F -> bool.      (* the order numpy's max/min use on the values *)
  Definition fmax2 (a b : F) : F := if fle a b then b else a.
  Definition fmin2 (a b : F) : F := if fle b a then b else a.
  Definition fred (r : vreduce) : F -> F -> F := match r with RMax => fmax2 | RMin => fmin2 end.
  Definition zred (r : vreduce) : Z -> Z -> Z := match r with RMax => Z.max | RMin => Z.min end.
  Definition fold1 {A} (f : A -> A -> A) (l : list A) : option A :=
    match l with [] => None | x :: t => Some (fold_left f t x) end.       (* empty: ValueError *)

  (* whole-array max/min; init = the `initial=` argument (the archetype of an argument expressed in scaled values) *)
  Definition fold_init {A} (f : A -> A -> A) (init : option A) (l : list A) : option A :=
    match init with Some i => Some (fold_left f l i) | None => fold1 f l end.
  Definition np_reduce (r : vreduce) (init : option F) (a : nd) : option F :=
    match a with
    | Sc f => fold_init (fred r) init [f]
    | A1 l => fold_init (fred r) init l
    | A2 _ m => fold_init (fred r) init (concat m)
    end.

  Inductive red_plan :=
    | PlanGrid (f : option F)                 (* self._apply_scale(self.array.<r>()) *)
    | PlanMaterialised (r : vreduce) (init : option F) (a : nd) (* np.array(self).<r>(arguments) *)
    | PlanNone.
  Variable pos : S -> bool.           (* `scale > 0` *)
  Definition reduce_plan (r : vreduce) (init : option F) (v : sview) : red_plan :=
    if is_value v then PlanMaterialised r init (materialise v) else         (* a plain array: numpy's own max/min *)
    let has_args := match init with Some _ => true | None => false end in
    match reduce_route CScaled (is_multi v) has_args r with
    | RedMaterialised r' => PlanMaterialised r' init (materialise v)
    | RedApplyGrid r' =>
        match v, init with
        | V1 xs s o, None =>
            (* the grid route is guarded by `np.all(self.scale > 0)` (grid_guard, generated): a scale that is not positive
               does not keep the order of the stored integers, the view is materialised instead *)
            if pos s || negb (grid_guard r') then PlanGrid (option_map (ap s o) (fold1 (zred r') xs))
            else PlanMaterialised r' init (materialise v)
        | _, _ => PlanNone   (* arguments dropped / one extremum of the grid against several scales: not numpy's answer *)
        end
    | RedApplyGridArgs r' =>
        match v, init with
        | V1 xs s o, None => PlanGrid (option_map (ap s o) (fold1 (zred r') xs))
        | _, _ => PlanNone   (* an argument expressed in scaled values applied to the stored integers *)
        end
    end.
  Definition view_reduce (r : vreduce) (init : option F) (v : sview) : option F :=
    match reduce_plan r init v with
    | PlanGrid f => f
    | PlanMaterialised r' i a => np_reduce r' i a
    | PlanNone => None
    end.
End Scaled.

Arguments VScalar {S O F}. Arguments VRow {S O F}. Arguments V1 {S O F}. Arguments V1p {S O F}. Arguments V2 {S O F}. Arguments VMat {S O F}.
Arguments Sc {F}. Arguments A1 {F}. Arguments A2 {F}.
Arguments PlanGrid {F}. Arguments PlanMaterialised {F}. Arguments PlanNone {F}.

(* ------------------------------------------------------------------------------------------------ *)
(* 5. the optional keywords of a call (out=, where=, dtype=, casting= ...)                           *)
(* ------------------------------------------------------------------------------------------------ *)
(* numpy's elementwise evaluation with out= and where=: a position of the output buffer receives the computed value where
   the mask is True and KEEPS what it held where the mask is False *)
Fixpoint np_where_out {F} (res : list F) (mask : list bool) (out : list F) : list F :=
  match res, mask, out with
  | r :: res', m :: mask', o :: out' => (if m then r else o) :: np_where_out res' mask' out'
  | _, _, _ => []
  end.

Section Keywords.
  (* K: the keyword arguments of the call, whatever they are *)
  Variables V A X K R : Type.
  Variable mat : V -> A.
  (* __array_ufunc__(self, ufunc, method, *inputs, **kwargs) / __array_function__(self, func, types, args, kwargs):
     the positional arguments are converted, the keywords reach the numpy callable as the caller gave them *)
  Definition array_ufunc_kw (f : list (arg V A X) -> K -> R) (inputs : list (arg V A X)) (kw : K) : option R :=
    if av_ufunc_converts_then_applies && av_convert_recurses_lists_tuples && av_ufunc_passes_keywords
    then Some (f (map (conv V A X mat) inputs) kw) else None.
  Definition array_function_kw (f : list (arg V A X) -> K -> R) (args : list (arg V A X)) (kw : K) : option R :=
    if av_function_converts_then_applies && av_convert_recurses_lists_tuples && av_function_passes_keywords
    then Some (f (map (conv V A X mat) args) kw) else None.
End Keywords.

(* np.<ufunc>(view, out=buffer, where=mask) on a sub-field view (composed bytes bs, mask m), g the elementwise function:
   the call numpy evaluates, keywords = (mask, buffer) *)
Definition sfv_ufunc_where {F} (g : Z -> F) (m : Z) (bs : list Z) (mask : list bool) (out : list F) : option (list F) :=
  match array_ufunc_kw (list Z) (list Z) unit (list bool * list F) (option (list F)) (sf_materialise m)
          (fun args kw => match args with
                          | [AArr a] => Some (np_where_out (map g a) (fst kw) (snd kw))
                          | _ => None                 (* a view left among the inputs: numpy dispatches again *)
                          end)
          [AView true bs] (mask, out) with
  | Some r => r
  | None => None
  end.

(* ------------------------------------------------------------------------------------------------ *)
(* 6. several views in one call                                                                      *)
(* ------------------------------------------------------------------------------------------------ *)
(* np.concatenate([a.x, b.x, c.return_number]), np.where(m, a.x, b.x), np.hypot(a.x, b.y) ...: numpy hands the call to the
   class of one of the views among the arguments; that class's __array_function__ / __array_ufunc__ converts the views of
   ITS class (isinstance(arg, self.__class__)) and calls the numpy callable again, which dispatches again as long as a view
   is left.  Every view is materialised by ITSELF: with its own mask, its own scale and offset. *)
Definition same_class (c d : vclass) : bool :=
  match c, d with CArrayView, CArrayView | CSubField, CSubField | CScaled, CScaled => true | _, _ => false end.

Section Dispatch.
  Variables V A X R : Type.
  Variable cls : V -> vclass.
  Variable mat : V -> A.
  Inductive marg := MView (v : V) | MArr (a : A) | MOther (x : X) | MSeq (l : list marg).

  Fixpoint conv_class (c : vclass) (a : marg) : marg :=
    match a with
    | MView v => if same_class (cls v) c then MArr (mat v) else a
    | MSeq l => MSeq (map (conv_class c) l)
    | _ => a
    end.
  (* the same expression with every view replaced by np.array(view) *)
  Fixpoint mat_all (a : marg) : marg :=
    match a with
    | MView v => MArr (mat v)
    | MSeq l => MSeq (map mat_all l)
    | _ => a
    end.
  Fixpoint views (a : marg) : list V :=
    match a with
    | MView v => [v]
    | MSeq l => flat_map views l
    | _ => []
    end.
  Definition views_of (args : list marg) : list V := flat_map views args.

  Fixpoint dispatch (fuel : nat) (f : list marg -> R) (args : list marg) : option R :=
    match views_of args with
    | [] => Some (f args)
    | v :: _ =>
        match fuel with
        | O => None
        | S k => if av_function_converts_then_applies && av_ufunc_converts_then_applies && av_convert_recurses_lists_tuples
                 then dispatch k f (map (conv_class (cls v)) args) else None
        end
    end.
End Dispatch.
Arguments MView {V A X}. Arguments MArr {V A X}. Arguments MOther {V A X}. Arguments MSeq {V A X}.

Section Concatenate.
  Variables S O F : Type.
  Variable ap : S -> O -> Z -> F.
  (* np.concatenate of plain arrays along the first axis: 1-D pieces, or 2-D pieces of the same number of columns *)
  Fixpoint np_concat_rows (k : nat) (l : list (nd F)) : option (list (list F)) :=
    match l with
    | [] => Some []
    | A2 k' m :: r => if Nat.eqb k k' then option_map (app m) (np_concat_rows k r) else None
    | _ => None
    end.
  Fixpoint np_concat_flat (l : list (nd F)) : option (list F) :=
    match l with
    | [] => Some []
    | A1 x :: r => option_map (app x) (np_concat_flat r)
    | _ => None
    end.
  Definition np_concatenate (l : list (nd F)) : option (nd F) :=
    match l with
    | [] => None                                          (* need at least one array to concatenate *)
    | A1 _ :: _ => option_map A1 (np_concat_flat l)
    | A2 k _ :: _ => option_map (A2 k) (np_concat_rows k l)
    | Sc _ :: _ => None                                   (* zero-dimensional arrays cannot be concatenated *)
    end.

  Fixpoint arrays_of (l : list (marg (sview S O F) (nd F) unit)) : option (list (nd F)) :=
    match l with
    | [] => Some []
    | MArr a :: r => option_map (cons a) (arrays_of r)
    | _ => None
    end.
  (* np.concatenate([v1, v2, ...]) on scaled views of any records *)
  Definition concatenate_views (pieces : list (sview S O F)) : option (nd F) :=
    match dispatch (sview S O F) (nd F) unit (option (nd F)) (fun _ => CScaled) (materialise S O F ap) (Datatypes.S (length pieces))
            (fun args => match args with
                         | [MSeq l] => match arrays_of l with Some arrs => np_concatenate arrs | None => None end
                         | _ => None
                         end)
            [MSeq (map MView pieces)] with
    | Some r => r
    | None => None
    end.

  (* the values of a one-element-per-point piece, each scaled with the piece's own scale and offset *)
  Definition piece_values (v : sview S O F) : list F := match v with V1 xs s o => map (ap s o) xs | _ => [] end.
  Definition is_v1 (v : sview S O F) : bool := match v with V1 _ _ _ => true | _ => false end.

  (* the shortcut a 'same scaling' fast path would take: the stored integers joined, scaled once with the FIRST piece's scaling *)
  Definition grid_of (v : sview S O F) : list Z := match v with V1 xs _ _ => xs | _ => [] end.
  Definition concat_grid_first (pieces : list (sview S O F)) : option (nd F) :=
    match pieces with
    | V1 _ s o :: _ => Some (A1 (map (ap s o) (flat_map grid_of pieces)))
    | _ => None
    end.
End Concatenate.

(* a concrete instance for the examples: integer scales > 0, exact arithmetic *)
Definition ap_Z (s : positive) (o : Z) (x : Z) : Z := x * Z.pos s + o.
