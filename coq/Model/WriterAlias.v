(* An ALIASING model of a LasWriter session (C04, C01).

   The caller owns objects that stay alive, and that it keeps modifying IN PLACE, while the writer is open: its header
   (field list, VLR list) and a small heap of PointFormat objects, addressed by position. The header refers to ITS
   point format by address; every chunk handed to write_points refers to the format object it was built on by
   address, too (las.points.point_format IS las.header.point_format; two chunks sliced from one record share theirs).

   LasWriter.__init__ takes a deep copy: the writer state of Model/Las.v (wstate) holds VALUES read off the caller's
   world at the moment of the open - the field list, the VLR list, the value of the header's format - and nothing that
   refers back into the caller's world. write_points compares the CURRENT VALUE of the chunk's format object with the
   writer's own copy (PointFormat.__eq__), every time.

   Definitions only; proofs in Proofs/WriterAliasProofs.v. *)
From Coq Require Import String.
From Coq Require Import ZArith List Bool.
From LasV Require Import Lib.Base Lib.Layout Gen.GenHeaderLayout Gen.GenFormatBits Gen.GenDims Model.Las.
Import ListNotations.
Open Scope list_scope.
Open Scope Z_scope.

(* the VALUE of a point format: what PointFormat.__eq__ looks at (id; name, type, width, description, scaling of every
   extra dimension, canonically serialised by the harness) and the record size *)
Record fdesc := mkFD { fd_id : Z; fd_size : Z; fd_extra : list Z }.
Definition fdesc_eqb (a b : fdesc) : bool :=
  (fd_id a =? fd_id b) && (fd_size a =? fd_size b) && list_eqb (fd_extra a) (fd_extra b).

(* the caller's world *)
Record cworld := mkCW { cw_h : assoc; cw_vlrs : list vlr; cw_hfmt : nat; cw_fmts : list fdesc }.

Fixpoint set_nth {A} (n : nat) (x : A) (l : list A) : list A :=
  match l with
  | [] => []
  | y :: r => match n with O => x :: r | S k => y :: set_nth k x r end
  end.

(* what the caller does with its own objects while the writer is open *)
Inductive cedit :=
| CSet (n : string) (v : value)     (* h.x_offset = .. / h.scales[i] *= 2 / h.global_encoding.value ^= .. / h.uuid = .. : any field *)
| CVlrs (l : list vlr)              (* h.vlrs.append / pop / a record of the list modified in place: the list now holds l *)
| CFmt (a : nat) (d : fdesc)        (* the PointFormat object at address a extended / shrunk in place (add/remove_extra_dim) *)
| CRebind (a : nat).                (* h.point_format = <the object at address a> *)

Definition apply_cedit (c : cworld) (e : cedit) : cworld :=
  match e with
  | CSet n v => mkCW (aset (cw_h c) n v) (cw_vlrs c) (cw_hfmt c) (cw_fmts c)
  | CVlrs l => mkCW (cw_h c) l (cw_hfmt c) (cw_fmts c)
  | CFmt a d => mkCW (cw_h c) (cw_vlrs c) (cw_hfmt c) (set_nth a d (cw_fmts c))
  | CRebind a => mkCW (cw_h c) (cw_vlrs c) a (cw_fmts c)
  end.

Definition fmt_at (c : cworld) (a : nat) : option fdesc := nth_error (cw_fmts c) a.

(* the header as LasWriter.__init__ reads it: format id and record size come from the header's format object *)
Definition hdr_of (h : assoc) (d : fdesc) : assoc :=
  aset (aset h "point_format_id" (VInt (fd_id d))) "point_size" (VInt (fd_size d)).

(* a session: the caller's edits interleaved with the calls on the writer *)
Inductive sop :=
| SEdit (e : cedit)
| SChunk (recs : list (list Z)) (a : nat)      (* write_points(records whose point_format is the object at address a) *)
| SEvlrs (l : list vlr)
| SClose
| SRaise.                                      (* the caller's own code raises (matters inside a with-block only) *)

(* the writer keeps its OWN copy ss_d of the format value, next to the wstate (own field list, own VLR list) *)
Record sstate := mkSS { ss_c : cworld; ss_w : wstate; ss_d : fdesc }.

Definition sopen (c : cworld) : result sstate :=
  match fmt_at c (cw_hfmt c) with
  | None => Err EOther
  | Some d => do w <- wopen (hdr_of (cw_h c) d) (cw_vlrs c) (fd_id d); Ok (mkSS c w d)
  end.

(* the format check of write_points: by VALUE, at the time of the call *)
Definition chunk_same (c : cworld) (d : fdesc) (a : nat) : bool :=
  match fmt_at c a with Some x => fdesc_eqb x d | None => false end.

Section Sess.
  Variable ap : Z -> Z -> Z -> Z.

  Definition on_writer (st : sstate) (o : wop) : sstate * option (result unit) :=
    let '(w', r) := wstep ap (ss_w st) o in (mkSS (ss_c st) w' (ss_d st), Some r).

  Definition sstep (st : sstate) (op : sop) : sstate * option (result unit) :=
    match op with
    | SEdit e => (mkSS (apply_cedit (ss_c st) e) (ss_w st) (ss_d st), None)
    | SChunk recs a => on_writer st (WPoints recs (chunk_same (ss_c st) (ss_d st) a))
    | SEvlrs l => on_writer st (WEvlrs l)
    | SClose => on_writer st WClose
    | SRaise => (st, None)
    end.

  (* every exception is caught by the caller: the session goes on *)
  Fixpoint plain_run (st : sstate) (ops : list sop) : sstate * list (result unit) :=
    match ops with
    | [] => (st, [])
    | op :: r =>
        let '(st', o) := sstep st op in
        let '(st'', os) := plain_run st' r in
        (st'', match o with Some x => x :: os | None => os end)
    end.

  (* `with writer: ops`: the first refused call (or SRaise) leaves the block; __exit__ closes the writer *)
  Fixpoint with_body (st : sstate) (ops : list sop) : sstate * list (result unit) :=
    match ops with
    | [] => (st, [])
    | SRaise :: _ => (st, [])
    | op :: r =>
        let '(st', o) := sstep st op in
        match o with
        | Some (Err e) => (st', [Err e])
        | Some (Ok u) => let '(st'', os) := with_body st' r in (st'', Ok u :: os)
        | None => with_body st' r
        end
    end.

  Definition with_run (st : sstate) (ops : list sop) : sstate * list (result unit) * result unit :=
    let '(st', os) := with_body st ops in
    let '(w', r) := wstep ap (ss_w st') WClose in
    (mkSS (ss_c st') w' (ss_d st'), os, r).

  (* ---- the same session seen from the writer alone -------------------------------------------------------- *)
  (* the calls that reach the writer, each chunk's format check resolved against the caller's world as it is then *)
  Fixpoint resolve (c : cworld) (d : fdesc) (ops : list sop) : list wop :=
    match ops with
    | [] => []
    | SEdit e :: r => resolve (apply_cedit c e) d r
    | SChunk recs a :: r => WPoints recs (chunk_same c d a) :: resolve c d r
    | SEvlrs l :: r => WEvlrs l :: resolve c d r
    | SClose :: r => WClose :: resolve c d r
    | SRaise :: r => resolve c d r
    end.

  (* the caller's world after the session: its own edits, nothing else *)
  Fixpoint edits_of (ops : list sop) : list cedit :=
    match ops with
    | [] => []
    | SEdit e :: r => e :: edits_of r
    | _ :: r => edits_of r
    end.

  Fixpoint strip_edits (ops : list sop) : list sop :=
    match ops with
    | [] => []
    | SEdit _ :: r => strip_edits r
    | op :: r => op :: strip_edits r
    end.

  Fixpoint chunk_addrs (ops : list sop) : list nat :=
    match ops with
    | [] => []
    | SChunk _ a :: r => a :: chunk_addrs r
    | _ :: r => chunk_addrs r
    end.

  (* an edit that does not touch any format object a chunk of the session is built on *)
  Definition edit_avoids (addrs : list nat) (e : cedit) : bool :=
    match e with
    | CFmt a _ => negb (existsb (Nat.eqb a) addrs)
    | _ => true
    end.

  (* the calls of a writer run that were accepted *)
  Fixpoint accepted_wops (s : wstate) (ops : list wop) : list wop :=
    match ops with
    | [] => []
    | o :: r => if is_ok (snd (wstep ap s o)) then o :: accepted_wops (fst (wstep ap s o)) r
                else accepted_wops (fst (wstep ap s o)) r
    end.

  (* the calls of a with-block that are executed: up to and including the first refused one / up to SRaise *)
  Fixpoint executed (st : sstate) (ops : list sop) : list sop :=
    match ops with
    | [] => []
    | SRaise :: _ => []
    | op :: r =>
        let '(st', o) := sstep st op in
        match o with
        | Some (Err _) => [op]
        | _ => op :: executed st' r
        end
    end.
End Sess.
