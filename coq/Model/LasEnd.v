(* How a session ENDS, and what the caller may have done to the session's own header meanwhile (definitions only; round 6).
   A. The in-place rewrite of the header block when a writer / an appender is closed. `hb` is what the header object serialises to AT THAT
      MOMENT - whatever the caller did to it since the session was opened (a VLR appended to writer.header.vlrs, a VLR removed or grown, extra
      header bytes, an extra dimension ...) -, `off` the size of the block first put on disk (= offset to the first point). laspy guards the
      rewrite (LasHeader.write_to(ensure_same_size=True)): a block of another size is refused and nothing is written. `unguarded_rewrite` is the
      rewrite without the guard (what Props/C19.v refutes); `rewrite_image` a crash inside the rewrite (the first j bytes stored).
   B. An appender as a sequence of CALLS that contains close(): append_points after a close is refused, a second close does nothing
      (`closef` is the closing function: aclose_t of Model/LasFast.v for the code as it is, aclose of Model/Las.v for files laspy wrote). *)
From Coq Require Import String.
From Coq Require Import ZArith List Bool.
From LasV Require Import Lib.Base Lib.Layout Model.Las Model.LasSpec Model.AppendCap.
Import ListNotations.
Open Scope list_scope.
Open Scope Z_scope.

Definition guarded_rewrite (off : Z) (hb f : list Z) : result (list Z) :=
  if len hb =? off then Ok (write_at f 0 hb) else Err ELaspy.

Definition unguarded_rewrite (hb f : list Z) : list Z := write_at f 0 hb.

Definition rewrite_image (hb f : list Z) (j : nat) : list Z := write_at f 0 (firstn j hb).

(* everything from the first point on: the point records, and what follows them *)
Definition tail_from (off : Z) (f : list Z) : list Z := skipn (Z.to_nat off) f.

Section Ends.
  Variable ap : Z -> Z -> Z -> Z.
  Variable closef : astate -> result (list Z).

  Inductive aop :=
  | AoPoints (c : list (list Z)) (same : bool)
  | AoClose.

  (* the state of the appender, and the file its (first) close produced once it is closed *)
  Definition astep (st : astate * option (result (list Z))) (op : aop) : astate * option (result (list Z)) :=
    match snd st with
    | Some _ => st
    | None =>
        match op with
        | AoPoints c same => (fst (apoints ap (fst st) c same), None)
        | AoClose => (fst st, Some (closef (fst st)))
        end
    end.

  Definition arun_ops (s : astate) (ops : list aop) : astate * option (result (list Z)) := fold_left astep ops (s, None).

  (* the append_points calls issued before the first close *)
  Fixpoint before_close (ops : list aop) : list acall :=
    match ops with
    | [] => []
    | AoClose :: _ => []
    | AoPoints c same :: r => (c, same) :: before_close r
    end.

  Fixpoint has_close (ops : list aop) : bool :=
    match ops with
    | [] => false
    | AoClose :: _ => true
    | AoPoints _ _ :: r => has_close r
    end.
End Ends.
