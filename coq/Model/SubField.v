(* C09/C10: bit-packed sub-fields. Masks come from Gen/GenDims.v (COMPOSED_FIELDS of the running module),
   the shift from the translation of packing.least_significant_bit_set (Gen/GenFormatBits.v).
   The per-element semantics follow SubFieldView: uint8 `&= ~mask`, int64 `<<`, bitwise_or cast to uint8. *)
From Coq Require Import String.
From Coq Require Import ZArith List Bool.
From LasV Require Import Lib.Base Gen.GenFormatBits Gen.GenDims.
Import ListNotations.
Open Scope list_scope.
Open Scope Z_scope.

Definition sf_lsb (m : Z) : Z := least_significant_bit_set m.
Definition sf_max (m : Z) : Z := Z.shiftr m (sf_lsb m).

Definition sf_get (m b : Z) : Z := Z.shiftr (Z.land b m) (sf_lsb m).

(* clear then or, low 8 bits kept *)
Definition sf_put (m b v : Z) : Z := (Z.lor (Z.land b (Z.lnot m mod 256)) (Z.shiftl v (sf_lsb m))) mod 256.

Definition sf_assign (m b v : Z) : result Z :=
  if v >? sf_max m then Err EOverflow else if v <? 0 then Err EOverflow else Ok (sf_put m b v).

(* all masks of all formats, with their composed byte: (fmt, sub-field, composed dimension, mask) *)
Definition all_sub_fields : list (Z * string * string * Z) :=
  flat_map (fun row => map (fun sf => let '(n, c, m) := sf in (fst row, n, c, m)) (snd row)) sub_fields.

Definition siblings (fmt : Z) (composed : string) (m : Z) : list Z :=
  flat_map (fun e => let '(f, _, c, m') := e in
                     if (f =? fmt) && String.eqb c composed && negb (m' =? m) then [m'] else []) all_sub_fields.

(* the per-element obligation as a boolean *)
Definition sf_elem_ok (fmt : Z) (composed : string) (m b v : Z) : bool :=
  let b' := sf_put m b v in
  (sf_get m b' =? v) && (0 <=? b') && (b' <? 256)
  && (Z.land b' (Z.lnot m) =? Z.land b (Z.lnot m))
  && forallb (fun m' => sf_get m' b' =? sf_get m' b) (siblings fmt composed m).

Definition sf_entry_ok (e : Z * string * string * Z) : bool :=
  let '(fmt, _, composed, m) := e in
  (0 <? m) && (m <? 256) && (0 <=? sf_lsb m) && (Z.shiftl (sf_max m) (sf_lsb m) =? m)     (* contiguous mask inside the byte *)
  && forall_below 256 (fun b => forall_below (sf_max m + 1) (fun v => sf_elem_ok fmt composed m b v)).

(* arrays: the composed byte of each record; an assignment through an index expression is, after numpy has
   resolved it, a list of (position, value) pairs applied in order *)
Fixpoint set_nth (l : list Z) (i : nat) (x : Z) : list Z :=
  match l, i with
  | [], _ => []
  | _ :: r, O => x :: r
  | a :: r, S k => a :: set_nth r k x
  end.

Definition sf_assign_arr (m : Z) (bs : list Z) (sel : list (nat * Z)) : result (list Z) :=
  if existsb (fun p => (snd p >? sf_max m) || (snd p <? 0)) sel then Err EOverflow
  else Ok (fold_left (fun bs p => set_nth bs (fst p) (sf_put m (nth (fst p) bs 0) (snd p))) sel bs).

(* ---------------- C10: the fast-path comparisons of SubFieldView ---------------- *)
(* op: 0 <, 1 <=, 2 >=, 3 >.  The view compares the masked, unshifted byte with c << lsb. *)
Definition cmp_op (op : Z) (x y : Z) : bool :=
  if op =? 0 then x <? y else if op =? 1 then x <=? y else if op =? 2 then x >=? y else x >? y.
Definition sf_cmp_spec (m b op c : Z) : bool := cmp_op op (sf_get m b) c.
Definition sf_cmp_fast (m b op c : Z) : bool := cmp_op op (Z.land b m) (Z.shiftl c (sf_lsb m)).
