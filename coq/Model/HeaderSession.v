(* C07, in-place rewrite: the life of the header object OWNED by an open LasWriter / LasAppender. Opening serialises the header a
   first time (writer) or reads it from the file (appender); either way the object now remembers, in `offset_to_point_data`, the
   size the header + VLR block has IN THE FILE. Between open and close the caller may edit the object through its public API:
   any plain field (strings, date, counts, doubles, extra_header_bytes, extra_vlr_bytes, version ...), the VLR list (header.vlrs =
   ..., append / pop, add / remove extra dimensions and the point_format setter, which resynchronise the ExtraBytes VLR). None of
   these edits touches the remembered offset: it is the only memory of the size on disk, and close() = write_to(ensure_same_size =
   True) at position 0 compares the size the edited object would now take with it. Definitions only. *)
From Coq Require Import String.
From Coq Require Import ZArith List Bool.
From LasV Require Import Lib.Base Lib.Layout Model.Las Model.HeaderObj.
Import ListNotations.
Open Scope list_scope.
Open Scope Z_scope.

Inductive hedit :=
| ESetField (n : string) (v : value)
| ESetVlrs (vl : list vlr).

(* the edits of the public API: everything but a direct assignment to the remembered offset *)
Definition edit_public (e : hedit) : bool :=
  match e with ESetField n _ => negb (String.eqb n "offset_to_point_data") | ESetVlrs _ => true end.

Definition apply_edit (o : hobj) (e : hedit) : hobj :=
  match e with
  | ESetField n v => mkHO (aset (ho_fields o) n v) (ho_vlrs o) (ho_evlrs o) (ho_attached_points o) (ho_origin o)
  | ESetVlrs vl => mkHO (ho_fields o) vl (ho_evlrs o) (ho_attached_points o) (ho_origin o)
  end.
Definition apply_edits (o : hobj) (es : list hedit) : hobj := fold_left apply_edit es o.

(* LasWriter(dest, header): the header is written; the object keeps the fields write_to computed *)
Definition open_session (o : hobj) : result (hobj * list Z) :=
  match write_obj o false with
  | Ok (h', bs) => Ok (mkHO h' (ho_vlrs o) (ho_evlrs o) (ho_attached_points o) OfWriter, bs)
  | Err e => Err e
  end.

(* close(): the updated header is written over the old one, or the rewrite is refused and the file is left alone *)
Definition close_session (o : hobj) : result (assoc * list Z) := write_obj o true.
Definition rewrite_in_place (file new_header : list Z) : list Z := new_header ++ skipn (length new_header) file.
Definition file_after_close (file : list Z) (o : hobj) : list Z :=
  match close_session o with Ok (_, bs) => rewrite_in_place file bs | Err _ => file end.

(* what must not exist: an edit of the VLR list that also refreshes the remembered offset from the new list ("keeps the attribute
   coherent"): the guard of close() then compares the new size with itself *)
Definition vlr_block_size (o : hobj) (vl : list vlr) : Z :=
  match enc_vlrs false vl, header_size_tbl (aint (ho_fields o) "version.major") (aint (ho_fields o) "version.minor") with
  | Ok vb, Some hs0 => hs0 + len (abytes (ho_fields o) "extra_header_bytes") + len vb + len (abytes (ho_fields o) "extra_vlr_bytes")
  | _, _ => 0
  end.
Definition set_vlrs_refreshing (o : hobj) (vl : list vlr) : hobj :=
  mkHO (aset (ho_fields o) "offset_to_point_data" (VInt (vlr_block_size o vl))) vl (ho_evlrs o) (ho_attached_points o) (ho_origin o).
