(* C20, value domain of the flag setters: the objects a caller can assign to a flag are not only Python True/False.
   A flag is assigned a Python bool or int, a GpsTimeType member, a numpy bool_ (the result of np.any(...), of a comparison
   on point data), a numpy integer scalar of any width, or a 0-d array of those. The implementation looks at such an object
   ONLY through bool(value) (the four boolean flags: `if bool(value) is True`) or int(value) (gps_time_type:
   `int(value) & MASK`); the generated setters (Gen/GenGlobalEncoding.v) take that boolean. Definitions only. *)
From Coq Require Import ZArith List Bool.
From LasV Require Import Lib.Base Gen.GenGlobalEncoding Model.GlobalEnc.
Import ListNotations.
Open Scope Z_scope.

Inductive pykind :=
| KPyBool                                  (* True / False *)
| KPyInt                                   (* any Python int *)
| KGpsEnum                                 (* GpsTimeType.WEEK_TIME / STANDARD *)
| KNpBool                                  (* numpy.bool_ *)
| KNpInt (signed : bool) (bytes : Z)       (* numpy.int8 .. numpy.uint64 *)
| KNp0d (elem : pykind).                   (* 0-d numpy array holding one such scalar *)

(* pv_int = int(value); for every kind above bool(value) = (int(value) != 0) *)
Record pyval := mkPV { pv_kind : pykind; pv_int : Z }.

Definition truthy (x : pyval) : bool := negb (pv_int x =? 0).

(* values the kind can hold *)
Fixpoint kind_holds (k : pykind) (z : Z) : bool :=
  match k with
  | KPyBool | KNpBool | KGpsEnum => (0 <=? z) && (z <=? 1)
  | KPyInt => true
  | KNpInt true b => (- 2 ^ (8 * b - 1) <=? z) && (z <? 2 ^ (8 * b - 1))
  | KNpInt false b => (0 <=? z) && (z <? 2 ^ (8 * b))
  | KNp0d e => kind_holds e z
  end.

(* the boolean the generated setter of flag i receives: flag 0 (gps_time_type) keeps bit 0 of int(value), the four
   boolean flags take bool(value) *)
Definition flag_arg (i : nat) (x : pyval) : bool :=
  match i with O => Z.odd (pv_int x) | _ => truthy x end.

Definition ge_set_py (i : nat) (v : Z) (x : pyval) : Z := ge_set i v (flag_arg i x).

(* the legal targets of a flag: a GPS time type is 0 or 1 (in any representation); a boolean flag accepts anything *)
Definition target_ok (i : nat) (x : pyval) : bool :=
  kind_holds (pv_kind x) (pv_int x) && match i with O => (0 <=? pv_int x) && (pv_int x <=? 1) | _ => true end.

Definition ge_run_py (v : Z) (ops : list (nat * pyval)) : Z :=
  fold_left (fun v op => ge_set_py (fst op) v (snd op)) ops v.

Definition as_bool_op (op : nat * pyval) : nat * bool := (fst op, flag_arg (fst op) (snd op)).
