(* Executable variants of the lenient readers of Model/Las.v: identical functions, except that a length taken from the
   file is clamped to the bytes available BEFORE it is turned into a unary `nat` (a garbage 8-byte record length in a crash image
   must not build a 10^18-element numeral). Proofs/LasFastProofs.v proves them equal to the originals; the drivers extract these. *)
From Coq Require Import String.
From Coq Require Import ZArith List Bool.
From LasV Require Import Lib.Base Lib.Layout Gen.GenHeaderLayout Gen.GenFormatBits Gen.GenDims Model.Las.
Import ListNotations.
Open Scope list_scope.
Open Scope Z_scope.

Definition ztake {A} (n : Z) (l : list A) : list A := firstn (Z.to_nat (Z.min n (len l))) l.
Definition zdrop {A} (n : Z) (l : list A) : list A := skipn (Z.to_nat (Z.min n (len l))) l.

(* lenient, as VLRList.read_from over a stream that may end early *)
Fixpoint dec_vlrs_f (ext : bool) (n : nat) (bs : list Z) : result (list vlr * list Z) :=
  match n with
  | O => Ok ([], bs)
  | S k =>
      let '(a, rest) := dec_fields (fixed_part (vlr_r_layout ext)) bs in
      let dl := aint a "record_length" in
      let uid := abytes a "user_id" in
      if ascii_ok uid then
        do r <- dec_vlrs_f ext k (zdrop dl rest);
        Ok (mkVlr uid (aint a "record_id") (abytes a "description") (ztake dl rest) :: fst r, snd r)
      else Err EValue
  end.


(* LasHeader.read_from on a seekable source holding `src` *)
Definition dec_header_f (src : list Z) (read_evlrs : bool) : result rheader :=
  let hb := firstn 227 src in
  let sig := firstn 4 hb in
  if (length sig =? 0)%nat then Err ELaspy else
  if negb (list_eqb sig LASF) then Err ELaspy else
  if (length hb <? 227)%nat then Err ELaspy else
  let off0 := le_dec (firstn 4 (skipn 96 hb)) in
  let stream := if off0 <? 227 then src else ztake off0 src in
  let mnr := le_dec (firstn 1 (skipn 25 stream)) in
  let '(a, rest) := dec_fields (fixed_part (hr_layout mnr)) stream in
  let pos := len stream - len rest in
  let hs := aint a "header_size" in
  if pos >? hs then Err ELaspy else
  let extra := ztake (hs - pos) rest in
  let rest2 := zdrop (hs - pos) rest in
  let nv := aint a "number_of_vlrs" in
  if nv >? MAX_VLRS then Err EFuel else
  do vr <- dec_vlrs_f false (Z.to_nat nv) rest2;
  let '(vl, rest3) := vr in
  let pos2 := len stream - len rest3 in
  let off := aint a "offset_to_point_data" in
  if pos2 >? off then Err ELaspy else
  let pad := ztake (off - pos2) rest3 in
  let fid0 := aint a "point_format_id" in
  let fid := compressed_id_to_uncompressed fid0 in
  match std_size fid with
  | None => Err ELaspy
  | Some std =>
      let ps := aint a "point_size" in
      let ebs := filter is_eb_vlr vl in
      let drop_eb := match ebs with [] => false | _ => ps =? std end in
      let fsize := match ebs with
                   | [] => Some std
                   | eb :: _ => if ps =? std then Some std
                                else match eb_total (length (v_data eb)) (v_data eb) with
                                     | Some t => Some (std + t) | None => None end
                   end in
      match fsize with
      | None => Err ELaspy
      | Some fs =>
          if ps <? fs then Err ELaspy else
          let vl' := if drop_eb then filter (fun v => negb (is_eb_vlr v)) vl else vl in
          let a' := aset (aset a "extra_header_bytes" (VBytes extra)) "extra_vlr_bytes" (VBytes pad) in
          let nev := aint a "number_of_evlrs" in
          if nev >? MAX_VLRS then Err EFuel else
          do ev <- (if mnr >=? 4 then
                      if read_evlrs then
                        if nev >? 0 then
                          do r <- dec_vlrs_f true (Z.to_nat nev) (zdrop (aint a "start_of_first_evlr") src);
                          Ok (Some (fst r))
                        else Ok (Some [])
                      else Ok None
                    else Ok None);
          Ok (mkRH a' vl' ev fid (is_point_format_compressed fid0) ps off)
      end
  end.


(* bytes delivered for `n` records starting at record index `c` (lenient at EOF), then
   np.frombuffer: ValueError unless a whole number of records *)
Definition read_records_f (src : list Z) (offset ps c n : Z) : result (list (list Z)) :=
  let data := ztake (n * ps) (zdrop (offset + c * ps) src) in
  if ps <=? 0 then Err EValue else
  if len data mod ps =? 0 then Ok (chunks_of (length data) (Z.to_nat ps) data) else Err EValue.


Definition read_file_f (src : list Z) : result lasfile :=
  do rh <- dec_header_f src true;
  let cnt := aint (rh_fields rh) "point_count" in
  if cnt <=? 0 then Ok (mkLF rh [])
  else do recs <- read_records_f src (rh_offset rh) (rh_psize rh) 0 cnt; Ok (mkLF rh recs).

Definition aopen_f (src : list Z) : result astate :=
    do rh <- dec_header_f src false;
    let h := rh_fields rh in
    let st := stats_of_header h in
    let pos := s_count st * rh_psize rh + rh_offset rh in
    if (aint h "version.minor" >=? 4) && (s_nevlr st >? 0) then
      if pos >? s_evlr_start st then Err EOther else
      do r <- dec_vlrs_f true (Z.to_nat (s_nevlr st)) (zdrop (s_evlr_start st) src);
      Ok (mkA h st (rh_vlrs rh) (rh_fmt rh) (rh_psize rh) (Some (fst r)) src pos)
    else Ok (mkA h st (rh_vlrs rh) (rh_fmt rh) (rh_psize rh) None src pos).


Definition arun_f (ap : Z -> Z -> Z -> Z) (src : list Z) (chunks : list (list (list Z))) : result (list Z) :=
  do s <- aopen_f src;
  aclose (fold_left (fun s c => fst (apoints ap s c true)) chunks s).

(* The appender as repaired by fix 58dc68d: after re-emitting the EVLRs the destination is truncated (an original file
   may have unused bytes between its last point and its first EVLR; what is left of the old EVLRs behind the new end is
   dropped). For originals written by laspy nothing lies beyond the new end and this is Model/Las.v's aclose. *)
Definition aclose_t (s : astate) : result (list Z) :=
  let st := a_st s in
  let '(st', f) :=
    match a_evlrs s with
    | Some (e :: es) =>
        match enc_vlrs true (e :: es) with
        | Ok eb => (mkS (s_count st) (s_max st) (s_min st) (s_ret st) (a_pos s) (s_nevlr st),
                    ztake (a_pos s + len eb) (write_at (a_file s) (a_pos s) eb))
        | Err _ => (st, a_file s)
        end
    | _ => (st, a_file s)
    end in
  do hb <- enc_header (with_stats (a_h s) st') (a_vlrs s) true;
  Ok (write_at f 0 (snd hb)).

Definition arun_t (ap : Z -> Z -> Z -> Z) (src : list Z) (chunks : list (list (list Z))) : result (list Z) :=
  do s <- aopen_f src;
  aclose_t (fold_left (fun s c => fst (apoints ap s c true)) chunks s).
