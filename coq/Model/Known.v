(* The record types of laspy/vlrs/known.py over payload bytes (list Z), and the dispatch vlr_factory.
   Definitions only (proofs in Proofs/KnownProofs.v). The dispatch table (classes in the order vlr_factory visits
   them, official user id, official record id range) and the entry sizes come from Gen/GenKnown.v, rebuilt from the
   running module on every run.

   Text: "decodable" (bytes.decode() as utf-8 or ascii without error) is modelled as "every byte < 128"
   (ascii_ok of Model/Las.v); on such bytes decode/encode are the identity, str.rstrip("\0") removes trailing
   0 bytes and bytes.split(b"\0") / b"\0".join are split_nul / join_nul.

   Two defects found while building this model were repaired in the source (e25592e, 876e7e5) and the model
   describes the repaired behaviour: a parsed lookup name is written with the codec it was parsed with, and a
   LasZip record keeps the description of the raw record. *)
From Coq Require Import String.
From Coq Require Import ZArith List Bool.
From LasV Require Import Lib.Base Lib.Layout Gen.GenKnown Model.Las.
Import ListNotations.
Open Scope list_scope.
Open Scope Z_scope.

(* n consecutive slices of w bytes: data[w*i : w*(i+1)] for i in range(n) *)
Fixpoint split_chunks (n w : nat) (bs : list Z) : list (list Z) :=
  match n with O => [] | S k => firstn w bs :: split_chunks k w (skipn w bs) end.

(* ------------------------------------------------------------------------------------ *)
(* ClassificationLookupVlr: struct.iter_unpack("<B15s"), dict class id -> name            *)
(* ------------------------------------------------------------------------------------ *)
Definition lookup := list (Z * list Z).        (* a python dict in insertion order *)

(* d[k] = v : an existing key keeps its position, a new key goes last *)
Fixpoint dict_set (d : lookup) (k : Z) (v : list Z) : lookup :=
  match d with
  | [] => [(k, v)]
  | (k', v') :: r => if k' =? k then (k', v) :: r else (k', v') :: dict_set r k v
  end.
Definition dict_of (es : list (Z * list Z)) : lookup :=
  fold_left (fun d e => dict_set d (fst e) (snd e)) es [].

(* one 16-byte entry: class id, then the name = the 15-byte field up to its first NUL, decoded *)
Definition lookup_entry (c : list Z) : option (Z * list Z) :=
  match c with
  | [] => None
  | k :: f => let d := cut_nul f in if ascii_ok d then Some (k, d) else None
  end.
Fixpoint lookup_entries (cs : list (list Z)) : option (list (Z * list Z)) :=
  match cs with
  | [] => Some []
  | c :: r => match lookup_entry c, lookup_entries r with
              | Some e, Some es => Some (e :: es)
              | _, _ => None
              end
  end.
(* struct.error unless the length is a multiple of 16; UnicodeDecodeError on an undecodable name *)
Definition parse_lookup (p : list Z) : option lookup :=
  if Nat.eqb (length p mod lookup_entry_size) 0 then
    option_map dict_of (lookup_entries (split_chunks (length p / lookup_entry_size) lookup_entry_size p))
  else None.

(* record_data_bytes: ValueError for a name longer than 15 bytes, struct.error for a class id that is no byte *)
Definition ser_lookup_entry (e : Z * list Z) : result (list Z) :=
  if Nat.ltb lookup_name_size (length (snd e)) then Err EValue
  else if negb (byte_ok (fst e)) then Err EOther
  else Ok (fst e :: snd e ++ zeros (lookup_name_size - length (snd e))).
Fixpoint ser_lookup (l : lookup) : result (list Z) :=
  match l with
  | [] => Ok []
  | e :: r => do a <- ser_lookup_entry e; do b <- ser_lookup r; Ok (a ++ b)
  end.

(* ------------------------------------------------------------------------------------ *)
(* ExtraBytesVlr (192-byte structs), GeoDoubleParamsVlr (doubles): copied verbatim        *)
(* ------------------------------------------------------------------------------------ *)
Definition parse_fixed (w : nat) (p : list Z) : option (list (list Z)) :=
  if Nat.eqb (length p mod w) 0 then Some (split_chunks (length p / w) w p) else None.
Definition parse_extra (p : list Z) : option (list (list Z)) := parse_fixed eb_struct_size p.
Definition ser_extra (c : list (list Z)) : list Z := concat c.
Definition parse_doubles (p : list Z) : option (list (list Z)) := parse_fixed double_size p.
Definition ser_doubles (c : list (list Z)) : list Z := concat c.

(* ------------------------------------------------------------------------------------ *)
(* WaveformPacketVlr: from_buffer_copy of the first 26 bytes (ValueError when shorter)     *)
(* ------------------------------------------------------------------------------------ *)
Definition parse_wave (p : list Z) : option (list Z) :=
  if Nat.leb wf_struct_size (length p) then Some (firstn wf_struct_size p) else None.
Definition ser_wave (c : list Z) : list Z := c.

(* ------------------------------------------------------------------------------------ *)
(* GeoKeyDirectoryVlr: 8-byte header (3 uint16 + number_of_keys), 8-byte entries           *)
(* ------------------------------------------------------------------------------------ *)
Record geokeys := mkGK { gk_head : list Z; gk_count : Z; gk_keys : list (list Z) }.
(* number_of_keys is recomputed from the payload length and stored in a c_uint16 (mod 2^16);
   that many entries are read; bytes after the last whole entry are dropped *)
Definition parse_geokeys (p : list Z) : option geokeys :=
  if Nat.ltb (length p) gk_header_size then None
  else
    let kd := skipn gk_header_size p in
    let num := Z.of_nat (length kd / gk_entry_size) mod 65536 in
    Some (mkGK (firstn (gk_header_size - 2) p) num (split_chunks (Z.to_nat num) gk_entry_size kd)).
Definition ser_geokeys (g : geokeys) : list Z := gk_head g ++ le_enc 2 (gk_count g) ++ concat (gk_keys g).

(* ------------------------------------------------------------------------------------ *)
(* GeoAsciiParamsVlr: record_data.split(b"\0") decoded as ascii; b"\0".join                *)
(* ------------------------------------------------------------------------------------ *)
Fixpoint split_nul (bs : list Z) : list (list Z) :=
  match bs with
  | [] => [[]]
  | b :: r => if b =? 0 then [] :: split_nul r
              else match split_nul r with s :: t => (b :: s) :: t | [] => [[b]] end
  end.
Fixpoint join_nul (ss : list (list Z)) : list Z :=
  match ss with
  | [] => []
  | s :: t => match t with [] => s | _ => s ++ 0 :: join_nul t end
  end.
Definition parse_ascii (p : list Z) : option (list (list Z)) := if ascii_ok p then Some (split_nul p) else None.
Definition ser_ascii (ss : list (list Z)) : list Z := join_nul ss.

(* ------------------------------------------------------------------------------------ *)
(* WktMathTransformVlr / WktCoordinateSystemVlr: decode, rstrip("\0"); encode_to_null_terminated *)
(* ------------------------------------------------------------------------------------ *)
Fixpoint drop_zeros (bs : list Z) : list Z :=
  match bs with [] => [] | b :: r => if b =? 0 then drop_zeros r else bs end.
(* = rev (drop_zeros (rev bs)), with the linear-time reversal *)
Definition strip_nul (bs : list Z) : list Z := rev_append (drop_zeros (rev_append bs [])) [].
Definition parse_wkt (p : list Z) : option (list Z) := if ascii_ok p then Some (strip_nul p) else None.
(* if not b or b[-1] != 0: b += b"\0" *)
Definition ser_wkt (s : list Z) : list Z := if last s 1 =? 0 then s else s ++ [0].

(* ------------------------------------------------------------------------------------ *)
(* LasZipVlr: the payload is kept as it is                                                *)
(* ------------------------------------------------------------------------------------ *)
Definition parse_laszip (p : list Z) : option (list Z) := Some p.
Definition ser_laszip (d : list Z) : list Z := d.

(* ------------------------------------------------------------------------------------ *)
(* vlr_factory                                                                            *)
(* ------------------------------------------------------------------------------------ *)
Inductive content :=
| CLookup (l : lookup)
| CLasZip (d : list Z)
| CExtra (c : list (list Z))
| CWave (r : list Z)
| CGeoKeys (g : geokeys)
| CDoubles (c : list (list Z))
| CAscii (ss : list (list Z))
| CWkt (s : list Z).

(* None: a class of the table this model does not describe (the COPC records) *)
Definition parse_class (cls : string) (p : list Z) : option (option content) :=
  if String.eqb cls "ClassificationLookupVlr" then Some (option_map CLookup (parse_lookup p))
  else if String.eqb cls "LasZipVlr" then Some (option_map CLasZip (parse_laszip p))
  else if String.eqb cls "ExtraBytesVlr" then Some (option_map CExtra (parse_extra p))
  else if String.eqb cls "WaveformPacketVlr" then Some (option_map CWave (parse_wave p))
  else if String.eqb cls "GeoKeyDirectoryVlr" then Some (option_map CGeoKeys (parse_geokeys p))
  else if String.eqb cls "GeoDoubleParamsVlr" then Some (option_map CDoubles (parse_doubles p))
  else if String.eqb cls "GeoAsciiParamsVlr" then Some (option_map CAscii (parse_ascii p))
  else if String.eqb cls "WktMathTransformVlr" then Some (option_map CWkt (parse_wkt p))
  else if String.eqb cls "WktCoordinateSystemVlr" then Some (option_map CWkt (parse_wkt p))
  else None.

Definition ser_content (c : content) : result (list Z) :=
  match c with
  | CLookup l => ser_lookup l
  | CLasZip d => Ok (ser_laszip d)
  | CExtra c => Ok (ser_extra c)
  | CWave r => Ok (ser_wave r)
  | CGeoKeys g => Ok (ser_geokeys g)
  | CDoubles c => Ok (ser_doubles c)
  | CAscii ss => Ok (ser_ascii ss)
  | CWkt s => Ok (ser_wkt s)
  end.

Fixpoint list_eqb (a b : list Z) : bool :=
  match a, b with
  | [], [] => true
  | x :: a', y :: b' => (x =? y) && list_eqb a' b'
  | _, _ => false
  end.

(* first class whose official user id equals the record's and whose official record ids contain the record's *)
Fixpoint find_class (tbl : list (string * list Z * Z * Z)) (uid : list Z) (rid : Z) : option (string * Z) :=
  match tbl with
  | [] => None
  | (cls, u, lo, hi) :: r =>
      if list_eqb u uid && (lo <=? rid) && (rid <=? hi) then Some (cls, lo) else find_class r uid rid
  end.

(* what the reader hands to the user: the raw record, or a parsed record of a known class.
   A parsed record is written under the class's official user id (the one that matched) and, except for the
   waveform descriptors which keep the record id they were read with, under the class's first official record id. *)
Inductive kvlr :=
| KRaw (v : vlr)
| KKnown (cls : string) (uid : list Z) (rid : Z) (desc : list Z) (c : content)
| KUnmodelled (cls : string) (v : vlr).

Definition vlr_factory (v : vlr) : kvlr :=
  match find_class known_table (v_uid v) (v_rid v) with
  | None => KRaw v
  | Some (cls, lo) =>
      match parse_class cls (v_data v) with
      | None => KUnmodelled cls v
      | Some None => KRaw v                       (* except Exception: return vlr *)
      | Some (Some c) =>
          KKnown cls (v_uid v) (if String.eqb cls "WaveformPacketVlr" then v_rid v else lo) (v_desc v) c
      end
  end.

(* the record VLRList.write_to emits for it: user_id, record_id, description, record_data_bytes() *)
Definition kv_record (k : kvlr) : result vlr :=
  match k with
  | KRaw v => Ok v
  | KKnown _ u r d c => do b <- ser_content c; Ok (mkVlr u r d b)
  | KUnmodelled _ _ => Err EOther
  end.

Definition normalise (v : vlr) : result vlr := kv_record (vlr_factory v).

Fixpoint kv_records (l : list kvlr) : result (list vlr) :=
  match l with
  | [] => Ok []
  | k :: r => do v <- kv_record k; do vs <- kv_records r; Ok (v :: vs)
  end.

(* VLRList.read_from: the raw list codec followed by vlr_factory on every record;
   VLRList.write_to on what was read: record_data_bytes() of every record, then the raw list codec *)
Definition read_known (ext : bool) (n : nat) (bs : list Z) : result (list kvlr * list Z) :=
  do r <- dec_vlrs ext n bs; Ok (map vlr_factory (fst r), snd r).
Definition write_known (ext : bool) (l : list kvlr) : result (list Z) :=
  do vs <- kv_records l; enc_vlrs ext vs.

(* ------------------------------------------------------------------------------------ *)
(* payloads for which the property promises byte identity                                 *)
(* ------------------------------------------------------------------------------------ *)
(* lookup: whole 16-byte entries, distinct class ids (bytes), each name field = its text followed by NULs only *)
Definition clean_entry (c : list Z) : bool :=
  match c with
  | [] => false
  | k :: f => byte_ok k && list_eqb f (cut_nul f ++ zeros (lookup_name_size - length (cut_nul f)))
  end.
Fixpoint distinct (ks : list Z) : bool :=
  match ks with [] => true | k :: r => negb (existsb (Z.eqb k) r) && distinct r end.
Definition wf_lookup_payload (p : list Z) : bool :=
  let cs := split_chunks (length p / lookup_entry_size) lookup_entry_size p in
  Nat.eqb (length p mod lookup_entry_size) 0 && forallb clean_entry cs && distinct (map (fun c => hd 0 c) cs).

(* geokeys: exactly 8 + 8k bytes, the count field says k *)
Definition wf_geokeys_payload (p : list Z) : bool :=
  Nat.leb gk_header_size (length p)
  && Nat.eqb ((length p - gk_header_size) mod gk_entry_size) 0
  && (le_dec (firstn 2 (skipn (gk_header_size - 2) p)) =? Z.of_nat ((length p - gk_header_size) / gk_entry_size))
  && bytes_ok p.

(* ------------------------------------------------------------------------------------ *)
(* the dispatch the LAS specification (and laspy's documentation) prescribes, written by hand:
   Proofs/KnownProofs.v shows that the generated table implements exactly this              *)
(* ------------------------------------------------------------------------------------ *)
Definition UID_LASF_Spec : list Z := [76; 65; 83; 70; 95; 83; 112; 101; 99].
Definition UID_LASF_Projection : list Z := [76; 65; 83; 70; 95; 80; 114; 111; 106; 101; 99; 116; 105; 111; 110].
Definition UID_laszip : list Z := [108; 97; 115; 122; 105; 112; 32; 101; 110; 99; 111; 100; 101; 100].
Definition UID_copc : list Z := [99; 111; 112; 99].

Definition class_spec (uid : list Z) (rid : Z) : option (string * Z) :=
  if list_eqb UID_LASF_Spec uid then
    if rid =? 0 then Some ("ClassificationLookupVlr"%string, 0)
    else if rid =? 4 then Some ("ExtraBytesVlr"%string, 4)
    else if (100 <=? rid) && (rid <=? 355) then Some ("WaveformPacketVlr"%string, 100)
    else None
  else if list_eqb UID_LASF_Projection uid then
    if rid =? 34735 then Some ("GeoKeyDirectoryVlr"%string, 34735)
    else if rid =? 34736 then Some ("GeoDoubleParamsVlr"%string, 34736)
    else if rid =? 34737 then Some ("GeoAsciiParamsVlr"%string, 34737)
    else if rid =? 2111 then Some ("WktMathTransformVlr"%string, 2111)
    else if rid =? 2112 then Some ("WktCoordinateSystemVlr"%string, 2112)
    else None
  else if list_eqb UID_laszip uid then
    if rid =? 22204 then Some ("LasZipVlr"%string, 22204) else None
  else if list_eqb UID_copc uid then
    if rid =? 1 then Some ("CopcInfoVlr"%string, 1)
    else if rid =? 1000 then Some ("CopcHierarchyVlr"%string, 1000)
    else None
  else None.

Definition class_eqb (a b : option (string * Z)) : bool :=
  match a, b with
  | None, None => true
  | Some (c1, l1), Some (c2, l2) => String.eqb c1 c2 && (l1 =? l2)
  | _, _ => false
  end.

Definition single_id_or_wave (row : string * list Z * Z * Z) : bool :=
  let '(cls, _, lo, hi) := row in String.eqb cls "WaveformPacketVlr" || (lo =? hi).

(* ------------------------------------------------------------------------------------ *)
(* the file around the two lists: header (hs bytes), VLRs, points, EVLRs                   *)
(* ------------------------------------------------------------------------------------ *)
(* the header fields that locate the records (their byte encodings belong to the header codec, C01/C07):
   number of VLRs, offset to point data, number of EVLRs, start of first EVLR *)
Record locator := mkLoc { l_nvlr : Z; l_offset : Z; l_nevlr : Z; l_estart : Z }.

(* LasHeader.partial_reset: the attributes it sets to 0 are listed in Gen/GenKnown.v (from the AST, on every run) *)
Definition reset_field (name : string) (cur : Z) : Z :=
  if existsb (String.eqb name) partial_reset_zeroes then 0 else cur.
Definition partial_reset (l : locator) : locator :=
  mkLoc (l_nvlr l) (l_offset l) (reset_field "number_of_evlrs" (l_nevlr l))
        (reset_field "start_of_first_evlr" (l_estart l)).

(* LasWriter(dest, header) ... close(), as LasData.write and laspy.open(mode="w") drive it.
   stale = the locating fields of the header the caller passes in: whatever file, written or read at any earlier
   time, that header comes from (deepcopy, then partial_reset). The VLR list is written right after the header;
   write_points; write_evlrs is called or not (evl = None), refuses a file older than 1.4, and sets the two EVLR
   fields only for a non-empty list; close rewrites the header. body = everything after the hs header bytes.
   start_of_first_evlr / number_of_evlrs exist only in a 1.4 header. *)
Definition write_file (hs : Z) (v14 : bool) (stale : locator) (vl : list vlr) (pts : list Z)
    (evl : option (list vlr)) : result (locator * list Z) :=
  do vb <- enc_vlrs false vl;
  let h0 := partial_reset stale in
  let h := mkLoc (len vl) (hs + len vb) (l_nevlr h0) (l_estart h0) in
  do r <- match evl with
          | None => Ok (h, vb ++ pts)
          | Some el =>
              if negb v14 then Err ELaspy
              else match el with
                   | [] => Ok (h, vb ++ pts)
                   | _ :: _ => do eb <- enc_vlrs true el;
                               Ok (mkLoc (l_nvlr h) (l_offset h) (len el) (hs + len vb + len pts), vb ++ pts ++ eb)
                   end
          end;
  Ok (if v14 then fst r else mkLoc (l_nvlr (fst r)) (l_offset (fst r)) 0 0, snd r).

(* LasHeader.read_from (+ read_evlrs on a seekable source): the VLRs follow the header; in a 1.4 file the EVLRs are
   number_of_evlrs records at start_of_first_evlr, an empty list when the count is 0; older files have none *)
Definition read_file (hs : Z) (v14 : bool) (loc : locator) (body : list Z)
    : result (list kvlr * option (list kvlr)) :=
  do r <- read_known false (Z.to_nat (l_nvlr loc)) body;
  if v14 then
    if 0 <? l_nevlr loc then
      do e <- read_known true (Z.to_nat (l_nevlr loc)) (skipn (Z.to_nat (l_estart loc - hs)) body);
      Ok (fst r, Some (fst e))
    else Ok (fst r, Some [])
  else Ok (fst r, None).

(* writing what a user holds after reading (or after editing the lists he read) *)
Definition write_file_known (hs : Z) (v14 : bool) (stale : locator) (kl : list kvlr) (pts : list Z)
    (kel : option (list kvlr)) : result (locator * list Z) :=
  do vl <- kv_records kl;
  match kel with
  | None => write_file hs v14 stale vl pts None
  | Some l => if negb v14 then write_file hs v14 stale vl pts (Some [])
              else do el <- kv_records l; write_file hs v14 stale vl pts (Some el)
  end.

Definition opt_list {A} (o : option (list A)) : list A := match o with Some l => l | None => [] end.

(* ------------------------------------------------------------------------------------ *)
(* every way of reading: a source that can seek (laspy.read, laspy.open with EVLRs read at opening or deferred to
   read() / read_evlrs(), before or after the points were consumed, LasHeader.read_from, mmap) goes to
   start_of_first_evlr: read_file. A source that can only be read forward (no seek) stands, when the EVLRs are
   wanted, at pos = behind the last point it delivered; the records are found by consuming the bytes up to
   start_of_first_evlr (they need not follow the points directly: waveform packets, padding, ...); it cannot go
   back. [this is the behaviour after the smallest repair of LasReader.read(), which at the time of writing assumes
   pos = start_of_first_evlr on this route: reported by the check as nonseekable-evlr-gap] *)
Definition read_file_from (hs : Z) (v14 : bool) (loc : locator) (pos : Z) (body : list Z)
    : result (list kvlr * option (list kvlr)) :=
  do r <- read_known false (Z.to_nat (l_nvlr loc)) body;
  if v14 then
    if 0 <? l_nevlr loc then
      if l_estart loc <? pos then Err ELaspy
      else
        let rest := skipn (Z.to_nat (pos - hs)) body in
        do e <- read_known true (Z.to_nat (l_nevlr loc)) (skipn (Z.to_nat (l_estart loc - pos)) rest);
        Ok (fst r, Some (fst e))
    else Ok (fst r, Some [])
  else Ok (fst r, None).

(* ------------------------------------------------------------------------------------ *)
(* LasAppender: open (header and VLRs read, the EVLRs read from start_of_first_evlr into the public list .evlrs),
   append_points any number of times (newpts = all the bytes appended, possibly none), close. kel = the list .evlrs
   holds at close (None: the file had none and none was given). The points go where the old ones end (npts = bytes
   of point data the header announces), over whatever is there; a non-empty list is written behind them, located by
   the header, and the file ends there; an emptied list: none announced, the file ends behind the points. The header
   and the VLRs are written again in place: the VLRs as the records that were read serialise, which must take the
   room they had [after the smallest repair this is refused before anything is written; at the time of writing it is
   refused at close, after the points and EVLRs were written under the old header: reported as append-resized-vlr]. *)
Definition overwrite (body : list Z) (pos : nat) (bs : list Z) : list Z :=
  firstn pos body ++ bs ++ skipn (pos + length bs) body.

Definition append_file (hs : Z) (v14 : bool) (loc : locator) (body : list Z) (npts : Z) (newpts : list Z)
    (kel : option (list kvlr)) : result (locator * list Z) :=
  do r <- read_known false (Z.to_nat (l_nvlr loc)) body;
  do vl <- kv_records (fst r);
  do vb <- enc_vlrs false vl;
  if negb (hs + len vb =? l_offset loc) then Err ELaspy
  else
    let p := Z.to_nat (l_offset loc + npts - hs) in
    let b1 := overwrite body p newpts in
    let q := (p + length newpts)%nat in
    let h := mkLoc (len vl) (l_offset loc) (l_nevlr loc) (l_estart loc) in
    do r2 <- match (if v14 then kel else None) with
             | Some (k :: kl) =>
                 do el <- kv_records (k :: kl);
                 do eb <- enc_vlrs true el;
                 Ok (mkLoc (l_nvlr h) (l_offset h) (len el) (hs + Z.of_nat q), firstn q b1 ++ eb)
             | _ => if v14 && (0 <? l_nevlr loc) then Ok (mkLoc (l_nvlr h) (l_offset h) 0 0, firstn q b1)
                    else Ok (h, b1)
             end;
    Ok (if v14 then fst r2 else mkLoc (l_nvlr (fst r2)) (l_offset (fst r2)) 0 0,
        vb ++ skipn (length vb) (snd r2)).

(* the statements of LasWriter.__init__ / write_evlrs this model describes (compared with the source on every run) *)
Definition modelled_writer_header_ops : list string :=
  ["self.header = deepcopy(header)";
   "self.header.vlrs.pop(header.vlrs.index('LasZipVlr'))";
   "self.header.partial_reset()";
   "dims.raise_if_version_not_compatible_with_fmt(header.point_format.id, str(self.header.version))";
   "self.header.are_points_compressed = do_compress";
   "self.point_writer.write_initial_header_and_vlrs(self.header, self.encoding_errors)"]%string.
Definition modelled_write_evlrs_ops : list string :=
  ["self.point_writer.done()";
   "self.done = True";
   "self.header.number_of_evlrs = len(evlrs)";
   "self.header.start_of_first_evlr = self.dest.tell()";
   "evlrs.write_to(self.dest, as_extended=True, encoding_errors=self.encoding_errors)"]%string.

(* ------------------------------------------------------------------------------------ *)
(* between reading and writing: operations of the header that re-synchronise / rebuild its VLR list, and edits of   *)
(* the parsed content of a known record                                                                              *)
(* ------------------------------------------------------------------------------------ *)
(* the class name VLRList.get / index / extract compare with: type(vlr).__name__ *)
Definition kv_class (k : kvlr) : string :=
  match k with KRaw _ => "VLR"%string | KKnown cls _ _ _ _ => cls | KUnmodelled cls _ => cls end.

(* VLRList.extract(name): the records of that class are taken out; what stays in the list, in order *)
Definition extract_rest (name : string) (l : list kvlr) : list kvlr :=
  filter (fun k => negb (String.eqb (kv_class k) name)) l.

(* LasHeader._sync_extra_bytes_vlr (statements on the list: Gen/GenKnown.v sync_list_ops): the records of class
   sync_extracted_class are taken out, a record generated from the point format (gen; None: no extra dimensions)
   goes last *)
Definition sync_eb (l : list kvlr) (gen : option kvlr) : list kvlr :=
  extract_rest sync_extracted_class l ++ match gen with Some k => [k] | None => [] end.

(* header.vlrs = <iterable>: a new list of the same records, extract(vlrs_setter_extracts), then the above *)
Definition set_vlrs (l : list kvlr) (gen : option kvlr) : list kvlr :=
  sync_eb (extract_rest vlrs_setter_extracts l) gen.

(* a method / property setter m of LasHeader applied to a header whose list is l: the list afterwards. The methods
   that end in _sync_extra_bytes_vlr are listed in Gen/GenKnown.v (call graph of the class, on every run); add / remove
   of extra dimensions, the point_format setter, set_version_and_point_format (laspy.convert) are among them on the
   source this was written for; update (LasData.update_header, selection, the points setter) is not *)
Definition header_op (m : string) (l : list kvlr) (gen : option kvlr) : list kvlr :=
  if String.eqb m "vlrs" then set_vlrs l gen
  else if existsb (String.eqb m) resync_methods then sync_eb l gen
  else l.

Definition modelled_sync_list_ops : list string :=
  [String.append "self._vlrs.extract('" (String.append sync_extracted_class "')"); "self._vlrs.append(eb_vlr)"%string].
Definition modelled_vlrs_setter_ops : list string :=
  ["self._vlrs = VLRList(vlrs)"%string;
   String.append "self.vlrs.extract('" (String.append vlrs_setter_extracts "')");
   "self._sync_extra_bytes_vlr()"%string].

(* the content of a parsed record replaced through its public attributes (.string, .strings, .lookups, .doubles,
   .geo_keys / .geo_keys_header, .parsed_record, .extra_bytes_structs, .record_data of a LasZipVlr): the record keeps
   its class, identifiers and description; nothing of the payload it was parsed from is kept *)
Definition set_content (k : kvlr) (c : content) : kvlr :=
  match k with KKnown cls u r d _ => KKnown cls u r d c | _ => k end.

(* what the next reader hands out for a record as it is now *)
Definition reread (k : kvlr) : result kvlr := do v <- kv_record k; Ok (vlr_factory v).
