(* C15 — model of laspy/copc.py: hierarchy pages, lazy octree traversal, level / resolution selection,
   integer box filter, grouping of contiguous chunks.  Definitions only.

   Numbers.  Every real quantity of the query geometry (root cube corner, cube side, box corners, header z range)
   is an integer multiple of one common unit 1/D (the harness chooses D = a power of two: binary64 values are dyadic
   rationals); cube bounds and the overlap test are computed EXACTLY: `rlo + x * side / 2^level <= bhi` is
   `rlo * 2^level + x * side <= bhi * 2^level`.  Float rounding of cube bounds is not modelled.
   The integer grid bounds MINS/MAXS are `clip (rint q)` of a rational q = n/d (d > 0) given to the model: the
   implementation's q is fl(fl(b - offset) / scale); `exact_q` is the same quotient without rounding.

   The merge of a loaded page is the repaired one (a loaded page never overrides a resolved entry), and a loaded page is
   checked against the page-reference rule before it is merged (a refused query leaves the reader's hierarchy as it was). *)
From Coq Require Import String.
From Coq Require Import ZArith List Bool Lia Permutation.
From LasV Require Import Lib.Base Gen.GenCopc.
Import ListNotations.
Open Scope list_scope.
Open Scope Z_scope.

(* ---------- keys ---------- *)
Record vkey := mkKey { kl : Z; kx : Z; ky : Z; kz : Z }.

Definition key_eqb (a b : vkey) : bool :=
  (kl a =? kl b) && (kx a =? kx b) && (ky a =? ky b) && (kz a =? kz b).

Definition root_key : vkey := mkKey 0 0 0 0.

(* VoxelKey.child, from the source *)
Definition child (k : vkey) (d : Z) : vkey :=
  mkKey (gen_child_level (kl k) (kx k) (ky k) (kz k) d) (gen_child_x (kl k) (kx k) (ky k) (kz k) d)
        (gen_child_y (kl k) (kx k) (ky k) (kz k) d) (gen_child_z (kl k) (kx k) (ky k) (kz k) d).

Definition dirs : list Z := map Z.of_nat (seq 0 (Z.to_nat gen_childs_n)).
(* VoxelKey.childs: child 0 .. child 7 in this order *)
Definition children (k : vkey) : list vkey := map (child k) dirs.

(* the inverse direction (specification side only) *)
Definition parent (k : vkey) : vkey := mkKey (kl k - 1) (kx k / 2) (ky k / 2) (kz k / 2).
Definition dir_of (k : vkey) : Z := (kx k mod 2) + 2 * (ky k mod 2) + 4 * (kz k mod 2).

(* ---------- hierarchy ---------- *)
Record entry := mkEntry { e_key : vkey; e_off : Z; e_size : Z; e_cnt : Z }.
Definition page := list entry.

(* the file: root page + the pages found at the (offset, size) references *)
Record tree := mkTree { t_root : page; t_pages : list ((Z * Z) * page) }.

Definition is_ref (e : entry) : bool := e_cnt e =? gen_page_marker.

Fixpoint page_at (ps : list ((Z * Z) * page)) (off size : Z) : page :=
  match ps with
  | [] => []
  | ((o, s), p) :: r => if (o =? off) && (s =? size) then p else page_at r off size
  end.

(* python dict, as a list searched from the front *)
Fixpoint lookup (k : vkey) (h : list entry) : option entry :=
  match h with
  | [] => None
  | e :: r => if key_eqb (e_key e) k then Some e else lookup k r
  end.

Definition has_key (k : vkey) (h : list entry) : bool :=
  match lookup k h with Some _ => true | None => false end.

(* HierarchyPage.from_bytes fills a dict entry by entry: the last entry of a key wins *)
Definition page_dict (p : page) : list entry := rev p.

(* the merge of a loaded page: entries that are absent or still page references are taken from the page *)
Definition merge (h : list entry) (p : page) : list entry :=
  let pd := page_dict p in
  map (fun o => if is_ref o then match lookup (e_key o) pd with Some e => e | None => o end else o) h
  ++ filter (fun e => negb (has_key (e_key e) h)) pd.

(* the page-reference rule, checked on the loaded page BEFORE anything of it is merged: the page describes the key it was
   referenced for (an entry of that key that is not again a reference) *)
Definition page_describes (k : vkey) (p : page) : bool :=
  match lookup k (page_dict p) with Some d => negb (is_ref d) | None => false end.

(* ---------- geometry (exact, scaled) ---------- *)
Record geom := mkGeom { g_x : Z; g_y : Z; g_z : Z; g_side : Z }.
Record box := mkBox { b_x0 : Z; b_y0 : Z; b_z0 : Z; b_x1 : Z; b_y1 : Z; b_z1 : Z }.

(* one axis of VoxelKey.bounds followed by Bounds.overlaps, both sides multiplied by 2^level *)
Definition ov1 (rlo side l x b0 b1 : Z) : bool :=
  let den := gen_bounds_den l in
  gen_overlap (rlo * den + gen_bounds_lo x * side) (rlo * den + gen_bounds_hi x * side) (b0 * den) (b1 * den).

Definition overlaps (g : geom) (k : vkey) (b : box) : bool :=
  ov1 (g_x g) (g_side g) (kl k) (kx k) (b_x0 b) (b_x1 b)
  && ov1 (g_y g) (g_side g) (kl k) (ky k) (b_y0 b) (b_y1 b)
  && ov1 (g_z g) (g_side g) (kl k) (kz k) (b_z0 b) (b_z1 b).

Definition in_bounds (g : geom) (ob : option box) (k : vkey) : bool :=
  match ob with None => true | Some b => overlaps g k b end.

(* level_range: None or range(lo, hi) *)
Definition below_stop (lv : option (Z * Z)) (k : vkey) : bool :=
  match lv with None => true | Some (_, hi) => kl k <? hi end.
Definition in_level (lv : option (Z * Z)) (k : vkey) : bool :=
  match lv with None => true | Some (lo, hi) => (lo <=? kl k) && (kl k <? hi) end.

(* ---------- load_octree_for_query ----------
   st: the work list, its head is the END of the python list (pop() takes the head, append conses,
   insert(0, .) appends at the far end); acc: satisfying nodes, latest first. *)
Fixpoint traverse (fuel : nat) (t : tree) (g : geom) (ob : option box) (lv : option (Z * Z))
         (h : list entry) (st : list vkey) (acc : list entry) : result (list entry) :=
  match st with
  | [] => Ok (rev acc)
  | k :: st' =>
    match fuel with
    | O => Err EFuel
    | S f =>
      if negb (in_bounds g ob k) then traverse f t g ob lv h st' acc
      else if negb (below_stop lv k) then traverse f t g ob lv h st' acc
      else match lookup k h with
      | None => traverse f t g ob lv h st' acc
      | Some e =>
        if is_ref e then
          let p := page_at (t_pages t) (e_off e) (e_size e) in
          if page_describes k p then traverse f t g ob lv (merge h p) (st' ++ [k]) acc else Err ELaspy
        else if e_cnt e >=? gen_node_min_count then
          traverse f t g ob lv h (rev (children k) ++ st') (if in_level lv k then e :: acc else acc)
        else (* a count below -1: the node keeps its defaults and has no children *)
          traverse f t g ob lv h st' (if in_level lv k then mkEntry k 0 0 0 :: acc else acc)
      end
    end
  end.

Definition load_octree (fuel : nat) (t : tree) (g : geom) (ob : option box) (lv : option (Z * Z)) : result (list entry) :=
  traverse fuel t g ob lv (page_dict (t_root t)) [root_key] [].

(* fuel that always suffices: one pop for the root, one per page reference, eight per described node *)
Definition all_entries (t : tree) : list entry := t_root t ++ concat (map snd (t_pages t)).
Definition n_refs (t : tree) : nat := length (filter is_ref (all_entries t)).
Definition n_nodes (t : tree) : nat := length (filter (fun e => negb (is_ref e)) (all_entries t)).
Definition fuel_bound (t : tree) : nat := (n_refs t + 8 * n_nodes t + 1)%nat.

(* ---------- levels ---------- *)
(* resolution: spacing = sn/sd > 0, resolution = rn/rd > 0; L least with spacing / 2^L <= resolution *)
Definition cdiv (a b : Z) : Z := - ((- a) / b).
Definition res_level (sn sd rn rd : Z) : Z :=
  let n := sn * rd in let m := rn * sd in
  if n <=? m then 0 else Z.log2_up (cdiv n m).

Inductive levels := LvAll | LvInt (l : Z) | LvRange (lo hi : Z) | LvRes (sn sd rn rd : Z).
Definition level_range (l : levels) : option (Z * Z) :=
  match l with
  | LvAll => None
  | LvInt l => Some (l, l + 1)
  | LvRange lo hi => Some (lo, hi)
  | LvRes sn sd rn rd => Some (0, Z.max 1 (res_level sn sd rn rd + 1))
  end.

(* ---------- the integer box ---------- *)
(* numpy round = round half to even, on the rational n/d, d > 0 *)
Definition rint (n d : Z) : Z :=
  let f := n / d in let r := n mod d in
  if 2 * r <? d then f else if d <? 2 * r then f + 1 else if Z.even f then f else f + 1.
(* np.clip(., lo, hi) with the bounds of the source: saturation instead of wrap-around *)
Definition clip32 (v : Z) : Z := Z.max gen_clip_lo (Z.min gen_clip_hi v).
Definition grid (q : Z * Z) : Z := clip32 (rint (fst q) (snd q)).

Record pt := mkPt { p_x : Z; p_y : Z; p_z : Z; p_tag : Z }.
Record qgrid := mkQ { q_x0 : Z * Z; q_y0 : Z * Z; q_z0 : Z * Z; q_x1 : Z * Z; q_y1 : Z * Z; q_z1 : Z * Z }.

Definition keep (q : qgrid) (p : pt) : bool :=
  gen_keep1 (grid (q_x0 q)) (grid (q_x1 q)) (p_x p)
  && gen_keep1 (grid (q_y0 q)) (grid (q_y1 q)) (p_y p)
  && gen_keep1 (grid (q_z0 q)) (grid (q_z1 q)) (p_z p).

(* ---------- query ---------- *)
Inductive qbox := NoBox | Box2 (x0 y0 x1 y1 : Z) | Box3 (x0 y0 z0 x1 y1 z1 : Z).
(* Bounds.ensure_3d with the header's z range *)
Definition ensure_3d (qb : qbox) (hz0 hz1 : Z) : option box :=
  match qb with
  | NoBox => None
  | Box2 x0 y0 x1 y1 => Some (mkBox x0 y0 hz0 x1 y1 hz1)
  | Box3 x0 y0 z0 x1 y1 z1 => Some (mkBox x0 y0 z0 x1 y1 z1)
  end.

(* sorted(nodes, key=offset): stable *)
Fixpoint ins_off (n : entry) (l : list entry) : list entry :=
  match l with
  | [] => [n]
  | m :: r => if e_off n <=? e_off m then n :: l else m :: ins_off n r
  end.
Definition sort_off (l : list entry) : list entry := fold_right ins_off [] l.

(* pts n: what the backend decodes from the node's chunk (offset, size, count) *)
Definition fetch (pts : entry -> list pt) (ns : list entry) : list pt := concat (map pts (sort_off ns)).

(* the integer box filter is applied whenever a box was given *)
Definition result_of (qb : qbox) (q : qgrid) (ps : list pt) : list pt :=
  match qb with NoBox => ps | _ => filter (keep q) ps end.

Definition query (fuel : nat) (t : tree) (g : geom) (qb : qbox) (hz0 hz1 : Z) (q : qgrid) (lv : levels)
           (pts : entry -> list pt) : result (list pt) :=
  match load_octree fuel t g (ensure_3d qb hz0 hz1) (level_range lv) with
  | Err e => Err e
  | Ok ns =>
    Ok (result_of qb q (fetch pts ns))
  end.

(* the exact quotient (b - offset) / scale, b and offset in units 1/D, scale = sn/sd *)
Definition exact_q (D sn sd off b : Z) : Z * Z := ((b - off) * sd, D * sn).

(* ---------- grouping of contiguous chunks, over the file's bytes ---------- *)
(* groups of the (sorted) nodes: (first offset, [(count, size)]) — `last_node_end` starts at the first offset *)
Fixpoint group_from (cur_off : Z) (cur : list (Z * Z)) (last_end : Z) (ns : list entry) : list (Z * list (Z * Z)) :=
  match ns with
  | [] => match cur with [] => [] | _ => [(cur_off, rev cur)] end
  | n :: r =>
    if e_off n =? last_end then group_from cur_off ((e_cnt n, e_size n) :: cur) (last_end + e_size n) r
    else (cur_off, rev cur) :: group_from (e_off n) [(e_cnt n, e_size n)] (e_off n + e_size n) r
  end.
(* the python loop starts with an empty current group that is appended when the first node is not contiguous with
   `nodes[0].offset`, which cannot happen: the first node always joins it *)
Definition groups (ns : list entry) : list (Z * list (Z * Z)) :=
  match ns with [] => [] | n :: _ => group_from (e_off n) [] (e_off n) ns end.

Definition sum_sizes (tb : list (Z * Z)) : Z := fold_right (fun cs a => snd cs + a) 0 tb.
Definition byte_queries (gs : list (Z * list (Z * Z))) : list (Z * Z) := map (fun g => (fst g, sum_sizes (snd g))) gs.
Definition chunk_table (gs : list (Z * list (Z * Z))) : list (Z * Z) := concat (map snd gs).
Definition read_range (file : list Z) (off size : Z) : list Z := take size (drop off file).
Definition fetch_bytes (file : list Z) (qs : list (Z * Z)) : list Z := concat (map (fun q => read_range file (fst q) (snd q)) qs).

(* backend contract (C14): the buffer is cut by the table's sizes, every piece decoded with its count *)
Fixpoint dec_table {A} (dec : list Z -> Z -> list A) (bs : list Z) (tb : list (Z * Z)) : list A :=
  match tb with
  | [] => []
  | (cnt, size) :: r => dec (take size bs) cnt ++ dec_table dec (drop size bs) r
  end.

Definition fetch_and_decode {A} (dec : list Z -> Z -> list A) (file : list Z) (ns : list entry) : list A :=
  let gs := groups (sort_off ns) in
  dec_table dec (fetch_bytes file (byte_queries gs)) (chunk_table gs).

(* ---------- the fetch strategies ----------
   local sources and http_thread_executor_strategy fill the buffer in the order of `byte_queries`;
   http_queue_strategy gets the ranges back in ANY order (`arrival`) and puts them into the buffer in ascending
   offset order (results.sort(key = offset)): the chunk table must then be in ascending offset order as well *)
Fixpoint ins_q (q : Z * Z) (l : list (Z * Z)) : list (Z * Z) :=
  match l with
  | [] => [q]
  | m :: r => if fst q <=? fst m then q :: l else m :: ins_q q r
  end.
Definition sort_q (l : list (Z * Z)) : list (Z * Z) := fold_right ins_q [] l.

Definition fetch_and_decode_queue {A} (dec : list Z -> Z -> list A) (file : list Z) (arrival : list (Z * Z))
           (ns : list entry) : list A :=
  let gs := groups (sort_off ns) in
  if gen_queue_sorts_by_offset then dec_table dec (fetch_bytes file (sort_q arrival)) (chunk_table gs)
  else dec_table dec (fetch_bytes file arrival) (chunk_table gs).

(* in offset order every chunk ends before the next one begins (chunks of a file do not overlap) *)
Fixpoint apart (l : list entry) : Prop :=
  match l with
  | [] => True
  | x :: r => 0 <= e_size x /\ (forall y, In y r -> e_off x + e_size x <= e_off y) /\ apart r
  end.
Fixpoint apartb (l : list entry) : bool :=
  match l with
  | [] => true
  | x :: r => (0 <=? e_size x) && forallb (fun y => e_off x + e_size x <=? e_off y) r && apartb r
  end.

(* ---------- the caller's Bounds object ----------
   a state component: `Bounds.ensure_3d` builds a NEW Bounds for the query, the object the caller handed in is left
   as it was and can be used again, on this file or on another one *)
Definition ensure_3d_st (qb : qbox) (hz0 hz1 : Z) : qbox * option box :=
  (if gen_ensure3d_fresh then qb
   else match ensure_3d qb hz0 hz1 with Some b => Box3 (b_x0 b) (b_y0 b) (b_z0 b) (b_x1 b) (b_y1 b) (b_z1 b) | None => qb end,
   ensure_3d qb hz0 hz1).

(* one query of a history: its file (hierarchy, geometry, header z range, stored points) and its level argument; the
   grid bounds are a function of the 3-D box the query works with *)
Record qstep := mkStep { s_tree : tree; s_geom : geom; s_hz0 : Z; s_hz1 : Z; s_grid : option box -> qgrid;
                         s_lv : levels; s_pts : entry -> list pt }.

Definition query_st (s : qstep) (qb : qbox) : qbox * result (list pt) :=
  let '(qb', ob) := ensure_3d_st qb (s_hz0 s) (s_hz1 s) in
  (qb', match load_octree (fuel_bound (s_tree s)) (s_tree s) (s_geom s) ob (level_range (s_lv s)) with
        | Err e => Err e
        | Ok ns => Ok (match ob with None => fetch (s_pts s) ns | Some _ => filter (keep (s_grid s ob)) (fetch (s_pts s) ns) end)
        end).

(* the same Bounds object handed to one query after the other *)
Fixpoint session (qb : qbox) (ss : list qstep) : qbox * list (result (list pt)) :=
  match ss with
  | [] => (qb, [])
  | s :: r => let '(qb1, o) := query_st s qb in let '(qb2, os) := session qb1 r in (qb2, o :: os)
  end.

(* the query of one step with a Bounds object of its own *)
Definition query_fresh (qb : qbox) (s : qstep) : result (list pt) :=
  query (fuel_bound (s_tree s)) (s_tree s) (s_geom s) qb (s_hz0 s) (s_hz1 s) (s_grid s (ensure_3d qb (s_hz0 s) (s_hz1 s)))
        (s_lv s) (s_pts s).

(* ---------- the reader: its cached hierarchy, transient faults of the source, several queries ----------
   CopcReader.root_page is ONE dictionary that every query updates IN PLACE with the pages it loads (merge) and that is
   kept for the next queries - also when the query ends by an exception: a broken page reference (the rule is checked
   before anything of the page is merged: the cache is the one the query had reached), or an exception of the source
   while a page or a chunk range is fetched.
   fault = Some n: the (n+1)-th read of the source from now on raises, once (a transient fault); the reads of a query are
   its page fetches (one per page reference followed) and then one per byte query of the grouped chunks.  A read that
   raises happens BEFORE anything is merged: the cache is then the one of the last page that was loaded. *)
Inductive outcome (A : Type) := Ans (r : result A) | IOFault.
Arguments Ans {A} r.
Arguments IOFault {A}.

Definition fails_now (fault : option nat) : bool := match fault with Some O => true | _ => false end.
Definition tick (fault : option nat) : option nat := match fault with Some (S n) => Some n | _ => None end.

Fixpoint traverse_rd (fuel : nat) (t : tree) (g : geom) (ob : option box) (lv : option (Z * Z)) (fault : option nat)
         (h : list entry) (st : list vkey) (acc : list entry) : (list entry * option nat) * outcome (list entry) :=
  match st with
  | [] => ((h, fault), Ans (Ok (rev acc)))
  | k :: st' =>
    match fuel with
    | O => ((h, fault), Ans (Err EFuel))
    | S f =>
      if negb (in_bounds g ob k) then traverse_rd f t g ob lv fault h st' acc
      else if negb (below_stop lv k) then traverse_rd f t g ob lv fault h st' acc
      else match lookup k h with
      | None => traverse_rd f t g ob lv fault h st' acc
      | Some e =>
        if is_ref e then
          if fails_now fault then ((h, None), IOFault)
          else
            let p := page_at (t_pages t) (e_off e) (e_size e) in
            if page_describes k p then traverse_rd f t g ob lv (tick fault) (merge h p) (st' ++ [k]) acc
            else ((h, tick fault), Ans (Err ELaspy))
        else if e_cnt e >=? gen_node_min_count then
          traverse_rd f t g ob lv fault h (rev (children k) ++ st') (if in_level lv k then e :: acc else acc)
        else
          traverse_rd f t g ob lv fault h st' (if in_level lv k then mkEntry k 0 0 0 :: acc else acc)
      end
    end
  end.

(* one COPC file and one query of a reader's history *)
Record cfile := mkFile { f_tree : tree; f_geom : geom; f_hz0 : Z; f_hz1 : Z; f_pts : entry -> list pt }.
Record rquery := mkRQ { r_box : qbox; r_lv : levels; r_grid : qgrid; r_fault : option nat }.

(* CopcReader.__init__: the cache starts as the root page, read at hierarchy_root_offset - wherever the hierarchy is
   stored (a VLR in front of the points, an EVLR behind them) and wherever the root page lies in it *)
Definition open_cache (f : cfile) : list entry := page_dict (t_root (f_tree f)).

(* the reads of the chunk phase: one per byte query; none when no node is selected *)
Definition n_fetches (ns : list entry) : nat := length (byte_queries (groups (sort_off ns))).

Definition query_rd (f : cfile) (h : list entry) (q : rquery) : list entry * outcome (list pt) :=
  let ob := ensure_3d (r_box q) (f_hz0 f) (f_hz1 f) in
  match traverse_rd (fuel_bound (f_tree f)) (f_tree f) (f_geom f) ob (level_range (r_lv q)) (r_fault q) h [root_key] [] with
  | ((h', fl), Ans (Ok ns)) =>
    (h', match fl with
         | Some n => if (n <? n_fetches ns)%nat then IOFault
                     else Ans (Ok (result_of (r_box q) (r_grid q) (fetch (f_pts f) ns)))
         | None => Ans (Ok (result_of (r_box q) (r_grid q) (fetch (f_pts f) ns)))
         end)
  | ((h', _), Ans (Err e)) => (h', Ans (Err e))
  | ((h', _), IOFault) => (h', IOFault)
  end.

(* the queries of one reader, one after the other: (cache after the query, outcome) of each *)
Fixpoint reader_session (f : cfile) (h : list entry) (qs : list rquery) : list (list entry * outcome (list pt)) :=
  match qs with
  | [] => []
  | q :: r => let ho := query_rd f h q in ho :: reader_session f (fst ho) r
  end.

(* the cache as the dictionary it is: the keys in insertion order, each with the entry a lookup finds *)
Fixpoint dict_view (h : list entry) (seen : list vkey) : list entry :=
  match h with
  | [] => []
  | e :: r => if existsb (key_eqb (e_key e)) seen then dict_view r seen else e :: dict_view r (e_key e :: seen)
  end.

(* ---------- driver entry point: everything at once ---------- *)
Definition lookup_pts (tbl : list ((Z * Z * Z) * list pt)) (n : entry) : list pt :=
  match find (fun r => let '(o, s, c) := fst r in (o =? e_off n) && (s =? e_size n) && (c =? e_cnt n)) tbl with
  | Some r => snd r
  | None => []
  end.

(* ================= specification side (used by the theorems, not by the driver) ================= *)
Definition is_node (e : entry) : bool := negb (is_ref e).
(* the nodes the octree stores: every entry, of any page, that describes a node *)
Definition nodes_of (t : tree) : list entry := filter is_node (all_entries t).
Definition all_pages (t : tree) : list page := t_root t :: map snd (t_pages t).

Definition sel_level (lv : option (Z * Z)) (e : entry) : bool := in_level lv (e_key e).
Definition sel_box (g : geom) (ob : option box) (e : entry) : bool := in_bounds g ob (e_key e).
(* nodes of the selected levels whose cube overlaps the box (faces included) *)
Definition target (t : tree) (g : geom) (ob : option box) (lv : option (Z * Z)) : list entry :=
  filter (sel_box g ob) (filter (sel_level lv) (nodes_of t)).

Record wf_tree (t : tree) : Prop := mkWf {
  (* a key is described once *)
  wf_unique : NoDup (map e_key (nodes_of t));
  (* counts, levels, the root key, and: the parent of every node is a node *)
  wf_count : forall e, In e (nodes_of t) -> 0 <= e_cnt e;
  wf_level : forall e, In e (nodes_of t) -> 0 <= kl (e_key e);
  wf_root : forall e, In e (nodes_of t) -> kl (e_key e) = 0 -> e_key e = root_key;
  wf_parent : forall e, In e (nodes_of t) -> 0 < kl (e_key e) ->
              exists ep, In ep (nodes_of t) /\ e_key ep = parent (e_key e);
  (* the page-reference rule: the page a reference points to describes that key *)
  wf_ref : forall e, In e (all_entries t) -> is_ref e = true ->
           exists e', lookup (e_key e) (page_dict (page_at (t_pages t) (e_off e) (e_size e))) = Some e' /\ is_ref e' = false;
  (* a page that describes a node mentions each of its existing children (as a node or as a reference) *)
  wf_children : forall p ep e, In p (all_pages t) -> In ep p -> is_ref ep = false -> In e (nodes_of t) ->
                0 < kl (e_key e) -> parent (e_key e) = e_key ep -> exists e', In e' p /\ e_key e' = e_key e;
  (* the root page mentions the root *)
  wf_root_page : forall e, In e (nodes_of t) -> e_key e = root_key -> exists e', In e' (t_root t) /\ e_key e' = root_key
}.

(* ---------- coordinates: real = X * (sn / sd) + off / D, compared with b / D ---------- *)
Record axis := mkAxis { a_sn : Z; a_sd : Z; a_off : Z }.
Record csys := mkCsys { c_D : Z; c_x : axis; c_y : axis; c_z : axis }.
Definition axis_ok (a : axis) : Prop := 0 < a_sn a /\ 0 < a_sd a.
Definition csys_ok (c : csys) : Prop := 0 < c_D c /\ axis_ok (c_x c) /\ axis_ok (c_y c) /\ axis_ok (c_z c).

(* real coordinate times D * sd *)
Definition rnum (D : Z) (a : axis) (X : Z) : Z := X * a_sn a * D + a_off a * a_sd a.
(* b0 / D <= real <= b1 / D *)
Definition in_range1 (D : Z) (a : axis) (X b0 b1 : Z) : bool :=
  (b0 * a_sd a <=? rnum D a X) && (rnum D a X <=? b1 * a_sd a).
Definition inside (c : csys) (b : box) (p : pt) : bool :=
  in_range1 (c_D c) (c_x c) (p_x p) (b_x0 b) (b_x1 b)
  && in_range1 (c_D c) (c_y c) (p_y p) (b_y0 b) (b_y1 b)
  && in_range1 (c_D c) (c_z c) (p_z p) (b_z0 b) (b_z1 b).

(* the point lies in the cube of key k (faces included) *)
Definition in_cube1 (D : Z) (a : axis) (rlo side l x X : Z) : Prop :=
  (rlo * 2 ^ l + x * side) * a_sd a <= rnum D a X * 2 ^ l /\ rnum D a X * 2 ^ l <= (rlo * 2 ^ l + (x + 1) * side) * a_sd a.
Definition in_cube (c : csys) (g : geom) (k : vkey) (p : pt) : Prop :=
  in_cube1 (c_D c) (c_x c) (g_x g) (g_side g) (kl k) (kx k) (p_x p)
  /\ in_cube1 (c_D c) (c_y c) (g_y g) (g_side g) (kl k) (ky k) (p_y p)
  /\ in_cube1 (c_D c) (c_z c) (g_z g) (g_side g) (kl k) (kz k) (p_z p).

Definition pt_i32 (p : pt) : Prop :=
  gen_i32_min <= p_x p <= gen_i32_max /\ gen_i32_min <= p_y p <= gen_i32_max /\ gen_i32_min <= p_z p <= gen_i32_max.

(* the grid bounds computed without rounding error *)
Definition exact_grid (c : csys) (b : box) : qgrid :=
  mkQ (exact_q (c_D c) (a_sn (c_x c)) (a_sd (c_x c)) (a_off (c_x c)) (b_x0 b))
      (exact_q (c_D c) (a_sn (c_y c)) (a_sd (c_y c)) (a_off (c_y c)) (b_y0 b))
      (exact_q (c_D c) (a_sn (c_z c)) (a_sd (c_z c)) (a_off (c_z c)) (b_z0 b))
      (exact_q (c_D c) (a_sn (c_x c)) (a_sd (c_x c)) (a_off (c_x c)) (b_x1 b))
      (exact_q (c_D c) (a_sn (c_y c)) (a_sd (c_y c)) (a_off (c_y c)) (b_y1 b))
      (exact_q (c_D c) (a_sn (c_z c)) (a_sd (c_z c)) (a_off (c_z c)) (b_z1 b)).

(* all points stored in the nodes of the selected levels *)
Definition level_points (t : tree) (lv : option (Z * Z)) (pts : entry -> list pt) : list pt :=
  flat_map pts (filter (sel_level lv) (nodes_of t)).

(* what a node decodes to when its chunk is cut out of the file *)
Definition node_dec {A} (dec : list Z -> Z -> list A) (file : list Z) (n : entry) : list A :=
  dec (read_range file (e_off n) (e_size n)) (e_cnt n).
Definition node_in_file (file : list Z) (n : entry) : Prop :=
  0 <= e_off n /\ 0 <= e_size n /\ e_off n + e_size n <= len file.

(* the box contains the root cube (x, y; z for 3-D boxes) *)
Definition encloses (g : geom) (qb : qbox) : Prop :=
  match qb with
  | NoBox => True
  | Box2 x0 y0 x1 y1 => x0 <= g_x g /\ g_x g + g_side g <= x1 /\ y0 <= g_y g /\ g_y g + g_side g <= y1
  | Box3 x0 y0 z0 x1 y1 z1 => x0 <= g_x g /\ g_x g + g_side g <= x1 /\ y0 <= g_y g /\ g_y g + g_side g <= y1
                              /\ z0 <= g_z g /\ g_z g + g_side g <= z1
  end.
(* stored points: inside the cube of their node, int32 coordinates, z inside the header's z range *)
Definition pts_ok (t : tree) (c : csys) (g : geom) (hz0 hz1 : Z) (pts : entry -> list pt) : Prop :=
  forall e p, In e (nodes_of t) -> In p (pts e) ->
    in_cube c g (e_key e) p /\ pt_i32 p /\ in_range1 (c_D c) (c_z c) (p_z p) hz0 hz1 = true.

(* ---------- what a query of a reader's history must give ----------
   either the source's exception - only when a fault was injected into that query - or exactly (as a multiset) the points
   of the nodes of the selected levels that overlap the box, filtered by the integer box: what `query` on a fresh reader
   gives (C15_points), whatever queries were made before and however they ended *)
Definition answer_of (f : cfile) (q : rquery) : list pt :=
  result_of (r_box q) (r_grid q)
    (flat_map (f_pts f) (target (f_tree f) (f_geom f) (ensure_3d (r_box q) (f_hz0 f) (f_hz1 f)) (level_range (r_lv q)))).
Definition step_ok (f : cfile) (q : rquery) (o : outcome (list pt)) : Prop :=
  (o = IOFault /\ r_fault q <> None) \/ (exists ps, o = Ans (Ok ps) /\ Permutation ps (answer_of f q)).

(* the query gets as far as the root node (its box meets the root cube, its levels are not empty) and no fault is injected *)
Definition reaches_root (f : cfile) (q : rquery) : Prop :=
  in_bounds (f_geom f) (ensure_3d (r_box q) (f_hz0 f) (f_hz1 f)) root_key = true
  /\ below_stop (level_range (r_lv q)) root_key = true /\ r_fault q = None.

(* ---------- executable well-formedness check (sound for wf_tree: Proofs/CopcWf.v) ---------- *)
Fixpoint nodupb (l : list vkey) : bool :=
  match l with [] => true | x :: r => negb (existsb (key_eqb x) r) && nodupb r end.
Definition has_node (t : tree) (k : vkey) : bool := existsb (fun e => key_eqb (e_key e) k) (nodes_of t).
Definition mentions (p : page) (k : vkey) : bool := existsb (fun e => key_eqb (e_key e) k) p.
Definition wf_treeb (t : tree) : bool :=
  nodupb (map e_key (nodes_of t))
  && forallb (fun e => (0 <=? e_cnt e) && (0 <=? kl (e_key e))
                       && (if kl (e_key e) =? 0 then key_eqb (e_key e) root_key else has_node t (parent (e_key e))))
             (nodes_of t)
  && forallb (fun e => if is_ref e
                       then match lookup (e_key e) (page_dict (page_at (t_pages t) (e_off e) (e_size e))) with
                            | Some e' => negb (is_ref e') | None => false end
                       else true) (all_entries t)
  && forallb (fun p => forallb (fun ep => is_ref ep ||
                forallb (fun e => if (0 <? kl (e_key e)) && key_eqb (parent (e_key e)) (e_key ep)
                                  then mentions p (e_key e) else true) (nodes_of t)) p) (all_pages t)
  && forallb (fun e => if key_eqb (e_key e) root_key then mentions (t_root t) root_key else true) (nodes_of t).

Definition in_cube1b (D : Z) (a : axis) (rlo side l x X : Z) : bool :=
  ((rlo * 2 ^ l + x * side) * a_sd a <=? rnum D a X * 2 ^ l) && (rnum D a X * 2 ^ l <=? (rlo * 2 ^ l + (x + 1) * side) * a_sd a).
Definition i32b (v : Z) : bool := (gen_i32_min <=? v) && (v <=? gen_i32_max).
Definition pt_okb (c : csys) (g : geom) (hz0 hz1 : Z) (k : vkey) (p : pt) : bool :=
  in_cube1b (c_D c) (c_x c) (g_x g) (g_side g) (kl k) (kx k) (p_x p)
  && in_cube1b (c_D c) (c_y c) (g_y g) (g_side g) (kl k) (ky k) (p_y p)
  && in_cube1b (c_D c) (c_z c) (g_z g) (g_side g) (kl k) (kz k) (p_z p)
  && i32b (p_x p) && i32b (p_y p) && i32b (p_z p)
  && in_range1 (c_D c) (c_z c) (p_z p) hz0 hz1.
Definition pts_okb (t : tree) (c : csys) (g : geom) (hz0 hz1 : Z) (pts : entry -> list pt) : bool :=
  forallb (fun e => forallb (pt_okb c g hz0 hz1 (e_key e)) (pts e)) (nodes_of t).
Definition csys_okb (c : csys) : bool :=
  (0 <? c_D c) && (0 <? a_sn (c_x c)) && (0 <? a_sd (c_x c)) && (0 <? a_sn (c_y c)) && (0 <? a_sd (c_y c))
  && (0 <? a_sn (c_z c)) && (0 <? a_sd (c_z c)).
