(* C05, byte level: the uncompressed point source is the byte stream of the file. The header announces the offset `off` of
   the first record, the record length `L` and the count `n`; the file's full point array is the n records of L bytes from `off`
   on, whatever the reader makes of the record's contents (extra bytes with no ExtraBytes VLR, a VLR documenting fewer bytes
   than the records carry, a record longer than the format's standard size ...). UncompressedPointReader addresses the stream
   with a stride `st` = header.point_format.size as rebuilt by LasHeader.read_from: read_n_points(k) takes k * st bytes from
   where the stream stands, seek(i) positions it at off + i * st. The cursor bookkeeping is the translated code of
   Gen/GenCursor.v, as in Model/Cursor.v. Definitions only. *)
From Coq Require Import ZArith List Bool.
From LasV Require Import Lib.Base Gen.GenCursor Model.Cursor.
Import ListNotations.
Open Scope Z_scope.

Record bstate := mkB { b_n : Z; b_read : Z; b_pos : Z }.          (* header count, points_read, byte position of the source *)
Inductive bout := BBytes (x y : Z) | BSeek (idx : Z) | BErr (e : err).   (* the bytes [x, y) of the file, cut into records of st bytes *)

(* result: new state, (first byte, end byte, number of records) *)
Definition bdo_read (st : Z) (s : bstate) (n : Z) : bstate * (Z * Z * Z) :=
  let '(pr, k) := gen_read_points (b_n s) (b_read s) n in
  if k <? 0 then (mkB (b_n s) pr (b_pos s), (b_pos s, b_pos s, 0))
  else (mkB (b_n s) pr (b_pos s + k * st), (b_pos s, b_pos s + k * st, k)).

Definition bstep (off st : Z) (s : bstate) (op : cop) : bstate * bout :=
  match op with
  | CRead n => let '(s', (x, y, _)) := bdo_read st s n in (s', BBytes x y)
  | CReadAll => let '(s', (x, y, _)) := bdo_read st s (-1) in (s', BBytes x y)
  | CNext k => let '(s', (x, y, c)) := bdo_read st s k in
               if c =? 0 then (s', BErr EStop) else (s', BBytes x y)
  | CSeek pos whence =>
      match gen_seek (b_n s) (b_read s) pos whence with
      | Ok (pr, idx) => (mkB (b_n s) pr (off + idx * st), BSeek pr)
      | Err e => (s, BErr e)
      end
  end.

Definition brun (off st : Z) (s : bstate) (ops : list cop) : bstate * list bout :=
  fold_left (fun acc op => let '(s', o) := bstep off st (fst acc) op in (s', snd acc ++ [o])) ops (s, []).

(* records [a, b) of the file's point array, as bytes of the file *)
Definition out_bytes (off L : Z) (o : cout) : bout :=
  match o with
  | OSlice a b => BBytes (off + a * L) (off + b * L)
  | OSeek i => BSeek i
  | OErr e => BErr e
  end.

Definition bytes_in_bounds (lo hi : Z) (o : bout) : Prop :=
  match o with BBytes x y => lo <= x <= y /\ y <= hi | _ => True end.
