(* The capacity rule of the appender and of the writer as a decision function (what the driver of C06 runs next to the implementation),
   and append sessions seen as a sequence of CALLS some of which are refused (definitions only). *)
From Coq Require Import String.
From Coq Require Import ZArith List Bool.
From LasV Require Import Lib.Base Lib.Layout Model.Las.
Import ListNotations.
Open Scope list_scope.
Open Scope Z_scope.

(* does a file of version maj.mnr that holds `count` points take `n` more? *)
Definition takes_more (maj mnr count n : Z) : bool := negb (max_point_count maj mnr - count <? n).

Section Calls.
  Variable ap : Z -> Z -> Z -> Z.

  (* one append_points call: the records and whether their point format is the file's *)
  Definition acall : Type := (list (list Z) * bool)%type.

  Definition acalls (s : astate) (calls : list acall) : astate :=
    fold_left (fun s c => fst (apoints ap s (fst c) (snd c))) calls s.

  (* the chunks the session accepted, in order (an empty chunk is accepted and stores nothing) *)
  Fixpoint taken (s : astate) (calls : list acall) : list (list (list Z)) :=
    match calls with
    | [] => []
    | c :: r =>
        match snd (apoints ap s (fst c) (snd c)) with
        | Ok _ => fst c :: taken (fst (apoints ap s (fst c) (snd c))) r
        | Err _ => taken (fst (apoints ap s (fst c) (snd c))) r
        end
    end.
End Calls.
