(* Destinations that ALREADY hold bytes when a session starts, and the operations a session issues on them: positioned writes and
   truncations (definitions only). `old` is what the path held before; open(path, 'wb+') - the mode LasData.write(path) and
   laspy.open(path, mode='w') use - empties it before the first byte of the new file is written (DTrunc 0 first); a writer that kept the old
   contents until its new header is in place would issue the truncation later (keep_then_truncate_ops: what Props/C19.v refutes).
   The harness records the mode, the contents right after the open and every write / truncate of the implementation (lasio.LogFile) and
   checks that the destination is emptied first. Proofs/DestProofs.v: every image of an emptied-first session is an image of the session
   on an empty destination, so the crash / fault theorems of C19 apply whatever the path held. *)
From Coq Require Import String.
From Coq Require Import ZArith List Bool.
From LasV Require Import Lib.Base Lib.Layout Model.Las Model.LasSpec.
Import ListNotations.
Open Scope list_scope.
Open Scope Z_scope.

Inductive dop :=
| DTrunc (n : Z)
| DWrite (pos : Z) (bs : list Z).

Definition apply_dop (f : list Z) (op : dop) : list Z :=
  match op with
  | DTrunc n => firstn (Z.to_nat n) f ++ zeros (Z.to_nat n - length f)
  | DWrite pos bs => write_at f pos bs
  end.

(* the destination after k complete operations and j bytes of the next one when that is a write *)
Definition dest_image (old : list Z) (ops : list dop) (k j : nat) : list Z :=
  let done := fold_left apply_dop (firstn k ops) old in
  match nth_error ops k with
  | Some (DWrite pos bs) => write_at done pos (firstn j bs)
  | _ => done
  end.

Definition as_writes (trace : list (Z * list Z)) : list dop := map (fun w => DWrite (fst w) (snd w)) trace.

(* open(path, 'wb+'), then the writes of the session *)
Definition overwrite_ops (trace : list (Z * list Z)) : list dop := DTrunc 0 :: as_writes trace.

(* open(path, 'rb+'), the new header over the old bytes, truncation behind it, then the rest *)
Definition keep_then_truncate_ops (hdr0 : list Z) (rest : list (Z * list Z)) : list dop :=
  DWrite 0 hdr0 :: DTrunc (len hdr0) :: as_writes rest.
