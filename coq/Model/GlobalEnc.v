(* C20: the model IS the generated translation of header.GlobalEncoding; this file only
   packages it: flags indexed 0..4, histories as folds. Definitions only. *)
From Coq Require Import ZArith List Bool.
From LasV Require Import Lib.Base Gen.GenGlobalEncoding.
Import ListNotations.
Open Scope Z_scope.

Definition ge_get (i : nat) (v : Z) : bool := nth i ge_getters (fun _ => false) v.
Definition ge_set (i : nat) (v : Z) (b : bool) : Z := nth i ge_setters (fun v _ => v) v b.
Definition ge_mask (i : nat) : Z := nth i ge_masks 0.

(* per-element obligation, as a boolean: read-back, no other bit changes, stays 16-bit *)
Definition ge_flag_ok (i : nat) (v : Z) (b : bool) : bool :=
  let v' := ge_set i v b in
  Bool.eqb (ge_get i v') b
  && (Z.land (Z.lxor v' v) (Z.lnot (ge_mask i)) =? 0)
  && (0 <=? v') && (v' <? 65536).

Definition ge_all_ok (v : Z) : bool :=
  forallb (fun i => ge_flag_ok i v true && ge_flag_ok i v false) (seq 0 5).

(* the five masks are distinct single bits inside the 16-bit field *)
Definition ge_masks_ok : bool :=
  (length ge_masks =? 5)%nat && (length ge_getters =? 5)%nat && (length ge_setters =? 5)%nat
  && forallb (fun m => (0 <? m) && (m <? 65536) && (Z.land m (m - 1) =? 0)) ge_masks
  && forallb (fun i => forallb (fun j => (i =? j)%nat || negb (ge_mask i =? ge_mask j)) (seq 0 5)) (seq 0 5).

(* a history of flag assignments *)
Definition ge_run (v : Z) (ops : list (nat * bool)) : Z :=
  fold_left (fun v op => ge_set (fst op) v (snd op)) ops v.

(* spec: last assignment to flag i in ops, if any *)
Fixpoint last_assign (i : nat) (ops : list (nat * bool)) (acc : option bool) : option bool :=
  match ops with
  | [] => acc
  | (j, b) :: r => last_assign i r (if (i =? j)%nat then Some b else acc)
  end.

(* where the field lives in a header layout: byte offset, kind, width *)
From Coq Require Import String.
From LasV Require Import Lib.Layout.
Fixpoint field_at (l : layout) (name : string) (off : Z) : option (Z * kind * nat) :=
  match l with
  | [] => None
  | (k, w, n) :: r => if String.eqb n name then Some (off, k, w) else field_at r name (off + Z.of_nat w)
  end.
