(* C18: who closes the caller's stream. A state machine over one caller-owned stream and at most one laspy handle
   (LasReader / LasWriter / LasAppender) built on it.  The try/except/close skeleton of lib.open_las, what the three
   classes store in self.closefd, the bodies of their close methods and of the point readers the LasReader delegates to,
   which point reader is created lazily, the closefd constant of LasData._write_to and the operations LasHeader.read_from
   performs on the caller's stream are NOT written here: they are the definitions of Gen/GenOwnership.v, regenerated from
   the source (tools/py2v_c18.py), and this model interprets them.  The cursor arithmetic is Gen/GenCursor.v.

   Modelled: closed/open state of the stream, what it answers when asked whether it can seek (yes, no, or nothing at all:
   a source that offers only read() has no `seekable` attribute) and how the code asks (Gen: `x.seekable()` raises
   AttributeError on such a source, `getattr(x, "seekable", lambda: False)()` takes it for a source that cannot seek),
   its position during read sessions (the stream may stand anywhere when it
   is handed to laspy: the LAS content starts where the stream stands), the lazily created point source, the exception
   class (LaspyException or another Exception) with which opening fails and which except clause sees it, and the
   failures that come AFTER a successful open: a point area that ends inside a record (read_points / read raise), EVLRs
   that cannot be decoded (open raises when they are loaded at opening, read() raises when they were left for it).
   Failures of the stream's own methods (read/readinto/seek/tell/write/flush/truncate raising OSError or anything else,
   a BaseException that is not an Exception included): while opening (outcome OFault: the constructor raises what the
   stream raised, the except clauses of open_las run), under an operation on the handle (EOpFault: the operation
   raises, the handle and the stream stay as they are - a reader has created its point source by then, every stream
   operation of read_points / read / seek goes through it), inside laspy.read after its open succeeded
   (EReadLasFault), and inside the close method itself (EEndFault: the j-th statement of the close method that may use
   the stream raises; the close actions that run all the same are the generated gen_close_*_faults: those before the
   statement and the `finally` blocks around it).
   LAZ-flagged files (bit 7 of the point format id, a laszip VLR) in an environment in which the LAZ point reader cannot be
   built (no backend selected / available, or its constructor fails: f_laz = Some x): opening succeeds - the point source
   is lazy, the header can be looked at -, every operation that needs the point source raises x and creates nothing, an
   appender refuses the file while it is being constructed; an empty LAZ-flagged file gets the empty-file point reader.
   A close method that reaches the point source through the lazy property (`self.point_source.close()`, ActLazyPS - not
   in the source as it is: C18_close_builds_nothing) builds it on the way, and raises when it cannot be built: close_handle
   and close_exn say what that does, so that such a change of the source is a term of the model, not a translation failure.
   A handle that is only DROPPED (EDrop: no close(), no with statement; the reader / writer / appender becomes garbage): nothing
   happens to the stream, whatever closefd is and whether a point source exists or not.
   A SECOND close (EReclose: close() or a with-exit on an object that was closed before): the close method runs again as generated
   for an object whose own closed flag - when the class keeps one: LasAppender.closed - is set (gen_close_*_again); points given to
   a closed appender are refused (EUseClosed, gen_use_after_close). What the second close of a reader / writer RETURNS (a writer
   rewrites its header into the stream once more) is not modelled, only what becomes of the stream.
   Not modelled: positions during write/append sessions and after a failure of the stream (left unchanged), LAZ point
   sources that can be built (no backend is installed). *)
From Coq Require Import ZArith List Bool.
From LasV Require Import Lib.Base Gen.GenCursor Gen.GenOwnership.
Import ListNotations.
Open Scope Z_scope.
Open Scope bool_scope.

(* what the content handed to open turns out to be (mode w: what the header given to the writer turns out to be) *)
Inductive outcome := OOk | OEmpty | OBadSig | OTruncated | OBadVlr | OIncompat
                   | OFault (x : exn).   (* an operation of the stream itself raises x while the constructor runs *)

(* the facts about a well-formed file that positions depend on *)
(* f_size is the size of the whole stream (what precedes the LAS content included), f_evlr_start the absolute position
   LasHeader.read_evlrs seeks to, f_evlr_bad says that the EVLRs found there cannot be decoded (non-ASCII user id) *)
(* f_laz: None = the points are not compressed; Some x = the header flags them as compressed (LAZ) and, in the environment
   the session runs in, building the LAZ point reader raises x: no backend is selected or available (LaspyException), or
   the backend's constructor fails (whatever it raises) *)
Record finfo := mkF { f_offset : Z; f_count : Z; f_psize : Z; f_minor : Z; f_nevlrs : Z;
                      f_evlr_start : Z; f_evlr_bytes : Z; f_size : Z; f_evlr_bad : bool; f_laz : option exn }.
Definition is_laz (f : finfo) : bool := match f_laz f with Some _ => true | None => false end.

(* what the object answers when it is asked whether it can seek: True | False | it has no `seekable` attribute at all
   (a source that offers only read(): it cannot seek or tell either) *)
Inductive seekcap := CapYes | CapNo | CapAbsent.

Record stream := mkS { s_closed : bool; s_pos : Z; s_cap : seekcap }.

(* seek and tell work *)
Definition cap_seekable (c : seekcap) : bool := match c with CapYes => true | _ => false end.
Definition s_seekable (s : stream) : bool := cap_seekable (s_cap s).

(* the answer a seekability question gets; None = AttributeError *)
Definition query (q : squery) (c : seekcap) : option bool :=
  match c with
  | CapYes => Some true
  | CapNo => Some false
  | CapAbsent => match q with QCall => None | QGetattrFalse => Some false end
  end.

(* the reader's lazily created point source: none yet | UncompressedPointReader | EmptyPointReader; the flag says
   whether the object was handed the reader's source *)
Inductive psrc := PNone | PReal (src_some : bool) | PNull (src_some : bool).

Record handle := mkH { h_mode : omode; h_closefd : bool (* self.closefd *); h_declared : bool (* what the caller asked for *);
                       h_ps : psrc; h_file : finfo; h_read : Z; h_pending_evlrs : bool }.

(* one entry per moment laspy lets go of the stream *)
Inductive how := HFailedOpen | HPrecondition | HExit | HClose | HBodyRaised | HLasDataWrite
               | HCloseFault.   (* the with statement was left / close() was called and the close method itself raised *)
Record obs := mkO { o_how : how; o_closefd : bool; o_was_open : bool; o_closed : bool }.

Record st := mkSt { st_s : stream; st_h : option handle; st_log : list obs }.

Inductive res := RDone | RRaised (x : exn) | RIgnored.

Inductive event :=
| EOpen (m : omode) (closefd read_evlrs : bool) (f : finfo) (o : outcome)   (* laspy.open(stream, mode, closefd=, read_evlrs=) *)
| EReadPoints (n : Z) | ESeek (pos whence : Z) | EReadAll | EPointSource   (* reader.read_points / seek / read / .point_source *)
| EWrite                                                                   (* write_points / append_points that succeeds *)
| EBodyRaises (x : exn)                                                    (* the with-body raises: __exit__ runs *)
| EExit | EClose
| ELasDataWrite (o : outcome)                                              (* LasData.write(stream) *)
| EReadLas (closefd : bool) (f : finfo) (o : outcome)                      (* laspy.read(stream, closefd=) *)
| ERewind (p : Z)                                                          (* the caller's own stream.seek(p) *)
| EOpFault (x : exn)                    (* an operation on the handle raises x: an operation of the stream failed under it *)
| EEndFault (via_exit : bool) (j : nat) (x : exn)   (* the with statement is left (whether its body raised or not) / close() is
                                           called, and the j-th statement of the close method that may use the stream raises x *)
| EReadLasFault (closefd : bool) (f : finfo) (x : exn)    (* laspy.read: the open succeeds, an operation of the stream fails under read() *)
| EDrop                                 (* the caller lets go of the handle WITHOUT close() and without leaving a with statement: the
                                           object becomes unreachable and is collected. No class has a finalizer, and nothing but the
                                           close methods lets go of a stream (gen_only_close_closes): the stream is as it was *)
| EReclose (m : omode) (closefd : bool) (p : psrc)   (* close() - or the exit of a with statement - AGAIN on a reader / writer / appender that
                                           was closed before and that the caller still holds: the object of mode m that was given closefd
                                           and whose point source is p. Its close method runs once more, as generated for an object whose
                                           own closed flag (if the class keeps one) is set: gen_close_*_again *)
| EUseClosed (m : omode).               (* write_points / append_points on such an object *)

(* the exception constructing the reader / writer / appender raises, by class *)
Definition fail_exn (m : omode) (o : outcome) : option exn :=
  match o with
  | OOk => None
  | OBadVlr => Some XOther             (* UnicodeDecodeError / struct.error / ValueError: not a LaspyException *)
  | OIncompat => Some XLaspy
  | OEmpty | OBadSig | OTruncated => match m with MW => None (* the destination is not read *) | _ => Some XLaspy end
  | OFault x => Some x                 (* every constructor uses the stream: header read (r, a), header written (w) *)
  end.

(* ---------------- closing ---------------- *)
Definition close_stream (s : stream) : stream := mkS true (s_pos s) (s_cap s).
Definition set_pos (s : stream) (p : Z) : stream := mkS (s_closed s) p (s_cap s).

(* a close action run by a point source object; it holds the stream only if it was handed it (None.close() raises) *)
Definition ps_act (src_some : bool) (s : stream) (a : cact) : stream :=
  match a with ActSrc => if src_some then close_stream s else s | ActPS | ActLazyPS => s end.

Definition ps_close (p : psrc) (s : stream) : stream :=
  match p with
  | PNone => s
  | PReal b => fold_left (ps_act b) (gen_close_uncompressed false true b) s
  | PNull b => fold_left (ps_act b) (gen_close_empty false true b) s
  end.

(* a close action run by the reader / writer / appender (or by an except clause of open_las, where no point source exists) *)
Definition top_act (p : psrc) (s : stream) (a : cact) : stream :=
  match a with ActSrc => close_stream s | ActPS | ActLazyPS => ps_close p s end.

Definition has_ps (p : psrc) : bool := match p with PNone => false | _ => true end.

Definition close_prog (m : omode) : bool -> bool -> bool -> list cact :=
  match m with MR => gen_close_reader | MW => gen_close_writer | MA => gen_close_appender end.

(* building the point source: it is made, or - a LAZ backend's reader in this environment - building it raises *)
Inductive made := Made (p : psrc) | NotMade (x : exn).

Definition new_ps (f : finfo) : made :=
  match gen_point_source_kind (0 <? f_count f) (is_laz f) with
  | PKUncompressed b => Made (PReal b)
  | PKEmpty b => Made (PNull b)
  | PKBackend _ => NotMade (match f_laz f with Some x => x | None => XOther end)
  end.

(* the lazy property LasReader.point_source: when building fails nothing is kept, the next use tries again *)
Definition ensure_ps (h : handle) : made := match h_ps h with PNone => new_ps (h_file h) | p => Made p end.

(* A close method that goes through the lazy property (`self.point_source.close()`: ActLazyPS, always the last statement the
   method executes) works with the point source the reader has or, when there is none yet, with the one that is built then;
   when building it raises, so does the method: the actions before it have run, nothing else does *)
Definition is_lazy (a : cact) : bool := match a with ActLazyPS => true | _ => false end.
Fixpoint before_lazy (acts : list cact) : list cact :=
  match acts with [] => [] | a :: r => if is_lazy a then [] else a :: before_lazy r end.

(* the close method of an object that was closed before *)
Definition close_prog_again (m : omode) : bool -> bool -> bool -> list cact :=
  match m with MR => gen_close_reader_again | MW => gen_close_writer_again | MA => gen_close_appender_again end.

Definition close_faults_again (m : omode) : bool -> bool -> bool -> list fault_point :=
  match m with MR => gen_close_reader_again_faults | MW => gen_close_writer_again_faults | MA => gen_close_appender_again_faults end.

Definition reclose (m : omode) (closefd : bool) (p : psrc) (s : stream) : stream :=
  fold_left (top_act p) (close_prog_again m (gen_init_closefd m (gen_open_ctor_closefd m closefd)) (has_ps p) true) s.

Definition close_acts (h : handle) : list cact := close_prog (h_mode h) (h_closefd h) (has_ps (h_ps h)) true.

Definition close_handle (h : handle) (s : stream) : stream :=
  if existsb is_lazy (close_acts h) then
    match ensure_ps h with
    | Made p => fold_left (top_act p) (close_acts h) s
    | NotMade _ => fold_left (top_act (h_ps h)) (before_lazy (close_acts h)) s
    end
  else fold_left (top_act (h_ps h)) (close_acts h) s.

(* the exception the close method itself raises although the stream did nothing wrong *)
Definition close_exn (h : handle) : option exn :=
  if existsb is_lazy (close_acts h) then match ensure_ps h with Made _ => None | NotMade x => Some x end else None.

(* ---------------- exceptions through the except clauses of open_las ---------------- *)
Definition catches (c : catch_class) (x : exn) : bool :=
  match c, x with
  | CatchLaspy, XLaspy => true | CatchLaspy, _ => false
  | CatchException, XBase => false
  | _, _ => true
  end.

Fixpoint handle_exn (hs : list (catch_class * list cact)) (x : exn) (s : stream) : stream :=
  match hs with
  | [] => s
  | (c, acts) :: r => if catches c x then fold_left (top_act PNone) acts s else handle_exn r x s
  end.

(* ---------------- positions: the operations of header reading on the caller's stream ---------------- *)
(* stream.read(n) from pos on a stream of `size` bytes: short at the end, everything for a negative n *)
Definition rd (size pos n : Z) : Z := if n <? 0 then Z.max pos size else Z.max pos (Z.min (pos + n) size).

Record cur := mkCur { c_pos : Z; c_saved : Z; c_got : Z }.

Definition sop_step (f : finfo) (c : cur) (op : sop) : cur :=
  match op with
  | SRead n => let p := rd (f_size f) (c_pos c) n in mkCur p (c_saved c) (c_got c + (p - c_pos c))
  | SReadToOffset => let p := rd (f_size f) (c_pos c) (f_offset f - c_got c) in mkCur p (c_saved c) (c_got c + (p - c_pos c))
  | SReadToOffsetMax m => let p := rd (f_size f) (c_pos c) (Z.min (f_offset f - c_got c) m) in mkCur p (c_saved c) (c_got c + (p - c_pos c))
  | STellSave => mkCur (c_pos c) (c_pos c) (c_got c)
  | SSeekEvlrStart => mkCur (f_evlr_start f) (c_saved c) (c_got c)
  | SReadEvlrs => mkCur (rd (f_size f) (c_pos c) (f_evlr_bytes f)) (c_saved c) (c_got c)
  | SSeekSaved => mkCur (c_saved c) (c_saved c) (c_got c)
  end.

Definition run_sops (f : finfo) (ops : list sop) (pos : Z) : Z := c_pos (fold_left (sop_step f) ops (mkCur pos 0 0)).

(* LasHeader.read_evlrs on the caller's stream: the answer to its seekability question (None: AttributeError). It asks for
   1.4 headers only, once before its tests or only when EVLRs are announced (gen_read_evlrs_query_asked); an answer that
   was not asked for is not used (the test `number_of_evlrs > 0` is false then) *)
Definition evlr_query (f : finfo) (c : seekcap) : option bool :=
  if (4 <=? f_minor f) && gen_read_evlrs_query_asked (0 <? f_nevlrs f) then query gen_read_evlrs_query c else Some false.

Definition evlr_raises (f : finfo) (c : seekcap) : bool := match evlr_query f c with None => true | Some _ => false end.

(* guard of the branch of LasHeader.read_evlrs that touches the stream *)
Definition evlr_guard (f : finfo) (c : seekcap) : bool :=
  (4 <=? f_minor f) && (0 <? f_nevlrs f) && match evlr_query f c with Some b => b | None => false end.

Definition header_read_pos (f : finfo) (read_evlrs : bool) (c : seekcap) (pos : Z) : Z :=
  let p1 := run_sops f gen_prefetch_ops pos in
  if gen_read_from_prefetch_then_evlrs && read_evlrs && evlr_guard f c then run_sops f gen_read_evlrs_ops p1 else p1.

(* header.evlrs is still None after opening although the file announces EVLRs: LasReader.read will fetch them *)
Definition pending_evlrs (f : finfo) (read_evlrs : bool) (c : seekcap) : bool :=
  (4 <=? f_minor f) && (0 <? f_nevlrs f) && (negb read_evlrs || negb (evlr_guard f c)).

(* the exception of the constructor, the content being what it is: a reader that loads the EVLRs while opening (asked
   to) fails when the stream cannot even be asked whether it can seek (AttributeError), and - the stream can seek to
   them - on EVLRs that cannot be decoded (UnicodeDecodeError) *)
Definition is_r (m : omode) : bool := match m with MR => true | _ => false end.
Definition is_a (m : omode) : bool := match m with MA => true | _ => false end.
Definition open_exn (m : omode) (o : outcome) (f : finfo) (read_evlrs : bool) (c : seekcap) : option exn :=
  match fail_exn m o with
  | Some x => Some x
  | None => if is_a m && is_laz f then Some gen_appender_laz_exn     (* LasAppender._create_laz_backend: no backend *)
            else if is_r m && gen_read_from_prefetch_then_evlrs && read_evlrs && (evlr_raises f c || evlr_guard f c && f_evlr_bad f)
            then Some XOther else None
  end.

(* ---------------- opening ---------------- *)

(* LasAppender.__init__ starts with `if not dest.seekable(): raise ..`: its own exception for a destination that answers
   no, AttributeError for one that cannot be asked *)
Definition appender_refusal (c : seekcap) : exn := match c with CapAbsent => XOther | _ => gen_appender_nonseekable_exn end.

Definition add_obs (t : st) (s' : stream) (hw : how) (declared : bool) : list obs :=
  st_log t ++ [mkO hw declared (negb (s_closed (st_s t))) (s_closed s')].

Definition do_open (declared : bool) (m : omode) (closefd read_evlrs : bool) (f : finfo) (o : outcome) (t : st) : st * res :=
  let s := st_s t in
  match st_h t with
  | Some _ => (t, RIgnored)
  | None =>
    if gen_open_pre_assert_seekable m && (s_closed s || negb (s_seekable s)) then
      (* the assertion before the try fails (or seekable() raises on a closed stream, or the object has no seekable at
         all: AttributeError): no except clause runs *)
      (mkSt s None (add_obs t s HPrecondition declared), RRaised XOther)
    else
      let failure := if s_closed s then Some XOther
                     else if is_a m && negb (s_seekable s) then Some (appender_refusal (s_cap s))
                     else open_exn m o f read_evlrs (s_cap s) in
      match failure with
      | Some x => let s' := handle_exn (gen_open_handlers m closefd) x s in
                  (mkSt s' None (add_obs t s' HFailedOpen declared), RRaised x)
      | None =>
          let s' := if is_r m then set_pos s (header_read_pos f read_evlrs (s_cap s) (s_pos s)) else s in
          let h := mkH m (gen_init_closefd m (gen_open_ctor_closefd m closefd)) declared PNone f 0
                       (is_r m && pending_evlrs f read_evlrs (s_cap s)) in
          (mkSt s' (Some h) (st_log t), RDone)
      end
  end.

(* ---------------- reader operations ---------------- *)
Definition ps_src_some (p : psrc) : bool := match p with PNone => false | PReal b => b | PNull b => b end.

Definition set_ps (h : handle) (p : psrc) : handle :=
  mkH (h_mode h) (h_closefd h) (h_declared h) p (h_file h) (h_read h) (h_pending_evlrs h).
Definition set_read (h : handle) (r : Z) : handle :=
  mkH (h_mode h) (h_closefd h) (h_declared h) (h_ps h) (h_file h) r (h_pending_evlrs h).
Definition clear_pending (h : handle) : handle :=
  mkH (h_mode h) (h_closefd h) (h_declared h) (h_ps h) (h_file h) (h_read h) false.

(* the bytes the point reader got are not a whole number of records: np.frombuffer raises ValueError *)
Definition torn (psize got : Z) : bool := (0 <? psize) && negb (got mod psize =? 0).

Definition do_read_points (n : Z) (h : handle) (s : stream) : handle * stream * res :=
  let f := h_file h in
  let '(pr, k) := gen_read_points (f_count f) (h_read h) n in
  if k <? 0 then (set_read h pr, s, RDone)                            (* nothing left: the point source is not touched *)
  else match ensure_ps h with
       | NotMade x => (h, s, RRaised x)                                  (* no point source, nothing read *)
       | Made p =>
       match p with
       | PReal _ =>
           let p' := rd (f_size f) (s_pos s) (k * f_psize f) in
           if torn (f_psize f) (p' - s_pos s)
           then (set_ps h p, set_pos s p', RRaised XOther)              (* points_read is not advanced *)
           else (set_ps (set_read h pr) p, set_pos s p', RDone)
       | _ => (set_ps (set_read h pr) p, s, RDone)
       end
       end.

Definition do_seek (pos whence : Z) (h : handle) (s : stream) : handle * stream * res :=
  let f := h_file h in
  match gen_seek (f_count f) (h_read h) pos whence with
  | Err _ => (h, s, RRaised XOther)
  | Ok (pr, idx) =>
      match ensure_ps h with
      | NotMade x => (h, s, RRaised x)
      | Made p =>
      match p with
      | PReal _ => if s_seekable s then (set_ps (set_read h pr) p, set_pos s (f_offset f + idx * f_psize f), RDone)
                   else (set_ps h p, s, RRaised XOther)
      | _ => (set_ps (set_read h pr) p, s, RDone)
      end
      end
  end.

(* EVLRs left for read(): LasReader.read asks its point source's source whether it can seek (gen_reader_read_query).
   yes -> self.read_evlrs() = LasHeader.read_evlrs(self._source), which asks for itself and, told no, leaves them unread;
   no -> they are read where the stream stands; no answer -> AttributeError *)
Definition load_pending (h : handle) (s : stream) : handle * stream * res :=
  let f := h_file h in
  match query gen_reader_read_query (s_cap s) with
  | None => (h, s, RRaised XOther)
  | Some true =>
      match evlr_query f (s_cap s) with
      | None => (h, s, RRaised XOther)
      | Some true => if f_evlr_bad f then (h, s, RRaised XOther)   (* the decode error leaves the stream inside the EVLRs: position not modelled *)
                     else (clear_pending h, set_pos s (run_sops f gen_read_evlrs_ops (s_pos s)), RDone)
      | Some false => (h, s, RDone)
      end
  | Some false => if is_laz f then (h, s, RRaised XLaspy)      (* "Reading EVLRs from a LAZ in a non-seekable stream can only be done with lazrs backend" *)
                  else if f_evlr_bad f then (h, s, RRaised XOther)
                  else (clear_pending h, set_pos s (rd (f_size f) (s_pos s) (f_evlr_bytes f)), RDone)
  end.

Definition do_read_all (h : handle) (s : stream) : handle * stream * res :=
  let '(h1, s1, r1) := do_read_points (-1) h s in
  match r1 with
  | RDone =>
    if h_pending_evlrs h1 then
      match ensure_ps h1 with                        (* `self.point_source.source` creates the point source *)
      | NotMade x => (h1, s1, RRaised x)
      | Made p =>
      let h2 := set_ps h1 p in
      if ps_src_some p then load_pending h2 s1
      else (h2, s1, RRaised XOther)                  (* None.seekable() / None.read() *)
      end
    else (h1, s1, RDone)
  | _ => (h1, s1, r1)
  end.

(* ---------------- letting go ---------------- *)
(* what leaving the with statement / calling close() gives: the method's own exception if it raises one (it replaces the
   exception of the with-body), else what was on its way *)
Definition end_res (via_exit : bool) (h : handle) (r : res) : res :=
  if via_exit && negb (gen_exit_closes (h_mode h)) then r
  else match close_exn h with Some y => RRaised y | None => r end.

Definition end_handle (hw : how) (via_exit : bool) (t : st) (h : handle) : st :=
  let s := st_s t in
  let s' := if via_exit && negb (gen_exit_closes (h_mode h)) then s else close_handle h s in
  mkSt s' None (add_obs t s' hw (h_declared h)).

(* the close method itself raises at its j-th fault point: the close actions that run all the same *)
Definition close_faults (m : omode) : bool -> bool -> bool -> list fault_point :=
  match m with MR => gen_close_reader_faults | MW => gen_close_writer_faults | MA => gen_close_appender_faults end.

Definition end_handle_fault (via_exit : bool) (j : nat) (t : st) (h : handle) : option st :=
  if via_exit && negb (gen_exit_closes (h_mode h)) then None
  else match nth_error (close_faults (h_mode h) (h_closefd h) (has_ps (h_ps h)) true) j with
       | Some (Some acts) =>
           let s' := fold_left (top_act (h_ps h)) acts (st_s t) in
           Some (mkSt s' None (add_obs t s' HCloseFault (h_declared h)))
       | _ => None          (* no such statement (a reader's close uses the stream only to close it) *)
       end.

(* an operation on the handle fails because the stream did: a reader reaches its stream through the point source *)
Definition op_fault (h : handle) : handle :=
  if is_r (h_mode h) then match ensure_ps h with Made p => set_ps h p | NotMade _ => h end else h.

Definition f_none : finfo := mkF 0 0 0 0 0 0 0 0 false None.

Definition do_lasdata_write (o : outcome) (t : st) : st * res :=
  let s := st_s t in
  if s_closed s || negb (s_seekable s) then (mkSt s (st_h t) (add_obs t s HLasDataWrite false), RRaised XOther)
  else match fail_exn MW o with
       | Some x => (mkSt s (st_h t) (add_obs t s HLasDataWrite false), RRaised x)   (* the constructor raised: no handler *)
       | None =>
           let h := mkH MW (gen_init_closefd MW gen_lasdata_write_closefd) false PNone f_none 0 false in
           let s' := if gen_exit_closes MW then close_handle h s else s in
           (mkSt s' (st_h t) (add_obs t s' HLasDataWrite false), RDone)
       end.

Definition upd (t : st) (h : handle) (s : stream) : st := mkSt s (Some h) (st_log t).

Definition on_reader (t : st) (k : handle -> st * res) : st * res :=
  match st_h t with
  | Some h => if is_r (h_mode h) then k h else (t, RIgnored)
  | None => (t, RIgnored)
  end.

Definition on_handle (t : st) (k : handle -> st * res) : st * res :=
  match st_h t with Some h => k h | None => (t, RIgnored) end.

Definition step (t : st) (e : event) : st * res :=
  match e with
  | EOpen m cf re f o => do_open cf m cf re f o t
  | EReadPoints n => on_reader t (fun h => let '(h', s', r) := do_read_points n h (st_s t) in (upd t h' s', r))
  | ESeek pos whence => on_reader t (fun h => let '(h', s', r) := do_seek pos whence h (st_s t) in (upd t h' s', r))
  | EReadAll => on_reader t (fun h => let '(h', s', r) := do_read_all h (st_s t) in (upd t h' s', r))
  | EPointSource => on_reader t (fun h => match ensure_ps h with
                                          | Made p => (upd t (set_ps h p) (st_s t), RDone)
                                          | NotMade x => (t, RRaised x)
                                          end)
  | EWrite => on_handle t (fun h => if is_r (h_mode h) then (t, RIgnored) else (t, RDone))
  | EBodyRaises x => on_handle t (fun h => (end_handle HBodyRaised true t h, end_res true h (RRaised x)))
  | EExit => on_handle t (fun h => (end_handle HExit true t h, end_res true h RDone))
  | EClose => on_handle t (fun h => (end_handle HClose false t h, end_res false h RDone))
  | ELasDataWrite o => do_lasdata_write o t
  | EReadLas cf f o =>
      match st_h t with
      | Some _ => (t, RIgnored)
      | None =>
          let '(t1, r1) := do_open cf MR (gen_read_las_closefd cf) true f o t in
          match st_h t1 with
          | None => (t1, r1)
          | Some h => let '(h', s', r) := do_read_all h (st_s t1) in
                      (end_handle (match r with RDone => HExit | _ => HBodyRaised end) true (upd t1 h' s') h', end_res true h' r)
          end
      end
  | ERewind p =>
      let s := st_s t in
      if s_closed s || negb (s_seekable s) then (t, RRaised XOther) else (mkSt (set_pos s p) (st_h t) (st_log t), RDone)
  | EOpFault x => on_handle t (fun h => (upd t (op_fault h) (st_s t), RRaised x))
  | EEndFault via j x =>
      on_handle t (fun h => match end_handle_fault via j t h with Some t' => (t', RRaised x) | None => (t, RIgnored) end)
  | EReadLasFault cf f x =>
      match st_h t with
      | Some _ => (t, RIgnored)
      | None =>
          let '(t1, r1) := do_open cf MR (gen_read_las_closefd cf) true f OOk t in
          match st_h t1 with
          | None => (t1, r1)
          | Some h => (end_handle HBodyRaised true (upd t1 (op_fault h) (st_s t1)) (op_fault h), end_res true (op_fault h) (RRaised x))
          end
      end
  | EDrop => on_handle t (fun _ => (mkSt (st_s t) None (st_log t), RDone))   (* not a moment at which laspy lets go: no log entry *)
  | EReclose m cf p =>
      match st_h t with
      | Some _ => (t, RIgnored)                   (* one handle per stream at a time *)
      | None => (mkSt (reclose m cf p (st_s t)) None (st_log t), RDone)
      end
  | EUseClosed m =>
      match st_h t with
      | Some _ => (t, RIgnored)
      | None => (t, match gen_use_after_close m with Some x => RRaised x | None => RIgnored (* goes on to the stream: not modelled *) end)
      end
  end.

Definition run (t : st) (evs : list event) : st := fold_left (fun a e => fst (step a e)) evs t.

Fixpoint trace (t : st) (evs : list event) : list (res * st) :=
  match evs with
  | [] => []
  | e :: r => let '(t', x) := step t e in (x, t') :: trace t' r
  end.

(* a stream the caller has just created or opened, standing at position p (whatever comes before is not laspy's) *)
Definition init_at (c : seekcap) (p : Z) : st := mkSt (mkS false p c) None [].
Definition init (c : seekcap) : st := init_at c 0.

(* ---------------- the property's reading of the log ---------------- *)
(* the stream was open when laspy got it, laspy has let go of it: it is closed iff the caller said closefd.
   HPrecondition (mode w refuses a non-seekable destination by an assertion placed before the try) is the one exit the
   property's list of failures (invalid content, unusable header) does not cover; it is stated separately.
   HCloseFault - the close method itself raised because the stream failed under it - is judged by obs_ok in one direction
   only (a stream laspy was told to leave open is left open); the other direction (a stream laspy owns is closed even
   when its close method fails half-way) is obs_ok_full, which holds when the generated fault points of the close
   methods all still run the close action (close_faults_safeb). *)
Definition is_close_fault (hw : how) : bool := match hw with HCloseFault => true | _ => false end.

Definition obs_ok (o : obs) : Prop :=
  o_how o <> HPrecondition -> o_was_open o = true ->
  if is_close_fault (o_how o) then (o_closed o = true -> o_closefd o = true) else o_closed o = o_closefd o.

Definition obs_ok_full (o : obs) : Prop :=
  o_how o <> HPrecondition -> o_was_open o = true -> o_closed o = o_closefd o.

Definition obs_okb (o : obs) : bool :=
  match o_how o with
  | HPrecondition => true
  | HCloseFault => negb (o_was_open o) || negb (o_closed o) || o_closefd o
  | _ => negb (o_was_open o) || Bool.eqb (o_closed o) (o_closefd o)
  end.

(* what a list of close actions does to an open stream, the point source being p *)
Definition acts_close (p : psrc) (acts : list cact) : bool := s_closed (fold_left (top_act p) acts (mkS false 0 CapYes)).

Definition fault_point_safe (cf : bool) (p : psrc) (e : fault_point) : bool :=
  match e with None => true | Some acts => Bool.eqb (acts_close p acts) cf end.

(* every fault point of every close method still closes the stream iff closefd (point sources as the reader creates them) *)
Definition close_faults_safeb : bool :=
  forallb (fun m => forallb (fun cf => forallb (fun p => forallb (fault_point_safe cf p) (close_faults m cf (has_ps p) true))
                                               [PNone; PReal true; PNull true]) [true; false]) [MR; MW; MA].

Definition is_end (e : event) : bool :=
  match e with EExit | EClose | EBodyRaises _ => true | _ => false end.

Definition is_close_fault_event (e : event) : bool := match e with EEndFault _ _ _ => true | _ => false end.
