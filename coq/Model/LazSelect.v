(* C14 - the decompression selection (laspy/_compression/selection.py) in front of a LAZ backend.  Definitions only
   (proofs: Proofs/LazSelectProofs.v).

   A layered backend (point formats 6-10) decompresses only the layers it is asked for; what it was not asked for comes
   back as zeros.  The layers are the backend's (constants SELECTIVE_DECOMPRESS_* of lazrs; x, y, return number, number of
   returns and scanner channel are always decompressed); which dimension lives in which layer is the LASzip layout of a
   point-14 record.  laspy's part: the Flag class DecompressionSelection (member values, all(), base(), the defaults of
   laspy.open / laspy.read / LasReader and the fallback of create_reader - all dumped from the running class into
   Gen/GenC14.v), and to_lazrs(), which translates a selection into the backend's constants (its table too is dumped).
   `mask_record` is what a selection does to one record; the theorems say that the selection laspy uses when the user says
   nothing - all() - selects every layer, so that reading a compressed file stays transparent. *)
From Coq Require Import String.
From Coq Require Import ZArith List Bool.
From LasV Require Import Lib.Base Lib.Layout Gen.GenDims Gen.GenC14 Model.Las Model.Laz.
Import ListNotations.
Open Scope list_scope.
Open Scope Z_scope.

(* ---- the backend's layers ---- *)
Definition L_Z : Z := 1.
Definition L_CLASSIFICATION : Z := 2.
Definition L_FLAGS : Z := 4.
Definition L_INTENSITY : Z := 8.
Definition L_SCAN_ANGLE : Z := 16.
Definition L_USER_DATA : Z := 32.
Definition L_POINT_SOURCE_ID : Z := 64.
Definition L_GPS_TIME : Z := 128.
Definition L_RGB : Z := 256.
Definition L_NIR : Z := 512.
Definition L_WAVEPACKET : Z := 1024.
Definition L_EXTRA_BYTES : Z := 2048.
Definition lz_layers : list Z :=
  [L_Z; L_CLASSIFICATION; L_FLAGS; L_INTENSITY; L_SCAN_ANGLE; L_USER_DATA; L_POINT_SOURCE_ID; L_GPS_TIME; L_RGB; L_NIR;
   L_WAVEPACKET; L_EXTRA_BYTES].

Definition has (sel layer : Z) : bool := negb (Z.land sel layer =? 0).

(* dimension of a point-14 record -> (layer, bits of its bytes that belong to the always-decompressed base layer);
   layer 0 = the base layer itself.  The flags byte holds the scanner channel (bits 4-5, base layer) next to the
   classification flags, the scan direction flag and the edge-of-flight-line flag (FLAGS layer). *)
Definition layer_table : list (string * (Z * Z)) :=
  [("X", (0, 255)); ("Y", (0, 255)); ("bit_fields", (0, 255));
   ("Z", (L_Z, 0)); ("intensity", (L_INTENSITY, 0)); ("classification_flags", (L_FLAGS, 48));
   ("classification", (L_CLASSIFICATION, 0)); ("user_data", (L_USER_DATA, 0)); ("scan_angle", (L_SCAN_ANGLE, 0));
   ("point_source_id", (L_POINT_SOURCE_ID, 0)); ("gps_time", (L_GPS_TIME, 0));
   ("red", (L_RGB, 0)); ("green", (L_RGB, 0)); ("blue", (L_RGB, 0)); ("nir", (L_NIR, 0));
   ("wavepacket_index", (L_WAVEPACKET, 0)); ("wavepacket_offset", (L_WAVEPACKET, 0)); ("wavepacket_size", (L_WAVEPACKET, 0));
   ("return_point_wave_location", (L_WAVEPACKET, 0)); ("x_t", (L_WAVEPACKET, 0)); ("y_t", (L_WAVEPACKET, 0));
   ("z_t", (L_WAVEPACKET, 0))]%string.

Fixpoint layer_of (n : string) (t : list (string * (Z * Z))) : option (Z * Z) :=
  match t with
  | [] => None
  | (m, v) :: r => if String.eqb m n then Some v else layer_of n r
  end.

(* the dimension (of the table dumped from laspy/point/dims.py) that covers byte i of a record *)
Fixpoint dim_at (dims : list (string * Z * Z * string)) (i : Z) : option string :=
  match dims with
  | [] => None
  | (n, off, sz, _) :: r => if (off <=? i) && (i <? off + sz) then Some n else dim_at r i
  end.

(* which bits of byte i of a record of the standard dimensions `dims` a selection lets through; a byte no known
   dimension covers, or a dimension without a layer, lets nothing through (the theorems then fail: fail closed) *)
Definition keep_std (sel : Z) (dims : list (string * Z * Z * string)) (i : Z) : Z :=
  match dim_at dims i with
  | None => 0
  | Some n => match layer_of n layer_table with
              | None => 0
              | Some (l, basebits) => if (l =? 0) || has sel l then 255 else basebits
              end
  end.

Definition fmt_entry (fmt : Z) : option (Z * Z * list (string * Z * Z * string)) :=
  find (fun e => fst (fst e) =? fmt) point_formats.

Definition keep_byte (sel fmt i : Z) : Z :=
  match fmt_entry fmt with
  | None => 255
  | Some (_, std, dims) => if std <=? i then (if has sel L_EXTRA_BYTES then 255 else 0) else keep_std sel dims i
  end.

Fixpoint mask_from (sel fmt i : Z) (rec : list Z) : list Z :=
  match rec with
  | [] => []
  | b :: r => Z.land b (keep_byte sel fmt i) :: mask_from sel fmt (i + 1) r
  end.

(* one record as a backend honouring the selection `sel` (its own constants) hands it out: the selection only exists for
   the layered formats, it is ignored for formats 0-5 *)
Definition mask_record (sel fmt : Z) (rec : list Z) : list Z :=
  if fmt <? 6 then rec else mask_from sel fmt 0 rec.

(* ---- laspy's side ---- *)
(* which layer of the backend a member of the Flag class stands for, by NAME (the table of to_lazrs() is dumped from the
   running function: this is what it is held against) *)
Definition member_layer : list (string * Z) :=
  [("XY_RETURNS_CHANNEL", 0); ("Z", L_Z); ("CLASSIFICATION", L_CLASSIFICATION); ("FLAGS", L_FLAGS); ("INTENSITY", L_INTENSITY);
   ("SCAN_ANGLE", L_SCAN_ANGLE); ("USER_DATA", L_USER_DATA); ("POINT_SOURCE_ID", L_POINT_SOURCE_ID); ("GPS_TIME", L_GPS_TIME);
   ("RGB", L_RGB); ("NIR", L_NIR); ("WAVEPACKET", L_WAVEPACKET); ("ALL_EXTRA_BYTES", L_EXTRA_BYTES)]%string.
Fixpoint codes_of (s : string) : list Z :=
  match s with EmptyString => [] | String c r => Z.of_nat (Ascii.nat_of_ascii c) :: codes_of r end.
Fixpoint layer_of_member (name : list Z) (t : list (string * Z)) : option Z :=
  match t with
  | [] => None
  | (n, l) :: r => if list_eqb (codes_of n) name then Some l else layer_of_member name r
  end.
(* member (name, value): to_lazrs() of that member alone is the layer of that name *)
Definition member_maps_to_its_layer (e : list Z * Z) : bool :=
  match layer_of_member (fst e) member_layer with
  | None => false
  | Some l => existsb (fun t => (fst t =? snd e) && (snd t =? l)) selection_to_lazrs_table
  end.

(* DecompressionSelection.to_lazrs(): the backend's constant of every member that is set *)
Definition sel_to_lazrs (sel : Z) : Z :=
  fold_left (fun acc e => if has sel (fst e) then Z.lor acc (snd e) else acc) selection_to_lazrs_table 0.

Definition or_all (l : list Z) : Z := fold_left Z.lor l 0.

(* what laspy.read(.., decompression_selection = sel) returns for a compressed file, given what the backend decompresses:
   the reader keeps the selection, create_reader replaces a missing one by all() only, the point reader converts it
   with to_lazrs() (shape of those statements: gen_selection_reaches_decompressor) *)
Definition lz_select (sel : option Z) (lz : lazfile) : lazfile :=
  let s := match sel with Some s => s | None => selection_all end in
  let s := if gen_selection_reaches_decompressor then s else 0 in
  mkLZ (lz_h lz) (map (mask_record (sel_to_lazrs s) (rh_fmt (lz_h lz))) (lz_points lz)).

Definition B_read_sel (B : backend) (sel : option Z) (backends : list bool) (src : list Z) : result lazfile :=
  do lz <- B_read B backends src; Ok (lz_select sel lz).
Definition B_read_ns_sel (B : backend) (sel : option Z) (backends : list bool) (src : list Z) : result lazfile :=
  do lz <- B_read_ns B backends src; Ok (lz_select sel lz).
