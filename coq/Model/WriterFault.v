(* Writer sessions with SCALE-AWARE chunks and with FAULTS in the middle of an operation (C04, round 6).

   On top of the streaming writer of Model/Las.v (wstate / wstep):

   - a chunk may be a ScaleAwarePointRecord: it carries its own scaling (bit patterns of its three scales and three
     offsets) next to its records. LasWriter.write_points compares that scaling with the writer's header, component by
     component, with the EXACT inequality of binary64 VALUES (numpy `!=`: two equal bit patterns of a non-NaN are
     equal, +0.0 and -0.0 are equal, a NaN differs from everything) and stores the records as they are when nothing
     differs, re-expressed in the writer's scaling otherwise. How the integers are re-expressed is C11's subject: here
     the re-expressed records are a datum of the chunk; the model decides WHICH of the two is stored.
   - write_evlrs may FAIL after k bytes of the EVLR section reached the destination (the destination raises, or a
     description cannot be encoded): LasWriter marks itself finished and records the EVLR count / position in its
     header BEFORE the first byte is written, so the writer is finished whatever happens to the bytes.
   - write_points may be refused by the DESTINATION with nothing stored: the chunk is not counted.
   - close() may fail to rewrite the header (nothing stored): the writer is finished all the same, and a later close()
     that succeeds produces the file the first one would have produced.

   Definitions only; proofs in Proofs/WriterFaultProofs.v. *)
From Coq Require Import String.
From Coq Require Import ZArith List Bool.
From LasV Require Import Lib.Base Lib.Layout Gen.GenHeaderLayout Gen.GenFormatBits Gen.GenDims Model.Las.
Import ListNotations.
Open Scope list_scope.
Open Scope Z_scope.

(* ---- equality of binary64 VALUES on bit patterns ---- *)
Definition f64_is_nan (b : Z) : bool := ((b / 2 ^ 52) mod 2 ^ 11 =? 2047) && negb (b mod 2 ^ 52 =? 0).
Definition f64_is_zero (b : Z) : bool := (b =? 0) || (b =? 2 ^ 63).
Definition f64_veq (a b : Z) : bool :=
  negb (f64_is_nan a) && negb (f64_is_nan b) && ((a =? b) || (f64_is_zero a && f64_is_zero b)).

(* the canonical bit pattern of a value: -0.0 is +0.0 *)
Definition f64_canon (b : Z) : Z := if f64_is_zero b then 0 else b.

Fixpoint all_veq (a b : list Z) : bool :=
  match a, b with
  | [], [] => true
  | x :: r, y :: s => f64_veq x y && all_veq r s
  | _, _ => false
  end.

(* the scaling a header announces: three scales, then three offsets (bit patterns) *)
Definition scaling_of (h : assoc) : list Z :=
  map (fun i => aint h (axis_name "scales" i)) (seq 0 3) ++ map (fun i => aint h (axis_name "offsets" i)) (seq 0 3).

(* a scale-aware chunk: its scaling, its records as they are, its records re-expressed in the writer's scaling *)
Record sachunk := mkSA { sa_scaling : list Z; sa_raw : list (list Z); sa_resc : list (list Z) }.

(* what write_points stores for it *)
Definition express (h : assoc) (c : sachunk) : list (list Z) :=
  if all_veq (sa_scaling c) (scaling_of h) then sa_raw c else sa_resc c.

Inductive fop :=
| FOp (o : wop)                                   (* an operation of Model/Las.v, no fault *)
| FScaled (c : sachunk) (same_format : bool)      (* write_points(ScaleAwarePointRecord) *)
| FEvlrsFault (l : list vlr) (k : Z)              (* write_evlrs(l) failing once k bytes of the EVLR section are stored *)
| FPointsFault (recs : list (list Z)) (same_format : bool)    (* write_points refused by the destination, nothing stored *)
| FCloseFault.                                    (* close() whose header rewrite the destination refuses, nothing stored *)

Section Fault.
  Variable ap : Z -> Z -> Z -> Z.

  Definition fstep (s : wstate) (op : fop) : wstate * result unit :=
    match op with
    | FOp o => wstep ap s o
    | FScaled c same => wstep ap s (WPoints (express (w_h s) c) same)
    | FEvlrsFault l k =>
        if aint (w_h s) "version.minor" <? 4 then (s, Err ELaspy) else
        match l with
        | [] => (s, Ok tt)
        | _ =>
          let st := w_st s in
          let st' := mkS (s_count st) (s_max st) (s_min st) (s_ret st) (w_pos s) (len l) in
          match enc_vlrs true l with
          | Err e => (mkW (w_h s) st' (w_vlrs s) (w_fmt s) (w_file s) (w_pos s) true, Err e)   (* nothing could be encoded: finished all the same *)
          | Ok eb =>
            let part := firstn (Z.to_nat k) eb in
            (mkW (w_h s) st' (w_vlrs s) (w_fmt s) (write_at (w_file s) (w_pos s) part) (w_pos s + len part) true, Err EOther)
          end
        end
    | FPointsFault recs same =>
        match recs with
        | [] => (s, Ok tt)
        | _ => match snd (wstep ap s (WPoints recs same)) with
               | Err e => (s, Err e)
               | Ok _ => (s, Err EOther)
               end
        end
    | FCloseFault =>      (* LasWriter.close marks the writer finished in a `finally`: also when the rewrite failed *)
        (mkW (w_h s) (w_st s) (w_vlrs s) (w_fmt s) (w_file s) (w_pos s) true, Err EOther)
    end.

  Fixpoint frun (s : wstate) (ops : list fop) : wstate * list (result unit) :=
    match ops with
    | [] => (s, [])
    | op :: r => let '(s', o) := fstep s op in let '(s'', os) := frun s' r in (s'', o :: os)
    end.

  (* the same session with every scale-aware chunk replaced by the plain chunk of what is stored for it under header h *)
  Definition lower (h : assoc) (op : fop) : option wop :=
    match op with
    | FOp o => Some o
    | FScaled c same => Some (WPoints (express h c) same)
    | _ => None
    end.

  Fixpoint wrun_list (s : wstate) (ops : list wop) : wstate * list (result unit) :=
    match ops with
    | [] => (s, [])
    | op :: r => let '(s', o) := wstep ap s op in let '(s'', os) := wrun_list s' r in (s'', o :: os)
    end.
End Fault.

(* sessions of chunks only *)
Definition is_chunk (op : fop) : bool :=
  match op with FOp (WPoints _ _) => true | FScaled _ _ => true | _ => false end.
