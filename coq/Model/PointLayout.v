(* C02: point record layouts and the generic field / bit-field record codec.
   - the layout laspy uses, rebuilt from the tables dumped from the running module on every run
     (Gen/GenDims.v: numpy field offsets / widths / kinds, sub-field masks, extra-dimension types;
      Gen/GenC02.v: the ctypes layout of the 192-byte extra-bytes descriptor), fail-closed ([None]);
   - one codec [enc_point] / [dec_point] over any placed layout: the encoder lays the fields out in order,
     the decoder reads every field at ITS BYTE OFFSET; bit fields are read at their bit positions.
   Instantiated with the layouts of Spec/AsprsPoints.v it is the specification's reference codec. *)
From Coq Require Import String Ascii.
From Coq Require Import ZArith List Bool.
From LasV Require Import Lib.Base Lib.Layout Gen.GenFormatBits Gen.GenDims Gen.GenHeaderLayout Gen.GenC02
  Spec.Asprs Spec.AsprsPoints Model.SubField.
Import ListNotations.
Open Scope list_scope.
Open Scope Z_scope.

(* ------------------------------------------------------------------------------------------ *)
(* the generic codec                                                                            *)
(* ------------------------------------------------------------------------------------------ *)
Definition pow256 (w : nat) : Z := 256 ^ Z.of_nat w.

(* a record value is the flat list of its leaf values in layout order (one per field, one per bit field);
   unsigned / float leaves carry 0 <= v < 256^w (floats: the IEEE bit pattern), signed leaves the integer *)
Definition arity (t : ftype) : nat := match t with TBits subs => length subs | _ => 1%nat end.

Fixpoint bits_range_ok (subs : list (string * Z * Z)) (vs : list Z) : bool :=
  match subs, vs with
  | [], [] => true
  | (_, lo, hi) :: s, v :: r => (0 <=? v) && (v <? 2 ^ (hi - lo + 1)) && bits_range_ok s r
  | _, _ => false
  end.

Definition leaf_range_ok (t : ftype) (vs : list Z) : bool :=
  match t with
  | TU w | TF w => match vs with [v] => (0 <=? v) && (v <? pow256 w) | _ => false end
  | TI w => match vs with [v] => (- (pow256 w / 2) <=? v) && (v <? pow256 w / 2) | _ => false end
  | TBits subs => bits_range_ok subs vs
  end.

Fixpoint enc_bits (subs : list (string * Z * Z)) (vs : list Z) : Z :=
  match subs, vs with
  | (_, lo, _) :: s, v :: r => v * 2 ^ lo + enc_bits s r
  | _, _ => 0
  end.

Definition dec_bits (subs : list (string * Z * Z)) (b : Z) : list Z :=
  map (fun s => (b / 2 ^ (snd (fst s))) mod 2 ^ (snd s - snd (fst s) + 1)) subs.

Definition enc_leaf (t : ftype) (vs : list Z) : list Z :=
  match t with
  | TU w | TF w => le_enc w (hd 0 vs)
  | TI w => le_enc w (hd 0 vs mod pow256 w)
  | TBits subs => [enc_bits subs vs]
  end.

Definition dec_leaf (t : ftype) (bs : list Z) : list Z :=
  match t with
  | TU w | TF w => [le_dec bs]
  | TI w => let u := le_dec bs in [if u <? pow256 w / 2 then u else u - pow256 w]
  | TBits subs => dec_bits subs (hd 0 bs)
  end.

Definition layout_len (L : list placed) : Z := fold_right (fun p acc => width (snd p) + acc) 0 L.

(* out-of-range or missing values are refused; nothing is produced *)
Fixpoint enc_point (L : list placed) (vals : list Z) : result (list Z) :=
  match L with
  | [] => match vals with [] => Ok [] | _ => Err EValue end
  | (_, _, t) :: L' =>
      let vs := firstn (arity t) vals in
      if leaf_range_ok t vs then
        do r <- enc_point L' (skipn (arity t) vals); Ok (enc_leaf t vs ++ r)
      else Err EOverflow
  end.

Definition dec_item_at (bytes : list Z) (p : placed) : list Z :=
  dec_leaf (snd p) (take (width (snd p)) (drop (snd (fst p)) bytes)).
Definition dec_at (L : list placed) (bytes : list Z) : list Z := flat_map (dec_item_at bytes) L.
Definition dec_point (L : list placed) (bytes : list Z) : result (list Z) :=
  if (len bytes =? layout_len L) && bytes_ok bytes then Ok (dec_at L bytes) else Err EShort.

(* what makes a layout a layout: fields packed from [start] on, signed fields at least one byte wide,
   the bit fields of a byte consecutive from bit 0 to bit 7 *)
Fixpoint bits_seq (start : Z) (subs : list (string * Z * Z)) : bool :=
  match subs with
  | [] => start =? 8
  | (_, lo, hi) :: r => (lo =? start) && (lo <=? hi) && bits_seq (hi + 1) r
  end.
Definition type_ok (t : ftype) : bool :=
  match t with TU _ | TF _ => true | TI w => Nat.leb 1 w | TBits subs => bits_seq 0 subs end.
Fixpoint contig (start : Z) (L : list placed) : bool :=
  match L with
  | [] => true
  | (_, off, t) :: r => (off =? start) && type_ok t && contig (start + width t) r
  end.
Definition layout_ok (L : list placed) : bool := contig 0 L.

Fixpoint values_ok (L : list placed) (vals : list Z) : bool :=
  match L with
  | [] => match vals with [] => true | _ => false end
  | (_, _, t) :: L' => leaf_range_ok t (firstn (arity t) vals) && values_ok L' (skipn (arity t) vals)
  end.

Definition leaf_names (L : list placed) : list string :=
  flat_map (fun p => match snd p with TBits subs => map (fun s => fst (fst s)) subs | _ => [fst (fst p)] end) L.

(* ------------------------------------------------------------------------------------------ *)
(* laspy's layouts, from the generated tables                                                   *)
(* ------------------------------------------------------------------------------------------ *)
Fixpoint opt_all {A} (l : list (option A)) : option (list A) :=
  match l with
  | [] => Some []
  | Some a :: r => match opt_all r with Some r' => Some (a :: r') | None => None end
  | None :: _ => None
  end.

Definition kind_type (k : string) (w : Z) : option ftype :=
  if w <? 0 then None
  else if String.eqb k "i" then Some (TI (Z.to_nat w))
  else if String.eqb k "u" then Some (TU (Z.to_nat w))
  else if String.eqb k "f" then Some (TF (Z.to_nat w))
  else None.

(* a mask is accepted only if it is one run of bits inside the byte: [lo, hi] *)
Definition mask_range (m : Z) : option (Z * Z) :=
  let lo := least_significant_bit_set m in
  let hi := Z.log2 m in
  if (0 <? m) && (m <? 256) && (0 <=? lo) && (m =? (2 ^ (hi - lo + 1) - 1) * 2 ^ lo) then Some (lo, hi) else None.

Definition gen_row (f : Z) : option (Z * list (string * Z * Z * string)) :=
  match find (fun r => fst (fst r) =? f) point_formats with
  | Some (_, n, flds) => Some (n, flds)
  | None => None
  end.
Definition gen_subs (f : Z) : list (string * string * Z) :=
  match find (fun r => fst r =? f) sub_fields with Some (_, l) => l | None => [] end.

Definition gen_field (subs : list (string * string * Z)) (fld : string * Z * Z * string) : option placed :=
  let '(n, off, w, k) := fld in
  match filter (fun s => String.eqb (snd (fst s)) n) subs with
  | [] => option_map (fun t => (n, off, t)) (kind_type k w)
  | mine =>
      if (w =? 1) && String.eqb k "u" then
        option_map (fun rs => (n, off, TBits rs))
          (opt_all (map (fun s => option_map (fun r => (fst (fst s), fst r, snd r)) (mask_range (snd s))) mine))
      else None
  end.

Definition gen_std_layout (f : Z) : option (list placed) :=
  match gen_row f with
  | Some (_, flds) =>
      let subs := gen_subs f in
      (* every sub-field must sit on a byte of the record *)
      if forallb (fun s => existsb (fun fld => String.eqb (fst (fst (fst fld))) (snd (fst s))) flds) subs
      then opt_all (map (gen_field subs) flds) else None
  | None => None
  end.
Definition gen_record_length (f : Z) : option Z := option_map fst (gen_row f).
Definition gen_masks (f : Z) : list (string * string * Z) := gen_subs f.

(* the specification's tables in the same vocabulary, for plain equality *)
Definition spec_masks (f : Z) : list (string * string * Z) :=
  match spec_items f with
  | Some its => flat_map (fun it => match snd it with
                                    | TBits subs => map (fun s => (fst (fst s), fst it, mask_of_range (snd (fst s)) (snd s))) subs
                                    | _ => []
                                    end) its
  | None => []
  end.

(* the specification's bit range of a sub-field, and the check that laspy's mask semantics (Model/SubField.v:
   get = (b & m) >> lsb, put = clear-then-or) is the specification's "bits lo..hi of the byte", for every byte and value *)
Definition spec_bit_range (f : Z) (composed name : string) : option (Z * Z) :=
  match spec_items f with
  | Some its =>
      match find (fun it => String.eqb (fst it) composed) its with
      | Some (_, TBits subs) =>
          match find (fun s => String.eqb (fst (fst s)) name) subs with
          | Some (_, lo, hi) => Some (lo, hi)
          | None => None
          end
      | _ => None
      end
  | None => None
  end.

Definition sf_spec_ok (e : Z * string * string * Z) : bool :=
  let '(fmt, name, composed, m) := e in
  match spec_bit_range fmt composed name with
  | Some (lo, hi) =>
      let n := hi - lo + 1 in
      (m =? mask_of_range lo hi) && (sf_max m =? 2 ^ n - 1)
      && forall_below 256 (fun b =>
           (sf_get m b =? (b / 2 ^ lo) mod 2 ^ n)
           && forall_below (2 ^ n) (fun v => sf_put m b v =? b - ((b / 2 ^ lo) mod 2 ^ n) * 2 ^ lo + v * 2 ^ lo))
  | None => false
  end.

(* extra-dimension element types: the writer's table (extradims._allowed_extra_dims_types) and what the reader's
   ExtraBytesStruct.dtype() / num_elements() answer for every data_type *)
Definition gen_eb_types : option (list (Z * ftype * nat)) :=
  opt_all (map (fun r => let '(id, k, sz, cnt) := r in
                         option_map (fun t => (id, t, Z.to_nat cnt)) (kind_type k sz)) extra_dim_types).
Definition gen_eb_struct_types : option (list (Z * ftype * nat)) :=
  opt_all (map (fun r => let '(id, k, sz, cnt, n) := r in
                         if cnt =? n then option_map (fun t => (id, t, Z.to_nat cnt)) (kind_type k sz) else None)
               eb_struct_types).

(* extra dimensions follow the standard record, packed, in descriptor order *)
Definition gen_point_layout (f : Z) (ebs : list eb_desc) : option (list placed) :=
  match gen_std_layout f, gen_record_length f, gen_eb_types with
  | Some L, Some n, Some tbl =>
      match eb_items_of tbl ebs with
      | Some its => Some (L ++ with_offsets n its)
      | None => None
      end
  | _, _, _ => None
  end.

(* ------------------------------------------------------------------------------------------ *)
(* the extra-bytes descriptor of laspy (ctypes structure) as a Lib/Layout layout                *)
(* ------------------------------------------------------------------------------------------ *)
Definition strip_underscore (s : string) : string :=
  match s with String c r => if Ascii.eqb c "_"%char then r else s | EmptyString => s end.
Definition idx_name (n : string) (i : nat) : string :=
  String.append n (String.append "[" (String.append (nat_dec_str i) "]")).

Definition gen_eb_field (r : string * Z * Z * string * Z * Z) : option layout :=
  let '(n, _, size, code, esz, cnt) := r in
  let nm := strip_underscore n in
  if (size <? 0) || (cnt <? 0) then None
  else if String.eqb code "c" && (esz =? 1) then Some [(KStr, Z.to_nat size, nm)]
  else if String.eqb code "d" && (esz =? 8) then Some (map (fun i => (KF64, 8%nat, idx_name nm i)) (seq 0 (Z.to_nat cnt)))
  else if (String.eqb code "B" || String.eqb code "b") && (esz =? 1) then
    (if cnt =? 1 then Some [(KUInt, 1%nat, nm)] else Some [(KBytes, Z.to_nat cnt, nm)])
  else None.

Fixpoint offsets_packed (start : Z) (rows : list (string * Z * Z * string * Z * Z)) : bool :=
  match rows with
  | [] => start =? eb_struct_size
  | (_, off, size, _, _, _) :: r => (off =? start) && offsets_packed (start + size) r
  end.

Definition gen_eb_descriptor : option layout :=
  if offsets_packed 0 eb_struct_fields && (eb_struct_size_method =? eb_struct_size) then
    option_map (@concat _) (opt_all (map gen_eb_field eb_struct_fields))
  else None.

(* ------------------------------------------------------------------------------------------ *)
(* header / VLR header layouts by version, and the entry points that are extracted              *)
(* ------------------------------------------------------------------------------------------ *)
Definition gen_hdr_write (minor : nat) : layout :=
  match minor with
  | 1%nat => hdr_write_layout_1 | 2%nat => hdr_write_layout_2 | 3%nat => hdr_write_layout_3 | 4%nat => hdr_write_layout_4
  | _ => []
  end.
Definition gen_hdr_read (minor : nat) : layout :=
  match minor with
  | 1%nat => hdr_read_layout_1 | 2%nat => hdr_read_layout_2 | 3%nat => hdr_read_layout_3 | 4%nat => hdr_read_layout_4
  | _ => []
  end.
Definition gen_vlr_write (ext : bool) : layout := if ext then vlr_write_layout_ext else vlr_write_layout_std.
Definition gen_vlr_read (ext : bool) : layout := if ext then vlr_read_layout_ext else vlr_read_layout_std.

Definition with_layout {A} (o : option (list placed)) (k : list placed -> result A) : result A :=
  match o with Some L => k L | None => Err EValue end.

(* the reference codec of the specification *)
Definition spec_enc_point (f : Z) (ebs : list eb_desc) (vals : list Z) : result (list Z) :=
  with_layout (spec_point_layout f ebs) (fun L => enc_point L vals).
Definition spec_dec_point (f : Z) (ebs : list eb_desc) (bytes : list Z) : result (list Z) :=
  with_layout (spec_point_layout f ebs) (fun L => dec_point L bytes).
Definition spec_leaf_names (f : Z) (ebs : list eb_desc) : result (list string) :=
  with_layout (spec_point_layout f ebs) (fun L => Ok (leaf_names L)).
Definition spec_point_size (f : Z) (ebs : list eb_desc) : result Z :=
  with_layout (spec_point_layout f ebs) (fun L => Ok (layout_len L)).
(* the same codec over laspy's own tables: the model of what laspy does *)
Definition gen_enc_point (f : Z) (ebs : list eb_desc) (vals : list Z) : result (list Z) :=
  with_layout (gen_point_layout f ebs) (fun L => enc_point L vals).
Definition gen_dec_point (f : Z) (ebs : list eb_desc) (bytes : list Z) : result (list Z) :=
  with_layout (gen_point_layout f ebs) (fun L => dec_point L bytes).

Definition spec_hdr_layout (minor : nat) : layout := fixed_part (spec_read_layout minor).
Definition spec_enc_header (minor : nat) (vals : list value) : result (list Z) := enc_fields (spec_hdr_layout minor) vals.
Definition spec_dec_header (minor : nat) (bytes : list Z) : assoc * list Z := dec_fields (spec_hdr_layout minor) bytes.
Definition spec_vlr_hdr_layout (ext : bool) : layout := fixed_part (spec_vlr_layout ext).
Definition spec_enc_vlr_header (ext : bool) (vals : list value) : result (list Z) := enc_fields (spec_vlr_hdr_layout ext) vals.
Definition spec_dec_vlr_header (ext : bool) (bytes : list Z) : assoc * list Z := dec_fields (spec_vlr_hdr_layout ext) bytes.
Definition spec_enc_eb_descriptor (vals : list value) : result (list Z) := enc_fields spec_eb_descriptor vals.
Definition spec_dec_eb_descriptor (bytes : list Z) : assoc * list Z := dec_fields spec_eb_descriptor bytes.

(* ------------------------------------------------------------------------------------------ *)
(* records as long as the header says: undocumented trailing bytes, and how laspy resolves the  *)
(* layout of a file's records (Gen/GenC02.v resolve_record, translated from LasHeader.read_from) *)
(* ------------------------------------------------------------------------------------------ *)
(* the dimension laspy appends for bytes nobody describes: [n] elements of trailing_dim's type, one name *)
Definition gen_undoc_items (n : Z) : option (list item) :=
  let '(nm, k, w) := trailing_dim in
  option_map (fun t => repeat (nm, t) (Z.to_nat n)) (kind_type k w).

Definition gen_point_layout_rl (f : Z) (ebs : list eb_desc) (trailing : Z) : option (list placed) :=
  match gen_std_layout f, gen_record_length f, gen_eb_types, gen_undoc_items trailing with
  | Some L, Some n, Some tbl, Some u =>
      match eb_items_of tbl ebs with
      | Some its => if 0 <=? trailing then Some (L ++ with_offsets n (its ++ u)) else None
      | None => None
      end
  | _, _, _, _ => None
  end.

Definition gen_record_layout (f : Z) (ebs : list eb_desc) (hv : bool) (ps : Z) : result (list placed) :=
  match gen_eb_types, gen_record_length f with
  | Some tbl, Some std =>
      match eb_items_of tbl ebs with
      | Some b =>
          match resolve_record ps std (total_width b) hv with
          | Ok (used, t) =>
              match gen_point_layout_rl f (if used then ebs else []) t with Some L => Ok L | None => Err EValue end
          | Err e => Err e
          end
      | None => Err EValue
      end
  | _, _ => Err EValue
  end.

(* the reference codec with trailing undocumented bytes (0 = the plain layouts above) *)
Definition spec_enc_point_rl (f : Z) (ebs : list eb_desc) (t : Z) (vals : list Z) : result (list Z) :=
  with_layout (spec_point_layout_rl f ebs t) (fun L => enc_point L vals).
Definition spec_dec_point_rl (f : Z) (ebs : list eb_desc) (t : Z) (bytes : list Z) : result (list Z) :=
  with_layout (spec_point_layout_rl f ebs t) (fun L => dec_point L bytes).
Definition spec_leaf_names_rl (f : Z) (ebs : list eb_desc) (t : Z) : result (list string) :=
  with_layout (spec_point_layout_rl f ebs t) (fun L => Ok (leaf_names L)).
Definition spec_point_size_rl (f : Z) (ebs : list eb_desc) (t : Z) : result Z :=
  with_layout (spec_point_layout_rl f ebs t) (fun L => Ok (layout_len L)).
Definition gen_enc_point_rl (f : Z) (ebs : list eb_desc) (t : Z) (vals : list Z) : result (list Z) :=
  with_layout (gen_point_layout_rl f ebs t) (fun L => enc_point L vals).
Definition gen_dec_point_rl (f : Z) (ebs : list eb_desc) (t : Z) (bytes : list Z) : result (list Z) :=
  with_layout (gen_point_layout_rl f ebs t) (fun L => dec_point L bytes).

(* what the driver answers for "which records does this file have": (number of leaves, record length) of laspy's layout *)
Definition layout_summary (r : result (list placed)) : result (Z * Z) :=
  match r with Ok L => Ok (len (leaf_names L), layout_len L) | Err e => Err e end.
Definition gen_record_summary (f : Z) (ebs : list eb_desc) (hv : bool) (ps : Z) : result (Z * Z) :=
  layout_summary (gen_record_layout f ebs hv ps).
Definition spec_record_summary (f : Z) (ebs : list eb_desc) (hv : bool) (ps : Z) : result (Z * Z) :=
  layout_summary (spec_record_layout f ebs hv ps).

(* ------------------------------------------------------------------------------------------ *)
(* payloads of the other known records: laspy's ctypes structures / struct format as layouts   *)
(* ------------------------------------------------------------------------------------------ *)
Definition gen_scalar_field (r : string * Z * Z * string * Z * Z) : option (kind * nat * string) :=
  let '(n, _, size, code, esz, cnt) := r in
  if negb (cnt =? 1) || negb (size =? esz) then None
  else if (String.eqb code "B" && (esz =? 1)) || (String.eqb code "H" && (esz =? 2)) || (String.eqb code "I" && (esz =? 4))
          || (String.eqb code "Q" && (esz =? 8)) then Some (KUInt, Z.to_nat esz, n)
  else if String.eqb code "d" && (esz =? 8) then Some (KF64, 8%nat, n)
  else None.

Fixpoint offsets_packed_to (total start : Z) (rows : list (string * Z * Z * string * Z * Z)) : bool :=
  match rows with
  | [] => start =? total
  | (_, off, size, _, _, _) :: r => (off =? start) && offsets_packed_to total (start + size) r
  end.

Fixpoint find_struct (name : string) (l : list (string * list (string * Z * Z * string * Z * Z) * Z))
  : option (list (string * Z * Z * string * Z * Z) * Z) :=
  match l with
  | [] => None
  | (n, rows, sz) :: r => if String.eqb n name then Some (rows, sz) else find_struct name r
  end.

Definition gen_known_struct (cname : string) : option layout :=
  match find_struct cname known_structs with
  | Some (rows, sz) => if offsets_packed_to sz 0 rows then opt_all (map gen_scalar_field rows) else None
  | None => None
  end.

(* struct format "<B15s": little endian, one unsigned char, one char[15]; parse_record_data unpacks with the format the class
   packs with, and keeps every record *)
Definition gen_lookup_record : option layout :=
  if String.eqb lookup_struct_format "<B15s" && (lookup_struct_size =? 16) && String.eqb lookup_parse_format lookup_struct_format
     && lookup_parse_keeps_every_record
  then Some [(KUInt, 1%nat, "class_number"); (KStr, 15%nat, "description")] else None.

Definition gen_known_payload (name : string) : option layout :=
  if String.eqb name "lookup" then gen_lookup_record
  else if String.eqb name "waveform" then gen_known_struct "WaveformPacketStruct"
  else if String.eqb name "geokeys_header" then gen_known_struct "GeoKeysHeaderStructs"
  else if String.eqb name "geokey" then gen_known_struct "GeoKeyEntryStruct"
  else None.

Definition spec_dec_known (name : string) (bytes : list Z) : result (assoc * list Z) :=
  match spec_known_payload name with
  | Some L => if len bytes =? layout_width L then Ok (dec_fields L bytes) else Err EShort
  | None => Err EValue
  end.
Definition spec_enc_known (name : string) (vals : list value) : result (list Z) :=
  match spec_known_payload name with Some L => enc_fields L vals | None => Err EValue end.
Definition spec_known_names (name : string) : list string :=
  match spec_known_payload name with Some L => layout_names L | None => [] end.

(* the classification lookup table as laspy keeps it: a dict class number -> description (in insertion order; assigning a class
   that is already there keeps its place), filled record by record by parse_record_data, serialised record by record *)
Definition lookup_table := list (Z * list Z).
Fixpoint dict_set (t : lookup_table) (k : Z) (v : list Z) : lookup_table :=
  match t with
  | [] => [(k, v)]
  | (k', v') :: r => if k' =? k then (k', v) :: r else (k', v') :: dict_set r k v
  end.
Fixpoint lookup_parse_from (fuel : nat) (bytes : list Z) (t : lookup_table) : option lookup_table :=
  match bytes with
  | [] => Some t
  | c :: _ =>
      match fuel with
      | O => None
      | S f => if Nat.ltb (length bytes) 16 then None      (* struct.error: the payload is not a whole number of records *)
               else lookup_parse_from f (skipn 16 bytes) (dict_set t c (cut_nul (firstn 15 (skipn 1 bytes))))
      end
  end.
Definition lookup_parse (bytes : list Z) : option lookup_table := lookup_parse_from (S (length bytes)) bytes [].
Definition lookup_bytes (t : lookup_table) : list Z := flat_map (fun e => fst e :: null_pad (snd e) 15 false) t.
