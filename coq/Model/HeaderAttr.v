(* C07: "an incompatible version/point-format pair can never be produced" ranges over EVERY assignment to a public attribute of a
   header object, not only over the documented setters. The harness enumerates the attributes of LasHeader by introspection (data
   descriptors of the class, instance attributes, plain class attributes, the old laspy alias names) and classifies each one by
   what the unchanged code does on assignment:
     AVersion      `version`: the setter checks str(value) against the point format, then stores
     APointFormat  `point_format`: the setter checks value.id against the version, then stores (a value without .id: AttributeError)
     AReadOnly     a property without setter (major_version, minor_version, ...): AttributeError
     APlain        every other attribute / property: stored (or refused by its own setter when the value is no value of that field:
                   the harness compares the pair, not the verdict, for this class); the (version, format) pair is not reached
   The value assigned is seen through what the setters look at: a version "M.m" (a Version, a string ...), a point format with an
   id, or anything else. Definitions only. *)
From Coq Require Import ZArith List Bool.
From LasV Require Import Lib.Base Gen.GenDims Model.HeaderOps.
Import ListNotations.
Open Scope Z_scope.

Inductive hattr := AVersion | APointFormat | AReadOnly | APlain.
Inductive hval := XVersion (v : Z * Z) | XFormat (f : Z) | XOther.

Inductive hop2 :=
| HApi (op : hop)                       (* the construction / setter / create / convert / writer API of Model/HeaderOps.v *)
| HAssign (a : hattr) (x : hval).       (* header.<attribute> = value *)

Definition hstep2 (s : hstate) (op : hop2) : result hstate :=
  match op with
  | HApi op => hstep s op
  | HAssign AVersion (XVersion v) => checked v (hs_f s)
  | HAssign AVersion _ => Err ELaspy                       (* str(value) is no supported version *)
  | HAssign APointFormat (XFormat f) => checked (hs_v s) f
  | HAssign APointFormat _ => Err EOther                   (* no .id *)
  | HAssign AReadOnly _ => Err EOther                      (* AttributeError *)
  | HAssign APlain _ => Ok s
  end.

(* a failed operation leaves the header as it was *)
Definition hrun1_2 (s : hstate) (op : hop2) : hstate := match hstep2 s op with Ok s' => s' | Err _ => s end.
Definition hrun2 (s : hstate) (ops : list hop2) : hstate := fold_left hrun1_2 ops s.

(* the states after each operation, with the verdict of the operation *)
Fixpoint htrace2 (s : hstate) (ops : list hop2) : list (bool * hstate) :=
  match ops with
  | [] => []
  | op :: r => let s' := hrun1_2 s op in (is_ok (hstep2 s op), s') :: htrace2 s' r
  end.

(* what must not exist: an attribute whose assignment stores a version without the check (a setter added to minor_version ...) *)
Definition hstep_unchecked (s : hstate) (v : Z * Z) : hstate := mkHS v (hs_f s).
