(* C12: laspy.convert (laspy/lib.py) = version rule (Model/HeaderOps.v, HConvert) + PackedPointRecord.from_point_record:
   a zeroed record of the target format, then copy_fields_from: for every dimension NAME of the target format, read the
   dimension of that name from the source (sub-field view, plain field, or ValueError -> skipped) and assign it through
   the target's setter (SubFieldView.__setitem__ checked by OverflowError, or a numpy field assignment of the same dtype).
   The names, storage fields, dtypes and bit masks all come from Gen/GenDims.v (tables of the running module).
   Values are Z: integers by value, floating point fields by their bit pattern (same-dtype numpy copies are bit copies).
   Extra dimensions are (name, descriptor bytes, width) + raw bytes per point; VLRs are (is ExtraBytesVlr, bytes).
   NAMES. An extra dimension may carry ANY name numpy accepts next to the packed fields of its own format: the name of a
   standard dimension of another format, of a bit-packed sub-field (of the source or of the target format), a legacy alias
   (OLD_LASPY_NAMES), a scaled coordinate "x". The rule modelled here: (1) the new record's dtype is the target's packed
   fields followed by the extra dimensions, and numpy refuses a repeated field name (ValueError) - so an extra dimension
   named like a packed field of the TARGET makes the conversion fail, after the version rule and before any value is
   copied; (2) otherwise a standard dimension is copied from the source's standard dimension of that name and an extra
   dimension from the source's extra dimension of that name, never across the two kinds. *)
From Coq Require Import String.
From Coq Require Import ZArith List Bool.
From LasV Require Import Lib.Base Gen.GenFormatBits Gen.GenDims Model.SubField Model.HeaderOps.
Import ListNotations.
Open Scope list_scope.
Open Scope Z_scope.

(* ---------------- the tables, by format ---------------- *)
Definition dtype := (string * Z)%type.          (* numpy kind "i" | "u" | "f", item size in bytes *)
Definition dtype_eqb (a b : dtype) : bool := String.eqb (fst a) (fst b) && (snd a =? snd b).
Definition is_int (t : dtype) : bool := String.eqb (fst t) "u" || String.eqb (fst t) "i".

Definition field := (string * Z * Z * string)%type.     (* name, offset, size, kind : one numpy field of the packed record *)
Definition fld_name (x : field) : string := fst (fst (fst x)).
Definition fld_type (x : field) : dtype := (snd x, snd (fst x)).

Definition fmt_fields (f : Z) : list field :=
  match find (fun r => fst (fst r) =? f) point_formats with Some (_, _, l) => l | None => [] end.
Definition fmt_subs (f : Z) : list (string * string * Z) :=      (* sub-field name, composed field, mask *)
  match find (fun r => fst r =? f) sub_fields with Some (_, l) => l | None => [] end.
Definition storage_names (f : Z) : list string := map fld_name (fmt_fields f).
Definition field_type (f : Z) (n : string) : option dtype :=
  match find (fun x => String.eqb (fld_name x) n) (fmt_fields f) with Some x => Some (fld_type x) | None => None end.
Definition sub_of (f : Z) (n : string) : option (string * Z) :=
  match find (fun sf => String.eqb (fst (fst sf)) n) (fmt_subs f) with Some (_, c, m) => Some (c, m) | None => None end.
Definition subs_in (f : Z) (c : string) : list (string * string * Z) :=
  filter (fun sf => String.eqb (snd (fst sf)) c) (fmt_subs f).
(* PointFormat(f).dimension_names (standard part): each packed field, replaced by its sub-fields when it is composed *)
Definition dim_names (f : Z) : list string :=
  flat_map (fun x => match subs_in f (fld_name x) with [] => [fld_name x] | l => map (fun sf => fst (fst sf)) l end) (fmt_fields f).
Definition std_ids : list Z := map (fun r => fst (fst r)) point_formats.

(* ---------------- the numpy record: packed fields then extra dimensions, no repeated name ---------------- *)
Definition mem (n : string) (l : list string) : bool := existsb (String.eqb n) l.
Fixpoint nodupb (l : list string) : bool :=
  match l with [] => true | a :: r => negb (mem a r) && nodupb r end.

(* ---------------- one point: packed standard fields by name ---------------- *)
Definition spoint := list (string * Z).
Definition lookup (n : string) (p : spoint) : option Z :=
  match find (fun e => String.eqb (fst e) n) p with Some e => Some (snd e) | None => None end.
Fixpoint update (n : string) (v : Z) (p : spoint) : spoint :=
  match p with
  | [] => []
  | (k, x) :: r => if String.eqb k n then (k, v) :: r else (k, x) :: update n v r
  end.
Definition zero_point (f : Z) : spoint := map (fun n => (n, 0)) (storage_names f).

(* record[name]: SubFieldView (values of the composed field's dtype) | array[name] | ValueError (None) *)
Definition get_dim (f : Z) (p : spoint) (n : string) : option (Z * dtype) :=
  match sub_of f n with
  | Some (c, m) => match lookup c p, field_type f c with Some b, Some t => Some (sf_get m b, t) | _, _ => None end
  | None => match lookup n p, field_type f n with Some v, Some t => Some (v, t) | _, _ => None end
  end.
(* record[name] = value: checked sub-field assignment | same-dtype field assignment (a cast between different dtypes
   is not modelled: EOther, shown unreachable for the tables by ConvertProofs.tables_ok) | ValueError *)
Definition set_dim (f : Z) (p : spoint) (n : string) (vt : Z * dtype) : result spoint :=
  match sub_of f n with
  | Some (c, m) =>
      match lookup c p with
      | Some b => if is_int (snd vt) then (do b' <- sf_assign m b (fst vt); Ok (update c b' p)) else Err EOther
      | None => Err EValue
      end
  | None =>
      match field_type f n with
      | Some t => if dtype_eqb (snd vt) t then Ok (update n (fst vt) p) else Err EOther
      | None => Err EValue
      end
  end.
(* one iteration of copy_fields_from; `except ValueError: pass` *)
Definition copy_step (S T : Z) (sp : spoint) (acc : result spoint) (n : string) : result spoint :=
  match acc with
  | Err e => Err e
  | Ok p =>
      match get_dim S sp n with
      | None => Ok p
      | Some vt => match set_dim T p n vt with Err EValue => Ok p | r => r end
      end
  end.
Definition copy_std (S T : Z) (sp : spoint) : result spoint :=
  fold_left (copy_step S T sp) (dim_names T) (Ok (zero_point T)).
Definition dim_val (f : Z) (p : spoint) (n : string) : option Z :=
  match get_dim f p n with Some vt => Some (fst vt) | None => None end.

(* ---------------- extra dimensions ---------------- *)
Record edim := mkED { ed_name : string; ed_desc : list Z; ed_width : Z }.
(* zero bytes, then copy by name (raw stored bytes, scaled or not) *)
Definition copy_ext (eds : list edim) (src : list (list Z)) : list (list Z) :=
  map (fun e => match find (fun q => String.eqb (ed_name (fst q)) (ed_name e)) (combine eds src) with
                | Some q => snd q
                | None => repeat 0 (Z.to_nat (ed_width e))
                end) eds.

(* PointFormat.dtype(): np.dtype(packed fields of the format ++ [(name, type) of every extra dimension]) raises
   ValueError("field '...' occurs more than once") when a name is repeated *)
Definition record_names (f : Z) (eds : list edim) : list string := storage_names f ++ map ed_name eds.
Definition dtype_ok (f : Z) (eds : list edim) : bool := nodupb (record_names f eds).
Definition clashb (f : Z) (eds : list edim) : bool := existsb (fun e => mem (ed_name e) (storage_names f)) eds.

Definition point := (spoint * list (list Z))%type.
Definition convert_point (S T : Z) (eds : list edim) (p : point) : result point :=
  do sp <- copy_std S T (fst p); Ok (sp, copy_ext eds (snd p)).

Fixpoint mapM {A B} (f : A -> result B) (l : list A) : result (list B) :=
  match l with
  | [] => Ok []
  | a :: r => do b <- f a; do bs <- mapM f r; Ok (b :: bs)
  end.

(* ---------------- the whole object ---------------- *)
Definition cvlr := (bool * list Z)%type.      (* is an ExtraBytesVlr, bytes *)
Record lasdata := mkLas {
  l_ver : Z * Z; l_fmt : Z; l_edims : list edim; l_pts : list point;
  l_vlrs : list cvlr; l_evlrs : option (list (list Z)) }.

(* header._sync_extra_bytes_vlr: drop every ExtraBytesVlr, append a fresh one when there are extra dimensions *)
Definition user_vlrs (vs : list cvlr) : list cvlr := filter (fun v => negb (fst v)) vs.
Definition eb_part (eds : list edim) : list cvlr :=
  match eds with [] => [] | _ => [(true, flat_map ed_desc eds)] end.

Definition convert (l : lasdata) (tgt : option Z) (ver : option (Z * Z)) : result lasdata :=
  do hs <- hstep (mkHS (l_ver l) (l_fmt l)) (HConvert tgt ver);
  if dtype_ok (hs_f hs) (l_edims l) then
    do pts <- mapM (convert_point (l_fmt l) (hs_f hs) (l_edims l)) (l_pts l);
    Ok (mkLas (hs_v hs) (hs_f hs) (l_edims l) pts (user_vlrs (l_vlrs l) ++ eb_part (l_edims l)) (l_evlrs l))
  else Err EValue.
(* the function is pure: what the caller holds afterwards is its argument and the result *)
Definition convert_io (l : lasdata) (tgt : option Z) (ver : option (Z * Z)) : lasdata * result lasdata :=
  (l, convert l tgt ver).

(* lost_dimensions: set(in) filtered by membership in set(out) *)
Fixpoint dedup (l : list string) : list string :=
  match l with [] => [] | a :: r => if mem a r then dedup r else a :: dedup r end.
Definition lost (a b : Z) : list string := filter (fun n => negb (mem n (dim_names b))) (dedup (dim_names a)).

(* ---------------- well-formed inputs ---------------- *)
Definition wf_spoint (f : Z) (p : spoint) : Prop := map fst p = storage_names f.
Definition wf_point (f : Z) (eds : list edim) (p : point) : Prop :=
  wf_spoint f (fst p) /\ length (snd p) = length eds.
(* the source exists as a numpy record: the field names of its dtype (packed fields of its format, then its extra
   dimensions) are pairwise distinct. Nothing else is asked of the names of the extra dimensions. *)
Definition wf_las (l : lasdata) : Prop :=
  std_known (l_fmt l) = true /\ NoDup (record_names (l_fmt l) (l_edims l)) /\ Forall (wf_point (l_fmt l) (l_edims l)) (l_pts l).
(* an extra dimension named like a packed field of format T *)
Definition name_clash (T : Z) (eds : list edim) : Prop := exists e, In e eds /\ In (ed_name e) (storage_names T).
(* a value of dimension n of the source does not fit the target's field of the same name *)
Definition misfit (S T : Z) (sp : spoint) (n : string) : Prop :=
  exists v t c m, get_dim S sp n = Some (v, t) /\ sub_of T n = Some (c, m) /\ (v > sf_max m \/ v < 0).

(* ---------------- the result is USED: a name is resolved against the point format of the object ---------------- *)
(* PointFormat.dimension_names lists `dimensions`: the standard dimensions of the format, then the extra dimensions in
   order; PointFormat.dimension_by_name (on the path of record[name], las[name], las.name: it decides whether a name is
   a SCALED extra dimension, presented as stored * scale + offset) returns the first dimension of that name in the same
   list. Whatever index or cache an implementation keeps next to the list must answer like the list.
   `ext_value`: the descriptor and the stored bytes that record[name] of one point is computed from. *)
Inductive dimref := RStd | RExt (e : edim).
Definition resolve (f : Z) (eds : list edim) (n : string) : option dimref :=
  if mem n (dim_names f) then Some RStd
  else match find (fun e => String.eqb (ed_name e) n) eds with Some e => Some (RExt e) | None => None end.
Definition listed_names (l : lasdata) : list string := dim_names (l_fmt l) ++ map ed_name (l_edims l).
Definition resolutions (l : lasdata) : list (string * option dimref) :=
  map (fun n => (n, resolve (l_fmt l) (l_edims l) n)) (listed_names l).
Definition ext_value (eds : list edim) (p : point) (n : string) : option (edim * list Z) :=
  find (fun q => String.eqb (ed_name (fst q)) n) (combine eds (snd p)).
