(* C11: scaled coordinates.  Three layers, all built on the arithmetic shapes regenerated from the source
   (Gen/GenScaling.v: _apply_scale, _remove_scale, unscale_dimension, the range tests, the axis tables):
   1. the law over exact rationals (Q);
   2. the same shapes over binary64 (round-to-nearest-even of the exact result of each operation, computed on
      integers: a finite binary64 value is a rational, a non-finite one is None);
   3. histories of header edits / assignments / change_scaling / writes over a small heap of numbered
      scale and offset arrays (aliasing between the header and the record is what the heap is for),
      parametric in the arithmetic, instantiated with 1 and 2. *)
From Coq Require Import ZArith QArith List Bool.
From LasV Require Import Lib.Base Gen.GenScaling.
Import ListNotations.
Open Scope list_scope.
Open Scope Z_scope.

(* ------------------------------------------------------------------------------------------------ *)
(* 1. exact rationals                                                                                *)
(* ------------------------------------------------------------------------------------------------ *)

(* round half to even of n/d, d > 0 (numpy.round / rint) *)
Definition rhe_frac (n d : Z) : Z :=
  let f := n / d in
  let r := n mod d in
  match 2 * r ?= d with
  | Lt => f
  | Gt => f + 1
  | Eq => if Z.even f then f else f + 1
  end.

Definition rhe (q : Q) : Z := rhe_frac (Qnum q) (Zpos (Qden q)).

Definition coord_fits (X : Z) : bool := gen_setitem_fits X gen_coord_min gen_coord_max.
Definition rescale_fits (X : Z) : bool := gen_rescale_fits X gen_coord_min gen_coord_max.

Definition q_present (X : Z) (s o : Q) : Q := gen_apply_scale Qplus Qmult (inject_Z X) s o.
Definition q_store (v s o : Q) : Z := gen_setitem_unscaled Qminus Qdiv rhe v s o.
Definition q_store_checked (v s o : Q) : result Z :=
  let X := q_store v s o in if coord_fits X then Ok X else Err EOverflow.
(* the record-level rescaling (apply_new_scaling) goes through scale_dimension-shaped views and unscale_dimension *)
Definition q_restore (v s o : Q) : Z := gen_rescale_unscaled Qminus Qdiv rhe v s o.
Definition q_restore_checked (v s o : Q) : result Z :=
  let X := q_restore v s o in if rescale_fits X then Ok X else Err EOverflow.

(* ------------------------------------------------------------------------------------------------ *)
(* 2. binary64                                                                                       *)
(* ------------------------------------------------------------------------------------------------ *)

Definition fl := option Q.      (* Some q: the finite binary64 value q;  None: inf or nan *)

(* floor (log2 (n/d)) for n, d > 0 *)
Definition flog2 (n d : Z) : Z :=
  let k := Z.log2 n - Z.log2 d in
  if 0 <=? k then (if d * 2 ^ k <=? n then k else k - 1)
  else (if d <=? n * 2 ^ (- k) then k else k - 1).

(* m * 2^e as a rational *)
Definition dyadic (m e : Z) : Q :=
  if 0 <=? e then inject_Z (m * 2 ^ e) else Qmake m (Z.to_pos (2 ^ (- e))).

(* round-to-nearest-even of n/d > 0 into binary64: 53 significant bits, exponent of the last place >= -1074,
   results >= 2^1024 are infinite *)
Definition rnd64_pos (n d : Z) : fl :=
  let e := Z.max (flog2 n d - 52) (-1074) in
  let m := if 0 <=? e then rhe_frac n (d * 2 ^ e) else rhe_frac (n * 2 ^ (- e)) d in
  if (0 <=? e) && (2 ^ 1024 <=? m * 2 ^ e) then None else Some (dyadic m e).

Definition rnd64 (q : Q) : fl :=
  match Qnum q with
  | Z0 => Some 0%Q
  | Zpos n => rnd64_pos (Zpos n) (Zpos (Qden q))
  | Zneg n => option_map Qopp (rnd64_pos (Zpos n) (Zpos (Qden q)))
  end.

Definition f_lift2 (op : Q -> Q -> Q) (a b : fl) : fl :=
  match a, b with Some x, Some y => rnd64 (op x y) | _, _ => None end.
Definition f_add := f_lift2 Qplus.
Definition f_sub := f_lift2 Qminus.
Definition f_mul := f_lift2 Qmult.
(* x / 0 is inf or nan *)
Definition f_div (a b : fl) : fl :=
  match a, b with
  | Some x, Some y => if Qeq_bool y 0 then None else rnd64 (Qdiv x y)
  | _, _ => None
  end.
Definition f_of_Z (X : Z) : fl := rnd64 (inject_Z X).
(* numpy.round of a finite double is exact; of inf/nan it stays non-finite *)
Definition f_round (a : fl) : option Z := option_map rhe a.

Definition f_present (X : Z) (s o : fl) : fl := gen_apply_scale f_add f_mul (f_of_Z X) s o.
Definition f_store (v s o : fl) : option Z := gen_setitem_unscaled f_sub f_div f_round v s o.
(* the range test is made on the rounded value that is about to be stored; inf and nan fail every comparison *)
Definition f_store_checked (v s o : fl) : result Z :=
  match f_store v s o with
  | Some X => if coord_fits X then Ok X else Err EOverflow
  | None => Err EOverflow
  end.
Definition f_restore (v s o : fl) : option Z := gen_rescale_unscaled f_sub f_div f_round v s o.
Definition f_restore_checked (v s o : fl) : result Z :=
  match f_restore v s o with
  | Some X => if rescale_fits X then Ok X else Err EOverflow
  | None => Err EOverflow
  end.

Definition fl_eqb (a b : fl) : bool :=
  match a, b with Some x, Some y => Qeq_bool x y | _, _ => false end.

(* ------------------------------------------------------------------------------------------------ *)
(* 3. histories                                                                                      *)
(* ------------------------------------------------------------------------------------------------ *)

Section History.
  Variable T : Type.                      (* scale / offset / coordinate values *)
  Variable present : Z -> T -> T -> T.    (* view of a stored integer *)
  Variable store : T -> T -> T -> result Z.    (* ScaledArrayView.__setitem__, per element *)
  Variable restore : T -> T -> T -> result Z.  (* apply_new_scaling, per element *)
  Variable teqb : T -> T -> bool.         (* == on float64 *)
  Variable tdefault : T.

  Definition arr3 := list T.              (* a numpy array of three doubles *)

  Record st := mkst {
    heap : list arr3;          (* numbered arrays; ids are positions; arrays are never freed *)
    h_s : nat; h_o : nat;      (* header.scales, header.offsets *)
    r_s : nat; r_o : nat;      (* points.scales, points.offsets *)
    ints : list (list Z)       (* the X, Y, Z columns of the record *)
  }.

  Record file := mkfile { f_scales : arr3; f_offsets : arr3; f_ints : list (list Z) }.

  Inductive op :=
  | HReplaceS (a : arr3)                 (* header.scales = a  (a fresh array) *)
  | HReplaceO (a : arr3)
  | HMutateS (axis : nat) (v : T)        (* header.x_scale = v : in place *)
  | HMutateO (axis : nat) (v : T)
  | Assign (axis : nat) (vals : list T)  (* las.x = vals : LasData.__setattr__ *)
  | AssignXYZ (vals : list (list T))     (* las.xyz = array of shape (m, 3), given by its three columns *)
  | RecAssign (axis : nat) (vals : list T) (* las.points.x = vals : ScaleAwarePointRecord.__setattr__ *)
  | ChangeScaling (s o : option arr3)    (* las.change_scaling(scales, offsets) *)
  | Write                                (* las.write(stream) *)
  | StreamInto (ws wo : arr3).           (* LasWriter / LasAppender whose header has scaling ws, wo: write_points(las.points) *)

  Inductive out := ONone | OErr (e : err) | OFile (f : file).

  Definition get (h : list arr3) (i : nat) : arr3 := nth i h [].
  Definition at3 (a : arr3) (i : nat) : T := nth i a tdefault.
  Fixpoint set_at {A} (l : list A) (i : nat) (x : A) : list A :=
    match l, i with
    | [], _ => []
    | _ :: r, O => x :: r
    | a :: r, S k => a :: set_at r k x
    end.
  Definition column (s : st) (k : nat) : list Z := nth k (ints s) [].

  Fixpoint mapM {A B} (f : A -> result B) (l : list A) : result (list B) :=
    match l with
    | [] => Ok []
    | a :: r => match f a with
                | Ok b => match mapM f r with Ok bs => Ok (b :: bs) | Err e => Err e end
                | Err e => Err e
                end
    end.

  (* the scaling the record's views use for axis a: row a of gen_view_axes = (stored dimension, scales index, offsets index) *)
  Definition view_row (a : nat) : nat * nat * nat := nth a gen_view_axes (a, a, a).
  Definition rec_scale (s : st) (a : nat) : T := at3 (get (heap s) (r_s s)) (snd (fst (view_row a))).
  Definition rec_offset (s : st) (a : nat) : T := at3 (get (heap s) (r_o s)) (snd (view_row a)).
  Definition rec_dim (a : nat) : nat := fst (fst (view_row a)).
  (* what las.x / las.y / las.z show *)
  Definition presented (s : st) (a : nat) : list T :=
    map (fun X => present X (rec_scale s a) (rec_offset s a)) (column s (rec_dim a)).

  (* record[axis][:] = vals, one value per point (the caller has resolved numpy broadcasting): all values are converted
     and tested, then stored; nothing is stored on error *)
  Definition assign_rec (s : st) (a : nat) (vals : list T) : st * out :=
    match vals with
    | [] => (s, ONone)                                           (* "bail out on empty sequences" *)
    | _ :: _ =>
      match mapM (fun v => store v (rec_scale s a) (rec_offset s a)) vals with
      | Ok xs =>
        if Nat.eqb (length xs) (length (column s (rec_dim a)))
        then (mkst (heap s) (h_s s) (h_o s) (r_s s) (r_o s) (set_at (ints s) (rec_dim a) xs), ONone)
        else (s, OErr EValue)                                    (* numpy: could not broadcast *)
      | Err e => (s, OErr e)
      end
    end.

  (* apply_new_scaling: the three new columns are computed from the presented coordinates and tested before
     anything is stored.  Row k of gen_rescale_axes = (axis whose view is read, scales index, offsets index). *)
  Definition new_column (s : st) (ns no : arr3) (row : nat * nat * nat) : result (list Z) :=
    let '(a, i, j) := row in mapM (fun v => restore v (at3 ns i) (at3 no j)) (presented s a).
  Definition new_columns (s : st) (ns no : arr3) : result (list (list Z)) :=
    mapM (new_column s ns no) gen_rescale_axes.

  (* ScaleAwarePointRecord.change_scaling with the arrays sid, oid (ids in the heap) *)
  Definition rec_change_scaling (s : st) (sid oid : nat) : result st :=
    match new_columns s (get (heap s) sid) (get (heap s) oid) with
    | Ok cols => Ok (mkst (heap s) (h_s s) (h_o s) sid oid cols)
    | Err e => Err e
    end.

  (* _append_zeros_if_too_small: every column is extended with zeros up to m points *)
  Definition grow (cols : list (list Z)) (m : nat) : list (list Z) :=
    map (fun c => c ++ repeat 0 (m - length c)) cols.

  Definition alloc (s : st) (a : arr3) : st * nat :=
    (mkst (heap s ++ [a]) (h_s s) (h_o s) (r_s s) (r_o s) (ints s), length (heap s)).

  Definition arr_eqb (a b : arr3) : bool :=
    (Nat.eqb (length a) (length b)) && forallb (fun p => teqb (fst p) (snd p)) (combine a b).

  (* LasWriter.write_points / LasAppender.append_points with the writer's header arrays at wsid, woid *)
  Definition write_points (s : st) (wsid woid : nat) : st * out :=
    let ws := get (heap s) wsid in
    let wo := get (heap s) woid in
    match column s 0 with
    | [] => (s, OFile (mkfile ws wo [[]; []; []]))            (* `if not points: return` *)
    | _ :: _ =>
      if arr_eqb (get (heap s) (r_s s)) ws && arr_eqb (get (heap s) (r_o s)) wo
      then (s, OFile (mkfile ws wo (ints s)))
      else
        (* saved_offsets, saved_scales, saved_X, saved_Y, saved_Z *)
        let saved_s := r_s s in let saved_o := r_o s in let saved_ints := ints s in
        match rec_change_scaling s wsid woid with
        | Err e => (s, OErr e)                                   (* raised before anything was modified *)
        | Ok s1 =>
          let f := mkfile ws wo (ints s1) in                     (* the points are written from the rescaled record *)
          (* finally: restore *)
          (mkst (heap s1) (h_s s1) (h_o s1) saved_s saved_o saved_ints, OFile f)
        end
    end.

  (* self.points.offsets = self.header.offsets; self.points.scales = self.header.scales (when the source does it) *)
  Definition sync (b : bool) (s : st) : st :=
    if b then mkst (heap s) (h_s s) (h_o s) (h_s s) (h_o s) (ints s) else s.

  (* self.points[axis] = vals on the (possibly synced) record: PackedPointRecord.__setitem__ first appends zero
     points when the value is longer than the record; a refused assignment puts the previous array back
     (`except Exception: self.array = previous_array; raise`): the record is not left grown, it keeps the scaling it took *)
  Definition lasdata_assign (b : bool) (s : st) (a : nat) (vals : list T) : st * out :=
    let s1 := sync b s in
    let r := assign_rec (mkst (heap s1) (h_s s1) (h_o s1) (r_s s1) (r_o s1) (grow (ints s1) (length vals))) a vals in
    match snd r with
    | OErr e => (s1, OErr e)
    | _ => r
    end.

  (* self.points[("x", "y", "z")] = value: one axis after the other, an error stops the loop (earlier axes stay assigned,
     and the points they appended stay) *)
  Fixpoint assign_axes (s : st) (axes : list nat) (k : nat) (vals : list (list T)) : st * out :=
    match axes with
    | [] => (s, ONone)
    | a :: r =>
      let '(s1, x) := lasdata_assign false s a (nth k vals []) in
      match x with ONone => assign_axes s1 r (S k) vals | _ => (s1, x) end
    end.

  Definition step (s : st) (o : op) : st * out :=
    match o with
    | HReplaceS a => let '(s1, i) := alloc s a in (mkst (heap s1) i (h_o s1) (r_s s1) (r_o s1) (ints s1), ONone)
    | HReplaceO a => let '(s1, i) := alloc s a in (mkst (heap s1) (h_s s1) i (r_s s1) (r_o s1) (ints s1), ONone)
    | HMutateS a v =>
        (mkst (set_at (heap s) (h_s s) (set_at (get (heap s) (h_s s)) a v)) (h_s s) (h_o s) (r_s s) (r_o s) (ints s), ONone)
    | HMutateO a v =>
        (mkst (set_at (heap s) (h_o s) (set_at (get (heap s) (h_o s)) a v)) (h_s s) (h_o s) (r_s s) (r_o s) (ints s), ONone)
    | Assign a vals => lasdata_assign gen_setattr_syncs s a vals     (* LasData.__setattr__ *)
    | AssignXYZ vals => assign_axes (sync gen_xyz_syncs s) gen_xyz_axes 0 vals   (* LasData.xyz setter *)
    | RecAssign a vals => assign_rec s a vals
    | ChangeScaling ns no =>
        (* points.change_scaling(scales, offsets): None means the record's own array; the header takes the new arrays *)
        let '(s1, sid) := match ns with Some a => alloc s a | None => (s, r_s s) end in
        let '(s2, oid) := match no with Some a => alloc s1 a | None => (s1, r_o s1) end in
        match rec_change_scaling s2 sid oid with
        | Err e => (s2, OErr e)
        | Ok s3 =>
          (mkst (heap s3) (match ns with Some _ => sid | None => h_s s3 end)
                (match no with Some _ => oid | None => h_o s3 end) (r_s s3) (r_o s3) (ints s3), ONone)
        end
    | Write =>
        (* LasWriter deep-copies the header *)
        let '(s1, wsid) := alloc s (get (heap s) (h_s s)) in
        let '(s2, woid) := alloc s1 (get (heap s1) (h_o s1)) in
        write_points s2 wsid woid
    | StreamInto ws wo =>
        let '(s1, wsid) := alloc s ws in
        let '(s2, woid) := alloc s1 wo in
        write_points s2 wsid woid
    end.

  Fixpoint run (s : st) (ops : list op) : st * list out :=
    match ops with
    | [] => (s, [])
    | o :: r => let '(s1, x) := step s o in let '(s2, xs) := run s1 r in (s2, x :: xs)
    end.

  (* a LasData fresh from LasData(header): the record holds copies of the header's arrays *)
  Definition init (sc off : arr3) (cols : list (list Z)) : st :=
    mkst [sc; off; sc; off] 0 1 2 3 cols.

  (* ---------------------------------------------------------------------------------------------- *)
  (* 4. sessions: a writer / appender kept open while the caller goes on using (and editing) its      *)
  (*    header and record; assignments whose value is itself a scaled view; every assignment route    *)
  (* ---------------------------------------------------------------------------------------------- *)

  (* the value of an assignment *)
  Inductive vsrc :=
  | VVals (vals : list T)                  (* a numpy array, a list, a scalar (broadcast resolved by the caller) *)
  | VSelf (axis : nat) (idx : list nat)    (* a scaled view of this very record, las.<axis>[idx], evaluated before anything is modified *)
  | VOther (xs : list Z) (sc off : T)      (* a scaled view of another record that holds xs under (sc, off) *)
  (* round 6 - an augmented assignment `las.<axis>[idx] op= d` (+=, -=, *=, /=): the views define no in-place operator
     (gen_view_inplace_falls_back), so Python evaluates `view[idx] op d` - the coordinates the view presents combined with d by the
     view's binary operator g (gen_view_add ... : np.array(self) op other) - and assigns the result back by the same route;
     ds: one operand per point (a scalar d is broadcast by the caller) *)
  | VSelfOp (axis : nat) (idx : list nat) (g : T -> T -> T) (ds : list T).

  Definition pick {A} (l : list A) (d : A) (idx : list nat) : list A := map (fun i => nth i l d) idx.
  Definition map2 {A B C} (g : A -> B -> C) (xs : list A) (ys : list B) : list C := map (fun p => g (fst p) (snd p)) (combine xs ys).
  (* ScaledArrayView.__setitem__ takes a view value by its scaled values (np.array(value)): what the view presents *)
  Definition vsrc_vals (s : st) (v : vsrc) : list T :=
    match v with
    | VVals vals => vals
    | VSelf a idx => pick (presented s a) tdefault idx
    | VOther xs sc off => map (fun X => present X sc off) xs
    | VSelfOp a idx g ds => map2 g (pick (presented s a) tdefault idx) ds
    end.

  Fixpoint set_many (col : list Z) (idx : list nat) (xs : list Z) : list Z :=
    match idx, xs with
    | i :: ir, x :: xr => set_many (set_at col i x) ir xr
    | _, _ => col
    end.

  (* las.<axis>[idx] = vals : the view's __setitem__ with a key; all values are converted and tested, then stored *)
  Definition assign_view (s : st) (a : nat) (idx : list nat) (vals : list T) : st * out :=
    match vals with
    | [] => (s, ONone)
    | _ :: _ =>
      match mapM (fun v => store v (rec_scale s a) (rec_offset s a)) vals with
      | Ok xs =>
        if Nat.eqb (length xs) (length idx)
        then (mkst (heap s) (h_s s) (h_o s) (r_s s) (r_o s)
                   (set_at (ints s) (rec_dim a) (set_many (column s (rec_dim a)) idx xs)), ONone)
        else (s, OErr EValue)
      | Err e => (s, OErr e)
      end
    end.

  (* an open LasWriter / LasAppender: the ids of its header's scale and offset arrays, the integers it has written so far *)
  Record wsess := mkws { w_s : nat; w_o : nat; w_cols : list (list Z) }.
  Record sst := mksst { base : st; wr : option wsess }.

  Inductive sop :=
  | SBase (o : op)                                  (* any operation of section 3 on the caller's LasData *)
  | SAttr (a : nat) (v : vsrc)                      (* las.x = v                 : takes the header's arrays, grows *)
  | SItem (a : nat) (v : vsrc)                      (* las['x'] = v, las.points['x'] = v : the record's scaling, grows *)
  | SRecAttr (a : nat) (v : vsrc)                   (* las.points.x = v, las.x[:] = v    : the record's scaling *)
  | SView (a : nat) (idx : list nat) (v : vsrc)     (* las.x[idx] = v *)
  | SItems (vals : list (list T))                   (* las[['x', 'y', 'z']] = (m, 3) array, by columns : the record's scaling, grows *)
  | SRecReplaceS (a : arr3)                         (* las.points.scales = a *)
  | SRecReplaceO (a : arr3)
  | SRecMutateS (axis : nat) (v : T)                (* las.points.scales[axis] = v : in place *)
  | SRecMutateO (axis : nat) (v : T)
  | SOpenHdr                                        (* laspy.open(dest, mode="w", header=las.header) / LasWriter(dest, las.header) *)
  | SOpenWith (ws wo : arr3) (pre : list (list Z))  (* a writer given another header; an appender on a file with that scaling holding pre *)
  | SWrite                                          (* writer.write_points(las.points) / appender.append_points(las.points) *)
  | SClose.                                         (* writer.close(): the file *)

  Definition with_base (ss : sst) (r : st * out) : sst * out := (mksst (fst r) (wr ss), snd r).
  Definition app_cols (a b : list (list Z)) : list (list Z) := map (fun p => fst p ++ snd p) (combine a b).

  Definition sstep (ss : sst) (o : sop) : sst * out :=
    let s := base ss in
    match o with
    | SBase o => with_base ss (step s o)
    | SAttr a v => with_base ss (step s (Assign a (vsrc_vals s v)))
    | SItem a v => with_base ss (lasdata_assign false s a (vsrc_vals s v))
    | SRecAttr a v => with_base ss (assign_rec s a (vsrc_vals s v))
    | SView a idx v => with_base ss (assign_view s a idx (vsrc_vals s v))
    | SItems vals => with_base ss (assign_axes s [0; 1; 2]%nat 0 vals)
    | SRecReplaceS a => let '(s1, i) := alloc s a in (mksst (mkst (heap s1) (h_s s1) (h_o s1) i (r_o s1) (ints s1)) (wr ss), ONone)
    | SRecReplaceO a => let '(s1, i) := alloc s a in (mksst (mkst (heap s1) (h_s s1) (h_o s1) (r_s s1) i (ints s1)) (wr ss), ONone)
    | SRecMutateS a v =>
        (mksst (mkst (set_at (heap s) (r_s s) (set_at (get (heap s) (r_s s)) a v)) (h_s s) (h_o s) (r_s s) (r_o s) (ints s)) (wr ss), ONone)
    | SRecMutateO a v =>
        (mksst (mkst (set_at (heap s) (r_o s) (set_at (get (heap s) (r_o s)) a v)) (h_s s) (h_o s) (r_s s) (r_o s) (ints s)) (wr ss), ONone)
    | SOpenHdr =>
        if gen_writer_copies_header
        then (* self.header = deepcopy(header): arrays of its own *)
          let '(s1, wsid) := alloc s (get (heap s) (h_s s)) in
          let '(s2, woid) := alloc s1 (get (heap s1) (h_o s1)) in
          (mksst s2 (Some (mkws wsid woid [[]; []; []])), ONone)
        else (mksst s (Some (mkws (h_s s) (h_o s) [[]; []; []])), ONone)
    | SOpenWith ws wo pre =>
        let '(s1, wsid) := alloc s ws in
        let '(s2, woid) := alloc s1 wo in
        (mksst s2 (Some (mkws wsid woid pre)), ONone)
    | SWrite =>
        match wr ss with
        | None => (ss, ONone)
        | Some w =>
          let r := write_points s (w_s w) (w_o w) in
          match snd r with
          | OFile f => (mksst (fst r) (Some (mkws (w_s w) (w_o w) (app_cols (w_cols w) (f_ints f)))), ONone)
          | x => (mksst (fst r) (wr ss), x)
          end
        end
    | SClose =>
        match wr ss with
        | None => (ss, ONone)
        | Some w => (mksst s None, OFile (mkfile (get (heap s) (w_s w)) (get (heap s) (w_o w)) (w_cols w)))   (* write_updated_header *)
        end
    end.

  Fixpoint srun (ss : sst) (ops : list sop) : sst * list out :=
    match ops with
    | [] => (ss, [])
    | o :: r => let '(s1, x) := sstep ss o in let '(s2, xs) := srun s1 r in (s2, x :: xs)
    end.
End History.

Arguments mkst {T}. Arguments heap {T}. Arguments h_s {T}. Arguments h_o {T}. Arguments r_s {T}. Arguments r_o {T}.
Arguments ints {T}. Arguments mkfile {T}. Arguments f_scales {T}. Arguments f_offsets {T}. Arguments f_ints {T}.
Arguments HReplaceS {T}. Arguments HReplaceO {T}. Arguments HMutateS {T}. Arguments HMutateO {T}. Arguments Assign {T}. Arguments AssignXYZ {T}.
Arguments RecAssign {T}. Arguments ChangeScaling {T}. Arguments Write {T}. Arguments StreamInto {T}.
Arguments ONone {T}. Arguments OErr {T}. Arguments OFile {T}.

(* the two instances *)
Definition q_step := step Q q_present q_store_checked q_restore_checked Qeq_bool 0%Q.
Definition q_run := run Q q_present q_store_checked q_restore_checked Qeq_bool 0%Q.
Definition f_step := step fl f_present f_store_checked f_restore_checked fl_eqb None.
Definition f_run := run fl f_present f_store_checked f_restore_checked fl_eqb None.
Definition f_presented := presented fl f_present None.
Definition f_init := init fl.

Arguments VVals {T}. Arguments VSelf {T}. Arguments VOther {T}. Arguments VSelfOp {T}.
Arguments mksst {T}. Arguments base {T}. Arguments wr {T}.
Arguments SBase {T}. Arguments SAttr {T}. Arguments SItem {T}. Arguments SRecAttr {T}. Arguments SView {T}. Arguments SItems {T}.
Arguments SRecReplaceS {T}. Arguments SRecReplaceO {T}. Arguments SRecMutateS {T}. Arguments SRecMutateO {T}.
Arguments SOpenHdr {T}. Arguments SOpenWith {T}. Arguments SWrite {T}. Arguments SClose {T}.

Definition q_sstep := sstep Q q_present q_store_checked q_restore_checked Qeq_bool 0%Q.
Definition q_srun := srun Q q_present q_store_checked q_restore_checked Qeq_bool 0%Q.
Definition f_sstep := sstep fl f_present f_store_checked f_restore_checked fl_eqb None.
Definition f_srun := srun fl f_present f_store_checked f_restore_checked fl_eqb None.

(* the binary operators of a scaled view (ArrayView.__add__ / __sub__ / __mul__ / __truediv__, regenerated from the source), which
   `las.x += d`, `-=`, `*=`, `/=` fall back to; over exact rationals and over binary64 *)
Inductive binop := BAdd | BSub | BMul | BDiv.
Definition q_view_op (b : binop) : Q -> Q -> Q :=
  match b with BAdd => gen_view_add Qplus | BSub => gen_view_sub Qminus | BMul => gen_view_mul Qmult | BDiv => gen_view_truediv Qdiv end.
Definition f_view_op (b : binop) : fl -> fl -> fl :=
  match b with BAdd => gen_view_add f_add | BSub => gen_view_sub f_sub | BMul => gen_view_mul f_mul | BDiv => gen_view_truediv f_div end.
