(* C07: the ROUTES that put a header into a file. LasHeader.write_to serialises the object it is called on; every other route -
   LasWriter(dest, header), laspy.open(mode='w'), LasData.write, the in-place rewrite at close() of a writer or an appender -
   works on a header object of its own: a private deep copy of the caller's header whose statistics and EVLR bookkeeping are reset
   (LasHeader.partial_reset: extrema back to their sentinels, point count, per-return counts, EVLR pointer and EVLR count back
   to 0 = with_stats _ stats0 of Model/Las.v), recomputed while points are stored, and poured into the header that is rewritten at
   close (with_stats _ st). These - and nothing else - are the fields a route computes itself: they describe the file being
   written. Every other field of the header handed over is the CALLER's. Definitions only. *)
From Coq Require Import String.
From Coq Require Import ZArith List Bool.
From LasV Require Import Lib.Base Lib.Layout Model.Las Model.HeaderObj.
Import ListNotations.
Open Scope list_scope.
Open Scope Z_scope.

Definition route_computed_names : list string :=
  map (axis_name "maxs") (seq 0 3) ++ map (axis_name "mins") (seq 0 3) ++ map by_return_name (seq 0 15)
  ++ ["point_count"; "start_of_first_evlr"; "number_of_evlrs"]%string.
Definition route_computed (n : string) : bool := existsb (fun m => String.eqb m n) route_computed_names.

(* opening a writer on the caller's header: reset, first serialisation *)
Definition route_open (o : hobj) : result (assoc * list Z) :=
  enc_header (with_stats (ho_fields o) stats0) (ho_vlrs o) false.
(* close() of a writer / an appender whose header object is o: the statistics st gathered on the way, rewrite in place *)
Definition route_close (o : hobj) (st : stats) : result (assoc * list Z) :=
  enc_header (with_stats (ho_fields o) st) (ho_vlrs o) true.

(* LasData.update_header() - called explicitly, or by the setter of `las.points` - is a DATA-SYNC operation, not a serialisation:
   besides recomputing the statistics it defines the waveform pointer of a header of version >= 1.4 as 0 (laspy does not carry
   waveform packets over). On the routes that go through it the pointer is therefore one more field the route computes; on every
   other route (LasWriter, laspy.open(mode='w'), LasData.write of an object that was not re-synchronised, the appender's rewrite,
   convert) it stays the caller's. *)
Definition sync_computed (mnr : Z) (n : string) : bool :=
  route_computed n || ((4 <=? mnr) && String.eqb n "start_of_waveform").
Definition update_header_fields (h : assoc) (st : stats) : assoc :=
  let h' := with_stats h st in
  if 4 <=? aint h "version.minor" then aset h' "start_of_waveform" (VInt 0) else h'.

(* what must not exist: a reset that also clears a field of the caller ("a position in the source file") *)
Definition reset_also (n : string) (h : assoc) : assoc := aset (with_stats h stats0) n (VInt 0).
