(* C02 — where the point records of a file are: record i of a LAS file occupies the [record length] bytes at
   offset_to_point_data + i * record_length, whatever else the file holds (VLR area, bytes of another producer after the
   last point, EVLRs).  The specification's decoder cuts the records out there; laspy's routes that write records into an
   existing file (the appender of laspy/lasappender.py, edits through the memory map) are modelled as writes to a stream:
   the position of the first appended record is [append_start], translated from LasAppender.__init__ on every run
   (Gen/GenC02.v). *)
From Coq Require Import String.
From Coq Require Import ZArith List Bool.
From LasV Require Import Lib.Base Gen.GenDims Gen.GenC02 Spec.AsprsPoints Model.PointLayout.
Import ListNotations.
Open Scope list_scope.
Open Scope Z_scope.

(* the [n] bytes of a file from position [pos] on (fewer when the file ends before) *)
Definition slice (file : list Z) (pos n : Z) : list Z := take n (drop pos file).

(* ASPRS: "Offset to point data" is the number of bytes from the beginning of the file to the first point record; the records
   follow each other, each "Point Data Record Length" bytes long *)
Definition record_at (file : list Z) (off ps i : Z) : list Z := slice file (off + i * ps) ps.

Definition records_of (file : list Z) (off ps n : Z) : list (list Z) :=
  map (fun i => record_at file off ps (Z.of_nat i)) (seq 0 (Z.to_nat n)).

Fixpoint all_ok {A} (l : list (result A)) : result (list A) :=
  match l with
  | [] => Ok []
  | Ok a :: r => match all_ok r with Ok t => Ok (a :: t) | Err e => Err e end
  | Err e :: _ => Err e
  end.

(* the specification's decoder on a file: the [n] records the header announces, [t] undocumented bytes in each *)
Definition spec_dec_records (f : Z) (ebs : list eb_desc) (t : Z) (file : list Z) (off ps n : Z) : result (list (list Z)) :=
  all_ok (map (spec_dec_point_rl f ebs t) (records_of file off ps n)).

(* a stream positioned at [pos] receives [data]: the bytes there are overwritten, the file grows when the data goes past its
   end (zero filled when the position itself is past the end), what lies behind the written range stays *)
Definition write_at (file : list Z) (pos : Z) (data : list Z) : list Z :=
  take pos file ++ repeat 0 (Z.to_nat (pos - len file)) ++ data ++ drop (pos + len data) file.

(* successive writes, the stream position advancing by what was written *)
Fixpoint write_chunks (file : list Z) (pos : Z) (chunks : list (list Z)) : list Z :=
  match chunks with
  | [] => file
  | c :: r => write_chunks (write_at file pos c) (pos + len c) r
  end.

(* LasAppender on an uncompressed file: the stream is positioned by __init__ (append_start over the header's fields and the
   file's length), every append_points call writes the records of its chunk at the stream's position *)
Definition append_session (file : list Z) (off n ps minor nev sfe : Z) (chunks : list (list (list Z))) : list Z :=
  write_chunks file (append_start off n ps (len file) minor nev sfe) (map (@concat Z) chunks).

(* assignment to the dimensions of point [i] through the memory map: the record's bytes are replaced in place *)
Definition edit_record (file : list Z) (off ps i : Z) (rec : list Z) : list Z := write_at file (off + i * ps) rec.

(* ------------------------------------------------------------------------------------------ *)
(* a record handed to a header that was not made from it                                        *)
(* ------------------------------------------------------------------------------------------ *)
(* A record carries the dimensions its array was allocated with (its bytes are laid out by THEM); a header declares its own
   list in the Extra Bytes VLR.  LasWriter.write_points, LasAppender.append_points, LasData(header, points) and the
   LasData.points setter take the record only when PointFormat.__eq__ holds between the two (Gen/GenC02.v point_format_eq,
   dim_info_eq, handover_guards: translated from the source on every run) and then store the record's bytes as they are. *)
Definition dim_name (d : dim_info) : string :=
  let '(name, _, _, _, _, _, _, _) := d in name.
Definition dim_shape (d : dim_info) : string * Z * Z * Z :=
  let '(name, kind, num_bits, num_elements, _, _, _, _) := d in (name, kind, num_bits, num_elements).
Definition dim_offsets (d : dim_info) : option (list Z) := let '(_, _, _, _, _, _, offsets, _) := d in offsets.
Definition dim_scales (d : dim_info) : option (list Z) := let '(_, _, _, _, _, _, _, scales) := d in scales.

(* the descriptor LasHeader._sync_extra_bytes_vlr declares for a dimension: the data_type of its numpy type in the writer's
   table (Gen/GenDims.v extra_dim_types), data_type 0 with options = number of bytes for more than 3 unsigned bytes *)
Definition eb_of_shape (s : string * Z * Z * Z) : option eb_desc :=
  let '(name, kind, num_bits, num_elements) := s in
  match find (fun kl => fst kl =? kind) dimension_kind_letters with
  | Some (_, letter) =>
      if (0 <? num_elements) && (num_bits mod (8 * num_elements) =? 0) then
        let sz := num_bits / (8 * num_elements) in
        if (3 <? num_elements) && String.eqb letter "u" && (sz =? 1) then
          (if num_elements <? 256 then Some (name, 0, num_elements) else None)
        else match find (fun r => let '(_, k, s, c) := r in String.eqb k letter && (s =? sz) && (c =? num_elements)) extra_dim_types with
             | Some (id, _, _, _) => Some (name, id, 0)
             | None => None
             end
      else None
  | None => None
  end.
Definition eb_of_dim (d : dim_info) : option eb_desc := eb_of_shape (dim_shape d).
Definition ebs_of_dims (ds : list dim_info) : option (list eb_desc) := opt_all (map eb_of_dim ds).

(* numerically the same offsets and scales (np.all(a == b)), or none on both sides *)
Definition same_scaling (x y : dim_info) : Prop :=
  np_all_eq (dim_offsets x) (dim_offsets y) = true /\ np_all_eq (dim_scales x) (dim_scales y) = true.

(* the hand-over: [points.point_format != header.point_format] is evaluated on the record's point format *)
Definition handover_accepts (header_id : Z) (header_dims : list dim_info) (record_id : Z) (record_dims : list dim_info) : bool :=
  point_format_eq record_id header_id record_dims header_dims.

(* ------------------------------------------------------------------------------------------ *)
(* assignments into the elements of an extra dimension                                          *)
(* ------------------------------------------------------------------------------------------ *)
(* the stored values of one extra dimension: one row per point, one entry per element.  Whatever the key of the assignment
   (the whole dimension, [:, k], [mask, k], [index list, k], [i, k], [slice, slice], [i], a sub-view) and the form of the value,
   an assignment names a set of (point, element) positions and a stored value for each; nothing else changes. *)
Definition upd {A} (l : list A) (i : nat) (v : A) : list A :=
  firstn i l ++ match skipn i l with [] => [] | _ :: r => v :: r end.
Definition grid := list (list Z).
Definition get_elem (g : grid) (i k : nat) : Z := nth k (nth i g []) 0.
Definition set_elem (g : grid) (i k : nat) (v : Z) : grid := upd g i (upd (nth i g []) k v).
Fixpoint assign_elems (g : grid) (sel : list (nat * nat * Z)) : grid :=
  match sel with
  | [] => g
  | (i, k, v) :: r => assign_elems (set_elem g i k v) r
  end.
Definition sel_pos (e : nat * nat * Z) : nat * nat := fst e.

(* ------------------------------------------------------------------------------------------ *)
(* a header between two files: what a writer's file announces                                   *)
(* ------------------------------------------------------------------------------------------ *)
(* A LasHeader that was read from a file carries that file's bookkeeping (start_of_first_evlr, number_of_evlrs).  A LasWriter
   takes its own copy and calls partial_reset (Gen/GenC02.v writer_init_resets, partial_reset_evlrs); write_evlrs — called at most
   once, after the points, with the stream at [end_of_points] — sets the two fields (write_evlrs_fields); the header written on
   close carries what results.  [had_*]: the fields of the header handed to the writer; [given]: None = write_evlrs is not called,
   Some k = it is called with k records.  None = the call is refused. *)
Definition writer_evlr_fields (minor had_start had_count end_of_points : Z) (given : option Z) : option (Z * Z) :=
  if writer_init_resets then
    let '(s, c) := partial_reset_evlrs had_start had_count in
    match given with
    | None => Some (s, c)
    | Some k => write_evlrs_fields minor k end_of_points s c
    end
  else None.

(* the methods of LasHeader that give the header another point format / other extra dimensions all rebuild the Extra Bytes VLR *)
Definition point_format_writers_sync : bool := forallb (fun r : string * bool => snd r) point_format_writers.
