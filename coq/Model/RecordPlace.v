(* C02 — where the point records of a file are: record i of a LAS file occupies the [record length] bytes at
   offset_to_point_data + i * record_length, whatever else the file holds (VLR area, bytes of another producer after the
   last point, EVLRs).  The specification's decoder cuts the records out there; laspy's routes that write records into an
   existing file (the appender of laspy/lasappender.py, edits through the memory map) are modelled as writes to a stream:
   the position of the first appended record is [append_start], translated from LasAppender.__init__ on every run
   (Gen/GenC02.v). *)
From Coq Require Import String.
From Coq Require Import ZArith List Bool.
From LasV Require Import Lib.Base Gen.GenC02 Spec.AsprsPoints Model.PointLayout.
Import ListNotations.
Open Scope list_scope.
Open Scope Z_scope.

(* the [n] bytes of a file from position [pos] on (fewer when the file ends before) *)
Definition slice (file : list Z) (pos n : Z) : list Z := take n (drop pos file).

(* ASPRS: "Offset to point data" is the number of bytes from the beginning of the file to the first point record; the records
   follow each other, each "Point Data Record Length" bytes long *)
Definition record_at (file : list Z) (off ps i : Z) : list Z := slice file (off + i * ps) ps.

Definition records_of (file : list Z) (off ps n : Z) : list (list Z) :=
  map (fun i => record_at file off ps (Z.of_nat i)) (seq 0 (Z.to_nat n)).

Fixpoint all_ok {A} (l : list (result A)) : result (list A) :=
  match l with
  | [] => Ok []
  | Ok a :: r => match all_ok r with Ok t => Ok (a :: t) | Err e => Err e end
  | Err e :: _ => Err e
  end.

(* the specification's decoder on a file: the [n] records the header announces, [t] undocumented bytes in each *)
Definition spec_dec_records (f : Z) (ebs : list eb_desc) (t : Z) (file : list Z) (off ps n : Z) : result (list (list Z)) :=
  all_ok (map (spec_dec_point_rl f ebs t) (records_of file off ps n)).

(* a stream positioned at [pos] receives [data]: the bytes there are overwritten, the file grows when the data goes past its
   end (zero filled when the position itself is past the end), what lies behind the written range stays *)
Definition write_at (file : list Z) (pos : Z) (data : list Z) : list Z :=
  take pos file ++ repeat 0 (Z.to_nat (pos - len file)) ++ data ++ drop (pos + len data) file.

(* successive writes, the stream position advancing by what was written *)
Fixpoint write_chunks (file : list Z) (pos : Z) (chunks : list (list Z)) : list Z :=
  match chunks with
  | [] => file
  | c :: r => write_chunks (write_at file pos c) (pos + len c) r
  end.

(* LasAppender on an uncompressed file: the stream is positioned by __init__ (append_start over the header's fields and the
   file's length), every append_points call writes the records of its chunk at the stream's position *)
Definition append_session (file : list Z) (off n ps minor nev sfe : Z) (chunks : list (list (list Z))) : list Z :=
  write_chunks file (append_start off n ps (len file) minor nev sfe) (map (@concat Z) chunks).

(* assignment to the dimensions of point [i] through the memory map: the record's bytes are replaced in place *)
Definition edit_record (file : list Z) (off ps i : Z) (rec : list Z) : list Z := write_at file (off + i * ps) rec.
