(* C07: (a) the construction / setter / create / convert API never yields an incompatible (version, format) pair;
   (b) the creation date as (day of year, year), proleptic Gregorian calendar. Tables from Gen/GenDims.v. *)
From Coq Require Import ZArith List Bool.
From LasV Require Import Lib.Base Gen.GenDims.
Import ListNotations.
Open Scope Z_scope.

Definition compat_v (v : Z * Z) (f : Z) : bool :=
  existsb (fun row => let '(a, b, fs) := row in (a =? fst v) && (b =? snd v) && existsb (Z.eqb f) fs) version_to_point_fmt.
Definition version_known (v : Z * Z) : bool :=
  existsb (fun row => let '(a, b, _) := row in (a =? fst v) && (b =? snd v)) version_to_point_fmt.
Definition min_fmt (v : Z * Z) : option Z :=
  match find (fun row => let '(a, b, _) := row in (a =? fst v) && (b =? snd v)) min_point_format with
  | Some (_, _, f) => Some f | None => None end.
Definition preferred (f : Z) : option (Z * Z) :=
  match find (fun row => fst row =? f) preferred_version with Some (_, v) => Some v | None => None end.
Definition vmax (a b : Z * Z) : Z * Z :=   (* max of the version strings "M.m" (single digits) = lexicographic *)
  if (fst a <? fst b) || ((fst a =? fst b) && (snd a <? snd b)) then b else a.

Record hstate := mkHS { hs_v : Z * Z; hs_f : Z }.

Inductive hop :=
| HNew (v : option (Z * Z)) (f : option Z)       (* LasHeader(version=, point_format=), laspy.create(...) *)
| HSetVersion (v : Z * Z)                          (* header.version = v *)
| HSetFormat (f : Z)                               (* header.point_format = PointFormat(f) *)
| HSetBoth (v : Z * Z) (f : Z)                     (* header.set_version_and_point_format *)
| HConvert (f : option Z) (v : option (Z * Z))     (* laspy.convert(las, point_format_id=, file_version=) *)
| HOpenWriter.                                     (* LasWriter(dest, header) *)

Definition std_known (f : Z) : bool := existsb (fun row => fst (fst row) =? f) point_formats.

Definition checked (v : Z * Z) (f : Z) : result hstate :=
  if version_known v then (if compat_v v f then Ok (mkHS v f) else Err ELaspy) else Err ELaspy.

Definition hstep (s : hstate) (op : hop) : result hstate :=
  match op with
  | HNew None None => checked (1, 2) 3
  | HNew (Some v) None => match min_fmt v with Some f => checked v f | None => Err EOther end
  | HNew None (Some f) => match preferred f with Some v => checked v f | None => Err ELaspy end
  | HNew (Some v) (Some f) => match std_known f with true => checked v f | false => Err ELaspy end
  | HSetVersion v => checked v (hs_f s)
  | HSetFormat f => checked (hs_v s) f
  | HSetBoth v f => checked v f
  | HConvert fo vo =>
      let f := match fo with Some f => f | None => hs_f s end in
      match vo with
      | Some v => checked v f
      | None => match preferred f with Some p => checked (vmax (hs_v s) p) f | None => Err ELaspy end
      end
  | HOpenWriter => checked (hs_v s) (hs_f s)
  end.

(* a failed operation leaves the header as it was *)
Definition hrun1 (s : hstate) (op : hop) : hstate := match hstep s op with Ok s' => s' | Err _ => s end.
Definition hrun (s : hstate) (ops : list hop) : hstate := fold_left hrun1 ops s.
Definition hcompat (s : hstate) : bool := compat_v (hs_v s) (hs_f s).

(* ---------------- calendar ---------------- *)
Definition leap (y : Z) : bool := ((y mod 4 =? 0) && negb (y mod 100 =? 0)) || (y mod 400 =? 0).
(* everything depends on the year only through its leap flag *)
Definition mdays_l (lp : bool) (m : Z) : Z :=
  if m =? 2 then (if lp then 29 else 28)
  else if (m =? 4) || (m =? 6) || (m =? 9) || (m =? 11) then 30 else 31.
Fixpoint days_before_l (lp : bool) (m : nat) : Z :=   (* days in months 1..m *)
  match m with O => 0 | S k => days_before_l lp k + mdays_l lp (Z.of_nat m) end.
Definition yday_l (lp : bool) (m d : Z) : Z := days_before_l lp (Z.to_nat (m - 1)) + d.
Fixpoint of_yday_from_l (lp : bool) (fuel : nat) (m n : Z) : option (Z * Z) :=
  match fuel with
  | O => None
  | S k => if n <=? mdays_l lp m then Some (m, n) else of_yday_from_l lp k (m + 1) (n - mdays_l lp m)
  end.
Definition of_yday_l (lp : bool) (n : Z) : option (Z * Z) :=
  if (1 <=? n) && (n <=? (if lp then 366 else 365)) then of_yday_from_l lp 12 1 n else None.
Definition valid_md (lp : bool) (m d : Z) : bool := (1 <=? m) && (m <=? 12) && (1 <=? d) && (d <=? mdays_l lp m).

Definition mdays (y m : Z) : Z := mdays_l (leap y) m.
Definition valid_date (y m d : Z) : bool := (1 <=? y) && (y <=? 9999) && valid_md (leap y) m d.
Definition yday (y m d : Z) : Z := yday_l (leap y) m d.                     (* date(y,m,d).timetuple().tm_yday *)
Definition of_yday (y n : Z) : option (Z * Z * Z) :=                         (* date(y,1,1) + timedelta(n-1) *)
  match of_yday_l (leap y) n with Some (m, d) => Some (y, m, d) | None => None end.
