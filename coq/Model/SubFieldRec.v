(* C09, round 3: the operations through which a bit-packed sub-field is assigned, beyond `view[key] = value` on a
   fresh view (Model/SubField.v):
     - derived views: rec[name][s1][s2]...[key] = value — slicing a view gives a view, positions compose
       (SubFieldView.__getitem__);
     - whole-dimension assignment rec[name] = seq / rec.name = seq / las.name = seq — the record GROWS by zero
       points when the sequence is longer, a one-element sequence is broadcast (PackedPointRecord.__setitem__,
       _append_zeros_if_too_small, resize);
     - copy_fields_from: one whole-dimension assignment per dimension name of the destination format, onto whatever
       the destination holds (ValueError = "the source lacks it / shapes differ" is swallowed, other errors abort);
     - histories of such operations on one record.
   A record is reduced to its packed part: composed dimension -> one byte per point. *)
From Coq Require Import String.
From Coq Require Import ZArith List Bool.
From LasV Require Import Lib.Base Gen.GenFormatBits Gen.GenDims Model.SubField.
Import ListNotations.
Open Scope list_scope.
Open Scope Z_scope.

Definition oob (m v : Z) : bool := (v >? sf_max m) || (v <? 0).

(* ---------------- derived views ---------------- *)
(* a view = the base positions it addresses; indexing a view of length k with in-range positions idx *)
Definition view_sub (vpos : list nat) (idx : list nat) : list nat := map (fun i => nth i vpos 0%nat) idx.
Definition view_chain (n : nat) (chain : list (list nat)) : list nat := fold_left view_sub chain (seq 0 n).

(* view[key] = value, key resolved to (position in the view, value) pairs; the range check comes first, then numpy
   refuses a position outside the view, then clear-then-or at the base positions *)
Definition sf_assign_view (m : Z) (bs : list Z) (vpos : list nat) (sel : list (nat * Z)) : result (list Z) :=
  if existsb (fun p => oob m (snd p)) sel then Err EOverflow
  else if negb (forallb (fun p => Nat.ltb (fst p) (length vpos)) sel) then Err EIndex
  else sf_assign_arr m bs (map (fun p => (nth (fst p) vpos 0%nat, snd p)) sel).

(* ---------------- whole-dimension assignment ---------------- *)
Definition zip_put (m : Z) (bs vs : list Z) : list Z := map (fun bv => sf_put m (fst bv) (snd bv)) (combine bs vs).

(* view[:] = vs on a column that already has its final length *)
Definition sf_assign_seq (m : Z) (bs vs : list Z) : result (list Z) :=
  match vs with
  | [] => Ok bs                                   (* "bail out on empty sequences" *)
  | v0 :: t =>
    if existsb (oob m) vs then Err EOverflow
    else if Nat.eqb (length vs) (length bs) then Ok (zip_put m bs vs)
    else match t with [] => Ok (map (fun b => sf_put m b v0) bs) | _ => Err EValue end
  end.

(* ---------------- records ---------------- *)
Definition prec := list (string * list Z).

Fixpoint col_get (r : prec) (c : string) : list Z :=
  match r with [] => [] | (c', bs) :: t => if String.eqb c' c then bs else col_get t c end.
Fixpoint col_set (r : prec) (c : string) (bs : list Z) : prec :=
  match r with [] => [] | (c', bs') :: t => if String.eqb c' c then (c', bs) :: t else (c', bs') :: col_set t c bs end.

Definition grow (bs : list Z) (n : nat) : list Z := bs ++ repeat 0 (n - length bs).
Definition rec_grow (r : prec) (n : nat) : prec := map (fun cb => (fst cb, grow (snd cb) n)) r.

Definition find_sf (fmt : Z) (name : string) : option (string * Z) :=
  match find (fun e => let '(f, n, _, _) := e in (f =? fmt) && String.eqb n name) all_sub_fields with
  | Some (_, _, c, m) => Some (c, m)
  | None => None
  end.

Definition fmt_names (fmt : Z) : list string :=
  flat_map (fun e => let '(f, n, _, _) := e in if f =? fmt then [n] else []) all_sub_fields.
Definition fmt_cols (fmt : Z) : list string :=
  nodup string_dec (flat_map (fun e => let '(f, _, c, _) := e in if f =? fmt then [c] else []) all_sub_fields).

Definition rec_read (fmt : Z) (r : prec) (name : string) : option (list Z) :=
  match find_sf fmt name with Some (c, m) => Some (map (sf_get m) (col_get r c)) | None => None end.

(* rec[name] = vs.  Nothing happens to the record when the assignment is refused (the growth is undone). *)
Definition rec_assign_seq (fmt : Z) (r : prec) (name : string) (vs : list Z) : result prec :=
  match find_sf fmt name with
  | None => Err EValue
  | Some (c, m) =>
    let r' := rec_grow r (length vs) in
    match sf_assign_seq m (col_get r' c) vs with
    | Ok bs => Ok (col_set r' c bs)
    | Err e => Err e
    end
  end.

(* rec[name][chain...][key] = value *)
Definition rec_assign_view (fmt : Z) (r : prec) (name : string) (chain : list (list nat)) (sel : list (nat * Z)) : result prec :=
  match find_sf fmt name with
  | None => Err EValue
  | Some (c, m) =>
    let bs := col_get r c in
    match sf_assign_view m bs (view_chain (length bs) chain) sel with
    | Ok bs' => Ok (col_set r c bs')
    | Err e => Err e
    end
  end.

(* copy_fields_from: the values the source exposes under each sub-field name of the destination format, in the
   destination's order; `plain` = source dimensions of that name that are not bit-packed (classification of 6+) *)
Fixpoint assoc (l : list (string * list Z)) (k : string) : option (list Z) :=
  match l with [] => None | (k', v) :: t => if String.eqb k' k then Some v else assoc t k end.

Definition src_vals (sfmt : Z) (src : prec) (plain : list (string * list Z)) (dfmt : Z) : list (string * list Z) :=
  flat_map (fun n => match rec_read sfmt src n with
                     | Some vs => [(n, vs)]
                     | None => match assoc plain n with Some vs => [(n, vs)] | None => [] end
                     end) (fmt_names dfmt).

Definition is_evalue (e : err) : bool := match e with EValue => true | _ => false end.

Fixpoint rec_copy (fmt : Z) (r : prec) (vals : list (string * list Z)) : prec * option err :=
  match vals with
  | [] => (r, None)
  | (n, vs) :: t =>
    match rec_assign_seq fmt r n vs with
    | Ok r' => rec_copy fmt r' t
    | Err e => if is_evalue e then rec_copy fmt r t else (r, Some e)
    end
  end.

(* ---------------- histories ---------------- *)
Definition rec_len (r : prec) : nat := match r with [] => 0%nat | cb :: _ => length (snd cb) end.

Inductive op :=
| OView (name : string) (chain : list (list nat)) (sel : list (nat * Z))
| OSeq (name : string) (vs : list Z)
| OCopy (sfmt : Z) (src : prec) (plain : list (string * list Z)).

Definition step (fmt : Z) (r : prec) (o : op) : prec * option err :=
  match o with
  | OView n ch sel => match rec_assign_view fmt r n ch sel with Ok r' => (r', None) | Err e => (r, Some e) end
  | OSeq n vs => match rec_assign_seq fmt r n vs with Ok r' => (r', None) | Err e => (r, Some e) end
  | OCopy sfmt src plain =>
    (* X, Y, Z ... come before the first sub-field in every format and are always copied: a longer source has
       already grown the record (by zero points) when the first sub-field is assigned *)
    rec_copy fmt (rec_grow r (rec_len src)) (src_vals sfmt src plain fmt)
  end.

Fixpoint run (fmt : Z) (r : prec) (ops : list op) : list (prec * option err) :=
  match ops with
  | [] => []
  | o :: t => let s := step fmt r o in s :: run fmt (fst s) t
  end.

(* well-formed record of a format: the composed columns of the format, each once, n bytes each *)
Definition rec_wf (fmt : Z) (r : prec) (n : nat) : Prop :=
  map fst r = fmt_cols fmt /\ Forall (fun cb => length (snd cb) = n /\ Forall (fun b => 0 <= b < 256) (snd cb)) r.

(* ---------------- vocabulary of the statements ---------------- *)
Definition known_fmts : list Z := map fst sub_fields.

(* a chain of duplicate-free in-range index lists (what slices resolve to) addresses distinct points of the base *)
Fixpoint chain_ok (k : nat) (chain : list (list nat)) : Prop :=
  match chain with
  | [] => True
  | idx :: t => NoDup idx /\ Forall (fun i => (i < k)%nat) idx /\ chain_ok (length idx) t
  end.

Definition in_range (m : Z) (vs : list Z) : Prop := Forall (fun v => 0 <= v <= sf_max m) vs.

Definition seq_values (vs : list Z) (k : nat) : list Z := if Nat.eqb (length vs) k then vs else repeat (hd 0 vs) k.

(* ======================= round 4: WORLDS — several record objects over shared memory =======================
   The API hands out point records that the caller keeps alive side by side: chunks of one reader, las.points and
   a copy, las[...] selections, records made by from_point_record / convert / copy, records over one bytearray
   or one mapped file, SubFieldViews kept in a variable.  Each is (memory, positions):
     own memory : a record built from bytes, laspy.read, every chunk of read_points / chunk_iterator, copy(),
                  rec[mask] / rec[index list], from_point_record, convert                       (WNew, WGather, WConv)
     a view     : rec[slice], las[slice], a record object built on rec.array, from_buffer on the same buffer,
                  laspy.mmap of the same file, a kept SubFieldView                               (WSlice)
   An operation of the single-record model (`step`) on object a acts on the points a addresses and is written
   through to a's memory; an operation that makes the record longer gives it NEW memory (np.append). *)
Definition gather_col (bs : list Z) (pos : list nat) : list Z := map (fun i => nth i bs 0) pos.
Definition gather (r : prec) (pos : list nat) : prec := map (fun cb => (fst cb, gather_col (snd cb) pos)) r.
Definition scatter_col (bs : list Z) (pos : list nat) (vs : list Z) : list Z :=
  fold_left (fun acc pv => set_nth acc (fst pv) (snd pv)) (combine pos vs) bs.
Definition scatter (r : prec) (pos : list nat) (v : prec) : prec :=
  map (fun cb => (fst cb, scatter_col (snd cb) pos (col_get v (fst cb)))) r.

Fixpoint upd {A : Type} (l : list A) (i : nat) (x : A) : list A :=
  match l, i with
  | [], _ => []
  | _ :: r, O => x :: r
  | a :: r, S k => a :: upd r k x
  end.

Definition wbuf := (Z * prec)%type.               (* point format, packed columns *)
Definition wobj := (nat * list nat)%type.         (* memory, the positions the object addresses in it *)
Definition world := (list wbuf * list wobj)%type.

Definition buf_at (w : world) (k : nat) : wbuf := nth k (fst w) (0, []).
Definition obj_at (w : world) (a : nat) : wobj := nth a (snd w) (0%nat, []).
Definition obj_fmt (w : world) (a : nat) : Z := fst (buf_at w (fst (obj_at w a))).
Definition obj_read (w : world) (a : nat) : prec := gather (snd (buf_at w (fst (obj_at w a)))) (snd (obj_at w a)).

Definition zero_rec (fmt : Z) (n : nat) : prec := map (fun c => (c, repeat 0 n)) (fmt_cols fmt).

Inductive wop :=
| WNew (fmt : Z) (r : prec)                                     (* a record with memory of its own *)
| WSlice (a : nat) (chain : list (list nat))                    (* a view of object a through a chain of slices *)
| WGather (a : nat) (idx : list nat)                            (* a copy of the points idx of object a *)
| WConv (a : nat) (fmt : Z) (plain : list (string * list Z))    (* from_point_record / convert: zeros, then copy_fields_from *)
| WAssign (a : nat) (o : op)                                    (* an operation of the single-record model on object a *)
| WCopyFrom (a s : nat) (plain : list (string * list Z)).       (* a.copy_fields_from(s), s a live object (maybe of the same memory) *)

(* f = the single-record operation: acts on the points the object addresses; same length: written through;
   longer: the object gets new memory and shares nothing from then on *)
Definition apply_obj (w : world) (a : nat) (f : Z -> prec -> prec * option err) : world * option err :=
  let k := fst (obj_at w a) in
  let pos := snd (obj_at w a) in
  let fmt := fst (buf_at w k) in
  let r := snd (buf_at w k) in
  let res := f fmt (gather r pos) in
  if Nat.eqb (rec_len (fst res)) (length pos)
  then ((upd (fst w) k (fmt, scatter r pos (fst res)), snd w), snd res)
  else ((fst w ++ [(fmt, fst res)], upd (snd w) a (length (fst w), seq 0 (rec_len (fst res)))), snd res).

Definition wstep (w : world) (o : wop) : world * option err :=
  match o with
  | WNew fmt r => ((fst w ++ [(fmt, r)], snd w ++ [(length (fst w), seq 0 (rec_len r))]), None)
  | WSlice a chain =>
    let pos := snd (obj_at w a) in
    ((fst w, snd w ++ [(fst (obj_at w a), view_sub pos (view_chain (length pos) chain))]), None)
  | WGather a idx =>
    let pos := snd (obj_at w a) in
    let b := buf_at w (fst (obj_at w a)) in
    ((fst w ++ [(fst b, gather (snd b) (view_sub pos idx))], snd w ++ [(length (fst w), seq 0 (length idx))]), None)
  | WConv a fmt' plain =>
    let res := step fmt' (zero_rec fmt' (length (snd (obj_at w a)))) (OCopy (obj_fmt w a) (obj_read w a) plain) in
    match snd res with
    | None => ((fst w ++ [(fmt', fst res)], snd w ++ [(length (fst w), seq 0 (rec_len (fst res)))]), None)
    | Some e => (w, Some e)
    end
  | WAssign a o => apply_obj w a (fun fmt g => step fmt g o)
  | WCopyFrom a s plain => apply_obj w a (fun fmt g => step fmt g (OCopy (obj_fmt w s) (obj_read w s) plain))
  end.

Fixpoint wrun (w : world) (ops : list wop) : list (world * option err) :=
  match ops with
  | [] => []
  | o :: t => let s := wstep w o in s :: wrun (fst s) t
  end.

(* the object an operation assigns to (None: the operation creates an object) *)
Definition wop_target (o : wop) : option nat :=
  match o with WAssign a _ => Some a | WCopyFrom a _ _ => Some a | _ => None end.
(* the single-record operation it performs there *)
Definition wop_action (w : world) (o : wop) : Z -> prec -> prec * option err :=
  match o with
  | WAssign _ o => fun fmt g => step fmt g o
  | WCopyFrom _ s plain => fun fmt g => step fmt g (OCopy (obj_fmt w s) (obj_read w s) plain)
  | _ => fun _ g => (g, None)
  end.

(* one packed byte of memory / of an object *)
Definition cell (w : world) (k : nat) (c : string) (p : nat) : Z := nth p (col_get (snd (buf_at w k)) c) 0.
Definition ocell (w : world) (b : nat) (c : string) (j : nat) : Z := nth j (col_get (obj_read w b) c) 0.

(* well-formed world: every memory is a well-formed record of a known format; every object addresses distinct
   existing points of an existing memory *)
Definition wwf (w : world) : Prop :=
  Forall (fun b : wbuf => In (fst b) known_fmts /\ rec_wf (fst b) (snd b) (rec_len (snd b))) (fst w)
  /\ Forall (fun o : wobj => (fst o < length (fst w))%nat /\ NoDup (snd o)
                             /\ Forall (fun i => (i < rec_len (snd (buf_at w (fst o))))%nat) (snd o)) (snd w).

Definition wop_ok (w : world) (o : wop) : Prop :=
  match o with
  | WNew fmt r => In fmt known_fmts /\ rec_wf fmt r (rec_len r)
  | WSlice a chain => (a < length (snd w))%nat /\ chain_ok (length (snd (obj_at w a))) chain
  | WGather a idx => (a < length (snd w))%nat /\ Forall (fun i => (i < length (snd (obj_at w a)))%nat) idx
  | WConv a fmt' _ => (a < length (snd w))%nat /\ In fmt' known_fmts
  | WAssign a _ => (a < length (snd w))%nat
  | WCopyFrom a _ _ => (a < length (snd w))%nat
  end.

Fixpoint wrun_ok (w : world) (ops : list wop) : Prop :=
  match ops with
  | [] => True
  | o :: t => wop_ok w o /\ wrun_ok (fst (wstep w o)) t
  end.

(* ======================= round 5: READ ROUTES — every way a caller reads a sub-field =======================
   "reads back the assigned values" is judged through every route of SubFieldView / ArrayView.  In the code as it
   is, each route is a function of the unpacked values (bytes & mask) >> lsb, never of the packed bytes:
     np.array(view), view.copy(), view[slice]             the values                                 (RArray)
     view.max() / view.min(), np.max / np.min             ArrayView.max: np.array(self).max()        (RMax, RMin)
     np.sum, np.count_nonzero, np.unique                  __array_function__ converts the view first (RSum, RCount, RUnique)
     np.asarray(view, dtype=bool)                         SubFieldView.__array__ ignores the dtype it is handed: numpy
     np.asarray(view, dtype=int8..uint64)                 converts the UNPACKED values                (RBool, RInt)
     view[i]                                              SubFieldView(array[i]).masked_array()      (RItem)
     view == c, != c, < c, <= c, >= c, > c                np.array(self) == c; fast path of Model/SubField.v sf_cmp_fast (RCmp)
   A route that reduced / converted / compared the PACKED bytes first would follow the sibling bits. *)
Definition list_max (vs : list Z) : option Z := match vs with [] => None | v :: t => Some (fold_left Z.max t v) end.
Definition list_min (vs : list Z) : option Z := match vs with [] => None | v :: t => Some (fold_left Z.min t v) end.
Definition list_sum (vs : list Z) : Z := fold_left Z.add vs 0.
Definition as_bool (v : Z) : Z := if v =? 0 then 0 else 1.
(* numpy's conversion of an integer to an integer type of `bits` bits (two's complement when signed) *)
Definition wrap_int (bits : Z) (signed : bool) (v : Z) : Z :=
  let r := v mod 2 ^ bits in if signed && (2 ^ (bits - 1) <=? r) then r - 2 ^ bits else r.
Definition b2z (b : bool) : Z := if b then 1 else 0.
(* op: 0 <, 1 <=, 2 >=, 3 > (cmp_op of Model/SubField.v), 4 ==, 5 != *)
Definition cmp6 (op x y : Z) : bool := if op =? 4 then x =? y else if op =? 5 then negb (x =? y) else cmp_op op x y.

Inductive route :=
| RArray | RMax | RMin | RSum | RCount | RUnique | RBool
| RInt (bits : Z) (signed : bool)
| RItem (i : nat)
| RCmp (op c : Z).

Definition route_vals (ro : route) (vs : list Z) : option (list Z) :=
  match ro with
  | RArray => Some vs
  | RMax => option_map (fun x => [x]) (list_max vs)              (* numpy refuses the reduction of an empty array *)
  | RMin => option_map (fun x => [x]) (list_min vs)
  | RSum => Some [list_sum vs]
  | RCount => Some [list_sum (map as_bool vs)]
  | RUnique => Some (filter (fun x => existsb (Z.eqb x) vs) (map Z.of_nat (seq 0 256)))
  | RBool => Some (map as_bool vs)
  | RInt bits s => Some (map (wrap_int bits s) vs)
  | RItem i => if Nat.ltb i (length vs) then Some [nth i vs 0] else None
  | RCmp op c => Some (map (fun v => b2z (cmp6 op v c)) vs)
  end.

(* a route on the packed bytes of one sub-field / on a sub-field of a record *)
Definition sf_route (m : Z) (bs : list Z) (ro : route) : option (list Z) := route_vals ro (map (sf_get m) bs).
Definition rec_route (fmt : Z) (r : prec) (name : string) (ro : route) : option (list Z) :=
  match rec_read fmt r name with Some vs => route_vals ro vs | None => None end.

(* the value the field has at point j after the (position, value) pairs of an index expression, applied in order *)
Definition last_val (sel : list (nat * Z)) (j : nat) (d : Z) : Z :=
  fold_left (fun acc p => if Nat.eqb (fst p) j then snd p else acc) sel d.

(* ======================= round 6: LAYOUTS — the name lookup on a record that has other fields =======================
   A point layout may carry extra dimensions, and an extra dimension may be NAMED like a sub-field of the format, like an
   old laspy alias of one, or like a sub-field of the other format family: the packed array has no field of that name,
   numpy accepts the layout.  PackedPointRecord.__getitem__(name), as the code is:
     1. an old laspy name is replaced by the name it stands for (OLD_LASPY_NAMES),
     2. the SUB-FIELD TABLE of the format is asked first: the name addresses bits of a packed byte,
     3. only then the fields of the array (a scaled extra dimension, then any field); numpy refuses an unknown name.
   rec[name] = vs goes through the same lookup (self[name][:] = vs); rec.name, las.name, las[name] and their assigning
   forms forward to it.  The extra bytes of that name are reached through rec.array[name] only. *)
Definition old_names : list (string * string) :=
  [("flag_byte", "bit_fields"); ("return_num", "return_number"); ("num_returns", "number_of_returns");
   ("scan_dir_flag", "scan_direction_flag"); ("edge_flight_line", "edge_of_flight_line"); ("pt_src_id", "point_source_id");
   ("wave_packet_desc_index", "wavepacket_index"); ("byte_offset_to_waveform_data", "wavepacket_offset");
   ("waveform_packet_size", "wavepacket_size"); ("return_point_waveform_loc", "return_point_wave_location")]%string.

Fixpoint assoc_s (l : list (string * string)) (k : string) : option string :=
  match l with [] => None | (k', v) :: t => if String.eqb k' k then Some v else assoc_s t k end.
Definition canon (name : string) : string := match assoc_s old_names name with Some n => n | None => name end.

Inductive target :=
| TSub (c : string) (m : Z)        (* bits m of the packed byte c *)
| TField (n : string)              (* the field n of the array *)
| TNone.                           (* numpy: no field of name ... (ValueError) *)

Definition resolve (fmt : Z) (fields : list string) (name : string) : target :=
  let n := canon name in
  match find_sf fmt n with
  | Some (c, m) => TSub c m
  | None => if existsb (String.eqb n) fields then TField n else TNone
  end.

(* a record of a layout: its packed columns, and the other fields (name -> one stored value per point) *)
Definition xrec := (prec * list (string * list Z))%type.
Definition xfields (x : xrec) : list string := map fst (fst x) ++ map fst (snd x).

(* what rec[name] reads *)
Definition xread (fmt : Z) (x : xrec) (name : string) : option (list Z) :=
  match resolve fmt (xfields x) name with
  | TSub c m => Some (map (sf_get m) (col_get (fst x) c))
  | TField n => match assoc (fst x) n with Some bs => Some bs | None => assoc (snd x) n end
  | TNone => None
  end.

(* rec[name] = vs where the lookup finds a sub-field (None: the name is not a sub-field of this format - an assignment
   to a plain field is numpy's, not this property's): the packed bits are assigned as in the layout without other
   fields; the other fields follow the growth of the record (np.append of zero points), nothing else *)
Definition xassign_sub (fmt : Z) (x : xrec) (name : string) (vs : list Z) : option (result xrec) :=
  match resolve fmt (xfields x) name with
  | TSub _ _ => Some (match rec_assign_seq fmt (fst x) (canon name) vs with
                      | Ok r' => Ok (r', rec_grow (snd x) (rec_len r'))
                      | Err e => Err e
                      end)
  | _ => None
  end.

(* ======================= round 7: assignment BY ATTRIBUTE in a world of objects of DIFFERENT formats =======================
   obj.name = vs (LasData.__setattr__ / PackedPointRecord.__setattr__). The name is looked up in the layout OF THE OBJECT
   THAT IS ASSIGNED TO (the sub-fields of ITS format; `fields` = the fields of ITS array), by `resolve`:
     a sub-field of the object        -> the whole-dimension assignment of the single-record model on that object (WAssign);
     a field of its array             -> numpy's assignment of that field (not this property's: no packed byte changes);
     no dimension of THIS object      -> python keeps an attribute (or the call is refused): no point of any object changes.
   Nothing else takes part: not the other objects of the world, not what was assigned under that name earlier to an object
   of a format where the name resolves differently (overlap / scanner_channel are sub-fields of formats 6-10 and no
   dimension of formats 0-5). *)
Definition wattr (w : world) (a : nat) (fields : list string) (name : string) (vs : list Z) : world * option err :=
  match resolve (obj_fmt w a) fields name with
  | TSub _ _ => wstep w (WAssign a (OSeq (canon name) vs))
  | _ => (w, None)
  end.

Inductive wop7 :=
| WOp (o : wop)
| WAttr (a : nat) (fields : list string) (name : string) (vs : list Z).

Definition wstep7 (w : world) (o : wop7) : world * option err :=
  match o with WOp o => wstep w o | WAttr a fields name vs => wattr w a fields name vs end.

Fixpoint wrun7 (w : world) (ops : list wop7) : list (world * option err) :=
  match ops with
  | [] => []
  | o :: t => let s := wstep7 w o in s :: wrun7 (fst s) t
  end.
