(* Extraction of the C10 model (Model/Views.v over Gen/GenViews.v) for the correspondence check of harness/props/c10.py.
   ExtrOcamlBasic only; Z/N/positive/nat stay the extracted inductive datatypes. *)
Require Extraction.
Require Import ExtrOcamlBasic.
From Coq Require Import ZArith List.
From LasV Require Import Lib.Base Gen.GenFormatBits Gen.GenDims Gen.GenViews Model.SubField Model.Views.
Extraction Language OCaml.
Extraction "../ocaml/c10/model.ml"
  Z.add Z.mul Z.sub Z.div_eucl Z.compare Z.of_nat Z.to_nat
  all_ops route_of reduce_route reflected_route_of mirror sfv_rbinop_arr views_inplace_absent views_operator_surface_closed
  sfv_cmp_elem sfv_binop_elem sf_get sf_materialise sfv_index
  view_index materialise np_index chain np_chain is_value reduce_plan
  sfv_ufunc_where concatenate_views concat_grid_first
  all_sub_fields.
