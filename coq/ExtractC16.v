(* Extraction of the C16 fetch models for the schedule-replay correspondence (ExtrOcamlBasic only). *)
Require Extraction.
Require Import ExtrOcamlBasic.
From Coq Require Import ZArith List.
From LasV Require Import Lib.Base Gen.GenFetch Model.Fetch.
Extraction Language OCaml.
Extraction "../ocaml/c16/model.ml"
  Z.add Z.mul Z.sub Z.div_eucl Z.compare Z.of_nat Z.to_nat
  gen_worker_prog gen_main_prog old_worker_prog gen_exec_stream_per_job gen_exec_collect gen_exec_job
  slice local_read sort_by_offset first_failing
  init step run main_done all_exited measure w_idle
  gen_fetch_site memo_get reader_query reader_session
  gen_stream_read gen_fetch_workers http_error stream_read stream_fails
  pinit pstep prun pabs pmeasure
  xinit xstep xrun xmeasure
  gen_retry gen_transport_kept send_retry send_cfg via_retry retryable slot_send slot_history slots_init.
