(* Extraction of the binary64 formula of the header statistics (Model/F64Bits.v) for the correspondence check against
   numpy:  struct.unpack('<Q', struct.pack('<d', X * scale + offset))  ==  ap64 bits(scale) bits(offset) X. *)
Require Extraction.
Require Import ExtrOcamlBasic.
From Coq Require Import ZArith QArith List.
From LasV Require Import Lib.Base Model.Las Model.Scaling Model.F64Bits.
Extraction Language OCaml.
Extraction "../ocaml/ap/model.ml"
  Z.add Z.mul Z.sub Z.div_eucl Z.compare
  ap64 good_scaling fl_of_bits bits_of_fl.
