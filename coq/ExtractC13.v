(* Extraction of the C13 model (extra dimensions) to OCaml for the correspondence check.
   ExtrOcamlBasic only; Z/N/positive/nat stay the extracted inductive datatypes. *)
Require Extraction.
Require Import ExtrOcamlBasic.
From Coq Require Import ZArith List.
From LasV Require Import Lib.Base Lib.Layout Gen.GenExtraBytes Model.Las Model.ExtraDims.
Extraction Language OCaml.
Extraction "../ocaml/c13/model.ml"
  Z.add Z.mul Z.sub Z.div_eucl Z.compare Z.of_nat Z.to_nat
  init step trace run ops_okb enc_eb dec_eb dec_ebs eb_payload rec_bytes field_of extras_size
  write_state read_state std_names rec_names sub_names std_dim_names dim_names edim_okb fmt_eqv init_ex op_okb
  select wstep wtrace wrun wops_okb
  cstep ctrace crun cops_okb.
