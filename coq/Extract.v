(* Extraction of the executable models to OCaml for the correspondence checks.
   ExtrOcamlBasic only; Z/N/positive/nat stay the extracted inductive datatypes. *)
Require Extraction.
Require Import ExtrOcamlBasic.
From Coq Require Import ZArith List.
From LasV Require Import Lib.Base Lib.Layout Gen.GenGlobalEncoding Gen.GenFormatBits Model.GlobalEnc Model.Las Model.LasFast Model.Cursor Model.SubField Model.HeaderOps.
Extraction Language OCaml.
Extraction "../ocaml/model.ml"
  Z.add Z.mul Z.sub Z.div_eucl Z.compare Z.of_nat Z.to_nat
  le_enc le_dec to_bytes read_exact
  ge_get ge_set ge_run
  is_point_format_compressed compressed_id_to_uncompressed uncompressed_id_to_compressed
  least_significant_bit_set
  null_pad cut_nul enc_vlrs dec_vlrs enc_header dec_header file_of wopen wstep wrun aopen apoints aclose arun
  read_file read_records compat std_size read_file_f read_records_f dec_header_f dec_vlrs_f aopen_f arun_f aclose_t arun_t
  crun srun stats_of
  hstep hrun yday of_yday valid_date
  sf_assign sf_get sf_assign_arr sf_cmp_fast sf_cmp_spec sf_max all_sub_fields.
