(* Extraction of the C09 record-level model (Model/SubFieldRec.v: derived views, whole-dimension assignment with
   growth, copy_fields_from, histories; worlds of several objects over shared memory;
   read routes; the name lookup on layouts with other fields) to OCaml for the correspondence check.
   ExtrOcamlBasic only; Z/N/positive/nat stay the extracted inductive datatypes. *)
Require Extraction.
Require Import ExtrOcamlBasic.
From Coq Require Import ZArith List.
From LasV Require Import Lib.Base Model.SubField Model.SubFieldRec.
Extraction Language OCaml.
Extraction "../ocaml/c09/model.ml"
  Z.add Z.mul Z.sub Z.div_eucl Z.compare Z.of_nat Z.to_nat
  run step rec_read fmt_cols fmt_names find_sf view_chain wrun wstep obj_read obj_fmt
  sf_route rec_route route_vals resolve canon wattr wstep7 wrun7.
