(* Extraction of the C08 model (known record types, vlr_factory, the list codec) for its own driver.
   ExtrOcamlBasic only; Z/N/positive/nat stay the extracted inductive datatypes. *)
Require Extraction.
Require Import ExtrOcamlBasic.
From Coq Require Import ZArith List.
From LasV Require Import Lib.Base Lib.Layout Gen.GenKnown Model.Las Model.Known.
Extraction Language OCaml.
Extraction "../ocaml/c08/model.ml"
  Z.add Z.mul Z.sub Z.div_eucl Z.compare Z.of_nat Z.to_nat
  enc_vlrs dec_vlrs
  parse_lookup ser_lookup dict_set parse_extra ser_extra parse_doubles ser_doubles parse_wave ser_wave
  parse_geokeys ser_geokeys parse_ascii ser_ascii parse_wkt ser_wkt parse_laszip ser_laszip
  find_class known_table class_spec vlr_factory kv_record kv_records normalise read_known write_known
  wf_lookup_payload wf_geokeys_payload
  partial_reset write_file read_file write_file_known read_file_from append_file
  kv_class extract_rest sync_eb set_vlrs header_op set_content reread ser_content parse_class
  eb_struct_size gk_entry_size double_size sync_extracted_class.
