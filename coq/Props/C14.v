(* C14 - compression is transparent for any conforming LAZ backend.
   The backend is abstract: `conforming B` (Model/Laz.v) is the contract; every theorem below is quantified over all backends
   that honour it (no axiom, no parameter: the contract is an ordinary hypothesis). *)
From Coq Require Import String.
From Coq Require Import ZArith List Bool.
From LasV Require Import Lib.Base Lib.Layout Gen.GenFormatBits Gen.GenC14 Model.Las Model.LasSpec Model.Laz
  Proofs.LazProofs Proofs.LazBackendProofs Proofs.LazContract Proofs.LazWitness Model.LazSelect Proofs.LazSelectProofs
  Model.LazForm Proofs.LazFormProofs.
Import ListNotations.
Open Scope list_scope.
Open Scope Z_scope.

(* ---- the compressed bit (functions translated from laspy/_compression/format.py) ---- *)
Theorem C14_bit : forall f, 0 <= f < 64 ->
  is_point_format_compressed (uncompressed_id_to_compressed f) = true
  /\ compressed_id_to_uncompressed (uncompressed_id_to_compressed f) = f
  /\ is_point_format_compressed f = false
  /\ 0 <= uncompressed_id_to_compressed f < 256.
Proof. exact bits_64. Qed.
Print Assumptions C14_bit.

Theorem C14_bit_all_ids : forall b, 0 <= b < 256 ->
  (is_point_format_compressed b = true <-> 128 <= b < 192)
  /\ 0 <= compressed_id_to_uncompressed b < 64
  /\ (is_point_format_compressed b = true -> uncompressed_id_to_compressed (compressed_id_to_uncompressed b) = b).
Proof. exact bits_256. Qed.
Print Assumptions C14_bit_all_ids.

(* ---- output is compressed exactly when the documented rule says so (decision functions translated from
        LasWriter.__init__, open_las 'w', LasData.write) ---- *)
Theorem C14_decision_open : forall is_path is_bytes suffix dc bg,
  decide_open is_path is_bytes suffix dc bg = rule dc is_path (ext_is_laz suffix) bg.
Proof. exact decision_open. Qed.
Print Assumptions C14_decision_open.

(* LasData.write: the path form documents no do_compress ("will be ignored"): the rule with do_compress = None *)
Theorem C14_decision_lasdata : forall is_path suffix dc bg,
  decide_lasdata is_path suffix dc bg = rule (if is_path then None else dc) is_path (ext_is_laz suffix) bg.
Proof. exact decision_lasdata. Qed.
Print Assumptions C14_decision_lasdata.

Theorem C14_decision_writer : forall dc bg, decide_writer dc bg = rule dc false false bg.
Proof. exact decision_writer. Qed.
Print Assumptions C14_decision_writer.

(* ".laz" case-insensitively: the eight spellings and nothing else *)
Theorem C14_extension_case_insensitive : forall suffix, ext_is_laz suffix = true <-> In suffix LAZ_SPELLINGS.
Proof. exact ext_is_laz_spec. Qed.
Print Assumptions C14_extension_case_insensitive.

(* ---- the LasZip record: histories of write / open / touch / user edits over VLR lists ---- *)
Theorem C14_one_laszip : forall user ops, count_lz user = 0 -> Forall vop_ok ops -> vinv (vrun (vinit user) ops).
Proof. exact laszip_discipline. Qed.
Print Assumptions C14_one_laszip.

Theorem C14_laszip_exactly_one_in_file : forall user ops, count_lz user = 0 -> Forall vop_ok ops ->
  let s := vrun (vinit user) ops in count_lz (f_vlrs s) = if f_comp s then 1 else 0.
Proof. exact laszip_exactly_one_in_file. Qed.
Print Assumptions C14_laszip_exactly_one_in_file.

Theorem C14_laszip_hidden_after_read : forall user ops, count_lz user = 0 -> Forall vop_ok ops ->
  let s := vrun (vinit user) ops in (r_lazy s = false \/ r_count s = 0 \/ r_comp s = false) -> count_lz (u_held s) = 0.
Proof. exact laszip_hidden_after_read. Qed.
Print Assumptions C14_laszip_hidden_after_read.

(* never duplicated nor leaked when the data is written again, whatever header is held (also one taken from a LAZ
   reader before its lazy point source exists) *)
Theorem C14_laszip_never_leaks : forall user ops c n d, count_lz user = 0 -> Forall vop_ok ops -> 0 <= n ->
  count_lz (f_vlrs (vstep (vrun (vinit user) ops) (VWrite c n d))) = if c then 1 else 0.
Proof. exact laszip_never_leaks. Qed.
Print Assumptions C14_laszip_never_leaks.

Theorem C14_user_vlrs_kept : forall user c d,
  filter (fun v => negb (is_laszip v)) (writer_vlrs user c d) = filter (fun v => negb (is_laszip v)) user.
Proof. exact writer_keeps_others. Qed.
Print Assumptions C14_user_vlrs_kept.

(* ---- transparency, for every conforming backend ---- *)
(* writing in chunks (any partition, empty chunks included) = writing at once, byte for byte *)
Theorem C14_chunked_write : forall ap, ap_ok ap -> forall B, conforming B -> forall h vl fmt chunks evl,
  compat (aint h "version.major") (aint h "version.minor") fmt = true ->
  (evl = [] \/ aint h "version.minor" >= 4) ->
  forall std, std_size fmt = Some std -> std <= aint h "point_size" ->
  recs_ok (aint h "point_size") (concat chunks) = true ->
  B_session ap B h vl fmt chunks evl = B_file_of ap B h vl fmt (concat chunks) evl.
Proof. exact conf_session_equiv. Qed.
Print Assumptions C14_chunked_write.

(* everything read back from the compressed file equals what is read back from the uncompressed file of the same
   data: records, user VLRs (the LasZip record hidden), EVLRs, format, record length, every header field but the
   layout ones (offsets, VLR count, the id's compressed bit, EVLR position) - for every non-empty backend selection,
   whatever follows the file *)
Theorem C14_transparent_whole_file : forall ap, ap_ok ap -> forall B, conforming B -> forall h vl fmt recs evl f g backends junk,
  wf_las ap h vl fmt recs evl -> wf_laz ap B h vl fmt recs evl ->
  file_of ap h vl fmt recs evl = Ok f -> B_file_of ap B h vl fmt recs evl = Ok g ->
  backends <> [] ->
  exists lf lg, read_file f = Ok lf /\ B_read B backends (g ++ junk) = Ok lg
    /\ lz_points lg = recs /\ lf_points lf = recs
    /\ rh_vlrs (lz_h lg) = vl /\ rh_vlrs (lf_h lf) = vl
    /\ rh_evlrs (lz_h lg) = rh_evlrs (lf_h lf)
    /\ rh_psize (lz_h lg) = rh_psize (lf_h lf) /\ rh_fmt (lz_h lg) = rh_fmt (lf_h lf)
    /\ rh_compressed (lz_h lg) = true /\ rh_compressed (lf_h lf) = false
    /\ (forall n, In n (header_field_names (aint h "version.minor")) -> layout_field n = false ->
          aget (rh_fields (lz_h lg)) n = aget (rh_fields (lf_h lf)) n).
Proof. exact conf_transparent_whole. Qed.
Print Assumptions C14_transparent_whole_file.

(* chunked reading and seek-and-read: every history of in-range reads and seeks of the point source (what the
   reader's cursor, C05, issues) yields on the compressed file what it yields on the uncompressed one *)
Theorem C14_transparent_cursor : forall ap, ap_ok ap -> forall B, conforming B -> forall h vl fmt recs evl f g backends junk,
  wf_las ap h vl fmt recs evl -> wf_laz ap B h vl fmt recs evl ->
  file_of ap h vl fmt recs evl = Ok f -> B_file_of ap B h vl fmt recs evl = Ok g -> backends <> [] ->
  exists rs rz s0, dec_header f true = Ok rs /\ dec_header (g ++ junk) true = Ok rz
    /\ B_source B backends true rz (g ++ junk) = Ok s0
    /\ forall ops, ops_ok (len recs) 0 ops = true ->
         snd (prun (B_pstep B) s0 ops) = snd (prun (las_pstep f (rh_offset rs) (rh_psize rs)) 0 ops)
         /\ snd (prun (B_pstep B) s0 ops) = snd (prun (spec_pstep recs) 0 ops).
Proof. exact conf_transparent_cursor. Qed.
Print Assumptions C14_transparent_cursor.

(* what the reader hands out stays what it was: whatever in-range reads and seeks follow (ops2), the results of the steps
   already made (ops1) are still exactly what they were when they were handed out, and they are the slices of the
   records - so pieces of a compressed file kept by the caller (the chunks of an iterator, the results of read / seek /
   read) equal the pieces of the uncompressed file kept the same way.  The implementation's results are mutable buffers:
   the correspondence check keeps every buffer of a history alive and compares it with the model after the history. *)
Theorem C14_handed_out_results_persist : forall ap, ap_ok ap -> forall B, conforming B -> forall h vl fmt recs evl f g backends junk,
  wf_las ap h vl fmt recs evl -> wf_laz ap B h vl fmt recs evl ->
  file_of ap h vl fmt recs evl = Ok f -> B_file_of ap B h vl fmt recs evl = Ok g -> backends <> [] ->
  exists rz s0, dec_header (g ++ junk) true = Ok rz /\ B_source B backends true rz (g ++ junk) = Ok s0
    /\ forall ops1 ops2, ops_ok (len recs) 0 (ops1 ++ ops2) = true ->
         firstn (length ops1) (snd (prun (B_pstep B) s0 (ops1 ++ ops2))) = snd (prun (B_pstep B) s0 ops1)
         /\ firstn (length ops1) (snd (prun (B_pstep B) s0 (ops1 ++ ops2))) = snd (prun (spec_pstep recs) 0 ops1).
Proof. exact conf_results_persist. Qed.
Print Assumptions C14_handed_out_results_persist.

(* a non-seekable source: any selection holding the serial variant works (a parallel entry that cannot construct is
   skipped), and the EVLRs are recovered from behind the stream *)
Theorem C14_transparent_nonseekable : forall ap, ap_ok ap -> forall B, conforming B -> forall h vl fmt recs evl g backends junk,
  wf_las ap h vl fmt recs evl -> wf_laz ap B h vl fmt recs evl ->
  B_file_of ap B h vl fmt recs evl = Ok g -> In false backends ->
  exists lg, B_read_ns B backends (g ++ junk) = Ok lg
    /\ lz_points lg = recs /\ rh_vlrs (lz_h lg) = vl
    /\ rh_evlrs (lz_h lg) = (if aint h "version.minor" >=? 4 then Some evl else None).
Proof. exact conf_transparent_nonseekable. Qed.
Print Assumptions C14_transparent_nonseekable.

(* appending: an accepted LasAppender session on the compressed file of A yields the compressed file of A ++ chunks
   (followed by those bytes of the old file that were not overwritten; nothing in the new file points at them) *)
Theorem C14_append : forall ap, ap_ok ap -> forall B, conforming B -> forall h vl fmt A evl Bs g0 g1 p,
  wf_las ap h vl fmt A evl -> wf_laz ap B h vl fmt A evl ->
  wf_las ap h vl fmt (A ++ concat Bs) evl -> wf_laz ap B h vl fmt (A ++ concat Bs) evl ->
  B_file_of ap B h vl fmt A evl = Ok g0 -> B_file_of ap B h vl fmt (A ++ concat Bs) evl = Ok g1 ->
  exists junk, B_append ap B p g0 Bs = Ok (g1 ++ junk).
Proof. exact conf_append_equiv. Qed.
Print Assumptions C14_append.

(* ... and what is read back after appending is what is read back after appending to the uncompressed file (C06) *)
Theorem C14_transparent_append : forall ap, ap_ok ap -> (forall s o x, 0 <= ap s o x) -> forall B, conforming B ->
  forall h vl fmt A evl Bs f0 f1 g0 g1 p backends,
  wf_las ap h vl fmt A evl -> wf_laz ap B h vl fmt A evl ->
  wf_las ap h vl fmt (A ++ concat Bs) evl -> wf_laz ap B h vl fmt (A ++ concat Bs) evl ->
  file_of ap h vl fmt A evl = Ok f0 -> file_of ap h vl fmt (A ++ concat Bs) evl = Ok f1 ->
  B_file_of ap B h vl fmt A evl = Ok g0 -> B_file_of ap B h vl fmt (A ++ concat Bs) evl = Ok g1 ->
  backends <> [] ->
  exists ga lf lg, arun ap f0 Bs = Ok f1 /\ B_append ap B p g0 Bs = Ok ga
    /\ read_file f1 = Ok lf /\ B_read B backends ga = Ok lg
    /\ lz_points lg = A ++ concat Bs /\ lf_points lf = A ++ concat Bs
    /\ rh_vlrs (lz_h lg) = vl /\ rh_vlrs (lf_h lf) = vl
    /\ rh_evlrs (lz_h lg) = rh_evlrs (lf_h lf)
    /\ rh_psize (lz_h lg) = rh_psize (lf_h lf) /\ rh_fmt (lz_h lg) = rh_fmt (lf_h lf)
    /\ (forall n, In n (header_field_names (aint h "version.minor")) -> layout_field n = false ->
          aget (rh_fields (lz_h lg)) n = aget (rh_fields (lf_h lf)) n).
Proof. exact conf_append_transparent. Qed.
Print Assumptions C14_transparent_append.

(* ---- the decompression selection (Model/LazSelect.v; member table, all(), base(), the defaults of the entry points and the
        table of to_lazrs() are dumped from the running class DecompressionSelection) ---- *)
(* all() is the OR of every member of the Flag class - the last one, ALL_EXTRA_BYTES, included *)
Theorem C14_selection_all_is_every_member :
  selection_all = or_all (map snd selection_members)
  /\ forall e, In e selection_members -> Z.land selection_all (snd e) = snd e /\ 0 < snd e.
Proof. exact (conj sel_all_is_or sel_all_has_every_member). Qed.
Print Assumptions C14_selection_all_is_every_member.

(* what laspy.open / laspy.read / LasReader use when the caller passes no selection is all() *)
Theorem C14_selection_defaults_are_all : length selection_defaults = 3%nat /\ forall e, In e selection_defaults -> snd e = selection_all.
Proof. exact (conj sel_defaults_three sel_defaults_all). Qed.
Print Assumptions C14_selection_defaults_are_all.

(* to_lazrs(): all() reaches every layer of the backend, every layer is the image of a member, base() asks for none of
   the optional layers; the model of to_lazrs agrees with the running function on all(), base(), 0 and every member *)
Theorem C14_selection_all_reaches_every_layer :
  (forall l, In l lz_layers -> has (sel_to_lazrs selection_all) l = true)
  /\ (forall l, In l lz_layers -> exists m, In (m, l) selection_to_lazrs_table /\ In m (map snd selection_members))
  /\ sel_to_lazrs selection_base = 0
  /\ sel_to_lazrs selection_all = selection_all_to_lazrs.
Proof. exact (conj sel_all_every_layer (conj sel_layers_one_member_each (conj (proj2 (proj2 sel_base_is_xy)) (proj1 sel_to_lazrs_dumped)))). Qed.
Print Assumptions C14_selection_all_reaches_every_layer.

(* ... and to_lazrs() sends every member to the backend layer of the SAME NAME (RGB to RGB, ALL_EXTRA_BYTES to the extra
   bytes, XY_RETURNS_CHANNEL to the always-on base) *)
Theorem C14_selection_members_map_to_their_layers : forall e, In e selection_members ->
  exists l, layer_of_member (fst e) member_layer = Some l /\ In (snd e, l) selection_to_lazrs_table.
Proof. exact sel_members_map_to_their_layers. Qed.
Print Assumptions C14_selection_members_map_to_their_layers.

(* skip_<m> / decompress_<m> / is_set_<m>, for every member m: all().skip_m() = all() without m, base().decompress_m() =
   base() with m, m is set in all() and not set after skip_m() *)
Theorem C14_selection_methods : forall m s d i1 i2, In (m, s, d, i1, i2) selection_method_table ->
  s = Z.land selection_all (Z.lnot m) /\ d = Z.lor selection_base m /\ i1 = 1 /\ i2 = 0.
Proof. exact sel_methods. Qed.
Print Assumptions C14_selection_methods.

(* a selection holding every layer leaves every record of every format as it is (any number of extra bytes); formats 0-5
   ignore the selection; for the layered formats a byte comes back ANDed with what the selection lets through, and the
   extra bytes come back exactly when ALL_EXTRA_BYTES is selected *)
Theorem C14_selection_all_changes_nothing : forall sel, (forall l, In l lz_layers -> has sel l = true) ->
  forall fmt rec, bytes_ok rec = true -> mask_record sel fmt rec = rec.
Proof. exact mask_all_identity. Qed.
Print Assumptions C14_selection_all_changes_nothing.

Theorem C14_selection_bytewise : forall sel fmt rec k, 6 <= fmt ->
  nth k (mask_record sel fmt rec) 0 = Z.land (nth k rec 0) (keep_byte sel fmt (Z.of_nat k))
  /\ length (mask_record sel fmt rec) = length rec.
Proof. exact mask_bytewise. Qed.
Print Assumptions C14_selection_bytewise.

Theorem C14_selection_extra_bytes : forall sel f std dims i, fmt_entry f = Some (f, std, dims) -> std <= i ->
  keep_byte sel f i = if has sel L_EXTRA_BYTES then 255 else 0.
Proof. exact extra_bytes_need_their_flag. Qed.
Print Assumptions C14_selection_extra_bytes.

Theorem C14_selection_ignored_below_6 : forall sel fmt rec, fmt < 6 -> mask_record sel fmt rec = rec.
Proof. exact mask_ignored_below_6. Qed.
Print Assumptions C14_selection_ignored_below_6.

(* transparency with the selection in place: with no selection passed (the defaults above) or an explicit all(), a
   backend that honours selections hands back what the uncompressed file of the same data holds *)
Theorem C14_transparent_default_selection : forall ap, ap_ok ap -> forall B, conforming B -> forall h vl fmt recs evl f g backends junk sel,
  wf_las ap h vl fmt recs evl -> wf_laz ap B h vl fmt recs evl ->
  file_of ap h vl fmt recs evl = Ok f -> B_file_of ap B h vl fmt recs evl = Ok g ->
  backends <> [] -> (sel = None \/ sel = Some selection_all) ->
  exists lf lg, read_file f = Ok lf /\ B_read_sel B sel backends (g ++ junk) = Ok lg
    /\ lz_points lg = lf_points lf /\ lf_points lf = recs
    /\ rh_vlrs (lz_h lg) = rh_vlrs (lf_h lf) /\ rh_evlrs (lz_h lg) = rh_evlrs (lf_h lf).
Proof. exact sel_transparent_whole. Qed.
Print Assumptions C14_transparent_default_selection.

Theorem C14_transparent_default_selection_nonseekable : forall ap, ap_ok ap -> forall B, conforming B -> forall h vl fmt recs evl g backends junk sel,
  wf_las ap h vl fmt recs evl -> wf_laz ap B h vl fmt recs evl ->
  B_file_of ap B h vl fmt recs evl = Ok g -> In false backends -> (sel = None \/ sel = Some selection_all) ->
  exists lg, B_read_ns_sel B sel backends (g ++ junk) = Ok lg /\ lz_points lg = recs /\ rh_vlrs (lz_h lg) = vl.
Proof. exact sel_transparent_nonseekable. Qed.
Print Assumptions C14_transparent_default_selection_nonseekable.

(* the statements that carry encoding_errors from the writer to every header / VLR / EVLR write have the expected shape,
   for the compressing point writer as for the plain one (checked by the translator; the behaviour is compared by the harness) *)
Theorem C14_encoding_errors_plumbing : gen_encoding_errors_reaches_header_writes = true /\ gen_selection_reaches_decompressor = true.
Proof. split; reflexivity. Qed.
Print Assumptions C14_encoding_errors_plumbing.

(* ---- the FORMS of the argument laz_backend (Model/LazForm.v; gen_*_backends are emitted by the translator only when LasReader,
   LasWriter and LasAppender replace None by the default selection, normalise with `try: iter(x) except TypeError: (x,)`,
   loop over the result, and every entry point hands laz_backend on unchanged) ---- *)
(* ONE bare backend (an enum member or any other backend object) is the selection that holds just it, an iterable is itself,
   an absent argument is the default selection (both lazrs variants, the parallel one first) - at the three places alike *)
Theorem C14_backend_forms_normalised :
  (forall p, gen_reader_backends (C14One p) = [p] /\ gen_writer_backends (C14One p) = [p] /\ gen_appender_backends (C14One p) = [p])
  /\ (forall l, gen_reader_backends (C14Many l) = l /\ gen_writer_backends (C14Many l) = l /\ gen_appender_backends (C14Many l) = l)
  /\ gen_reader_backends C14Absent = gen_default_backends /\ gen_writer_backends C14Absent = gen_default_backends
  /\ gen_appender_backends C14Absent = gen_default_append_backends
  /\ gen_default_backends <> [] /\ In false gen_default_backends /\ gen_default_append_backends <> [].
Proof. exact forms_normalised. Qed.
Print Assumptions C14_backend_forms_normalised.

Theorem C14_backend_form_same_at_every_entry_point : forall f,
  gen_writer_backends f = gen_reader_backends f /\ gen_appender_backends f = gen_reader_backends f.
Proof. exact forms_agree. Qed.
Print Assumptions C14_backend_form_same_at_every_entry_point.

(* whole-file transparency for an argument of ANY form that names a backend *)
Theorem C14_transparent_whole_file_any_form : forall ap, ap_ok ap -> forall B, conforming B -> forall h vl fmt recs evl f g fm junk,
  wf_las ap h vl fmt recs evl -> wf_laz ap B h vl fmt recs evl ->
  file_of ap h vl fmt recs evl = Ok f -> B_file_of ap B h vl fmt recs evl = Ok g ->
  form_names_a_backend fm = true ->
  exists lf lg, read_file f = Ok lf /\ B_read_form B fm (g ++ junk) = Ok lg
    /\ lz_points lg = recs /\ lf_points lf = recs
    /\ rh_vlrs (lz_h lg) = vl /\ rh_vlrs (lf_h lf) = vl
    /\ rh_evlrs (lz_h lg) = rh_evlrs (lf_h lf)
    /\ rh_psize (lz_h lg) = rh_psize (lf_h lf) /\ rh_fmt (lz_h lg) = rh_fmt (lf_h lf)
    /\ rh_compressed (lz_h lg) = true /\ rh_compressed (lf_h lf) = false
    /\ (forall n, In n (header_field_names (aint h "version.minor")) -> layout_field n = false ->
          aget (rh_fields (lz_h lg)) n = aget (rh_fields (lf_h lf)) n).
Proof. exact form_transparent_whole. Qed.
Print Assumptions C14_transparent_whole_file_any_form.

(* ... chunked reading and seek-and-read ... *)
Theorem C14_transparent_cursor_any_form : forall ap, ap_ok ap -> forall B, conforming B -> forall h vl fmt recs evl f g fm junk,
  wf_las ap h vl fmt recs evl -> wf_laz ap B h vl fmt recs evl ->
  file_of ap h vl fmt recs evl = Ok f -> B_file_of ap B h vl fmt recs evl = Ok g -> form_names_a_backend fm = true ->
  exists rs rz s0, dec_header f true = Ok rs /\ dec_header (g ++ junk) true = Ok rz
    /\ B_source_form B fm true rz (g ++ junk) = Ok s0
    /\ forall ops, ops_ok (len recs) 0 ops = true ->
         snd (prun (B_pstep B) s0 ops) = snd (prun (las_pstep f (rh_offset rs) (rh_psize rs)) 0 ops)
         /\ snd (prun (B_pstep B) s0 ops) = snd (prun (spec_pstep recs) 0 ops).
Proof. exact form_transparent_cursor. Qed.
Print Assumptions C14_transparent_cursor_any_form.

(* ... a non-seekable source, for any form that names the serial variant somewhere ... *)
Theorem C14_transparent_nonseekable_any_form : forall ap, ap_ok ap -> forall B, conforming B -> forall h vl fmt recs evl g fm junk,
  wf_las ap h vl fmt recs evl -> wf_laz ap B h vl fmt recs evl ->
  B_file_of ap B h vl fmt recs evl = Ok g -> form_names_serial fm = true ->
  exists lg, B_read_ns_form B fm (g ++ junk) = Ok lg
    /\ lz_points lg = recs /\ rh_vlrs (lz_h lg) = vl
    /\ rh_evlrs (lz_h lg) = (if aint h "version.minor" >=? 4 then Some evl else None).
Proof. exact form_transparent_nonseekable. Qed.
Print Assumptions C14_transparent_nonseekable_any_form.

(* ... and appending (mode "a" / LasAppender) with an argument of any form that names a backend *)
Theorem C14_append_any_form : forall ap, ap_ok ap -> forall B, conforming B -> forall h vl fmt A evl Bs g0 g1 fm,
  wf_las ap h vl fmt A evl -> wf_laz ap B h vl fmt A evl ->
  wf_las ap h vl fmt (A ++ concat Bs) evl -> wf_laz ap B h vl fmt (A ++ concat Bs) evl ->
  B_file_of ap B h vl fmt A evl = Ok g0 -> B_file_of ap B h vl fmt (A ++ concat Bs) evl = Ok g1 ->
  form_names_a_backend fm = true ->
  exists junk, B_append_form ap B fm g0 Bs = Ok (g1 ++ junk).
Proof. exact form_append. Qed.
Print Assumptions C14_append_any_form.

(* the loop over the normalised selection: the outcome is that of the LAST variant tried (the error handed in when there is
   nothing to try), every variant tried before it refused, and the variants tried are a prefix of the selection *)
Theorem C14_first_constructing_backend_wins : forall dst (d_open : bool -> bool -> list Z -> list Z -> result dst) backends sk d src last,
  select dst d_open backends sk d src last =
    match rev (select_tried d_open backends sk d src) with [] => Err last | p :: _ => d_open p sk d src end
  /\ (forall p, In p (removelast (select_tried d_open backends sk d src)) -> is_ok (d_open p sk d src) = false)
  /\ exists rest, backends = select_tried d_open backends sk d src ++ rest.
Proof.
  intros. split; [apply select_tried_spec|]. split; [apply select_tried_refused|apply select_tried_prefix].
Qed.
Print Assumptions C14_first_constructing_backend_wins.

(* the contract can be honoured: plain storage behind a unary record count is a conforming backend, so none of the
   theorems above is vacuous in its contract hypothesis (harness/fake_lazrs is the executable witness on the Python side) *)
Theorem C14_contract_satisfiable : conforming store_backend.
Proof. exact store_conforming. Qed.
Print Assumptions C14_contract_satisfiable.

(* non-vacuity: that concrete backend, a 1.4 file of format 6 with one user VLR,
   three records written as chunks 2+0+1 and one EVLR: the session equals the one-shot file, the file carries the
   compressed bit and exactly one LasZip record, the seekable read (parallel first) and the non-seekable read
   (parallel refused, serial taken) return the records, the user's VLR only, and the EVLR; a seek-and-read history agrees
   with the slices; ".LaZ" is compressed by default, an explicit do_compress=False wins *)
Definition ex_h : assoc := [("version.major", VInt 1); ("version.minor", VInt 4); ("uuid", VBytes (repeat 0 16));
  ("system_identifier", VBytes [79; 84]); ("generating_software", VBytes []);
  ("point_format_id", VInt 6); ("point_size", VInt 30); ("scales[0]", VInt 4607182418800017408)]%string.
Definition ex_ap (s o x : Z) : Z := if x <? 0 then 0 else x.
Definition ex_r (x : Z) : list Z := le_enc 4 x ++ repeat 1 26.
Definition ex_v : vlr := mkVlr [85] 7 [100] [1; 2; 3].
Definition ex_e : vlr := mkVlr [69] 9 [] [4; 5].
Example C14_nonvacuous :
  match B_file_of ex_ap store_backend ex_h [ex_v] 6 [ex_r 5; ex_r 9; ex_r 2] [ex_e],
        B_session ex_ap store_backend ex_h [ex_v] 6 [[ex_r 5; ex_r 9]; []; [ex_r 2]] [ex_e] with
  | Ok g, Ok g' =>
      list_eqb g g' && (nth 104 g 0 =? 128 + 6)
      && match B_read store_backend [true; false] g, B_read_ns store_backend [true; false] g, dec_header g true with
         | Ok a, Ok b, Ok rh =>
             (count_lz (rh_vlrs rh) =? 1) && (len (rh_vlrs rh) =? 2)
             && (len (lz_points a) =? 3) && list_eqb (concat (lz_points a)) (concat [ex_r 5; ex_r 9; ex_r 2])
             && list_eqb (concat (lz_points b)) (concat (lz_points a))
             && (len (rh_vlrs (lz_h a)) =? 1) && (count_lz (rh_vlrs (lz_h a)) =? 0) && (len (rh_vlrs (lz_h b)) =? 1)
             && match rh_evlrs (lz_h a), rh_evlrs (lz_h b) with
                | Some [e1], Some [e2] => list_eqb (v_data e1) [4; 5] && list_eqb (v_data e2) [4; 5]
                | _, _ => false
                end
             && match B_source store_backend [true; false] true rh g with
                | Ok s0 => match snd (prun (B_pstep store_backend) s0 [PRead 1; PSeek 2; PRead 1; PSeek 0; PRead 3]) with
                           | [Ok [r0]; Ok []; Ok [r2]; Ok []; Ok [_; _; _]] => list_eqb r0 (ex_r 5) && list_eqb r2 (ex_r 2)
                           | _ => false
                           end
                | Err _ => false
                end
         | _, _, _ => false
         end
      (* the forms of laz_backend: the bare serial backend, the list that holds it, a two-element iterable and the absent
         argument read the same records; on a source that cannot seek the default selection tries the parallel variant, then
         the serial one; appending nothing with the bare parallel backend gives the file back *)
      && match B_read_form store_backend (C14One false) g, B_read_form store_backend (C14Many [false]) g,
               B_read_ns_form store_backend C14Absent g, B_append_form ex_ap store_backend (C14One true) g [] with
         | Ok a, Ok b, Ok c, Ok g2 => list_eqb (concat (lz_points a)) (concat (lz_points b))
                                      && list_eqb (concat (lz_points a)) (concat (lz_points c)) && (len (lz_points a) =? 3)
                                      && list_eqb g2 g
         | _, _, _, _ => false
         end
      && match select_tried (b_dopen store_backend) (gen_reader_backends C14Absent) false (repeat 0 30) g with
         | [true; false] => true | _ => false end
      && match writer_variant (C14One false), writer_variant C14Absent, writer_variant (C14Many []) with
         | Some false, Some true, None => true | _, _, _ => false end
      && decide_open true false [46; 76; 97; 90] None false
      && negb (decide_open true false [46; 76; 97; 90] (Some false) true)
      && decide_lasdata false [] None true
      (* a format-6 record with two extra bytes: all() hands it back, all() without ALL_EXTRA_BYTES zeroes the extra bytes,
         base() keeps x, y, the returns byte and the scanner channel only *)
      && list_eqb (mask_record (sel_to_lazrs selection_all) 6 (ex_r 5 ++ [7; 9])) (ex_r 5 ++ [7; 9])
      && list_eqb (mask_record (sel_to_lazrs (Z.land selection_all (Z.lnot 4096))) 6 (ex_r 5 ++ [7; 9])) (ex_r 5 ++ [0; 0])
      && list_eqb (mask_record (sel_to_lazrs selection_base) 6 (le_enc 4 5 ++ repeat 255 26 ++ [7]))
                  (le_enc 4 5 ++ [255; 255; 255; 255] ++ repeat 0 6 ++ [255; 48] ++ repeat 0 15)
      && list_eqb (mask_record 0 3 (repeat 9 34)) (repeat 9 34)
  | _, _ => false
  end = true.
Proof. vm_compute. reflexivity. Qed.
