(* C14 - compression is transparent for any conforming LAZ backend.
   The backend is abstract: `conforming B` (Model/Laz.v) is the contract; every theorem below is quantified over all backends
   that honour it (no axiom, no parameter: the contract is an ordinary hypothesis). *)
From Coq Require Import String.
From Coq Require Import ZArith List Bool.
From LasV Require Import Lib.Base Lib.Layout Gen.GenFormatBits Gen.GenC14 Model.Las Model.LasSpec Model.Laz
  Proofs.LazProofs Proofs.LazBackendProofs Proofs.LazContract.
Import ListNotations.
Open Scope list_scope.
Open Scope Z_scope.

(* ---- the compressed bit (functions translated from laspy/_compression/format.py) ---- *)
Theorem C14_bit : forall f, 0 <= f < 64 ->
  is_point_format_compressed (uncompressed_id_to_compressed f) = true
  /\ compressed_id_to_uncompressed (uncompressed_id_to_compressed f) = f
  /\ is_point_format_compressed f = false
  /\ 0 <= uncompressed_id_to_compressed f < 256.
Proof. exact bits_64. Qed.
Print Assumptions C14_bit.

Theorem C14_bit_all_ids : forall b, 0 <= b < 256 ->
  (is_point_format_compressed b = true <-> 128 <= b < 192)
  /\ 0 <= compressed_id_to_uncompressed b < 64
  /\ (is_point_format_compressed b = true -> uncompressed_id_to_compressed (compressed_id_to_uncompressed b) = b).
Proof. exact bits_256. Qed.
Print Assumptions C14_bit_all_ids.

(* ---- output is compressed exactly when the documented rule says so (decision functions translated from
        LasWriter.__init__, open_las 'w', LasData.write) ---- *)
Theorem C14_decision_open : forall is_path is_bytes suffix dc bg,
  decide_open is_path is_bytes suffix dc bg = rule dc is_path (ext_is_laz suffix) bg.
Proof. exact decision_open. Qed.
Print Assumptions C14_decision_open.

(* LasData.write: the path form documents no do_compress ("will be ignored"): the rule with do_compress = None *)
Theorem C14_decision_lasdata : forall is_path suffix dc bg,
  decide_lasdata is_path suffix dc bg = rule (if is_path then None else dc) is_path (ext_is_laz suffix) bg.
Proof. exact decision_lasdata. Qed.
Print Assumptions C14_decision_lasdata.

Theorem C14_decision_writer : forall dc bg, decide_writer dc bg = rule dc false false bg.
Proof. exact decision_writer. Qed.
Print Assumptions C14_decision_writer.

(* ".laz" case-insensitively: the eight spellings and nothing else *)
Theorem C14_extension_case_insensitive : forall suffix, ext_is_laz suffix = true <-> In suffix LAZ_SPELLINGS.
Proof. exact ext_is_laz_spec. Qed.
Print Assumptions C14_extension_case_insensitive.

(* ---- the LasZip record: histories of write / open / touch / user edits over VLR lists ---- *)
Theorem C14_one_laszip : forall user ops, count_lz user = 0 -> Forall vop_ok ops -> vinv (vrun (vinit user) ops).
Proof. exact laszip_discipline. Qed.
Print Assumptions C14_one_laszip.

Theorem C14_laszip_exactly_one_in_file : forall user ops, count_lz user = 0 -> Forall vop_ok ops ->
  let s := vrun (vinit user) ops in count_lz (f_vlrs s) = if f_comp s then 1 else 0.
Proof. exact laszip_exactly_one_in_file. Qed.
Print Assumptions C14_laszip_exactly_one_in_file.

Theorem C14_laszip_hidden_after_read : forall user ops, count_lz user = 0 -> Forall vop_ok ops ->
  let s := vrun (vinit user) ops in (r_lazy s = false \/ r_count s = 0 \/ r_comp s = false) -> count_lz (u_held s) = 0.
Proof. exact laszip_hidden_after_read. Qed.
Print Assumptions C14_laszip_hidden_after_read.

(* never duplicated nor leaked when the data is written again, whatever header is held (also one taken from a LAZ
   reader before its lazy point source exists) *)
Theorem C14_laszip_never_leaks : forall user ops c n d, count_lz user = 0 -> Forall vop_ok ops -> 0 <= n ->
  count_lz (f_vlrs (vstep (vrun (vinit user) ops) (VWrite c n d))) = if c then 1 else 0.
Proof. exact laszip_never_leaks. Qed.
Print Assumptions C14_laszip_never_leaks.

Theorem C14_user_vlrs_kept : forall user c d,
  filter (fun v => negb (is_laszip v)) (writer_vlrs user c d) = filter (fun v => negb (is_laszip v)) user.
Proof. exact writer_keeps_others. Qed.
Print Assumptions C14_user_vlrs_kept.

(* ---- transparency, for every conforming backend ---- *)
(* writing in chunks (any partition, empty chunks included) = writing at once, byte for byte *)
Theorem C14_chunked_write : forall ap, ap_ok ap -> forall B, conforming B -> forall h vl fmt chunks evl,
  compat (aint h "version.major") (aint h "version.minor") fmt = true ->
  (evl = [] \/ aint h "version.minor" >= 4) ->
  forall std, std_size fmt = Some std -> std <= aint h "point_size" ->
  recs_ok (aint h "point_size") (concat chunks) = true ->
  B_session ap B h vl fmt chunks evl = B_file_of ap B h vl fmt (concat chunks) evl.
Proof. exact conf_session_equiv. Qed.
Print Assumptions C14_chunked_write.

(* everything read back from the compressed file equals what is read back from the uncompressed file of the same
   data: records, user VLRs (the LasZip record hidden), EVLRs, format, record length, every header field but the
   layout ones (offsets, VLR count, the id's compressed bit, EVLR position) - for every non-empty backend selection,
   whatever follows the file *)
Theorem C14_transparent_whole_file : forall ap, ap_ok ap -> forall B, conforming B -> forall h vl fmt recs evl f g backends junk,
  wf_las ap h vl fmt recs evl -> wf_laz ap B h vl fmt recs evl ->
  file_of ap h vl fmt recs evl = Ok f -> B_file_of ap B h vl fmt recs evl = Ok g ->
  backends <> [] ->
  exists lf lg, read_file f = Ok lf /\ B_read B backends (g ++ junk) = Ok lg
    /\ lz_points lg = recs /\ lf_points lf = recs
    /\ rh_vlrs (lz_h lg) = vl /\ rh_vlrs (lf_h lf) = vl
    /\ rh_evlrs (lz_h lg) = rh_evlrs (lf_h lf)
    /\ rh_psize (lz_h lg) = rh_psize (lf_h lf) /\ rh_fmt (lz_h lg) = rh_fmt (lf_h lf)
    /\ rh_compressed (lz_h lg) = true /\ rh_compressed (lf_h lf) = false
    /\ (forall n, In n (header_field_names (aint h "version.minor")) -> layout_field n = false ->
          aget (rh_fields (lz_h lg)) n = aget (rh_fields (lf_h lf)) n).
Proof. exact conf_transparent_whole. Qed.
Print Assumptions C14_transparent_whole_file.

(* chunked reading and seek-and-read: every history of in-range reads and seeks of the point source (what the
   reader's cursor, C05, issues) yields on the compressed file what it yields on the uncompressed one *)
Theorem C14_transparent_cursor : forall ap, ap_ok ap -> forall B, conforming B -> forall h vl fmt recs evl f g backends junk,
  wf_las ap h vl fmt recs evl -> wf_laz ap B h vl fmt recs evl ->
  file_of ap h vl fmt recs evl = Ok f -> B_file_of ap B h vl fmt recs evl = Ok g -> backends <> [] ->
  exists rs rz s0, dec_header f true = Ok rs /\ dec_header (g ++ junk) true = Ok rz
    /\ B_source B backends true rz (g ++ junk) = Ok s0
    /\ forall ops, ops_ok (len recs) 0 ops = true ->
         snd (prun (B_pstep B) s0 ops) = snd (prun (las_pstep f (rh_offset rs) (rh_psize rs)) 0 ops)
         /\ snd (prun (B_pstep B) s0 ops) = snd (prun (spec_pstep recs) 0 ops).
Proof. exact conf_transparent_cursor. Qed.
Print Assumptions C14_transparent_cursor.

(* a non-seekable source: any selection holding the serial variant works (a parallel entry that cannot construct is
   skipped), and the EVLRs are recovered from behind the stream *)
Theorem C14_transparent_nonseekable : forall ap, ap_ok ap -> forall B, conforming B -> forall h vl fmt recs evl g backends junk,
  wf_las ap h vl fmt recs evl -> wf_laz ap B h vl fmt recs evl ->
  B_file_of ap B h vl fmt recs evl = Ok g -> In false backends ->
  exists lg, B_read_ns B backends (g ++ junk) = Ok lg
    /\ lz_points lg = recs /\ rh_vlrs (lz_h lg) = vl
    /\ rh_evlrs (lz_h lg) = (if aint h "version.minor" >=? 4 then Some evl else None).
Proof. exact conf_transparent_nonseekable. Qed.
Print Assumptions C14_transparent_nonseekable.
