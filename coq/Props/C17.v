(* C17 — the access path does not change what is read.
   A source is a byte string behind a stream interface with three capabilities (seekable() answers true, it has readinto,
   it has a seekable method at all — a stream that offers ONLY read() has not, and then counts as not seekable:
   `can_seek c`). `read_via c e steps f` is laspy.open(source, read_evlrs = e), then the consumption steps (SChunks k: a
   chunk iterator of k points, SPoints n: read_points(n)), then read(); it returns the result (header fields, VLRs, EVLRs,
   records — or the error) and the list of the methods called on the source. `consume_via` is the same WITHOUT read(): the
   header the reader shows and the records handed out (no step: the reader is only inspected); `open_via` is laspy.open
   alone. `read_mmap` is laspy.mmap, `mmap_set` an assignment of one element through the mapped record array,
   `mmap_set_dim` the assignment of a whole dimension (Model/Access.v). `laid_out f rh`: f is a string of bytes whose header
   parses to rh, uncompressed, all announced points present; `truncated f rh n`: cut after n < point_count whole records;
   `evlrs_adjacent rh`: the first EVLR starts right after the last point (every file laspy writes); `evlrs_after_points rh`:
   it starts there or later — bytes may lie in between (waveform packets, padding): a source that cannot seek reads and drops
   them (`skip_gap`, the loop of LasReader.read; the gap expression is translated from the source: gen_evlr_gap);
   `needs_evlrs rh`: a 1.4 header that announces EVLRs. *)
From Coq Require Import String.
From Coq Require Import ZArith List Bool.
From LasV Require Import Lib.Base Lib.Layout Gen.GenFormatBits Gen.GenAccess Model.Las Model.LasSpec Model.Access
  Proofs.AccessProofs Proofs.AccessSimProofs Proofs.AccessShortProofs.
Import ListNotations.
Open Scope list_scope.
Open Scope Z_scope.

(* whatever the capabilities of the source (path / bytes / BytesIO / buffered file = seekable with readinto; a stream
   whose seekable() answers False; a stream that offers only read(); a stream without readinto), whether EVLRs are loaded
   at opening or deferred to read(), however the reader is consumed before read() (not at all, chunk iterators,
   read_points): the same header, VLRs, EVLRs and records (or the same error). Files with zero points included. *)
Theorem C17_independent : forall f rh c c' e e' steps steps', laid_out f rh -> evlrs_after_points rh ->
  fst (read_via c e steps f) = fst (read_via c' e' steps' f).
Proof. exact access_path_independent_gap. Qed.
Print Assumptions C17_independent.

(* ... and that common result is what the file model's reader (the one of the round-trip property C01) reads. A source
   that can seek finds the EVLRs wherever the header says (also when the loading was deferred to read()); one that cannot
   finds them when they start at or after the end of the points: with a gap after the last point, the gap is read and dropped. *)
Theorem C17_reads_the_file : forall c e steps f rh, laid_out f rh -> (can_seek c = true \/ evlrs_after_points rh) ->
  fst (read_via c e steps f) = read_file f.
Proof. exact read_via_spec_gap. Qed.
Print Assumptions C17_reads_the_file.

(* adjacent EVLRs (what laspy writes) are the case without a gap *)
Theorem C17_adjacent_is_after_points : forall rh, evlrs_adjacent rh -> evlrs_after_points rh.
Proof. exact adjacent_after_points. Qed.
Print Assumptions C17_adjacent_is_after_points.

(* the gap is the expression found in the source; the skipping loop drops min(gap, what is left) bytes and nothing else, and
   never needs a third turn on a source that gives the bytes it is asked for (more fuel changes nothing) *)
Theorem C17_gap_expression : forall evstart offset count psize,
  gen_evlr_gap evstart offset count psize = evstart - (offset + count * psize).
Proof. exact gap_expression. Qed.
Print Assumptions C17_gap_expression.

Theorem C17_gap_skipped : forall k gap s, 0 <= st_pos s ->
  skip_gap (skip_fuel + k) gap s = skip_gap skip_fuel gap s
  /\ st_bytes (skip_gap skip_fuel gap s) = st_bytes s
  /\ avail (skip_gap skip_fuel gap s) = skipn (Z.to_nat gap) (avail s).
Proof. exact gap_skipped. Qed.
Print Assumptions C17_gap_skipped.

(* zero points: the header and the EVLRs come through every path, no record *)
Theorem C17_zero_points : forall f rh c e steps, laid_out f rh -> evlrs_adjacent rh -> h_count rh <= 0 ->
  fst (read_via c e steps f) = match evlrs_of f rh with Ok ev => Ok (mkLF (with_evlrs rh ev) []) | Err er => Err er end.
Proof. exact zero_points_read. Qed.
Print Assumptions C17_zero_points.

(* the header shown right after laspy.open (nothing read yet) is the file's through every source (opened_header): EVLRs
   loaded exactly when that was asked for and the source can seek — or there is none to load: then it is the empty list,
   never None, whatever the source —, left to read() (None) otherwise. Two sources that agree on whether they can seek (or
   any two, for a file without EVLRs) show the same header. *)
Theorem C17_open_stage : forall f rh c e, laid_out f rh -> fst (open_via c e f) = opened_header c e f rh.
Proof. exact open_stage. Qed.
Print Assumptions C17_open_stage.

Theorem C17_open_stage_independent : forall f rh c c' e, laid_out f rh ->
  (needs_evlrs rh = false \/ can_seek c = can_seek c') ->
  fst (open_via c e f) = fst (open_via c' e f).
Proof. exact open_stage_independent. Qed.
Print Assumptions C17_open_stage_independent.

(* a reader that is consumed WITHOUT read() — only inspected, iterated by chunks, read_points — still shows the header it
   showed when it was opened, and has handed out the first m records of the file, m depending on the steps only: the same
   for every source and every read_evlrs *)
Theorem C17_before_read : forall f rh steps, laid_out f rh ->
  exists m R, 0 <= m <= Z.max 0 (h_count rh)
    /\ read_file f = match evlrs_of f rh with Ok ev => Ok (mkLF (with_evlrs rh ev) R) | Err er => Err er end
    /\ forall c e, fst (consume_via c e steps f)
                   = match opened_header c e f rh with Ok rh1 => Ok (mkLF rh1 (firstn (Z.to_nat m) R)) | Err er => Err er end.
Proof. exact before_read. Qed.
Print Assumptions C17_before_read.

(* read_evlrs when the caller does not give it (laspy.open(source), laspy.read(source), LasReader(source)) is the constant
   found in the source, the same for every kind of source: EVLRs are loaded at opening *)
Theorem C17_default_arguments : default_read_evlrs = true
  /\ forall c steps f, read_via c default_read_evlrs steps f = read_via c true steps f
                    /\ consume_via c default_read_evlrs steps f = consume_via c true steps f.
Proof. split; [reflexivity|intros; split; reflexivity]. Qed.
Print Assumptions C17_default_arguments.

(* a source that offers read() and NOTHING else (no seekable, no readinto, no seek, no tell) reads the same header, VLRs,
   EVLRs and records as every other source, and read() is all that was ever called on it, also when the reader is not read
   to the end ... *)
Theorem C17_bare_source_reads_the_file : forall c e steps f rh, laid_out f rh -> evlrs_after_points rh ->
  c_has_seekable c = false -> c_readinto c = false ->
  fst (read_via c e steps f) = read_file f /\ only_reads (snd (read_via c e steps f)) = true
  /\ only_reads (snd (consume_via c e steps f)) = true.
Proof. exact bare_source_reads_the_file. Qed.
Print Assumptions C17_bare_source_reads_the_file.

(* ... and on EVERY byte string, well formed or not, it is used exactly like a source whose seekable() answers False:
   same outcome, same calls in the same order (those of the other source minus its seekable() queries) *)
Theorem C17_bare_source_like_nonseekable : forall c e steps src, c_has_seekable c = false -> c_readinto c = false ->
  let c' := mkCaps false false true in
  fst (read_via c e steps src) = fst (read_via c' e steps src)
  /\ snd (read_via c e steps src) = filter not_query (snd (read_via c' e steps src))
  /\ fst (consume_via c e steps src) = fst (consume_via c' e steps src)
  /\ snd (consume_via c e steps src) = filter not_query (snd (consume_via c' e steps src)).
Proof. exact bare_like_nonseekable. Qed.
Print Assumptions C17_bare_source_like_nonseekable.

(* more generally two sources that agree on whether they can seek are used in the same way on every byte string: same
   outcome, same calls up to the optional methods (norm: seekable() queries dropped, readinto(n bytes) = read(n)) *)
Theorem C17_same_use : forall c c', can_seek c = can_seek c' -> forall e steps src,
  fst (read_via c e steps src) = fst (read_via c' e steps src)
  /\ norm (snd (read_via c e steps src)) = norm (snd (read_via c' e steps src))
  /\ fst (consume_via c e steps src) = fst (consume_via c' e steps src)
  /\ norm (snd (consume_via c e steps src)) = norm (snd (consume_via c' e steps src)).
Proof. exact same_use. Qed.
Print Assumptions C17_same_use.

(* a source is only ever asked what it offers: read always, readinto / seekable when it has them, seek and tell only when
   it said it can seek — for every byte string, well formed or not, however the reader is consumed *)
Theorem C17_only_what_is_offered : forall c e steps src,
  only_offered c (snd (read_via c e steps src)) = true /\ only_offered c (snd (consume_via c e steps src)) = true.
Proof. intros; split; [apply only_what_is_offered|apply only_what_is_offered_consume]. Qed.
Print Assumptions C17_only_what_is_offered.

(* in particular a source that does not say it can seek is never asked to seek or tell *)
Theorem C17_no_seek : forall c e steps src, can_seek c = false ->
  no_seek_tell (snd (read_via c e steps src)) = true /\ no_seek_tell (snd (consume_via c e steps src)) = true.
Proof. exact no_seek_when_not_seekable. Qed.
Print Assumptions C17_no_seek.

(* a malformed but readable file — cut inside its point block after a whole number of records — reads the same through
   every source, however it is consumed: the header, the stored records, and the EVLRs found where the header says (a
   source that cannot seek looks at the end of the data: the same place when that position is not inside the file) *)
Theorem C17_truncated_point_block : forall c e steps f rh stored, truncated f rh stored ->
  (can_seek c = true \/ (h_minor rh >= 4 -> h_nev rh > 0 -> len f <= h_evstart rh)) ->
  fst (read_via c e steps f)
  = match evlrs_of f rh with Ok ev => Ok (mkLF (with_evlrs rh ev) (stored_recs f rh)) | Err er => Err er end
  /\ len (stored_recs f rh) = stored.
Proof. exact truncated_read. Qed.
Print Assumptions C17_truncated_point_block.

Theorem C17_truncated_independent : forall c c' e e' steps steps' f rh stored, truncated f rh stored ->
  (h_minor rh >= 4 -> h_nev rh > 0 -> len f <= h_evstart rh) ->
  fst (read_via c e steps f) = fst (read_via c' e' steps' f).
Proof. exact truncated_independent. Qed.
Print Assumptions C17_truncated_independent.

(* the memory map shows the same thing as the streams: header count records (trailing EVLR bytes are not records), EVLRs loaded *)
Theorem C17_mmap_same : forall f rh c e steps, laid_out f rh -> evlrs_adjacent rh -> read_mmap f = fst (read_via c e steps f).
Proof. exact mmap_same_as_streams. Qed.
Print Assumptions C17_mmap_same.

Theorem C17_mmap_same_with_gap : forall f rh c e steps, laid_out f rh -> evlrs_after_points rh ->
  (h_minor rh >= 4 -> h_nev rh > 0 -> h_evstart rh <= len f) -> read_mmap f = fst (read_via c e steps f).
Proof. exact mmap_same_as_streams_gap. Qed.
Print Assumptions C17_mmap_same_with_gap.

Theorem C17_mmap_reads_the_file : forall f rh, laid_out f rh ->
  (h_minor rh >= 4 -> h_nev rh > 0 -> h_evstart rh <= len f) -> read_mmap f = read_file f.
Proof. exact read_mmap_spec. Qed.
Print Assumptions C17_mmap_reads_the_file.

(* an assignment through the map of the bytes bs of a dimension at byte o of record i: the file keeps its length, changes
   nowhere outside [offset + i*size + o, + len bs), holds bs there, is still laid out (so every theorem above applies to
   it), and a subsequent read shows the same header/VLRs/EVLRs, the same records except record i, and record i with bs at o *)
Theorem C17_mmap_locality : forall f rh i o bs, laid_out f rh ->
  0 <= i < h_count rh -> 0 <= o -> o + len bs <= rh_psize rh -> bytes_ok bs = true ->
  (h_minor rh >= 4 -> h_nev rh > 0 -> rh_offset rh + h_count rh * rh_psize rh <= h_evstart rh) ->
  let p := rh_offset rh + i * rh_psize rh + o in
  let f' := mmap_set f (rh_offset rh) (rh_psize rh) i o bs in
  len f' = len f
  /\ (forall j, (j < Z.to_nat p \/ Z.to_nat (p + len bs) <= j)%nat -> nth j f' 0 = nth j f 0)
  /\ firstn (length bs) (skipn (Z.to_nat p) f') = bs
  /\ laid_out f' rh
  /\ (forall lf, read_file f = Ok lf ->
        exists lf', read_file f' = Ok lf' /\ lf_h lf' = lf_h lf
          /\ length (lf_points lf') = length (lf_points lf)
          /\ (forall k, k <> Z.to_nat i -> nth k (lf_points lf') [] = nth k (lf_points lf) [])
          /\ nth (Z.to_nat i) (lf_points lf') [] = write_at (nth (Z.to_nat i) (lf_points lf) []) o bs).
Proof. exact mmap_set_local. Qed.
Print Assumptions C17_mmap_locality.

(* the assignment of a WHOLE dimension through the map (las.<dim> = values, las[<dim>] = values, las.x = values,
   las.<dim>[:] = values: one value of w bytes per record): the file keeps its length, changes nowhere outside the bytes
   of that dimension, is still laid out, and a subsequent read shows the same header/VLRs/EVLRs and every record with its
   value stored — the edit reaches the file, not a private copy *)
Theorem C17_mmap_whole_dimension : forall f rh o w vals, laid_out f rh ->
  len vals = h_count rh -> 0 <= o -> o + w <= rh_psize rh ->
  Forall (fun bs => len bs = w /\ bytes_ok bs = true) vals ->
  (h_minor rh >= 4 -> h_nev rh > 0 -> rh_offset rh + h_count rh * rh_psize rh <= h_evstart rh) ->
  let f' := mmap_set_dim f (rh_offset rh) (rh_psize rh) o vals in
  len f' = len f /\ laid_out f' rh
  /\ (forall j, (forall t, 0 <= t < h_count rh ->
                   (j < Z.to_nat (rh_offset rh + t * rh_psize rh + o) \/ Z.to_nat (rh_offset rh + t * rh_psize rh + o + w) <= j)%nat) ->
                 nth j f' 0 = nth j f 0)
  /\ (forall lf, read_file f = Ok lf ->
        exists lf', read_file f' = Ok lf' /\ lf_h lf' = lf_h lf /\ length (lf_points lf') = length (lf_points lf)
          /\ (forall k, (length vals <= k)%nat -> nth k (lf_points lf') [] = nth k (lf_points lf) [])
          /\ (forall k, (k < length vals)%nat -> nth k (lf_points lf') [] = write_at (nth k (lf_points lf) []) o (nth k vals []))).
Proof. exact mmap_set_dim_local. Qed.
Print Assumptions C17_mmap_whole_dimension.

(* THE POINT FORMAT - the dimensions of the records, their names, types and sizes - is a function of the format id, the record
   size and the first Extra Bytes record (LASF_Spec / 4) among the VLRs (`format_of`, Model/Access.v): loading EVLRs, sooner or
   later, changes nothing of it - a record of that type stored as an EVLR (LAS 1.4 allows it) is an EVLR like any other ... *)
Theorem C17_point_format_ignores_evlrs : forall rh ev, format_of (with_evlrs rh ev) = format_of rh.
Proof. exact format_ignores_evlrs. Qed.
Print Assumptions C17_point_format_ignores_evlrs.

(* ... so that at every moment and through every access path the header shows the point format that the file's own header and
   VLRs give: right after laspy.open (EVLRs loaded, or left for read() because that was asked or because the source cannot
   seek), after the reader was consumed without read(), when everything is read, and through the memory map *)
Theorem C17_point_format_independent : forall f rh, laid_out f rh ->
  (forall c e rh1, fst (open_via c e f) = Ok rh1 -> format_of rh1 = format_of rh)
  /\ (forall c e steps lf, fst (consume_via c e steps f) = Ok lf -> format_of (lf_h lf) = format_of rh)
  /\ (forall c e steps lf, (can_seek c = true \/ evlrs_after_points rh) -> fst (read_via c e steps f) = Ok lf -> format_of (lf_h lf) = format_of rh)
  /\ (forall lf, (h_minor rh >= 4 -> h_nev rh > 0 -> h_evstart rh <= len f) -> read_mmap f = Ok lf -> format_of (lf_h lf) = format_of rh).
Proof. exact format_path_independent. Qed.
Print Assumptions C17_point_format_independent.

(* the hypotheses are those of every file the writer model produces (C01/C03: file_of), for every header, VLRs, records, EVLRs *)
Theorem C17_written_files_are_laid_out : forall ap h vl fmt recs evl f h',
  file_of ap h vl fmt recs evl = Ok f -> final_hdr ap h vl fmt recs evl = Ok h' ->
  wf_header h' vl = true -> forallb (wf_vlr true) evl = true ->
  recs_ok (aint h' "point_size") recs = true -> 0 < aint h' "point_size" ->
  (evl = [] \/ aint h "version.minor" >= 4) -> len evl <= MAX_VLRS ->
  is_point_format_compressed (aint h' "point_format_id") = false ->
  exists rh, laid_out f rh /\ evlrs_adjacent rh.
Proof. exact written_files_laid_out. Qed.
Print Assumptions C17_written_files_are_laid_out.

(* SHORT COUNTS. Every theorem above is about sources whose read(n) / readinto(n bytes) give the n bytes when they are
   there — what `s_read` / `s_readinto` say, and what the source as it is relies on: each read site makes ONE call (the
   shapes below). A raw stream, a socket, an unbuffered pipe may give fewer bytes in one call although more are left
   (`s_read_short cap n`: at most cap >= 1 bytes). A call that is not capped below what is asked IS the call of the model: *)
Theorem C17_full_count_call : forall cap n s, n <= cap \/ n < 0 ->
  s_read_short cap n s = s_read n s /\ (0 <= n -> s_readinto_short cap n s = s_readinto n s).
Proof. exact full_count_call. Qed.
Print Assumptions C17_full_count_call.

(* ... a capped call gives a proper prefix of it: cap bytes, fewer than the complete call gives — one call per read
   site is not enough on such a source (the failing-input search runs such sources and reports what the library does) *)
Theorem C17_short_count_call_is_a_prefix : forall cap n s, 0 <= st_pos s -> 1 <= cap < n -> cap < len (avail s) ->
  fst (s_read_short cap n s) = firstn (Z.to_nat cap) (fst (s_read n s))
  /\ len (fst (s_read_short cap n s)) = cap /\ cap < len (fst (s_read n s))
  /\ fst (s_readinto_short cap n s) = fst (s_read_short cap n s).
Proof. exact short_call_is_a_prefix. Qed.
Print Assumptions C17_short_count_call_is_a_prefix.

(* ... and asking again for what is missing until the n bytes are there or a call gives nothing (`read_exact`), whatever
   the successive calls are able to give (caps: any list, values below 1 count as 1), gives exactly what the ONE call of
   the model gives: the same bytes, the same position, through read or readinto calls only (no seek, no tell, nothing else).
   FULL STATEMENT (not proved): for every schedule of caps, the reader obtained from `read_via` by replacing every s_read /
   s_readinto by read_exact returns fst (read_via c e steps src) — hence, by the theorems above, the same through every
   source, short counts or not. Proved here: the replacement is sound at each read site (same bytes, same position, same
   byte string behind, calls of the two allowed kinds only); missing: the induction over the read sites of read_via, which
   needs a second copy of the model (the source as it is has no such loop to follow). *)
Theorem C17_short_counts_partial : forall into caps n s, 0 <= n -> 0 <= st_pos s ->
  let r := read_exact into caps n s in
  fst r = fst (s_read n s) /\ st_pos (snd r) = st_pos (snd (s_read n s)) /\ st_bytes (snd r) = st_bytes s
  /\ avail (snd r) = avail (snd (s_read n s))
  /\ exists ext, st_log (snd r) = st_log s ++ ext /\ forallb is_read_call ext = true /\ no_seek_tell ext = true
       /\ (into = false -> only_reads ext = true).
Proof. exact exact_read_ignores_short_counts. Qed.
Print Assumptions C17_short_counts_partial.

(* the shapes of the source the hand-written model follows, as found by the translator in the current source:
   two reads in _prefetch_header_data, the signature, six reads per EVLR, the three-way source normalisation of open_las,
   the default of read_evlrs, and the statement shapes of LasHeader.read_evlrs / read_from (the capability asked through
   getattr with a default), LasReader.read / read_points (the source reached through read_n_points only), the point
   readers, LasMMAP.__init__ and PackedPointRecord.__setitem__ (in place; the array replaced only when it has to grow); and where
   the point format is decided: LasHeader.read_from stores it, built from the format id, the point size and the Extra Bytes record
   of the VLRs, before `if read_evlrs:`, which is followed by `return header` only, and the code that loads EVLRs afterwards
   (LasHeader.read_evlrs, LasReader.read / read_evlrs, LasMMAP.__init__) stores nothing but the EVLR list and calls nothing new;
   and a LasReader touches the VLR list of the header only under `if self.header.are_points_compressed and ..` (the laszip record of
   a compressed file is hidden): the VLRs of an uncompressed file - the only files the model reads - are those read_from read,
   whether the file has points or not *)
Theorem C17_source_shapes :
  prefetch_reads = 2 /\ file_signature = LASF /\ vlr_reads_per_record = len (evlr_head ++ evlr_tail) + 1
  /\ map fst source_normalisation = ["path"; "bytes"; "other"]%string /\ open_read_evlrs_default = true
  /\ gen_hdr_read_evlrs_shape = true /\ gen_read_from_shape = true /\ gen_reader_read_shape = true
  /\ gen_read_points_shape = true /\ gen_point_readers_shape = true /\ gen_mmap_shape = true /\ gen_record_assign_shape = true
  /\ gen_format_from_vlrs_only = true /\ gen_reader_keeps_vlrs_uncompressed = true.
Proof. repeat split. Qed.
Print Assumptions C17_source_shapes.

(* a file written by laspy (1.4, format 6, two points, one EVLR), read through a stream whose seekable() answers False in
   chunks of one point with deferred EVLRs: same result as the reader of the file model, two records, one EVLR, and exactly
   these calls; through a stream that offers only read(): the same result and the same calls without the query; what a
   seekable source is asked; what laspy.open alone shows through a non-seekable and a seekable source; a reader that is
   only iterated (read_points(1) then a chunk iterator) has handed out both records and still shows no EVLRs; the file cut
   after its first record reads one record through a bare source; a whole-dimension assignment through the map; the same
   file with a gap of five bytes before its EVLR through a source that cannot seek; the same file whose EVLR is an Extra Bytes
   record; a short-count call and the ask-again loop *)
Example C17_nonvacuous :
  laid_out sample_file sample_header /\ evlrs_adjacent sample_header
  /\ fst (read_via (mkCaps false false true) false [SChunks 1] sample_file) = read_file sample_file
  /\ (match read_file sample_file with
      | Ok lf => (length (lf_points lf) = 2%nat /\ option_map (@length vlr) (rh_evlrs (lf_h lf)) = Some 1%nat)
      | Err _ => False end)
  /\ snd (read_via (mkCaps false false true) false [SChunks 1] sample_file)
     = [ORead 227; ORead 148; ORead 30; ORead 30; OSeekable; ORead 2; ORead 16; ORead 2; ORead 8; ORead 32; ORead 3]
  /\ read_via (mkCaps false false false) false [SChunks 1] sample_file
     = (read_file sample_file, [ORead 227; ORead 148; ORead 30; ORead 30; ORead 2; ORead 16; ORead 2; ORead 8; ORead 32; ORead 3])
  /\ snd (read_via (mkCaps true true true) true [] sample_file)
     = [ORead 227; ORead 148; OSeekable; OTell; OSeek 435; ORead 2; ORead 16; ORead 2; ORead 8; ORead 32; ORead 3; OSeek 375; OReadInto 60]
  /\ open_via (mkCaps false false true) true sample_file = (Ok sample_header, [ORead 227; ORead 148; OSeekable])
  /\ open_via (mkCaps false false false) true sample_file = (Ok sample_header, [ORead 227; ORead 148])
  /\ option_map (@length vlr) (match fst (open_via (mkCaps true true true) true sample_file) with Ok rh => rh_evlrs rh | Err _ => None end) = Some 1%nat
  /\ (match fst (consume_via (mkCaps false true false) default_read_evlrs [SPoints 1; SChunks 5] sample_file) with
      | Ok lf => length (lf_points lf) = 2%nat /\ rh_evlrs (lf_h lf) = None | Err _ => False end)
  /\ truncated (firstn 405 sample_file) sample_header 1
  /\ (match fst (read_via (mkCaps false false false) true [SChunks 2] (firstn 405 sample_file)) with
      | Ok lf => length (lf_points lf) = 1%nat | Err _ => False end)
  /\ (match read_file (mmap_set_dim sample_file 375 30 12 [[1; 2]; [3; 4]]) with
      | Ok lf => map (fun r => firstn 2 (skipn 12 r)) (lf_points lf) = [[1; 2]; [3; 4]] | Err _ => False end)
  /\ (let g := write_at (firstn 435 sample_file ++ [9; 9; 9; 9; 9] ++ skipn 435 sample_file) 235 [184; 1; 0; 0; 0; 0; 0; 0] in
      (* the same file with five bytes between the last point and the EVLR: a source that cannot seek reads and drops them *)
      read_via (mkCaps false false true) false [] g
      = (read_file g, [ORead 227; ORead 148; ORead 60; OSeekable; ORead 5; ORead 2; ORead 16; ORead 2; ORead 8; ORead 32; ORead 3])
      /\ (match read_file g with Ok lf => option_map (@length vlr) (rh_evlrs (lf_h lf)) = Some 1%nat | Err _ => False end))
  /\ (let g := firstn 435 sample_file ++ [0; 0] ++ LASF_SPEC ++ repeat 0 7%nat ++ [4; 0] ++ [192; 0; 0; 0; 0; 0; 0; 0] ++ repeat 0 32%nat ++ repeat 0 192%nat in
      (* the same file whose EVLR is an Extra Bytes record: a source that can seek shows it among the EVLRs when the file is opened, a
         bare source shows no EVLRs yet; both show the point format of the header and the VLRs (format 6, 30 bytes, no descriptor) *)
      match fst (open_via (mkCaps true true true) true g), fst (open_via (mkCaps false false false) true g) with
      | Ok a, Ok b => option_map (map is_extra_bytes_record) (rh_evlrs a) = Some [true] /\ rh_evlrs b = None
                      /\ format_of a = (6, 30, None) /\ format_of b = format_of a
      | _, _ => False
      end)
  /\ len (fst (s_readinto_short 7 60 (mkSt sample_file 375 []))) = 7
  /\ read_exact true [7; 1; 40] 60 (mkSt sample_file 375 [])
     = (fst (s_readinto 60 (mkSt sample_file 375 [])), mkSt sample_file 435 [OReadInto 60; OReadInto 53; OReadInto 52; OReadInto 12]).
Proof.
  split; [exact (proj1 sample_laid_out)|]. split; [exact (proj2 sample_laid_out)|].
  vm_compute. repeat split; intro; discriminate.
Qed.
