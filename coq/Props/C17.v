(* C17 — the access path does not change what is read.
   A source is a byte string behind a stream interface with three capabilities (seekable() answers true, it has readinto,
   it has a seekable method at all — a stream that offers ONLY read() has not); `read_via c e k f`
   is laspy.open(source, read_evlrs = e) followed by read() (k = None) or by a chunk iterator of k points and then read()
   (k = Some k); it returns the result (header fields, VLRs, EVLRs, records — or the error) and the list of the methods
   called on the source. `read_mmap` is laspy.mmap, `mmap_set` an assignment through the mapped record array
   (Model/Access.v). `laid_out f rh`: f is a string of bytes whose header parses to rh, uncompressed, all announced points
   present; `evlrs_adjacent rh`: the first EVLR starts right after the last point; `needs_evlrs rh`: a 1.4 header that
   announces EVLRs; `can_answer c rh`: the source has a seekable method, or the file has no EVLR to fetch (the library then
   never asks); `open_via c e f` is laspy.open alone: the header shown before anything is read. *)
From Coq Require Import String.
From Coq Require Import ZArith List Bool.
From LasV Require Import Lib.Base Lib.Layout Gen.GenFormatBits Gen.GenAccess Model.Las Model.LasSpec Model.Access Proofs.AccessProofs.
Import ListNotations.
Open Scope list_scope.
Open Scope Z_scope.

(* whatever the capabilities of the source (path / bytes / BytesIO / buffered file = seekable with readinto; a stream
   that offers only read(); a stream without readinto), whether EVLRs are loaded at opening or deferred to read(), whole
   or chunked reading: the same header, VLRs, EVLRs and records (or the same error). Files with zero points included. *)
Theorem C17_independent : forall f rh c c' e e' k k', laid_out f rh -> evlrs_adjacent rh ->
  can_answer c rh -> can_answer c' rh ->
  fst (read_via c e k f) = fst (read_via c' e' k' f).
Proof. exact access_path_independent. Qed.
Print Assumptions C17_independent.

(* ... and that common result is what the file model's reader (the one of the round-trip property C01) reads. A source
   that can seek does not need the EVLRs to be adjacent: with a gap after the last point the seek-based path is used,
   also when the loading was deferred to read(). *)
Theorem C17_reads_the_file : forall c e k f rh, laid_out f rh -> (c_seekable c = true \/ evlrs_adjacent rh) -> can_answer c rh ->
  fst (read_via c e k f) = read_file f.
Proof. exact read_via_spec. Qed.
Print Assumptions C17_reads_the_file.

(* zero points: the header and the EVLRs come through every path, no record *)
Theorem C17_zero_points : forall f rh c e k, laid_out f rh -> evlrs_adjacent rh -> can_answer c rh -> h_count rh <= 0 ->
  fst (read_via c e k f) = match evlrs_of f rh with Ok ev => Ok (mkLF (with_evlrs rh ev) []) | Err er => Err er end.
Proof. exact zero_points_read. Qed.
Print Assumptions C17_zero_points.

(* the header shown right after laspy.open (nothing read yet) is the file's through every source: EVLRs loaded exactly when
   that was asked for and the source can seek — or there is none to load: then it is the empty list, never None, whatever
   the source —, left to read() (None) otherwise. Two sources that agree on seekable() (or any two, for a file without
   EVLRs) show the same header. *)
Theorem C17_open_stage : forall f rh c e, laid_out f rh -> can_answer c rh ->
  fst (open_via c e f) = if loads_at_open c e rh
                         then match evlrs_of f rh with Ok ev => Ok (with_evlrs rh ev) | Err er => Err er end
                         else Ok rh.
Proof. exact open_stage. Qed.
Print Assumptions C17_open_stage.

Theorem C17_open_stage_independent : forall f rh c c' e, laid_out f rh -> can_answer c rh -> can_answer c' rh ->
  (needs_evlrs rh = false \/ c_seekable c = c_seekable c') ->
  fst (open_via c e f) = fst (open_via c' e f).
Proof. exact open_stage_independent. Qed.
Print Assumptions C17_open_stage_independent.

(* the one case can_answer excludes, as the code is: a source without a seekable method and a file with EVLRs — the
   library has to ask, at opening or in read(), and the AttributeError (EOther) is the outcome by every route *)
Theorem C17_bare_source_needs_seekable : forall c e chunk f rh, laid_out f rh -> c_has_seekable c = false -> needs_evlrs rh = true ->
  fst (read_via c e chunk f) = Err EOther.
Proof. exact bare_source_needs_seekable. Qed.
Print Assumptions C17_bare_source_needs_seekable.

(* a source that says it cannot seek (or cannot even say) is never asked to seek or tell — for every byte string, well formed or not *)
Theorem C17_no_seek : forall c e chunk src, c_seekable c = false \/ c_has_seekable c = false ->
  no_seek_tell (snd (read_via c e chunk src)) = true.
Proof. exact no_seek_when_not_seekable. Qed.
Print Assumptions C17_no_seek.

(* the memory map shows the same thing as the streams: header count records (trailing EVLR bytes are not records), EVLRs loaded *)
Theorem C17_mmap_same : forall f rh c e k, laid_out f rh -> evlrs_adjacent rh -> can_answer c rh -> read_mmap f = fst (read_via c e k f).
Proof. exact mmap_same_as_streams. Qed.
Print Assumptions C17_mmap_same.

Theorem C17_mmap_reads_the_file : forall f rh, laid_out f rh ->
  (h_minor rh >= 4 -> h_nev rh > 0 -> h_evstart rh <= len f) -> read_mmap f = read_file f.
Proof. exact read_mmap_spec. Qed.
Print Assumptions C17_mmap_reads_the_file.

(* an assignment through the map of the bytes bs of a dimension at byte o of record i: the file keeps its length, changes
   nowhere outside [offset + i*size + o, + len bs), holds bs there, is still laid out (so every theorem above applies to
   it), and a subsequent read shows the same header/VLRs/EVLRs, the same records except record i, and record i with bs at o *)
Theorem C17_mmap_locality : forall f rh i o bs, laid_out f rh ->
  0 <= i < h_count rh -> 0 <= o -> o + len bs <= rh_psize rh -> bytes_ok bs = true ->
  (h_minor rh >= 4 -> h_nev rh > 0 -> rh_offset rh + h_count rh * rh_psize rh <= h_evstart rh) ->
  let p := rh_offset rh + i * rh_psize rh + o in
  let f' := mmap_set f (rh_offset rh) (rh_psize rh) i o bs in
  len f' = len f
  /\ (forall j, (j < Z.to_nat p \/ Z.to_nat (p + len bs) <= j)%nat -> nth j f' 0 = nth j f 0)
  /\ firstn (length bs) (skipn (Z.to_nat p) f') = bs
  /\ laid_out f' rh
  /\ (forall lf, read_file f = Ok lf ->
        exists lf', read_file f' = Ok lf' /\ lf_h lf' = lf_h lf
          /\ length (lf_points lf') = length (lf_points lf)
          /\ (forall k, k <> Z.to_nat i -> nth k (lf_points lf') [] = nth k (lf_points lf) [])
          /\ nth (Z.to_nat i) (lf_points lf') [] = write_at (nth (Z.to_nat i) (lf_points lf) []) o bs).
Proof. exact mmap_set_local. Qed.
Print Assumptions C17_mmap_locality.

(* the hypotheses are those of every file the writer model produces (C01/C03: file_of), for every header, VLRs, records, EVLRs *)
Theorem C17_written_files_are_laid_out : forall ap h vl fmt recs evl f h',
  file_of ap h vl fmt recs evl = Ok f -> final_hdr ap h vl fmt recs evl = Ok h' ->
  wf_header h' vl = true -> forallb (wf_vlr true) evl = true ->
  recs_ok (aint h' "point_size") recs = true -> 0 < aint h' "point_size" ->
  (evl = [] \/ aint h "version.minor" >= 4) -> len evl <= MAX_VLRS ->
  is_point_format_compressed (aint h' "point_format_id") = false ->
  exists rh, laid_out f rh /\ evlrs_adjacent rh.
Proof. exact written_files_laid_out. Qed.
Print Assumptions C17_written_files_are_laid_out.

(* the shapes of the source the hand-written model follows, as found by the translator in the current source:
   two reads in _prefetch_header_data, the signature, six reads per EVLR, the three-way source normalisation of open_las,
   and the statement shapes of LasHeader.read_evlrs / read_from, LasReader.read, the point readers and LasMMAP.__init__ *)
Theorem C17_source_shapes :
  prefetch_reads = 2 /\ file_signature = LASF /\ vlr_reads_per_record = len (evlr_head ++ evlr_tail) + 1
  /\ map fst source_normalisation = ["path"; "bytes"; "other"]%string
  /\ gen_hdr_read_evlrs_shape = true /\ gen_read_from_shape = true /\ gen_reader_read_shape = true
  /\ gen_point_readers_shape = true /\ gen_mmap_shape = true.
Proof. repeat split. Qed.
Print Assumptions C17_source_shapes.

(* a file written by laspy (1.4, format 6, two points, one EVLR), read through a read-only stream in chunks of one point
   with deferred EVLRs: same result as the reader of the file model, two records, one EVLR, and exactly these calls; what
   laspy.open alone shows through a non-seekable and a seekable source; a source without seekable() fails after the points *)
Example C17_nonvacuous :
  laid_out sample_file sample_header /\ evlrs_adjacent sample_header
  /\ fst (read_via (mkCaps false false true) false (Some 1) sample_file) = read_file sample_file
  /\ (match read_file sample_file with
      | Ok lf => (length (lf_points lf) = 2%nat /\ option_map (@length vlr) (rh_evlrs (lf_h lf)) = Some 1%nat)
      | Err _ => False end)
  /\ snd (read_via (mkCaps false false true) false (Some 1) sample_file)
     = [ORead 227; ORead 148; ORead 30; ORead 30; OSeekable; ORead 2; ORead 16; ORead 2; ORead 8; ORead 32; ORead 3]
  /\ snd (read_via (mkCaps true true true) true None sample_file)
     = [ORead 227; ORead 148; OSeekable; OTell; OSeek 435; ORead 2; ORead 16; ORead 2; ORead 8; ORead 32; ORead 3; OSeek 375; OReadInto 60]
  /\ open_via (mkCaps false false true) true sample_file = (Ok sample_header, [ORead 227; ORead 148; OSeekable; OSeekable])
  /\ option_map (@length vlr) (match fst (open_via (mkCaps true true true) true sample_file) with Ok rh => rh_evlrs rh | Err _ => None end) = Some 1%nat
  /\ read_via (mkCaps false false false) false (Some 1) sample_file = (Err EOther, [ORead 227; ORead 148; ORead 30; ORead 30]).
Proof.
  split; [exact (proj1 sample_laid_out)|]. split; [exact (proj2 sample_laid_out)|].
  vm_compute. repeat split.
Qed.
