(* C03 — header statistics always describe the points actually stored. *)
From Coq Require Import String.
From Coq Require Import ZArith List Bool.
From LasV Require Import Lib.Base Lib.Layout Gen.GenHeaderLayout Gen.GenFormatBits Gen.GenDims Model.Las Model.LasSpec
  Proofs.HeaderLen Proofs.VlrProofs Proofs.HeaderProofs Proofs.WriterProofs Proofs.RoundTripProofs.
Import ListNotations.
Open Scope list_scope.
Open Scope Z_scope.

(* the header of any file the writer produces (one-shot or chunked: C04_chunk_equiv) carries stats_of the whole sequence *)
Theorem C03_count : forall ap fmt h recs, s_count (stats_of ap fmt h recs) = len recs.
Proof. exact stats_of_count. Qed.
Print Assumptions C03_count.

(* per-return histogram: bin i counts the records whose return number is i+1 (return number 0 is in no bin);
   15 bins are kept, the header layout of versions below 1.4 writes the first 5 (C02/C07 layouts) *)
Theorem C03_returns : forall ap fmt h recs i, (i < 15)%nat ->
  nth i (s_ret (stats_of ap fmt h recs)) 0 = count_ret fmt recs (Z.of_nat i + 1).
Proof. exact stats_of_returns. Qed.
Print Assumptions C03_returns.

(* extrema: the scaled image of the exact integer maximum / minimum of each axis, which are attained *)
Theorem C03_extrema : forall ap, ap_ok ap -> (forall s o x, 0 <= ap s o x) -> forall fmt h r0 recs i, (i < 3)%nat ->
  let s := aint h (axis_name "scales" i) in let o := aint h (axis_name "offsets" i) in
  let xs := map (rec_coord i) (r0 :: recs) in
  nth i (s_max (stats_of ap fmt h (r0 :: recs))) 0 = ap s o (zmax_list (rec_coord i r0) xs)
  /\ nth i (s_min (stats_of ap fmt h (r0 :: recs))) 0 = ap s o (zmin_list (rec_coord i r0) xs)
  /\ (forall x, In x xs -> x <= zmax_list (rec_coord i r0) xs) /\ In (zmax_list (rec_coord i r0) xs) xs
  /\ (forall x, In x xs -> zmin_list (rec_coord i r0) xs <= x) /\ In (zmin_list (rec_coord i r0) xs) xs.
Proof. exact stats_of_extrema_partial. Qed.
Print Assumptions C03_extrema.

(* an empty cloud has zero extrema, zero counts *)
Theorem C03_empty : forall ap fmt h, stats_of ap fmt h [] = mkS 0 [0;0;0] [0;0;0] (repeat 0 15) 0 0.
Proof. exact stats_of_empty. Qed.
Print Assumptions C03_empty.

(* statistics accumulate over chunk boundaries exactly (the step behind chunked writes and appends) *)
Theorem C03_grow_app : forall ap, ap_ok ap -> forall fmt h st a b,
  a <> [] -> b <> [] -> length (s_max st) = 3%nat -> length (s_min st) = 3%nat ->
  grow ap fmt h (grow ap fmt h st a) b = grow ap fmt h st (a ++ b).
Proof. exact grow_app. Qed.
Print Assumptions C03_grow_app.

(* layout pointers: file length = offset + count x record length + EVLR bytes; EVLR pointer and count exact *)
Theorem C03_file_length : forall ap h vl fmt recs evl f h' eb,
  file_of ap h vl fmt recs evl = Ok f -> final_hdr ap h vl fmt recs evl = Ok h' -> enc_vlrs true evl = Ok eb ->
  recs_ok (aint h' "point_size") recs = true ->
  len f = aint h' "offset_to_point_data" + len recs * aint h' "point_size" + len eb
  /\ (evl <> [] -> aint h' "start_of_first_evlr" = aint h' "offset_to_point_data" + len recs * aint h' "point_size"
                   /\ aint h' "number_of_evlrs" = len evl)
  /\ aint h' "point_count" = len recs.
Proof. exact file_length. Qed.
Print Assumptions C03_file_length.

(* offset identity *)
Theorem C03_offset_identity : forall h vl es h' bs, enc_header h vl es = Ok (h', bs) ->
  exists vb hs0, enc_vlrs false vl = Ok vb
    /\ header_size_tbl (aint h "version.major") (aint h "version.minor") = Some hs0
    /\ aint h' "header_size" = hs0 + len (abytes h "extra_header_bytes")
    /\ aint h' "offset_to_point_data" = aint h' "header_size" + len vb + len (abytes h "extra_vlr_bytes").
Proof. exact enc_header_offset. Qed.
Print Assumptions C03_offset_identity.

(* and these statistics are what a reader gets back *)
Theorem C03_read_back : forall ap h vl fmt recs evl f h',
  file_of ap h vl fmt recs evl = Ok f -> final_hdr ap h vl fmt recs evl = Ok h' ->
  wf_header h' vl = true -> forallb (wf_vlr true) evl = true ->
  recs_ok (aint h' "point_size") recs = true -> 0 < aint h' "point_size" ->
  (evl = [] \/ aint h "version.minor" >= 4) -> len evl <= MAX_VLRS ->
  exists lf, read_file f = Ok lf
    /\ lf_points lf = recs
    /\ rh_vlrs (lf_h lf) = vl
    /\ rh_evlrs (lf_h lf) = (if aint h' "version.minor" >=? 4 then Some evl else None)
    /\ aint (rh_fields (lf_h lf)) "point_count" = len recs
    /\ rh_psize (lf_h lf) = aint h' "point_size"
    /\ rh_offset (lf_h lf) = aint h' "offset_to_point_data"
    /\ (forall n, In n (header_field_names (aint h' "version.minor")) -> aget (rh_fields (lf_h lf)) n = Some (wval h' n)).
Proof. exact read_write_roundtrip. Qed.
Print Assumptions C03_read_back.

Example C03_nonvacuous :
  let st := stats_of (fun s o x => if x <? 0 then 0 else x) 0 [] [le_enc 4 7 ++ repeat 0 10 ++ [2]; le_enc 4 3 ++ repeat 0 10 ++ [0]; le_enc 4 9 ++ repeat 0 10 ++ [0x0A]] in
  (s_count st, nth 0 (s_max st) 0, nth 0 (s_min st) 0, firstn 3 (s_ret st)) = (3, 9, 3, [0; 2; 0]).
Proof. vm_compute. reflexivity. Qed.
