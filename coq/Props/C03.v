(* C03 — header statistics always describe the points actually stored. *)
From Coq Require Import String.
From Coq Require Import ZArith List Bool.
From LasV Require Import Lib.Base Lib.Layout Gen.GenHeaderLayout Gen.GenFormatBits Gen.GenDims Model.Las Model.LasSpec
  Model.LasMulti Proofs.HeaderLen Proofs.VlrProofs Proofs.HeaderProofs Proofs.WriterProofs Proofs.RoundTripProofs Proofs.MultiProofs.
Import ListNotations.
Open Scope list_scope.
Open Scope Z_scope.

(* the header of any file the writer produces (one-shot or chunked: C04_chunk_equiv) carries stats_of the whole sequence *)
Theorem C03_count : forall ap fmt h recs, s_count (stats_of ap fmt h recs) = len recs.
Proof. exact stats_of_count. Qed.
Print Assumptions C03_count.

(* per-return histogram: bin i counts the records whose return number is i+1 (return number 0 is in no bin);
   15 bins are kept, the header layout of versions below 1.4 writes the first 5 (C02/C07 layouts) *)
Theorem C03_returns : forall ap fmt h recs i, (i < 15)%nat ->
  nth i (s_ret (stats_of ap fmt h recs)) 0 = count_ret fmt recs (Z.of_nat i + 1).
Proof. exact stats_of_returns. Qed.
Print Assumptions C03_returns.

(* extrema: the scaled image of the exact integer maximum / minimum of each axis, which are attained *)
Theorem C03_extrema : forall ap, ap_ok ap -> (forall s o x, 0 <= ap s o x) -> forall fmt h r0 recs i, (i < 3)%nat ->
  let s := aint h (axis_name "scales" i) in let o := aint h (axis_name "offsets" i) in
  let xs := map (rec_coord i) (r0 :: recs) in
  nth i (s_max (stats_of ap fmt h (r0 :: recs))) 0 = ap s o (zmax_list (rec_coord i r0) xs)
  /\ nth i (s_min (stats_of ap fmt h (r0 :: recs))) 0 = ap s o (zmin_list (rec_coord i r0) xs)
  /\ (forall x, In x xs -> x <= zmax_list (rec_coord i r0) xs) /\ In (zmax_list (rec_coord i r0) xs) xs
  /\ (forall x, In x xs -> zmin_list (rec_coord i r0) xs <= x) /\ In (zmin_list (rec_coord i r0) xs) xs.
Proof. exact stats_of_extrema_partial. Qed.
Print Assumptions C03_extrema.

(* an empty cloud has zero extrema, zero counts *)
Theorem C03_empty : forall ap fmt h, stats_of ap fmt h [] = mkS 0 [0;0;0] [0;0;0] (repeat 0 15) 0 0.
Proof. exact stats_of_empty. Qed.
Print Assumptions C03_empty.

(* statistics accumulate over chunk boundaries exactly (the step behind chunked writes and appends) *)
Theorem C03_grow_app : forall ap, ap_ok ap -> forall fmt h st a b,
  a <> [] -> b <> [] -> length (s_max st) = 3%nat -> length (s_min st) = 3%nat ->
  grow ap fmt h (grow ap fmt h st a) b = grow ap fmt h st (a ++ b).
Proof. exact grow_app. Qed.
Print Assumptions C03_grow_app.

(* layout pointers: file length = offset + count x record length + EVLR bytes; EVLR pointer and count exact *)
Theorem C03_file_length : forall ap h vl fmt recs evl f h' eb,
  file_of ap h vl fmt recs evl = Ok f -> final_hdr ap h vl fmt recs evl = Ok h' -> enc_vlrs true evl = Ok eb ->
  recs_ok (aint h' "point_size") recs = true ->
  len f = aint h' "offset_to_point_data" + len recs * aint h' "point_size" + len eb
  /\ (evl <> [] -> aint h' "start_of_first_evlr" = aint h' "offset_to_point_data" + len recs * aint h' "point_size"
                   /\ aint h' "number_of_evlrs" = len evl)
  /\ aint h' "point_count" = len recs.
Proof. exact file_length. Qed.
Print Assumptions C03_file_length.

(* offset identity *)
Theorem C03_offset_identity : forall h vl es h' bs, enc_header h vl es = Ok (h', bs) ->
  exists vb hs0, enc_vlrs false vl = Ok vb
    /\ header_size_tbl (aint h "version.major") (aint h "version.minor") = Some hs0
    /\ aint h' "header_size" = hs0 + len (abytes h "extra_header_bytes")
    /\ aint h' "offset_to_point_data" = aint h' "header_size" + len vb + len (abytes h "extra_vlr_bytes").
Proof. exact enc_header_offset. Qed.
Print Assumptions C03_offset_identity.

(* and these statistics are what a reader gets back *)
Theorem C03_read_back : forall ap h vl fmt recs evl f h',
  file_of ap h vl fmt recs evl = Ok f -> final_hdr ap h vl fmt recs evl = Ok h' ->
  wf_header h' vl = true -> forallb (wf_vlr true) evl = true ->
  recs_ok (aint h' "point_size") recs = true -> 0 < aint h' "point_size" ->
  (evl = [] \/ aint h "version.minor" >= 4) -> len evl <= MAX_VLRS ->
  exists lf, read_file f = Ok lf
    /\ lf_points lf = recs
    /\ rh_vlrs (lf_h lf) = vl
    /\ rh_evlrs (lf_h lf) = (if aint h' "version.minor" >=? 4 then Some evl else None)
    /\ aint (rh_fields (lf_h lf)) "point_count" = len recs
    /\ rh_psize (lf_h lf) = aint h' "point_size"
    /\ rh_offset (lf_h lf) = aint h' "offset_to_point_data"
    /\ (forall n, In n (header_field_names (aint h' "version.minor")) -> aget (rh_fields (lf_h lf)) n = Some (wval h' n)).
Proof. exact read_write_roundtrip. Qed.
Print Assumptions C03_read_back.

(* several writers alive at the same time (the tiling pattern: one header object handed to all of them): whatever the interleaving of
   their operations, each writer ends in the state its OWN operations lead to when run alone *)
Theorem C03_interleave : forall ap ops sys i s,
  nth_error sys i = Some s ->
  nth_error (mrun ap sys ops) i = Some (fst (wrun ap s (proj i ops))).
Proof. exact interleave_independent. Qed.
Print Assumptions C03_interleave.

(* hence each file of the ensemble is the one-shot file of its own points: its header carries stats_of exactly these points
   (C03_count, C03_returns, C03_extrema, C03_file_length speak about file_of / stats_of) *)
Theorem C03_ensemble : forall ap, ap_ok ap -> forall sys ops i h vl fmt chunks evl s0 s outs,
  wopen h vl fmt = Ok s0 -> nth_error sys i = Some s0 ->
  proj i ops = chunk_ops chunks evl ->
  wrun ap s0 (chunk_ops chunks evl) = (s, outs) -> all_ok outs ->
  exists s', nth_error (mrun ap sys ops) i = Some s' /\ file_of ap h vl fmt (concat chunks) evl = Ok (w_file s').
Proof. exact ensemble_file. Qed.
Print Assumptions C03_ensemble.

(* non-vacuity of the ensemble statement: two writers from one header, operations interleaved; return numbers 6 and 7 of a legacy
   format land in bins 6 and 7 of a 15-bin histogram *)
Example C03_ensemble_example :
  let h : assoc := [("version.major", VInt 1); ("version.minor", VInt 2); ("uuid", VBytes (repeat 0 16));
                    ("system_identifier", VBytes [79; 84]); ("generating_software", VBytes []);
                    ("point_format_id", VInt 0); ("point_size", VInt 20); ("scales[0]", VInt 4607182418800017408)]%string in
  let apx := (fun s o x : Z => if x <? 0 then 0 else x) in
  let r (x b : Z) := le_enc 4 x ++ repeat 0 10 ++ [b] ++ repeat 0 5 in
  match wopen h [] 0 with
  | Ok s0 =>
      let sys := mrun apx [s0; s0] [(0%nat, WPoints [r 5 6] true); (1%nat, WPoints [r 9 7; r 2 7] true); (0%nat, WPoints [r 1 1] true);
                                   (1%nat, WClose); (0%nat, WClose)] in
      map (fun s => (s_count (w_st s), firstn 7 (s_ret (w_st s)))) sys
  | Err _ => []
  end = [(2, [1; 0; 0; 0; 0; 1; 0]); (2, [0; 0; 0; 0; 0; 0; 2])].
Proof. vm_compute. reflexivity. Qed.

Example C03_nonvacuous :
  let st := stats_of (fun s o x => if x <? 0 then 0 else x) 0 [] [le_enc 4 7 ++ repeat 0 10 ++ [2]; le_enc 4 3 ++ repeat 0 10 ++ [0]; le_enc 4 9 ++ repeat 0 10 ++ [0x0A]] in
  (s_count st, nth 0 (s_max st) 0, nth 0 (s_min st) 0, firstn 3 (s_ret st)) = (3, 9, 3, [0; 2; 0]).
Proof. vm_compute. reflexivity. Qed.

(* ------------------------------------------------------------------------------------------------------------------ *)
(* The binary64 formula INSIDE the model (task AP): ap := ap64 = bits (fl (fl X * scale) + offset), Model/F64Bits.v,       *)
(* no ap_ok / non-negativity hypothesis; the domain is good_scaling (finite positive scale, finite offset, finite images  *)
(* of both ends of the int32 range) and records made of bytes.                                                          *)
(* ------------------------------------------------------------------------------------------------------------------ *)
From LasV Require Import Model.F64Bits Proofs.F64BitsProofs Proofs.ApInstance.

(* the hypotheses of the generic theorems are satisfiable: a total wrapper of ap64 has them for every argument ... *)
Theorem C03_ap_ok_inhabited : ap_ok ap64w /\ (forall s o x, 0 <= ap64w s o x).
Proof. exact (conj ap64w_ok ap64w_nonneg). Qed.
Print Assumptions C03_ap_ok_inhabited.

(* ... which is ap64 itself on good scalings and int32 arguments, the only ones the model passes *)
Theorem C03_ap64w_is_ap64 : forall s o x, good_scaling s o = true -> - 2 ^ 31 <= x <= 2 ^ 31 - 1 -> ap64w s o x = ap64 s o x.
Proof. exact ap64w_eq. Qed.
Print Assumptions C03_ap64w_is_ap64.

(* C03_extrema for the binary64 formula (only the scaling of the axis concerned has to be good) *)
Theorem C03_extrema_binary64 : forall fmt h r0 recs i, (i < 3)%nat ->
  let s := aint h (axis_name "scales" i) in let o := aint h (axis_name "offsets" i) in
  good_scaling s o = true -> forallb bytes_ok (r0 :: recs) = true ->
  let xs := map (rec_coord i) (r0 :: recs) in
  nth i (s_max (stats_of ap64 fmt h (r0 :: recs))) 0 = ap64 s o (zmax_list (rec_coord i r0) xs)
  /\ nth i (s_min (stats_of ap64 fmt h (r0 :: recs))) 0 = ap64 s o (zmin_list (rec_coord i r0) xs)
  /\ (forall x, In x xs -> x <= zmax_list (rec_coord i r0) xs) /\ In (zmax_list (rec_coord i r0) xs) xs
  /\ (forall x, In x xs -> zmin_list (rec_coord i r0) xs <= x) /\ In (zmin_list (rec_coord i r0) xs) xs.
Proof. exact extrema_binary64. Qed.
Print Assumptions C03_extrema_binary64.

(* what it means: in the binary64 order no stored point has an image above the header maximum or below the header minimum *)
Theorem C03_extrema_binary64_dominate : forall fmt h r0 recs i, (i < 3)%nat ->
  let s := aint h (axis_name "scales" i) in let o := aint h (axis_name "offsets" i) in
  good_scaling s o = true -> forallb bytes_ok (r0 :: recs) = true ->
  forall x, In x (map (rec_coord i) (r0 :: recs)) ->
    f64_key (nth i (s_min (stats_of ap64 fmt h (r0 :: recs))) 0) <= f64_key (ap64 s o x)
    /\ f64_key (ap64 s o x) <= f64_key (nth i (s_max (stats_of ap64 fmt h (r0 :: recs))) 0).
Proof. exact extrema_binary64_dominate. Qed.
Print Assumptions C03_extrema_binary64_dominate.

(* C03_grow_app for the binary64 formula (this is where the monotonicity of x |-> fl (fl x * s) + o is used) *)
Theorem C03_grow_app_binary64 : forall fmt h st a b, good_header h ->
  a <> [] -> b <> [] -> forallb bytes_ok a = true -> forallb bytes_ok b = true ->
  grow ap64 fmt h (grow ap64 fmt h st a) b = grow ap64 fmt h st (a ++ b).
Proof. exact grow_app_binary64. Qed.
Print Assumptions C03_grow_app_binary64.

(* the domain is inhabited: scale 0.01 offset 0.0; scale 1e-9 offset -1e9 *)
Example C03_good_scaling_examples :
  good_scaling 0x3F847AE147AE147B 0 = true /\ good_scaling 0x3E112E0BE826D695 0xC1CDCD6500000000 = true.
Proof. exact (conj good_scaling_centimetres good_scaling_nanometres). Qed.

(* and the restriction is not an artefact: with scale 1e308 (overflow) the header minimum is not the image of the smallest X;
   with scale -1.0 chunked statistics differ from one-shot statistics and the "maximum" is below the "minimum" *)
Example C03_extrema_binary64_refuted :
  let h := hdr_scaled 0x7FE1CCF385EBC8A0 0 in let r0 := le_enc 4 100 ++ repeat 0 16 in
  good_scaling 0x7FE1CCF385EBC8A0 0 = false
  /\ nth 0 (s_min (stats_of ap64 0 h [r0])) 0 <> ap64 0x7FE1CCF385EBC8A0 0 (zmin_list (rec_coord 0 r0) (map (rec_coord 0) [r0])).
Proof. exact extrema_binary64_refuted. Qed.
Example C03_grow_app_binary64_refuted :
  let h := hdr_scaled 0xBFF0000000000000 0 in
  let a := [le_enc 4 1 ++ repeat 0 16] in let b := [le_enc 4 2 ++ repeat 0 16] in
  good_scaling 0xBFF0000000000000 0 = false
  /\ grow ap64 0 h (grow ap64 0 h stats0 a) b <> grow ap64 0 h stats0 (a ++ b)
  /\ f64_lt (nth 0 (s_max (stats_of ap64 0 h (a ++ b))) 0) (nth 0 (s_min (stats_of ap64 0 h (a ++ b))) 0) = true.
Proof. exact grow_app_binary64_refuted. Qed.

(* ---------------------------------------------------------------------------------- *)
(* Round 6: sessions that are closed more than once / used after their close (Model/LasEnd.v) *)
(* ---------------------------------------------------------------------------------- *)
From LasV Require Import Model.AppendCap Model.LasEnd Proofs.EndProofs.

(* the file an appender leaves after ANY sequence of calls that contains a close - refused chunks anywhere, a second close, chunks after the close -
   is the append of the chunks accepted before the first close: the header equalities (C03_count ... C03_file_length through C06_append_equiv) are
   those of that file *)
Theorem C03_ended_session_file : forall ap src s calls post, aopen src = Ok s ->
  snd (arun_ops ap (aclose) s (calls_of calls ++ AoClose :: post)) = Some (arun ap src (taken ap s calls)).
Proof. exact ended_session_file. Qed.
Print Assumptions C03_ended_session_file.

(* the in-place rewrite of the header at close, whatever the caller did to the session's own header meanwhile: refused, or the file keeps its
   length and every byte from the first point on (so file length = offset + count x record length + EVLR bytes is not disturbed by the rewrite) *)
Theorem C03_own_header_edited : forall off hb f f', 0 <= off <= len f ->
  guarded_rewrite off hb f = Ok f' -> tail_from off f' = tail_from off f /\ length f' = length f.
Proof. exact guarded_rewrite_keeps_points. Qed.
Print Assumptions C03_own_header_edited.
