(* C09 — bit-packed sub-fields are exact and isolated. *)
From Coq Require Import String.
From Coq Require Import ZArith List Bool.
From LasV Require Import Lib.Base Gen.GenFormatBits Gen.GenDims Model.SubField Proofs.SubFieldProofs Model.SubFieldRec Proofs.SubFieldRecProofs.
Import ListNotations.
Open Scope list_scope.
Open Scope Z_scope.

(* every (format, sub-field) of the running module's tables, every prior byte, every in-range value:
   accepted, reads back, stays a byte, no bit outside the mask changes, every sibling keeps its value *)
Theorem C09_set_get : forall fmt name composed m b v,
  In (fmt, name, composed, m) all_sub_fields -> 0 <= b < 256 -> 0 <= v <= sf_max m ->
  sf_assign m b v = Ok (sf_put m b v)
  /\ sf_get m (sf_put m b v) = v
  /\ 0 <= sf_put m b v < 256
  /\ Z.land (sf_put m b v) (Z.lnot m) = Z.land b (Z.lnot m)
  /\ (forall m', In m' (siblings fmt composed m) -> sf_get m' (sf_put m b v) = sf_get m' b).
Proof. exact sf_set_get. Qed.
Print Assumptions C09_set_get.

(* any value too large or negative (unbounded) is refused; nothing is produced *)
Theorem C09_overflow : forall m b v, v > sf_max m \/ v < 0 -> sf_assign m b v = Err EOverflow.
Proof. exact sf_overflow. Qed.
Print Assumptions C09_overflow.

Theorem C09_array_overflow : forall m bs sel, (exists p, In p sel /\ (snd p > sf_max m \/ snd p < 0)) ->
  sf_assign_arr m bs sel = Err EOverflow.
Proof. exact sf_arr_overflow. Qed.
Print Assumptions C09_array_overflow.

(* arrays, any selection (with repetitions), any length: unselected points untouched ... *)
Theorem C09_array_untouched : forall m sel bs j, (forall p, In p sel -> fst p <> j) ->
  nth j (fold_left (fun bs p => set_nth bs (fst p) (sf_put m (nth (fst p) bs 0) (snd p))) sel bs) 0 = nth j bs 0.
Proof. exact fold_untouched. Qed.
Print Assumptions C09_array_untouched.

(* ... every point keeps the bits outside the mask and its sibling fields, the array keeps its length ... *)
Theorem C09_array_isolated : forall fmt name composed m sel, In (fmt, name, composed, m) all_sub_fields ->
  forall bs j, (forall p, In p sel -> 0 <= snd p <= sf_max m) -> Forall (fun b => 0 <= b < 256) bs ->
  let bs' := fold_left (fun bs p => set_nth bs (fst p) (sf_put m (nth (fst p) bs 0) (snd p))) sel bs in
  Forall (fun b => 0 <= b < 256) bs'
  /\ Z.land (nth j bs' 0) (Z.lnot m) = Z.land (nth j bs 0) (Z.lnot m)
  /\ (forall m', In m' (siblings fmt composed m) -> sf_get m' (nth j bs' 0) = sf_get m' (nth j bs 0)).
Proof. exact fold_outside_mask. Qed.
Print Assumptions C09_array_isolated.

(* ... and the last value assigned to a point is the one read back *)
Theorem C09_array_reads_back : forall fmt name composed m, In (fmt, name, composed, m) all_sub_fields ->
  forall sel1 p sel2 bs, (forall q, In q (sel1 ++ p :: sel2) -> 0 <= snd q <= sf_max m) ->
  Forall (fun b => 0 <= b < 256) bs -> (fst p < length bs)%nat ->
  (forall q, In q sel2 -> fst q <> fst p) ->
  sf_get m (nth (fst p) (fold_left (fun bs p => set_nth bs (fst p) (sf_put m (nth (fst p) bs 0) (snd p))) (sel1 ++ p :: sel2) bs) 0) = snd p.
Proof. exact fold_reads_back. Qed.
Print Assumptions C09_array_reads_back.

(* ---------------- round 3: derived views, record growth, copy_fields_from, histories (Model/SubFieldRec.v) ---------------- *)

(* a chain of slices of a view addresses distinct points of the record *)
Theorem C09_view_positions : forall n chain, chain_ok n chain ->
  NoDup (view_chain n chain) /\ Forall (fun i => (i < n)%nat) (view_chain n chain).
Proof. exact view_chain_spec. Qed.
Print Assumptions C09_view_positions.

(* rec[name][s1]..[sk][key] = value with in-range values: accepted; the record keeps its shape; every other sub-field
   and every other packed byte keeps its values; the bits outside the mask are kept at every point; a point the
   selection does not address (through the chain) keeps its byte; the last value assigned to a point reads back *)
Theorem C09_view_assign : forall fmt r n name c m chain sel,
  rec_wf fmt r n -> find_sf fmt name = Some (c, m) -> chain_ok n chain ->
  let vpos := view_chain n chain in
  (forall p, In p sel -> 0 <= snd p <= sf_max m /\ (fst p < length vpos)%nat) ->
  exists r', rec_assign_view fmt r name chain sel = Ok r'
  /\ rec_wf fmt r' n
  /\ (forall name' c' m', name' <> name -> find_sf fmt name' = Some (c', m') -> rec_read fmt r' name' = rec_read fmt r name')
  /\ (forall c', c' <> c -> col_get r' c' = col_get r c')
  /\ (forall j, Z.land (nth j (col_get r' c) 0) (Z.lnot m) = Z.land (nth j (col_get r c) 0) (Z.lnot m))
  /\ (forall j, (forall p, In p sel -> nth (fst p) vpos 0%nat <> j) -> nth j (col_get r' c) 0 = nth j (col_get r c) 0)
  /\ (forall sel1 p sel2, sel = sel1 ++ p :: sel2 -> (forall q, In q sel2 -> fst q <> fst p) ->
        sf_get m (nth (nth (fst p) vpos 0%nat) (col_get r' c) 0) = snd p).
Proof. exact assign_view_spec. Qed.
Print Assumptions C09_view_assign.

Theorem C09_view_overflow : forall fmt r name c m chain sel, find_sf fmt name = Some (c, m) ->
  (exists p, In p sel /\ (snd p > sf_max m \/ snd p < 0)) -> rec_assign_view fmt r name chain sel = Err EOverflow.
Proof. exact assign_view_overflow. Qed.
Print Assumptions C09_view_overflow.

(* rec[name] = vs (vs longer than the record: it grows; one element: broadcast): k = max(n, len vs) points; the field
   reads back; every other sub-field / packed byte / bit outside the mask keeps its value on the existing points and
   is ZERO on the appended points *)
Theorem C09_seq_assign : forall fmt r n name c m vs r',
  rec_wf fmt r n -> find_sf fmt name = Some (c, m) -> vs <> [] -> rec_assign_seq fmt r name vs = Ok r' ->
  let k := Nat.max n (length vs) in
  in_range m vs
  /\ rec_wf fmt r' k
  /\ rec_read fmt r' name = Some (seq_values vs k)
  /\ (forall name' c' m', name' <> name -> find_sf fmt name' = Some (c', m') ->
        rec_read fmt r' name' = Some (grow (map (sf_get m') (col_get r c')) k))
  /\ (forall c', c' <> c -> In c' (fmt_cols fmt) -> col_get r' c' = grow (col_get r c') k)
  /\ (forall j, Z.land (nth j (col_get r' c) 0) (Z.lnot m) = Z.land (nth j (grow (col_get r c) k) 0) (Z.lnot m)).
Proof. exact assign_seq_spec. Qed.
Print Assumptions C09_seq_assign.

Theorem C09_seq_accepts : forall fmt r n name c m vs,
  rec_wf fmt r n -> find_sf fmt name = Some (c, m) -> in_range m vs -> (n <= length vs)%nat \/ length vs = 1%nat ->
  exists r', rec_assign_seq fmt r name vs = Ok r'.
Proof. exact assign_seq_ok. Qed.
Print Assumptions C09_seq_accepts.

(* refused: no new record is produced (`step` keeps the old one: not grown, not modified) *)
Theorem C09_seq_overflow : forall fmt r name c m vs, find_sf fmt name = Some (c, m) ->
  (exists v, In v vs /\ (v > sf_max m \/ v < 0)) ->
  rec_assign_seq fmt r name vs = Err EOverflow /\ step fmt r (OSeq name vs) = (r, Some EOverflow).
Proof. exact seq_overflow_step. Qed.
Print Assumptions C09_seq_overflow.

(* copying values of the record's length onto ANY prior content: copied fields read back the copied values, the
   others keep theirs *)
Theorem C09_copy_exact : forall fmt vals r n,
  rec_wf fmt r n -> NoDup (map fst vals) ->
  (forall name vs, In (name, vs) vals -> length vs = n /\ exists c m, find_sf fmt name = Some (c, m) /\ in_range m vs) ->
  exists r', rec_copy fmt r vals = (r', None)
  /\ rec_wf fmt r' n
  /\ (forall name vs, In (name, vs) vals -> rec_read fmt r' name = Some vs)
  /\ (forall name c m, find_sf fmt name = Some (c, m) -> ~ In name (map fst vals) -> rec_read fmt r' name = rec_read fmt r name).
Proof. exact copy_exact. Qed.
Print Assumptions C09_copy_exact.

(* copy_fields_from between formats with the same sub-field table, same number of points: every sub-field of the
   destination equals the source's afterwards, whatever the destination held before *)
Theorem C09_copy_same_family : forall sfmt dfmt src dst n,
  In dfmt known_fmts -> (forall name, find_sf sfmt name = find_sf dfmt name) ->
  rec_wf sfmt src n -> rec_wf dfmt dst n ->
  exists r', step dfmt dst (OCopy sfmt src []) = (r', None)
  /\ rec_wf dfmt r' n
  /\ (forall name, In name (fmt_names dfmt) -> rec_read dfmt r' name = rec_read sfmt src name).
Proof. exact copy_same_family. Qed.
Print Assumptions C09_copy_same_family.

(* histories: after any sequence of view assignments, whole-dimension assignments and copies (accepted or refused)
   the record is a well-formed record of its format and has not shrunk *)
Theorem C09_history_wf : forall fmt ops r n, rec_wf fmt r n ->
  Forall (fun s => exists k, (n <= k)%nat /\ rec_wf fmt (fst s) k) (run fmt r ops).
Proof. exact run_wf. Qed.
Print Assumptions C09_history_wf.

(* ---------------- round 4: WORLDS — the property across the record objects the API hands out (Model/SubFieldRec.v) ----------------
   wstep w o: one operation in a world of objects = (memory, positions).  For an assignment o on object a
   (wop_target o = Some a; the single-record operation it performs is act_res w a (wop_action w o), i.e.
   `step (obj_fmt w a) (obj_read w a) op` for WAssign a op - all of the theorems above apply to it): *)

(* the object assigned to reads exactly the result of the single-record operation, whether it was written through to
   the shared memory or (longer record) moved to memory of its own; the outcome (error) is that operation's *)
Theorem C09_world_target : forall w o a, wop_target o = Some a -> wwf w -> (a < length (snd w))%nat ->
  let res := act_res w a (wop_action w o) in
  snd (wstep w o) = snd res
  /\ rec_wf (obj_fmt w a) (fst res) (rec_len (fst res))
  /\ (length (snd (obj_at w a)) <= rec_len (fst res))%nat
  /\ length (snd (obj_at (fst (wstep w o)) a)) = rec_len (fst res)
  /\ (forall c i, In c (fmt_cols (obj_fmt w a)) -> (i < rec_len (fst res))%nat ->
        ocell (fst (wstep w o)) a c i = nth i (col_get (fst res) c) 0).
Proof. exact world_target. Qed.
Print Assumptions C09_world_target.

Theorem C09_world_assign_is_step : forall w a o,
  act_res w a (wop_action w (WAssign a o)) = step (obj_fmt w a) (obj_read w a) o.
Proof. exact act_assign. Qed.
Print Assumptions C09_world_assign_is_step.

Theorem C09_world_copy_from_is_step : forall w a s plain,
  act_res w a (wop_action w (WCopyFrom a s plain)) = step (obj_fmt w a) (obj_read w a) (OCopy (obj_fmt w s) (obj_read w s) plain).
Proof. exact act_copy_from. Qed.
Print Assumptions C09_world_copy_from_is_step.

(* NOWHERE ELSE: a point of ANOTHER object that is not one of the addressed points (other memory - a chunk read
   before, a copy, a selection, a converted record - or the same memory at a position a does not address) keeps every
   packed byte, and the object keeps its memory and positions *)
Theorem C09_world_isolated : forall w o a b c j, wop_target o = Some a -> wwf w -> (b < length (snd w))%nat -> b <> a ->
  (j < length (snd (obj_at w b)))%nat ->
  fst (obj_at w b) <> fst (obj_at w a) \/ ~ In (nth j (snd (obj_at w b)) 0%nat) (snd (obj_at w a)) ->
  obj_at (fst (wstep w o)) b = obj_at w b /\ ocell (fst (wstep w o)) b c j = ocell w b c j.
Proof. exact world_isolated. Qed.
Print Assumptions C09_world_isolated.

(* the same on memory: only cells of a's memory at a's positions are written; no memory changes its format *)
Theorem C09_world_memory_frame : forall w o a k c p, wop_target o = Some a -> (k < length (fst w))%nat ->
  k <> fst (obj_at w a) \/ ~ In p (snd (obj_at w a)) ->
  fst (buf_at (fst (wstep w o)) k) = fst (buf_at w k) /\ cell (fst (wstep w o)) k c p = cell w k c p.
Proof. exact world_memory_frame. Qed.
Print Assumptions C09_world_memory_frame.

(* EXACTLY WHERE B IS A VIEW OF THE ADDRESSED POINTS: point j of b is point i of a (same memory, same position) and
   the record did not grow: b reads the new byte of a's point i *)
Theorem C09_world_seen : forall w o a b c i j, wop_target o = Some a -> wwf w -> (a < length (snd w))%nat ->
  fst (obj_at w b) = fst (obj_at w a) ->
  (j < length (snd (obj_at w b)))%nat -> (i < length (snd (obj_at w a)))%nat ->
  nth j (snd (obj_at w b)) 0%nat = nth i (snd (obj_at w a)) 0%nat ->
  let res := act_res w a (wop_action w o) in
  rec_len (fst res) = length (snd (obj_at w a)) -> In c (fmt_cols (obj_fmt w a)) ->
  ocell (fst (wstep w o)) b c j = nth i (col_get (fst res) c) 0.
Proof. exact world_seen. Qed.
Print Assumptions C09_world_seen.

(* an operation that makes the record longer moves it to new memory: every other object keeps everything *)
Theorem C09_world_grown : forall w o a b, wop_target o = Some a -> wwf w -> (a < length (snd w))%nat -> (b < length (snd w))%nat -> b <> a ->
  rec_len (fst (act_res w a (wop_action w o))) <> length (snd (obj_at w a)) ->
  fst (obj_at (fst (wstep w o)) a) = length (fst w)
  /\ obj_at (fst (wstep w o)) b = obj_at w b /\ obj_read (fst (wstep w o)) b = obj_read w b.
Proof. exact world_grown. Qed.
Print Assumptions C09_world_grown.

(* creating an object (a chunk, a read, a copy, a selection, a slice, a conversion) changes no existing object ... *)
Theorem C09_world_create : forall w o b, wop_target o = None -> wwf w -> (b < length (snd w))%nat ->
  obj_at (fst (wstep w o)) b = obj_at w b /\ obj_read (fst (wstep w o)) b = obj_read w b.
Proof. exact wstep_create. Qed.
Print Assumptions C09_world_create.

(* ... and a record with memory of its own gets memory that no existing object addresses (so, by C09_world_isolated,
   no assignment on it reaches them and none on them reaches it); a slice is the view it says *)
Theorem C09_world_fresh : forall w o, snd (wstep w o) = None ->
  match o with
  | WNew _ _ | WGather _ _ | WConv _ _ _ =>
    length (snd (fst (wstep w o))) = S (length (snd w)) /\ fst (obj_at (fst (wstep w o)) (length (snd w))) = length (fst w)
  | WSlice a chain =>
    obj_at (fst (wstep w o)) (length (snd w)) = (fst (obj_at w a), view_sub (snd (obj_at w a)) (view_chain (length (snd (obj_at w a))) chain))
  | _ => True
  end.
Proof. exact wstep_fresh. Qed.
Print Assumptions C09_world_fresh.

(* histories of such steps keep the world well formed (every object addresses distinct existing points) *)
Theorem C09_world_history_wf : forall ops w, wwf w -> wrun_ok w ops -> Forall (fun s => wwf (fst s)) (wrun w ops).
Proof. exact wrun_wf. Qed.
Print Assumptions C09_world_history_wf.

(* ---------------- round 5: READ ROUTES (Model/SubFieldRec.v `route`) ----------------
   "reads back the assigned values" through EVERY route a caller reads a sub-field by: the array, view[i], max / min,
   sum / count_nonzero / unique, conversion to bool / any integer type, the six comparisons with a constant. *)

(* ISOLATED: after any in-range assignment to a field through any index expression, every route of every sibling
   that shares the byte reads exactly what it read before *)
Theorem C09_routes_isolated : forall fmt name composed m sel, In (fmt, name, composed, m) all_sub_fields ->
  forall bs, (forall p, In p sel -> 0 <= snd p <= sf_max m) -> Forall (fun b => 0 <= b < 256) bs ->
  forall m' ro, In m' (siblings fmt composed m) ->
  sf_route m' (fold_left (fun bs p => set_nth bs (fst p) (sf_put m (nth (fst p) bs 0) (snd p))) sel bs) ro = sf_route m' bs ro.
Proof. exact routes_isolated. Qed.
Print Assumptions C09_routes_isolated.

(* EXACT: every route of the assigned field is the route of the assigned VALUES - at each point the last value the
   expression assigns to it, the old value where it addresses none - whatever the sibling bits are *)
Theorem C09_routes_read_back : forall fmt name composed m sel, In (fmt, name, composed, m) all_sub_fields ->
  forall bs, (forall p, In p sel -> 0 <= snd p <= sf_max m) -> Forall (fun b => 0 <= b < 256) bs ->
  forall ro, sf_route m (fold_left (fun bs p => set_nth bs (fst p) (sf_put m (nth (fst p) bs 0) (snd p))) sel bs) ro
             = route_vals ro (map (fun j => last_val sel j (sf_get m (nth j bs 0))) (seq 0 (length bs))).
Proof. exact routes_read_back. Qed.
Print Assumptions C09_routes_read_back.

Theorem C09_routes_last_value : forall sel1 p sel2 j d,
  ((forall q, In q sel2 -> fst q <> fst p) -> last_val (sel1 ++ p :: sel2) (fst p) d = snd p)
  /\ ((forall q, In q sel1 -> fst q <> j) -> last_val sel1 j d = d).
Proof. intros sel1 p sel2 j d. split; [apply last_val_last|apply last_val_untouched]. Qed.
Print Assumptions C09_routes_last_value.

(* the same through a record, a chain of slices of the view and a key: rec[name][s1]..[sk][key] = value *)
Theorem C09_routes_view : forall fmt r n name c m chain sel,
  rec_wf fmt r n -> find_sf fmt name = Some (c, m) -> chain_ok n chain ->
  let vpos := view_chain n chain in
  (forall p, In p sel -> 0 <= snd p <= sf_max m /\ (fst p < length vpos)%nat) ->
  exists r', rec_assign_view fmt r name chain sel = Ok r'
  /\ (forall name' c' m' ro, name' <> name -> find_sf fmt name' = Some (c', m') ->
        rec_route fmt r' name' ro = rec_route fmt r name' ro)
  /\ (forall ro, rec_route fmt r' name ro
        = route_vals ro (map (fun j => last_val (through vpos sel) j (sf_get m (nth j (col_get r c) 0))) (seq 0 n))).
Proof. exact routes_view. Qed.
Print Assumptions C09_routes_view.

(* rec[name] = vs (the record grows / one value is broadcast): every route of the field reads the assigned values;
   every route of any other sub-field reads its old values, zero on the appended points *)
Theorem C09_routes_seq : forall fmt r n name c m vs r',
  rec_wf fmt r n -> find_sf fmt name = Some (c, m) -> vs <> [] -> rec_assign_seq fmt r name vs = Ok r' ->
  let k := Nat.max n (length vs) in
  (forall ro, rec_route fmt r' name ro = route_vals ro (seq_values vs k))
  /\ (forall name' c' m' ro, name' <> name -> find_sf fmt name' = Some (c', m') ->
        rec_route fmt r' name' ro = route_vals ro (grow (map (sf_get m') (col_get r c')) k)).
Proof. exact routes_seq. Qed.
Print Assumptions C09_routes_seq.

(* conversions: an integer type of >= 16 bits or any unsigned type reads the value itself; bool reads "not zero",
   which is the flag itself for a one-bit field *)
Theorem C09_routes_dtype_exact : forall fmt name c m b, In (fmt, name, c, m) all_sub_fields -> 0 <= b < 256 ->
  (forall bits signed, 16 <= bits \/ (8 <= bits /\ signed = false) -> wrap_int bits signed (sf_get m b) = sf_get m b)
  /\ (as_bool (sf_get m b) = 0 <-> sf_get m b = 0)
  /\ (sf_max m = 1 -> as_bool (sf_get m b) = sf_get m b).
Proof. exact routes_dtype_exact. Qed.
Print Assumptions C09_routes_dtype_exact.

(* max / min: a value of the field that bounds all its values (so, with C09_routes_read_back, the extreme of the
   assigned values) *)
Theorem C09_routes_extremes : forall vs,
  (forall x, route_vals RMax vs = Some [x] -> In x vs /\ Forall (fun y => y <= x) vs)
  /\ (forall x, route_vals RMin vs = Some [x] -> In x vs /\ Forall (fun y => x <= y) vs)
  /\ (vs <> [] -> exists x y, route_vals RMax vs = Some [x] /\ route_vals RMin vs = Some [y]).
Proof. exact routes_extremes. Qed.
Print Assumptions C09_routes_extremes.

(* ---------------- round 6: layouts — extra dimensions named like a sub-field or an alias ---------------- *)
(* the name lookup (Model/SubFieldRec.v `resolve`): whatever fields the array of the record has - also a field of that very
   name - a name of a sub-field of the format, and every old laspy alias of it, addresses the bits of the packed byte *)
Theorem C09_lookup_sub_field_first : forall fmt fields name c m,
  find_sf fmt (canon name) = Some (c, m) -> resolve fmt fields name = TSub c m.
Proof. exact resolve_sub_field_first. Qed.
Print Assumptions C09_lookup_sub_field_first.

Theorem C09_lookup_every_layout : forall fmt fields name,
  In fmt known_fmts -> In name (fmt_names fmt) ->
  exists c m, find_sf fmt name = Some (c, m)
              /\ resolve fmt fields name = TSub c m
              /\ (forall alias, In (alias, name) old_names -> resolve fmt fields alias = TSub c m).
Proof. exact resolve_every_layout. Qed.
Print Assumptions C09_lookup_every_layout.

(* a field of the array is reached only by a name that is not a sub-field of the format *)
Theorem C09_lookup_field : forall fmt fields name n, resolve fmt fields name = TField n ->
  find_sf fmt (canon name) = None /\ n = canon name /\ In n fields.
Proof. exact resolve_field. Qed.
Print Assumptions C09_lookup_field.

(* reading and assigning by a sub-field name on a record with other fields: the packed columns behave exactly as on the
   layout without them (C09_seq_* therefore speak about every layout); the other fields keep every stored value and only
   follow the growth of the record by zero points; out-of-range values are refused, nothing is produced *)
Theorem C09_layout_read : forall fmt x name c m,
  find_sf fmt (canon name) = Some (c, m) -> xread fmt x name = rec_read fmt (fst x) (canon name).
Proof. exact xread_sub_field. Qed.
Print Assumptions C09_layout_read.

Theorem C09_layout_assign : forall fmt x name c m vs,
  find_sf fmt (canon name) = Some (c, m) ->
  xassign_sub fmt x name vs
  = Some (match rec_assign_seq fmt (fst x) (canon name) vs with
          | Ok r' => Ok (r', rec_grow (snd x) (rec_len r'))
          | Err e => Err e
          end).
Proof. exact xassign_sub_field. Qed.
Print Assumptions C09_layout_assign.

Theorem C09_layout_fields_kept : forall fmt x name vs x',
  xassign_sub fmt x name vs = Some (Ok x') ->
  rec_assign_seq fmt (fst x) (canon name) vs = Ok (fst x')
  /\ map fst (snd x') = map fst (snd x)
  /\ (forall f, In f (map fst (snd x)) -> col_get (snd x') f = grow (col_get (snd x) f) (rec_len (fst x'))).
Proof. exact xassign_fields_kept. Qed.
Print Assumptions C09_layout_fields_kept.

Theorem C09_layout_overflow : forall fmt x name c m vs,
  find_sf fmt (canon name) = Some (c, m) -> (exists v, In v vs /\ (v > sf_max m \/ v < 0)) ->
  xassign_sub fmt x name vs = Some (Err EOverflow).
Proof. exact xassign_refused. Qed.
Print Assumptions C09_layout_overflow.

(* ======================= round 7: assignment BY ATTRIBUTE in a world of objects of different formats =======================
   obj.name = vs looks the name up in the layout of the object that is assigned to, and in nothing else (Model/SubFieldRec.v
   `wattr`): where the name is no sub-field of that object no point of any object changes ... *)
Theorem C09_attr_not_a_sub_field_changes_nothing : forall w a fields name vs,
  (forall c m, resolve (obj_fmt w a) fields name <> TSub c m) -> wattr w a fields name vs = (w, None).
Proof. exact wattr_not_sub_field. Qed.
Print Assumptions C09_attr_not_a_sub_field_changes_nothing.

(* ... where it is one, it is the whole-dimension assignment on that object (all of C09_world_* applies to it) ... *)
Theorem C09_attr_sub_field_is_assignment : forall w a fields name vs c m,
  find_sf (obj_fmt w a) (canon name) = Some (c, m) ->
  wattr w a fields name vs = wstep w (WAssign a (OSeq (canon name) vs)).
Proof. exact wattr_sub_field. Qed.
Print Assumptions C09_attr_sub_field_is_assignment.

(* ... and what was assigned under a name to an object where it is no sub-field takes no part in any later assignment *)
Theorem C09_attr_history_independent : forall w a fa b fb name name' vs vs',
  (forall c m, resolve (obj_fmt w a) fa name <> TSub c m) ->
  wattr (fst (wattr w a fa name vs)) b fb name' vs' = wattr w b fb name' vs'.
Proof. exact wattr_history. Qed.
Print Assumptions C09_attr_history_independent.

(* the names that are sub-fields of ONE format family only (table of the source, Gen/GenDims.v) *)
Theorem C09_family_names : forall fmt, In fmt known_fmts ->
  (fmt < 6 -> find_sf fmt "overlap" = None /\ find_sf fmt "scanner_channel" = None)
  /\ (6 <= fmt -> find_sf fmt "overlap" = Some ("classification_flags"%string, 8)
                  /\ find_sf fmt "scanner_channel" = Some ("classification_flags"%string, 48)).
Proof. exact family_split. Qed.
Print Assumptions C09_family_names.

Theorem C09_attr_across_families : forall w a fa b fb name vs vs',
  In (obj_fmt w a) known_fmts -> obj_fmt w a < 6 -> name = "overlap"%string \/ name = "scanner_channel"%string ->
  wattr w a fa name vs = (w, None)
  /\ wattr (fst (wattr w a fa name vs)) b fb name vs' = wattr w b fb name vs'
  /\ (In (obj_fmt w b) known_fmts -> 6 <= obj_fmt w b -> wattr w b fb name vs' = wstep w (WAssign b (OSeq name vs'))).
Proof. exact attr_family_names. Qed.
Print Assumptions C09_attr_across_families.

(* the run with attribute assignments extends the run of the worlds *)
Theorem C09_wrun7_extends_wrun : forall ops w, wrun7 w (map WOp ops) = wrun w ops.
Proof. exact wrun7_ops. Qed.
Print Assumptions C09_wrun7_extends_wrun.

Example C09_nonvacuous :
  In (6, "scanner_channel"%string, "classification_flags"%string, 48) all_sub_fields
  /\ sf_assign 48 0xCF 2 = Ok 0xEF /\ sf_assign 48 0xCF 4 = Err EOverflow /\ sf_assign 48 0xCF (-1) = Err EOverflow
  /\ sf_assign_arr 7 [0xFF; 0x00; 0xF8] [(0%nat, 5); (2%nat, 1); (0%nat, 2)] = Ok [0xFA; 0x00; 0xF9]
  (* a history: growth by one point, a one-point slice of a view, a refused longer sequence, a copy onto non-zero bytes *)
  /\ run 1 [("bit_fields"%string, [0xFF; 0x00]); ("raw_classification"%string, [0xAA; 0x55])]
        [OSeq "return_number" [1; 2; 3]; OView "classification" [[1; 2]%nat] [(1%nat, 9)]; OSeq "number_of_returns" [8; 8; 8; 8];
         OCopy 3 [("bit_fields"%string, [0x12; 0x34; 0x56]); ("raw_classification"%string, [1; 2; 3])] []]
     = [([("bit_fields"%string, [0xF9; 2; 3]); ("raw_classification"%string, [0xAA; 0x55; 0])], None);
        ([("bit_fields"%string, [0xF9; 2; 3]); ("raw_classification"%string, [0xAA; 0x55; 9])], None);
        ([("bit_fields"%string, [0xF9; 2; 3]); ("raw_classification"%string, [0xAA; 0x55; 9])], Some EOverflow);
        ([("bit_fields"%string, [0x12; 0x34; 0x56]); ("raw_classification"%string, [1; 2; 3])], None)]
  (* a world: two chunks (objects 0, 1), a strided slice of chunk 0 (object 2), a copy of chunk 0 (object 3); an assignment
     through the slice reaches chunk 0 at points 0 and 2 and nothing else; a longer assignment on the slice detaches it *)
  /\ (let w0 : world := ([], []) in
      let r := map fst (wrun w0
        [WNew 1 [("bit_fields"%string, [0xFF; 0xFF; 0xFF]); ("raw_classification"%string, [0; 0; 0])];
         WNew 1 [("bit_fields"%string, [0xFF; 0xFF; 0xFF]); ("raw_classification"%string, [0; 0; 0])];
         WSlice 0 [[0; 2]%nat]; WGather 0 [0; 1; 2]%nat;
         WAssign 2 (OView "return_number" [] [(0%nat, 1); (1%nat, 2)]);
         WAssign 2 (OSeq "return_number" [3; 3; 3])]) in
      map (fun w => map (fun b => col_get (obj_read w b) "bit_fields") [0; 1; 2; 3]%nat) (skipn 4 r)
      = [[[0xF9; 0xFF; 0xFA]; [0xFF; 0xFF; 0xFF]; [0xF9; 0xFA]; [0xFF; 0xFF; 0xFF]];
         [[0xF9; 0xFF; 0xFA]; [0xFF; 0xFF; 0xFF]; [0xFB; 0xFB; 0x03]; [0xFF; 0xFF; 0xFF]]])
  (* read routes: return_number = [5; 1] under number_of_returns = [1; 7] (bytes 0x0D, 0x39): the field's max is 5 and
     its min 1 although the LARGEST packed byte holds 1 and the smallest 5; withheld (bit 7) of 0x80, 0x7F reads
     [true; false] as bool although both bytes are non-zero; classification 200 read as int8 wraps (numpy), as int16 not *)
  /\ sf_route 7 [0x0D; 0x39] RMax = Some [5] /\ sf_route 7 [0x0D; 0x39] RMin = Some [1]
  /\ sf_get 7 (Z.max 0x0D 0x39) = 1 /\ sf_get 7 (Z.min 0x0D 0x39) = 5
  /\ sf_route 128 [0x80; 0x7F] RBool = Some [1; 0] /\ map as_bool [0x80; 0x7F] = [1; 1]
  /\ sf_route 255 [200] (RInt 8 true) = Some [-56] /\ sf_route 255 [200] (RInt 16 true) = Some [200]
  /\ sf_route 7 [0x0D; 0x39; 0x0D] RUnique = Some [1; 5] /\ sf_route 7 [0x0D; 0x39] (RCmp 4 5) = Some [1; 0]
  /\ sf_route 7 [0x0D; 0x39] RSum = Some [6] /\ sf_route 7 [0x08; 0x39] RCount = Some [1] /\ sf_route 7 [0x0D; 0x39] (RItem 1) = Some [1]
  (* a layout of format 1 with extra dimensions named "synthetic" and "return_num": the names (and the alias) address the
     packed bits; the assignment leaves the extra bytes as they are (grown by a zero); "quality" is a plain field *)
  /\ (let x : xrec := ([("bit_fields"%string, [0xFF; 0x00]); ("raw_classification"%string, [0x00; 0xFF])],
                       [("synthetic"%string, [1000; 1001]); ("return_num"%string, [7; 7]); ("quality"%string, [3; 4])]) in
      resolve 1 (xfields x) "synthetic" = TSub "raw_classification" 32
      /\ resolve 1 (xfields x) "return_num" = TSub "bit_fields" 7
      /\ resolve 1 (xfields x) "quality" = TField "quality" /\ resolve 1 (xfields x) "overlap" = TNone
      /\ xread 1 x "synthetic" = Some [0; 1] /\ xread 1 x "quality" = Some [3; 4]
      /\ xassign_sub 1 x "synthetic" [1; 0; 1]
         = Some (Ok ([("bit_fields"%string, [0xFF; 0x00; 0x00]); ("raw_classification"%string, [0x20; 0xDF; 0x20])],
                     [("synthetic"%string, [1000; 1001; 0]); ("return_num"%string, [7; 7; 0]); ("quality"%string, [3; 4; 0])]))
      /\ xassign_sub 1 x "synthetic" [2; 0] = Some (Err EOverflow) /\ xassign_sub 1 x "quality" [1; 1] = None)
  (* round 7: an object of format 3 and one of format 6. obj0.overlap = 1 (no dimension of format 3) changes nothing; then
     obj1.overlap = 1 sets bit 3 of classification_flags 0xC7 -> 0xCF; obj1.scanner_channel = 4 is refused and modifies
     nothing; = 2 sets bits 4-5 -> 0xEF; obj0.scanner_channel = 9 changes nothing *)
  /\ (let r := wrun7 ([], [])
        [WOp (WNew 3 [("bit_fields"%string, [0xFF]); ("raw_classification"%string, [0xFF])]);
         WOp (WNew 6 [("bit_fields"%string, [0xFF]); ("classification_flags"%string, [0xC7])]);
         WAttr 0 [] "overlap" [1]; WAttr 1 [] "overlap" [1]; WAttr 1 [] "scanner_channel" [4];
         WAttr 1 [] "scanner_channel" [2]; WAttr 0 [] "scanner_channel" [9]] in
      map (fun s => (col_get (obj_read (fst s) 0%nat) "raw_classification", col_get (obj_read (fst s) 1%nat) "classification_flags", snd s))
          (skipn 2 r)
      = [([0xFF], [0xC7], None); ([0xFF], [0xCF], None); ([0xFF], [0xCF], Some EOverflow); ([0xFF], [0xEF], None); ([0xFF], [0xEF], None)]).
Proof. split; [apply entry_mem; vm_compute; reflexivity|]. vm_compute. repeat split; reflexivity. Qed.
