(* C09 — bit-packed sub-fields are exact and isolated. *)
From Coq Require Import String.
From Coq Require Import ZArith List Bool.
From LasV Require Import Lib.Base Gen.GenFormatBits Gen.GenDims Model.SubField Proofs.SubFieldProofs.
Import ListNotations.
Open Scope list_scope.
Open Scope Z_scope.

(* every (format, sub-field) of the running module's tables, every prior byte, every in-range value:
   accepted, reads back, stays a byte, no bit outside the mask changes, every sibling keeps its value *)
Theorem C09_set_get : forall fmt name composed m b v,
  In (fmt, name, composed, m) all_sub_fields -> 0 <= b < 256 -> 0 <= v <= sf_max m ->
  sf_assign m b v = Ok (sf_put m b v)
  /\ sf_get m (sf_put m b v) = v
  /\ 0 <= sf_put m b v < 256
  /\ Z.land (sf_put m b v) (Z.lnot m) = Z.land b (Z.lnot m)
  /\ (forall m', In m' (siblings fmt composed m) -> sf_get m' (sf_put m b v) = sf_get m' b).
Proof. exact sf_set_get. Qed.
Print Assumptions C09_set_get.

(* any value too large or negative (unbounded) is refused; nothing is produced *)
Theorem C09_overflow : forall m b v, v > sf_max m \/ v < 0 -> sf_assign m b v = Err EOverflow.
Proof. exact sf_overflow. Qed.
Print Assumptions C09_overflow.

Theorem C09_array_overflow : forall m bs sel, (exists p, In p sel /\ (snd p > sf_max m \/ snd p < 0)) ->
  sf_assign_arr m bs sel = Err EOverflow.
Proof. exact sf_arr_overflow. Qed.
Print Assumptions C09_array_overflow.

(* arrays, any selection (with repetitions), any length: unselected points untouched ... *)
Theorem C09_array_untouched : forall m sel bs j, (forall p, In p sel -> fst p <> j) ->
  nth j (fold_left (fun bs p => set_nth bs (fst p) (sf_put m (nth (fst p) bs 0) (snd p))) sel bs) 0 = nth j bs 0.
Proof. exact fold_untouched. Qed.
Print Assumptions C09_array_untouched.

(* ... every point keeps the bits outside the mask and its sibling fields, the array keeps its length ... *)
Theorem C09_array_isolated : forall fmt name composed m sel, In (fmt, name, composed, m) all_sub_fields ->
  forall bs j, (forall p, In p sel -> 0 <= snd p <= sf_max m) -> Forall (fun b => 0 <= b < 256) bs ->
  let bs' := fold_left (fun bs p => set_nth bs (fst p) (sf_put m (nth (fst p) bs 0) (snd p))) sel bs in
  Forall (fun b => 0 <= b < 256) bs'
  /\ Z.land (nth j bs' 0) (Z.lnot m) = Z.land (nth j bs 0) (Z.lnot m)
  /\ (forall m', In m' (siblings fmt composed m) -> sf_get m' (nth j bs' 0) = sf_get m' (nth j bs 0)).
Proof. exact fold_outside_mask. Qed.
Print Assumptions C09_array_isolated.

(* ... and the last value assigned to a point is the one read back *)
Theorem C09_array_reads_back : forall fmt name composed m, In (fmt, name, composed, m) all_sub_fields ->
  forall sel1 p sel2 bs, (forall q, In q (sel1 ++ p :: sel2) -> 0 <= snd q <= sf_max m) ->
  Forall (fun b => 0 <= b < 256) bs -> (fst p < length bs)%nat ->
  (forall q, In q sel2 -> fst q <> fst p) ->
  sf_get m (nth (fst p) (fold_left (fun bs p => set_nth bs (fst p) (sf_put m (nth (fst p) bs 0) (snd p))) (sel1 ++ p :: sel2) bs) 0) = snd p.
Proof. exact fold_reads_back. Qed.
Print Assumptions C09_array_reads_back.

Example C09_nonvacuous :
  In (6, "scanner_channel"%string, "classification_flags"%string, 48) all_sub_fields
  /\ sf_assign 48 0xCF 2 = Ok 0xEF /\ sf_assign 48 0xCF 4 = Err EOverflow /\ sf_assign 48 0xCF (-1) = Err EOverflow
  /\ sf_assign_arr 7 [0xFF; 0x00; 0xF8] [(0%nat, 5); (2%nat, 1); (0%nat, 2)] = Ok [0xFA; 0x00; 0xF9].
Proof. vm_compute. repeat split; try reflexivity. repeat (first [left; reflexivity | right]). Qed.
