(* C20 — global-encoding flags are independent booleans.
   Only statements, closed by `exact`, with Print Assumptions; proofs live in Proofs/. *)
From Coq Require Import String.
From Coq Require Import ZArith List Bool.
From LasV Require Import Lib.Base Lib.BaseFacts Lib.Layout Gen.GenGlobalEncoding Gen.GenHeaderLayout Model.GlobalEnc Proofs.GlobalEncProofs
  Model.GlobalEncPy Proofs.GlobalEncPyProofs.
Import ListNotations.
Open Scope Z_scope.

(* all 65,536 field values x 5 flags x both targets: read-back, other bits, range *)
Theorem C20_flag : forall v i b, 0 <= v < 65536 -> (i < 5)%nat ->
  ge_get i (ge_set i v b) = b
  /\ Z.land (Z.lxor (ge_set i v b) v) (Z.lnot (ge_mask i)) = 0
  /\ 0 <= ge_set i v b < 65536.
Proof. exact ge_flag_sound. Qed.
Print Assumptions C20_flag.

Theorem C20_other_bits : forall v i b n, 0 <= v < 65536 -> (i < 5)%nat -> 0 <= n ->
  Z.testbit (ge_mask i) n = false -> Z.testbit (ge_set i v b) n = Z.testbit v n.
Proof. exact ge_other_bits. Qed.
Print Assumptions C20_other_bits.

Theorem C20_independent : forall v i j b, 0 <= v < 65536 -> (i < 5)%nat -> (j < 5)%nat -> i <> j ->
  ge_get i (ge_set j v b) = ge_get i v.
Proof. exact ge_independent. Qed.
Print Assumptions C20_independent.

(* histories of assignments, any length *)
Theorem C20_history_flags : forall v ops i, 0 <= v < 65536 -> ops_ok ops -> (i < 5)%nat ->
  ge_get i (ge_run v ops) = match last_assign i ops None with Some b => b | None => ge_get i v end.
Proof. exact ge_run_flags. Qed.
Print Assumptions C20_history_flags.

Theorem C20_history_other_bits : forall v ops n, 0 <= v < 65536 -> ops_ok ops -> 0 <= n ->
  (forall i, (i < 5)%nat -> Z.testbit (ge_mask i) n = false) ->
  Z.testbit (ge_run v ops) n = Z.testbit v n.
Proof. exact ge_run_other_bits. Qed.
Print Assumptions C20_history_other_bits.

(* the assigned object in any representation (Python bool / int, GpsTimeType member, numpy bool_, numpy int8..uint64, 0-d array):
   the flag reads back the truth value of the object, no other bit moves, the field stays a 16-bit integer *)
Theorem C20_flag_any_value : forall v i x, 0 <= v < 65536 -> (i < 5)%nat -> target_ok i x = true ->
  ge_get i (ge_set_py i v x) = truthy x
  /\ Z.land (Z.lxor (ge_set_py i v x) v) (Z.lnot (ge_mask i)) = 0
  /\ 0 <= ge_set_py i v x < 65536.
Proof. exact ge_set_py_sound. Qed.
Print Assumptions C20_flag_any_value.

(* objects holding the same integer give the same field: the representation (numpy or not) cannot matter *)
Theorem C20_value_representation : forall i v x y, pv_int x = pv_int y -> ge_set_py i v x = ge_set_py i v y.
Proof. exact ge_set_py_repr. Qed.
Print Assumptions C20_value_representation.

(* also for an illegal GPS time type (2, -1, 255: the code keeps bit 0 of the integer) nothing but the flag's own bit moves *)
Theorem C20_any_value_other_bits : forall v i x n, 0 <= v < 65536 -> (i < 5)%nat -> 0 <= n ->
  Z.testbit (ge_mask i) n = false -> Z.testbit (ge_set_py i v x) n = Z.testbit v n.
Proof. exact ge_set_py_other_bits. Qed.
Print Assumptions C20_any_value_other_bits.

Theorem C20_history_any_values : forall v ops i, 0 <= v < 65536 -> ops_ok_py ops -> (i < 5)%nat ->
  ge_get i (ge_run_py v ops) = match last_assign_py i ops None with Some x => truthy x | None => ge_get i v end.
Proof. exact ge_run_py_flags. Qed.
Print Assumptions C20_history_any_values.

Theorem C20_history_any_values_other_bits : forall v ops n, 0 <= v < 65536 -> ops_ok_py ops -> 0 <= n ->
  (forall i, (i < 5)%nat -> Z.testbit (ge_mask i) n = false) ->
  Z.testbit (ge_run_py v ops) n = Z.testbit v n.
Proof. exact ge_run_py_other_bits. Qed.
Print Assumptions C20_history_any_values_other_bits.

Theorem C20_masks : ge_masks_ok = true.
Proof. exact ge_masks_ok_true. Qed.
Print Assumptions C20_masks.

(* the field is the unsigned 16-bit little-endian integer at byte 6 of the header, in every version,
   on the write side and on the read side (layouts extracted from write_to / read_from on every run) *)
Theorem C20_field_position :
  map (fun l => field_at l "global_encoding"%string 0)
      [hdr_write_layout_1; hdr_write_layout_2; hdr_write_layout_3; hdr_write_layout_4;
       hdr_read_layout_1; hdr_read_layout_2; hdr_read_layout_3; hdr_read_layout_4]
  = repeat (Some (6, KUInt, 2%nat)) 8.
Proof. vm_compute. reflexivity. Qed.
Print Assumptions C20_field_position.

Theorem C20_field_roundtrip : forall v, 0 <= v < 65536 -> le_dec (le_enc 2 v) = v /\ length (le_enc 2 v) = 2%nat.
Proof. intros v Hv. split; [apply le_dec_enc; exact Hv | apply le_enc_length]. Qed.
Print Assumptions C20_field_roundtrip.

(* non-vacuity: a concrete non-trivial state meets the hypotheses and exercises both directions *)
Example C20_nonvacuous :
  ge_run 0xABCD [(4%nat, false); (0%nat, true); (4%nat, true); (1%nat, false)] = 0xABDD
  /\ ops_ok [(4%nat, false); (0%nat, true)]
  /\ ge_run_py 0xFFFF [(4%nat, mkPV KNpBool 0); (0%nat, mkPV (KNp0d (KNpInt false 8)) 0); (3%nat, mkPV (KNpInt true 1) (-128))] = 0xFFEE
  /\ target_ok 3 (mkPV (KNpInt true 1) (-128)) = true /\ target_ok 0 (mkPV KPyInt 2) = false.
Proof. split; [vm_compute; reflexivity | split; [repeat constructor | vm_compute; repeat split; reflexivity]]. Qed.
