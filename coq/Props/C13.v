(* C13 — extra dimensions stay consistent across add / remove histories.
   Model: Model/ExtraDims.v.  A state is (format id, extra dimensions, per record: standard bytes and name -> raw bytes,
   VLR list); operations Add params | Remove names | Assign name raw-values | AssignStd raw-blocks |
   SetPoints format record-bytes (las.points = a record carrying its own PointFormat: a copy, the record of another
   LasData or of a re-read file, with any number of points) | RoundTrip | Convert target-format standard-blocks
   (laspy.convert; what becomes of the standard dimensions is C12, the blocks are universally quantified here) |
   Reread keep (a file whose extra-bytes VLR registers only the first k extra dimensions, or that has no such VLR, is
   read: the bytes no descriptor registers become ONE opaque dimension "ExtraBytes").
   Histories start from a fresh LasData (init) or from one made from a PointFormat that already carries extra
   dimensions (init_ex: laspy.create(point_format=fmt), LasHeader(point_format=fmt)).
   Inv = base invariant (record layout = format, legal parameters, distinct non-standard names) + (I3) the extra-bytes
   VLR describes exactly the current dimensions; Inv2 = base invariant + ((I3) or "the VLR describes all dimensions but
   the last, which is the reader's ExtraBytes"): what holds between reading a file with un-registered bytes and the
   next add / remove / conversion.
   `ops_okb s ops` is the one hypothesis on inputs: THE FIELD NAMES OF THE RECORD ARE PAIRWISE DIFFERENT — the names an Add
   introduces are pairwise different, are not current extra dimensions and are not fields of the format's record (rec_names:
   X, intensity, bit_fields, raw_classification, gps_time ...); no extra dimension is called like a field of the record of the
   target format of a Convert; the name "ExtraBytes" a truncated Reread introduces is new and at most 255 bytes stay
   un-registered (laspy fails inside numpy on a duplicate field name after the header was already changed — DESIGN section 6,
   observation 13 — so nothing is claimed there).
   Round 6: until round 5 the hypothesis excluded every standard dimension name (std_names = rec_names ++ sub_names); it no
   longer excludes the names of SUB FIELDS (return_number, synthetic, withheld, overlap, scanner_channel ...: dimensions of the
   PointFormat that are no fields of the record), nor — as before — names of other formats, aliases and coordinates: every
   theorem below is proved under the weaker hypothesis (C13_hypothesis_weakened).  The standard part of PointFormat.dimensions is
   a function of the format id (std_dim_names, dim_names; C13_dimension_list), and an extra dimension that is called like a
   standard one is removed alone (C13_remove_named_like_standard).
   Round 4 — several live objects.  `select s idx` is las[idx] (index list / array / integer with numpy's rule for negative
   entries; a slice or mask is the list of positions it selects): a LasData with a deep copy of the header and the selected
   records.  A `world` is the LasData the history works on plus every other LasData that is alive (the ones it was
   selected / copied / converted / read from, and the ones selected or copied from it); world operations: WOp o (an
   operation on the current one), WNew o (the operation returns a LasData — round trip, convert, re-read —, the old one
   stays alive), WSelect, WCopy.  Every live object satisfies the invariant after any history and no step reaches an
   object other than the current one (C13_all_live_objects, C13_other_objects_untouched); the correspondence check
   compares every live object of the implementation with the world at the end of each history, the oracle observes them
   after every step.
   Round 5 — what belongs to the caller.  A `cworld` is a world plus the header's point count of the current LasData (a
   counter that may be stale: LasData(header, points) with a header that counts other points — a reader chunk, a slice —,
   header.point_count assigned), the flag "the VLR list was edited in place and not synchronised since", and the caller's
   ExtraBytesParams objects.  Caller operations: CW (a world operation), CEditVlrs vl setter (the VLR list becomes vl — any
   list: the list of another file with its extra-bytes VLR, duplicates, any order — through list methods or through the
   vlrs setter, which synchronises), CSetCount, CRewrap idx cnt (LasData(header', points[idx]) without update_header),
   CNewParam / CSetParam / CAddParams (the caller keeps, changes and passes its params objects).  Every live object keeps
   its invariant over any such history (C13_caller_histories), the VLR part holds again after the add / remove that follows
   an edit whatever was put in the list (C13_vlr_list_edited, C13_vlr_list_assigned), no operation reads the counter
   (C13_point_count_not_read), the caller's params objects are passed by value (C13_params_by_value).
   Add also requires legal parameters (edim_okb: one of the 30 types, scaled or not, or an opaque array of 4..255
   bytes; name of 1..32 bytes, description of 0..32 bytes, no NUL); an Add outside that domain is refused by the model
   and is not compared with the implementation. *)
From Coq Require Import String.
From Coq Require Import ZArith List Bool.
From LasV Require Import Lib.Base Lib.Layout Gen.GenDims Gen.GenExtraBytes Model.Las Model.ExtraDims Proofs.ExtraDimsProofs.
Import ListNotations.
Open Scope list_scope.
Open Scope Z_scope.

(* the invariant holds after every history, of any length, from any state that satisfies it: the base part and
   "(I3) or trailing un-registered bytes" always ... *)
Theorem C13_inv : forall ops s, Inv2 s -> ops_okb s ops = true -> Inv2 (run s ops).
Proof. exact run_inv2. Qed.
Print Assumptions C13_inv.

(* ... the full invariant, (I3) included, as long as no file with un-registered bytes is read ... *)
Theorem C13_inv_full : forall ops s, Inv s -> ops_okb s ops = true -> (forall o, In o ops -> op_rereads o = false) ->
  Inv (run s ops).
Proof. exact run_inv. Qed.
Print Assumptions C13_inv_full.

(* ... and, whatever was read before, again after the next successful add / remove / conversion *)
Theorem C13_inv_restored : forall s ops o, Inv2 s -> ops_okb s (ops ++ [o]) = true -> op_syncs o = true ->
  snd (step (run s ops) o) = Ok tt -> Inv (run s (ops ++ [o])).
Proof. exact run_sync_inv. Qed.
Print Assumptions C13_inv_restored.

(* histories start from a fresh LasData of any point format with any standard bytes and any foreign VLRs ... *)
Theorem C13_init : forall fmt stds vl std, std_size fmt = Some std -> 0 <= std ->
  (forall b, In b stds -> len b = std) -> filter is_eb_vlr vl = [] -> Inv (init fmt stds vl).
Proof. exact init_inv. Qed.
Print Assumptions C13_init.

(* ... or from a LasData / header made from a PointFormat that already carries extra dimensions: the extra-bytes VLR
   is there from the start (also for the empty history), before or after the foreign VLRs *)
Theorem C13_init_with_dimensions : forall fmt ex recs vl eb_last std, std_size fmt = Some std ->
  forallb edim_okb ex = true -> nodupb (extra_names ex) = true ->
  forallb (fun n => negb (mem_name n (rec_names fmt))) (extra_names ex) = true ->
  (forall b, In b recs -> len b = std + extras_size ex) -> filter is_eb_vlr vl = [] ->
  exists s, init_ex fmt ex recs vl eb_last = Ok s /\ Inv s /\ st_fmt s = fmt /\ st_extras s = ex
            /\ map rec_bytes (st_recs s) = recs /\ filter not_eb (st_vlrs s) = vl.
Proof. exact init_ex_inv. Qed.
Print Assumptions C13_init_with_dimensions.

(* (I2) after any history every record is exactly standard size + the sizes of the current extra dimensions *)
Theorem C13_record_length : forall s ops, Inv2 s -> ops_okb s ops = true ->
  exists std, std_size (st_fmt (run s ops)) = Some std
              /\ forall r, In r (st_recs (run s ops)) -> len (rec_bytes r) = std + extras_size (st_extras (run s ops)).
Proof. exact run_record_length. Qed.
Print Assumptions C13_record_length.

(* (I3) spelled out: no extra-bytes VLR at all when there is no extra dimension; otherwise exactly one, whose
   payload is the concatenation of the 192-byte descriptors of the current dimensions in order, and decoding that
   payload as the reader does gives back exactly the current dimensions (names, types, scales, offsets, descriptions) *)
Theorem C13_vlr_exactly_once : forall s, Inv s ->
  match st_extras s with
  | [] => filter is_eb_vlr (st_vlrs s) = []
  | ex => exists p, filter is_eb_vlr (st_vlrs s) = [eb_vlr p]
                    /\ eb_payload ex = Ok p /\ len p = eb_struct_size * len ex
                    /\ dec_ebs (length p) p = Ok ex
  end.
Proof. exact inv_vlr_spelled. Qed.
Print Assumptions C13_vlr_exactly_once.

(* the other case of Inv2 spelled out: the dimensions are reg ++ [ExtraBytes: n opaque bytes], 1 <= n <= 255, and
   there is at most one extra-bytes VLR, which describes exactly reg (none at all only if reg is empty) *)
Theorem C13_vlr_unregistered : forall s, Inv2 s -> ~ Inv s ->
  exists reg n, st_extras s = reg ++ [unreg n] /\ 1 <= n <= 255
    /\ match filter is_eb_vlr (st_vlrs s) with
       | [] => reg = []
       | [v] => exists p, v = eb_vlr p /\ eb_payload reg = Ok p /\ dec_ebs (length p) p = Ok reg
       | _ => False
       end.
Proof. exact inv2_vlr_spelled. Qed.
Print Assumptions C13_vlr_unregistered.

(* the other VLRs are never touched by any operation and keep their order *)
Theorem C13_other_vlrs_untouched : forall s o, Inv2 s ->
  filter not_eb (st_vlrs (fst (step s o))) = filter not_eb (st_vlrs s).
Proof. exact other_vlrs_step. Qed.
Print Assumptions C13_other_vlrs_untouched.

(* names stay pairwise different, never a field of the record of the current format, parameters stay legal *)
Theorem C13_names : forall s ops, Inv2 s -> ops_okb s ops = true ->
  NoDup (extra_names (st_extras (run s ops)))
  /\ (forall n, In n (extra_names (st_extras (run s ops))) -> ~ In n (rec_names (st_fmt (run s ops))))
  /\ forallb edim_okb (st_extras (run s ops)) = true.
Proof. exact run_names. Qed.
Print Assumptions C13_names.

(* only a conversion changes the point format id *)
Theorem C13_format_id : forall s o, Inv2 s -> (forall g stds, o <> Convert g stds) -> st_fmt (fst (step s o)) = st_fmt s.
Proof. exact step_fmt. Qed.
Print Assumptions C13_format_id.

(* (I1) one step: an extra dimension the operation does not name has, if it is still there, the same raw bytes in
   every record (reallocation, conversion and re-reading copy raw bytes) — and it IS still there unless the step reads
   a file in which it is no longer registered (then its bytes are part of "ExtraBytes") ... *)
Theorem C13_step_keeps_others : forall s o n, Inv2 s -> op_okb s o = true -> In n (extra_names (st_extras s)) ->
  ~ In n (op_names o) ->
  (In n (extra_names (st_extras (fst (step s o)))) ->
   map (field_of n) (st_recs (fst (step s o))) = map (field_of n) (st_recs s))
  /\ (op_rereads o = false -> In n (extra_names (st_extras (fst (step s o))))).
Proof. exact step_frame. Qed.
Print Assumptions C13_step_keeps_others.

(* ... whole histories: a dimension no operation names keeps its values through any sequence of adds, removes,
   assignments, conversions, round trips and truncated re-reads ... *)
Theorem C13_others_keep_values : forall ops s n, Inv2 s -> ops_okb s ops = true -> In n (extra_names (st_extras s)) ->
  (forall o, In o ops -> ~ In n (op_names o)) ->
  (In n (extra_names (st_extras (run s ops))) -> map (field_of n) (st_recs (run s ops)) = map (field_of n) (st_recs s))
  /\ ((forall o, In o ops -> op_rereads o = false) -> In n (extra_names (st_extras (run s ops)))).
Proof. exact run_frame. Qed.
Print Assumptions C13_others_keep_values.

(* ... and so do the bytes of the standard dimensions *)
Theorem C13_standard_bytes_kept : forall ops s, Inv2 s -> ops_okb s ops = true ->
  (forall o, In o ops -> op_touches_std o = false) ->
  map fst (st_recs (run s ops)) = map fst (st_recs s).
Proof. exact run_std_bytes. Qed.
Print Assumptions C13_standard_bytes_kept.

(* an operation that fails changes nothing at all *)
Theorem C13_failed_step_changes_nothing : forall s o, snd (step s o) <> Ok tt -> fst (step s o) = s.
Proof. exact failed_step_unchanged. Qed.
Print Assumptions C13_failed_step_changes_nothing.

(* the 192-byte descriptor codec: for each of the 30 types, scaled or not, and for opaque arrays of 4..255 bytes
   (sizes with bit 3 or 4 set included), any legal name and description: encoding succeeds, is 192 bytes, and the
   reader's decoding returns the dimension *)
Theorem C13_descriptor_roundtrip : forall d, edim_okb d = true ->
  exists bs, enc_eb d = Ok bs /\ len bs = eb_struct_size /\ forall rest, dec_eb (bs ++ rest) = Ok d.
Proof. exact descriptor_roundtrip. Qed.
Print Assumptions C13_descriptor_roundtrip.

(* write then read gives back the very same state: names, types, scales, offsets, descriptions, order, the raw
   values of every dimension in every record, and the VLR list — also for a state with un-registered bytes *)
Theorem C13_roundtrip : forall s, Inv2 s -> exists w, write_state s = Ok w /\ read_state w = Ok s.
Proof. exact roundtrip_id. Qed.
Print Assumptions C13_roundtrip.

(* reading a file whose extra-bytes VLR registers only the first k dimensions (Some k), or that has none (None):
   the registered dimensions stay, in order, followed by ONE opaque dimension "ExtraBytes" of exactly the bytes that
   are not registered (no such dimension when everything is registered); every point keeps all its bytes, the VLR
   list is the file's *)
Theorem C13_unregistered_bytes : forall s keep, Inv s -> op_okb s (Reread keep) = true ->
  let kept := reread_kept keep (st_extras s) in
  snd (step s (Reread keep)) = Ok tt
  /\ st_extras (fst (step s (Reread keep))) = reread_extras kept (skipn (length kept) (st_extras s))
  /\ st_vlrs (fst (step s (Reread keep))) = trunc_vlrs keep (st_vlrs s)
  /\ map rec_bytes (st_recs (fst (step s (Reread keep)))) = map rec_bytes (st_recs s).
Proof. exact reread_extras_spec. Qed.
Print Assumptions C13_unregistered_bytes.

(* the same from any reachable state (un-registered bytes already there): outcome, invariant, format id, VLRs, bytes;
   the new dimensions are a prefix of the old ones plus at most the one opaque dimension, and the records are the old
   bytes cut by the new format *)
Theorem C13_reread : forall s keep, Inv2 s -> op_okb s (Reread keep) = true ->
  Inv2 (fst (do_reread s keep)) /\ snd (do_reread s keep) = Ok tt
  /\ st_fmt (fst (do_reread s keep)) = st_fmt s
  /\ st_vlrs (fst (do_reread s keep)) = trunc_vlrs keep (st_vlrs s)
  /\ map rec_bytes (st_recs (fst (do_reread s keep))) = map rec_bytes (st_recs s)
  /\ exists std kept tail, std_size (st_fmt s) = Some std /\ st_extras (fst (do_reread s keep)) = kept ++ tail
       /\ (exists rest', st_extras s = kept ++ rest')
       /\ (tail = [] \/ exists n, tail = [unreg n])
       /\ st_recs (fst (do_reread s keep)) = map (split_rec std (kept ++ tail)) (map rec_bytes (st_recs s)).
Proof. exact reread_inv2. Qed.
Print Assumptions C13_reread.

(* conversion to another point format (any standard blocks of the target size): the extra dimensions stay what they
   are — names, types, scales, offsets, descriptions, order —, every one keeps its raw values in every record, the
   extra-bytes VLR is rebuilt from them ((I3) holds, whatever the VLR was), the other VLRs stay, the record length is
   that of the new format (Inv) *)
Theorem C13_convert : forall s g stds gstd, Inv2 s -> op_okb s (Convert g stds) = true -> std_size g = Some gstd ->
  length stds = length (st_recs s) -> (forall v, In v stds -> len v = gstd /\ bytes_ok v = true) ->
  Inv (fst (step s (Convert g stds))) /\ snd (step s (Convert g stds)) = Ok tt
  /\ st_extras (fst (step s (Convert g stds))) = st_extras s /\ st_fmt (fst (step s (Convert g stds))) = g
  /\ map fst (st_recs (fst (step s (Convert g stds)))) = stds
  /\ (forall n, map (field_of n) (st_recs (fst (step s (Convert g stds)))) = map (field_of n) (st_recs s))
  /\ filter not_eb (st_vlrs (fst (step s (Convert g stds)))) = filter not_eb (st_vlrs s).
Proof. exact convert_ok. Qed.
Print Assumptions C13_convert.

(* the header reader of the LAS file model (Model/Las.v, dec_header) derives from the VLR this model writes exactly
   the size of the extra dimensions *)
Theorem C13_reader_size_agrees : forall ex, forallb edim_okb ex = true -> forall p, eb_payload ex = Ok p ->
  forall fuel, (length ex <= fuel)%nat -> eb_total fuel p = Some (extras_size ex).
Proof. exact eb_total_payload. Qed.
Print Assumptions C13_reader_size_agrees.

(* removing a name that is not a current extra dimension (unknown or standard), or giving a name twice, is refused
   with LaspyException and nothing changes — for the whole list, wherever the bad name stands *)
Theorem C13_remove_bad : forall s names,
  (exists n, In n names /\ ~ In n (extra_names (st_extras s))) \/ ~ NoDup names ->
  step s (Remove names) = (s, Err ELaspy).
Proof. exact remove_bad. Qed.
Print Assumptions C13_remove_bad.

(* a standard dimension cannot be removed: a field of the record never (no extra dimension can be called so), a sub field
   unless an extra dimension carries that very name (then see C13_remove_named_like_standard) *)
Theorem C13_remove_record_field : forall s names n, Inv2 s -> In n (rec_names (st_fmt s)) -> In n names ->
  step s (Remove names) = (s, Err ELaspy).
Proof. exact remove_record_field. Qed.
Print Assumptions C13_remove_record_field.

Theorem C13_remove_standard : forall s names n, Inv2 s -> In n (std_names (st_fmt s)) -> ~ In n (extra_names (st_extras s)) ->
  In n names -> step s (Remove names) = (s, Err ELaspy).
Proof. exact remove_standard. Qed.
Print Assumptions C13_remove_standard.

(* the guards of ExtraBytesStruct.scale / .offset (translated from the source) test exactly the bits of the specification, each
   its own: bit 3 of `options` for the scale, bit 4 for the offset — for the 30 documented types and every options byte.  (That
   both are set or none in what laspy writes is (I3); a reader that swapped the two bits would read laspy's own files alike.) *)
Theorem C13_option_bits : forall id opt, 1 <= id <= 30 -> 0 <= opt < 256 ->
  eb_has_scale id opt = Z.testbit opt 3 /\ eb_has_offset id opt = Z.testbit opt 4.
Proof. exact option_bits. Qed.
Print Assumptions C13_option_bits.

(* round 6 — the hypothesis on names is weaker than "no standard dimension name at all" *)
Theorem C13_hypothesis_weakened : forall fmt n, mem_name n (std_names fmt) = false -> mem_name n (rec_names fmt) = false.
Proof. exact rec_names_weaker. Qed.
Print Assumptions C13_hypothesis_weakened.

(* PointFormat.dimensions after any step but a conversion: the standard dimensions of the format id, then the extra ones *)
Theorem C13_dimension_list : forall s o, Inv2 s -> (forall g stds, o <> Convert g stds) ->
  dim_names (fst (step s o)) = std_dim_names (st_fmt s) ++ extra_names (st_extras (fst (step s o))).
Proof. exact step_dim_names. Qed.
Print Assumptions C13_dimension_list.

(* an extra dimension called like a standard dimension of the format (a sub field): removing it by that name is accepted,
   exactly that extra dimension goes, the name is still a (standard) dimension, the standard bytes of every record and every
   other extra dimension are what they were, and (I3) holds *)
Theorem C13_remove_named_like_standard : forall s n, Inv2 s -> In n (std_dim_names (st_fmt s)) -> In n (extra_names (st_extras s)) ->
  let s' := fst (step s (Remove [n])) in
  snd (step s (Remove [n])) = Ok tt /\ Inv s'
  /\ (exists a d b, st_extras s = a ++ d :: b /\ ed_name d = n /\ st_extras s' = a ++ b)
  /\ ~ In n (extra_names (st_extras s'))
  /\ dim_names s' = std_dim_names (st_fmt s) ++ extra_names (st_extras s') /\ In n (dim_names s')
  /\ map fst (st_recs s') = map fst (st_recs s)
  /\ (forall m, In m (extra_names (st_extras s)) -> m <> n ->
        In m (extra_names (st_extras s')) /\ map (field_of m) (st_recs s') = map (field_of m) (st_recs s)).
Proof. exact remove_named_like_standard. Qed.
Print Assumptions C13_remove_named_like_standard.

(* accepted operations do what they say (and leave (I3) holding) *)
Theorem C13_remove_ok : forall s names, Inv2 s -> (forall n, In n names -> In n (extra_names (st_extras s))) -> NoDup names ->
  snd (step s (Remove names)) = Ok tt
  /\ st_extras (fst (step s (Remove names))) = filter (fun d => negb (mem_name (ed_name d) names)) (st_extras s)
  /\ Inv (fst (step s (Remove names))).
Proof. exact remove_ok. Qed.
Print Assumptions C13_remove_ok.

Theorem C13_add_ok : forall s ps, Inv2 s -> forallb edim_okb ps = true ->
  snd (step s (Add ps)) = Ok tt /\ st_extras (fst (step s (Add ps))) = st_extras s ++ ps.
Proof. exact add_ok. Qed.
Print Assumptions C13_add_ok.

Theorem C13_assign_reads_back : forall s n vals, Inv2 s -> snd (step s (Assign n vals)) = Ok tt ->
  map (field_of n) (st_recs (fst (step s (Assign n vals)))) = map Some vals.
Proof. exact assign_reads_back. Qed.
Print Assumptions C13_assign_reads_back.

(* whole-record assignment between the steps of a history (las.points = las.points.copy(), = other.points, = the
   record of a re-read file ...): a record whose own format compares equal (PointFormat.__eq__) is taken byte for
   byte, with any number of points, format and VLRs stay — and because C13_inv, C13_add_ok, C13_remove_ok quantify
   over histories that contain SetPoints, the adds / removes that follow behave as after any other step *)
Theorem C13_set_points_ok : forall s ex recs std, Inv2 s -> std_size (st_fmt s) = Some std -> recs_okb std ex recs = true ->
  fmt_eqv ex (st_extras s) = true ->
  snd (step s (SetPoints ex recs)) = Ok tt
  /\ st_extras (fst (step s (SetPoints ex recs))) = st_extras s
  /\ st_vlrs (fst (step s (SetPoints ex recs))) = st_vlrs s
  /\ map rec_bytes (st_recs (fst (step s (SetPoints ex recs)))) = recs.
Proof. exact set_points_ok. Qed.
Print Assumptions C13_set_points_ok.

(* in particular a record of the very same extra dimensions (no NaN among scales / offsets) is always accepted *)
Theorem C13_set_points_same_format : forall s recs std, Inv2 s -> std_size (st_fmt s) = Some std ->
  forallb no_nan_scales (st_extras s) = true -> recs_okb std (st_extras s) recs = true ->
  snd (step s (SetPoints (st_extras s) recs)) = Ok tt
  /\ st_extras (fst (step s (SetPoints (st_extras s) recs))) = st_extras s
  /\ st_vlrs (fst (step s (SetPoints (st_extras s) recs))) = st_vlrs s
  /\ map rec_bytes (st_recs (fst (step s (SetPoints (st_extras s) recs)))) = recs.
Proof. exact set_points_same_format. Qed.
Print Assumptions C13_set_points_same_format.

(* a record of a different format is refused with a LaspyException (IncompatibleDataFormat) and nothing changes *)
Theorem C13_set_points_mismatch : forall s ex recs std, std_size (st_fmt s) = Some std -> recs_okb std ex recs = true ->
  fmt_eqv ex (st_extras s) = false -> step s (SetPoints ex recs) = (s, Err ELaspy).
Proof. exact set_points_mismatch. Qed.
Print Assumptions C13_set_points_mismatch.

(* las[idx]: the selection has the point format, the extra dimensions and the VLRs of the LasData it is taken from and,
   entry by entry, the record the index designates (i, or i + n for a negative i); it satisfies the invariants of its
   parent — so every theorem above applies to the histories that start from a selection *)
Theorem C13_selection : forall s idx s', select s idx = Ok s' ->
  st_fmt s' = st_fmt s /\ st_extras s' = st_extras s /\ st_vlrs s' = st_vlrs s
  /\ Forall2 (fun i r => exists j, norm_index (len (st_recs s)) i = Some j /\ nth_error (st_recs s) (Z.to_nat j) = Some r) idx (st_recs s')
  /\ (Inv2 s -> Inv2 s') /\ (Inv s -> Inv s').
Proof. exact select_ok. Qed.
Print Assumptions C13_selection.

Theorem C13_selection_in_range : forall s idx, (forall i, In i idx -> - len (st_recs s) <= i < len (st_recs s)) ->
  exists s', select s idx = Ok s'.
Proof. exact select_in_range. Qed.
Print Assumptions C13_selection_in_range.

Theorem C13_selection_out_of_range : forall s idx, (exists i, In i idx /\ ~ (- len (st_recs s) <= i < len (st_recs s))) ->
  select s idx = Err EIndex.
Proof. exact select_out_of_range. Qed.
Print Assumptions C13_selection_out_of_range.

(* several live objects: after any history — adds, removes, assignments, round trips, conversions, re-reads, with any
   number of selections and copies in it, continued on the new object or on the old one — EVERY live LasData satisfies the
   invariant (its own record length = standard + its own extra bytes, its own extra-bytes VLR) ... *)
Theorem C13_all_live_objects : forall ops w, WInv w -> wops_okb w ops = true -> WInv (wrun w ops).
Proof. exact wrun_inv. Qed.
Print Assumptions C13_all_live_objects.

(* ... and no step reaches an object other than the current one: the other live objects stay exactly what they were (format,
   dimensions, every byte of every record, VLRs), a step only ever appends the object it leaves behind *)
Theorem C13_other_objects_untouched : forall ops w, exists new, w_others (wrun w ops) = w_others w ++ new.
Proof. exact wrun_others_kept. Qed.
Print Assumptions C13_other_objects_untouched.

Theorem C13_other_object_unchanged : forall ops w k s, nth_error (w_others w) k = Some s ->
  nth_error (w_others (wrun w ops)) k = Some s.
Proof. exact wrun_other_unchanged. Qed.
Print Assumptions C13_other_object_unchanged.

(* a world history without selections / copies is a history of the single-object model (so C13_inv ... C13_roundtrip speak
   about the current object of a world), with the same hypothesis on names *)
Theorem C13_world_current : forall ops w, wrun w (map WOp ops) = mkW (run (w_cur w) ops) (w_others w).
Proof. exact wrun_plain. Qed.
Print Assumptions C13_world_current.

Theorem C13_world_hypothesis : forall ops w, wops_okb w (map WOp ops) = ops_okb (w_cur w) ops.
Proof. exact wops_okb_plain. Qed.
Print Assumptions C13_world_hypothesis.

(* a refused selection (IndexError) or a failed returning operation leaves the whole world as it was *)
Theorem C13_failed_world_step : forall w o, snd (wstep w o) <> Ok tt -> (forall o', o <> WOp o') -> fst (wstep w o) = w.
Proof. exact wstep_failed. Qed.
Print Assumptions C13_failed_world_step.

(* ---- round 5: what belongs to the caller ---- *)
(* after ANY history of the caller — adds, removes, assignments, round trips, selections and copies, with params objects the
   caller keeps and changes, headers that count other points, VLR lists edited in place or assigned — every live LasData
   satisfies its invariant: the current one always the base part (record length = standard + extra bytes, distinct legal
   names), and the VLR part whenever its list is not in the caller's hands; the others the whole *)
Theorem C13_caller_histories : forall ops c, CInv c -> cops_okb c ops = true -> CInv (crun c ops).
Proof. exact crun_inv. Qed.
Print Assumptions C13_caller_histories.

Theorem C13_caller_histories_vlr : forall ops c, CInv c -> cops_okb c ops = true -> cw_dirty (crun c ops) = false ->
  Inv2 (cw_cur (crun c ops)).
Proof. exact crun_inv2. Qed.
Print Assumptions C13_caller_histories_vlr.

(* a successful add / remove / conversion gives the list back to the header *)
Theorem C13_sync_clears_edit : forall c o, is_ok (snd (cstep c (CW (WOp o)))) = true -> op_syncs o = true ->
  cw_dirty (fst (cstep c (CW (WOp o)))) = false.
Proof. exact cstep_sync_clean. Qed.
Print Assumptions C13_sync_clears_edit.

(* the VLR list edited in place — ANY list vl: extended with the list of another file (its extra-bytes VLR next to the own
   one), duplicates, three extra-bytes VLRs in a row, any order, the own one taken out —, then the next successful add /
   remove / conversion: exactly one extra-bytes VLR describing the current dimensions (Inv), and every other record of the
   caller's list is there, in the caller's order *)
Theorem C13_vlr_list_edited : forall s vl o, InvB s -> op_okb (set_vlrs s vl) o = true -> op_syncs o = true ->
  snd (step (set_vlrs s vl) o) = Ok tt ->
  Inv (fst (step (set_vlrs s vl) o)) /\ filter not_eb (st_vlrs (fst (step (set_vlrs s vl) o))) = filter not_eb vl.
Proof. exact edit_then_sync. Qed.
Print Assumptions C13_vlr_list_edited.

(* the list replaced through the vlrs setter: the same at once, and nothing else changes *)
Theorem C13_vlr_list_assigned : forall s vl, InvB s ->
  snd (assign_vlrs s vl) = Ok tt /\ Inv (fst (assign_vlrs s vl))
  /\ st_fmt (fst (assign_vlrs s vl)) = st_fmt s /\ st_extras (fst (assign_vlrs s vl)) = st_extras s
  /\ st_recs (fst (assign_vlrs s vl)) = st_recs s
  /\ filter not_eb (st_vlrs (fst (assign_vlrs s vl))) = filter not_eb vl.
Proof. exact assign_vlrs_inv. Qed.
Print Assumptions C13_vlr_list_assigned.

(* round 7: the synchronisation forgets what the extra-bytes records of the list SAID — the list of another file whose
   extra-bytes VLR describes dimensions of the same names and types with other scales / offsets / descriptions is
   synchronised exactly like the list without that record: the new record is rebuilt from the current dimensions alone
   (no descriptor of the old list is kept) *)
Theorem C13_sync_forgets_old_descriptors : forall ex vl1 vl2, filter not_eb vl1 = filter not_eb vl2 ->
  sync_vlrs ex vl1 = sync_vlrs ex vl2.
Proof. exact sync_vlrs_forgets. Qed.
Print Assumptions C13_sync_forgets_old_descriptors.

Theorem C13_vlr_list_assigned_forgets : forall s vl1 vl2, filter not_eb vl1 = filter not_eb vl2 ->
  assign_vlrs s vl1 = assign_vlrs s vl2.
Proof. exact assign_vlrs_forgets. Qed.
Print Assumptions C13_vlr_list_assigned_forgets.

Theorem C13_foreign_descriptors_leave_no_trace : forall s vl1 vl2 q, len q mod 192 = 0 ->
  assign_vlrs s (vl1 ++ eb_vlr q :: vl2) = assign_vlrs s (vl1 ++ vl2).
Proof. exact assign_vlrs_foreign_eb. Qed.
Print Assumptions C13_foreign_descriptors_leave_no_trace.

(* no operation reads the header's point count: histories that differ only in that counter — at the start, or by
   assignments to it along the way — have the same outcomes and end in the same world, flag and params *)
Theorem C13_point_count_not_read : forall a b o, same_but_count a b ->
  same_but_count (fst (cstep a o)) (fst (cstep b o)) /\ snd (cstep a o) = snd (cstep b o).
Proof. exact cstep_count_irrelevant. Qed.
Print Assumptions C13_point_count_not_read.

Theorem C13_point_count_irrelevant : forall ops a b, same_but_count a b -> same_but_count (crun a ops) (crun b ops).
Proof. exact crun_count_irrelevant. Qed.
Print Assumptions C13_point_count_irrelevant.

Theorem C13_point_count_assignments_erased : forall ops c,
  same_but_count (crun c ops) (crun c (filter (fun o => negb (is_count_op o)) ops)).
Proof. exact crun_count_ops_erased. Qed.
Print Assumptions C13_point_count_assignments_erased.

(* after a successful add / remove / whole-record assignment the counter is the number of points *)
Theorem C13_point_count_refreshed : forall c o, op_refreshes o = true -> is_ok (snd (cstep c (CW (WOp o)))) = true ->
  cw_count (fst (cstep c (CW (WOp o)))) = len (st_recs (cw_cur (fst (cstep c (CW (WOp o)))))).
Proof. exact cstep_count_refreshed. Qed.
Print Assumptions C13_point_count_refreshed.

(* the caller's params objects: making or changing one reaches no live object, and passing some of them is passing the
   values they have at that moment *)
Theorem C13_params_untouched : forall c o, is_param_write o = true ->
  cw_w (fst (cstep c o)) = cw_w c /\ cw_count (fst (cstep c o)) = cw_count c /\ cw_dirty (fst (cstep c o)) = cw_dirty c.
Proof. exact cstep_param_frame. Qed.
Print Assumptions C13_params_untouched.

Theorem C13_params_by_value : forall c idx ds, pick_params (cw_params c) idx = Some ds ->
  cstep c (CAddParams idx) = cstep c (CW (WOp (Add ds))).
Proof. exact cstep_add_params. Qed.
Print Assumptions C13_params_by_value.

(* no step of the caller reaches a LasData other than the current one *)
Theorem C13_caller_other_objects : forall ops c, exists new, w_others (cw_w (crun c ops)) = w_others (cw_w c) ++ new.
Proof. exact crun_others_kept. Qed.
Print Assumptions C13_caller_other_objects.

(* a caller's history made of world operations only is the world's history (so the theorems above speak about it) *)
Theorem C13_caller_world : forall ops c, cw_w (crun c (map CW ops)) = wrun (cw_w c) ops.
Proof. exact crun_plain. Qed.
Print Assumptions C13_caller_world.

Theorem C13_caller_start : forall w n ps, WInv w -> CInv (mkCW w n false ps).
Proof. exact WInv_CInv. Qed.
Print Assumptions C13_caller_start.

(* a concrete history on point format 0, two records: add a scaled 3 x float64, an opaque 10-byte array (size with
   bit 3 set) and a uint64; assign 2^53+1 and 2^64-1; remove the middle one; refused removals (unknown, standard, a
   name given twice) change nothing; round trip; remove everything: no extra-bytes VLR is left *)
Example C13_nonvacuous :
  let A := mkED [97] (TStd 30) (Some ([1; 2; 3], [4; 5; 6])) [120; 121] in
  let B := mkED [98; 98] (TOpaque 10) None [] in
  let C := mkED [99] (TStd 7) None [100] in
  let foreign := mkVlr [109; 101] 7 [100] [1; 2; 3] in
  let s0 := init 0 [repeat 1 20%nat; repeat 2 20%nat] [foreign] in
  let big := [[1; 0; 0; 0; 0; 0; 32; 0]; [255; 255; 255; 255; 255; 255; 255; 255]] in
  let ops := [Add [A; B]; Add [C]; Assign [99] big; Remove [[98; 98]]] in
  let s1 := run s0 ops in
  ops_okb s0 (ops ++ [RoundTrip; Remove [[97]; [99]]; RoundTrip]) = true
  /\ extra_names (st_extras s1) = [[97]; [99]]
  /\ map (fun r => len (rec_bytes r)) (st_recs s1) = [20 + 24 + 8; 20 + 24 + 8]
  /\ map (field_of [99]) (st_recs s1) = map Some big
  /\ map (fun v => (v_rid v, len (v_data v))) (st_vlrs s1) = [(7, 3); (4, 384)]
  /\ (match st_vlrs s1 with [_; v] => dec_ebs 2 (v_data v) | _ => Err EOther end) = Ok [A; C]
  /\ step s1 (Remove [[97]; [122]]) = (s1, Err ELaspy)
  /\ step s1 (Remove [[97]; [88]]) = (s1, Err ELaspy)
  /\ step s1 (Remove [[99]; [97]; [99]]) = (s1, Err ELaspy)
  /\ step s1 RoundTrip = (s1, Ok tt)
  (* round 6: an extra dimension called "synthetic" (a sub field of raw_classification in format 0), next to "keep"; the
     hypothesis accepts it, not "bit_fields" (a field of the record); it survives a round trip and a conversion to format 6
     (where "synthetic" is a sub field of classification_flags), is removed alone, and then the name — now only the standard
     sub field — cannot be removed *)
  /\ (let syn := bytes_of_string "synthetic" in
      let keep := bytes_of_string "keep" in
      let S := mkED syn (TStd 3) (Some ([5], [6])) [] in
      let K := mkED keep (TStd 1) None [] in
      let h := [Add [K; S]; Assign syn [[1; 2]; [3; 4]]; Assign keep [[9]; [8]]; RoundTrip; Convert 6 [repeat 5 30%nat; repeat 6 30%nat]] in
      let s6 := run s0 h in
      ops_okb s0 (h ++ [Remove [syn]]) = true
      /\ op_okb s0 (Add [mkED (bytes_of_string "bit_fields") (TStd 1) None []]) = false
      /\ mem_name syn (std_dim_names 0) = true /\ mem_name syn (std_dim_names 6) = true /\ mem_name syn (rec_names 6) = false
      /\ extra_names (st_extras s6) = [keep; syn]
      /\ map (field_of syn) (st_recs s6) = [Some [1; 2]; Some [3; 4]]
      /\ len (dim_names s6) = 18 + 2
      /\ (let s7 := fst (step s6 (Remove [syn])) in
          snd (step s6 (Remove [syn])) = Ok tt /\ extra_names (st_extras s7) = [keep]
          /\ dim_names s7 = std_dim_names 6 ++ [keep] /\ map fst (st_recs s7) = [repeat 5 30%nat; repeat 6 30%nat]
          /\ map (field_of keep) (st_recs s7) = [Some [9]; Some [8]]
          /\ map (fun v => (v_rid v, len (v_data v))) (st_vlrs s7) = [(7, 3); (4, 192)]
          /\ step s7 (Remove [syn]) = (s7, Err ELaspy)))
  /\ (let pts := [repeat 7 52%nat; repeat 8 52%nat; repeat 9 52%nat] in     (* another record, three points *)
      let s2 := run s1 [SetPoints [A; C] pts; Add [B]; Remove [[97]]] in
      ops_okb s1 [SetPoints [A; C] pts; Add [B]; Remove [[97]]] = true
      /\ extra_names (st_extras s2) = [[99]; [98; 98]]
      /\ map rec_bytes (st_recs s2) = map (fun v => repeat v 28%nat ++ repeat 0 10%nat) [7; 8; 9]
      /\ map (fun v => (v_rid v, len (v_data v))) (st_vlrs s2) = [(7, 3); (4, 384)])
  /\ step s1 (SetPoints [A] [repeat 7 44%nat]) = (s1, Err ELaspy)
  /\ st_vlrs (run s1 [Remove [[97]; [99]]; RoundTrip]) = [foreign]
  /\ map rec_bytes (st_recs (run s1 [Remove [[99]; [97]]])) = [repeat 1 20%nat; repeat 2 20%nat]
  (* conversion to point format 1 (28 standard bytes): dimensions, values and the VLR stay; the scaled one keeps its scales *)
  /\ (let s3 := run s1 [Convert 1 [repeat 5 28%nat; repeat 6 28%nat]] in
      ops_okb s1 [Convert 1 [repeat 5 28%nat; repeat 6 28%nat]] = true
      /\ st_fmt s3 = 1 /\ st_extras s3 = [A; C] /\ map (field_of [99]) (st_recs s3) = map Some big
      /\ map (fun r => len (rec_bytes r)) (st_recs s3) = [28 + 24 + 8; 28 + 24 + 8]
      /\ map (fun v => (v_rid v, len (v_data v))) (st_vlrs s3) = [(7, 3); (4, 384)])
  (* a file in which only the first dimension is registered: a, then 8 un-registered bytes as "ExtraBytes"; the next
     add registers them; a file without any extra-bytes VLR: all 32 bytes are "ExtraBytes" *)
  /\ (let s4 := run s1 [Reread (Some 1)] in
      ops_okb s1 [Reread (Some 1); Add [B]; Reread None] = true
      /\ st_extras s4 = [A; unreg 8] /\ map rec_bytes (st_recs s4) = map rec_bytes (st_recs s1)
      /\ map (fun v => (v_rid v, len (v_data v))) (st_vlrs s4) = [(7, 3); (4, 192)]
      /\ map (field_of UNREG_NAME) (st_recs s4) = map Some big
      /\ step s4 RoundTrip = (s4, Ok tt)
      /\ st_extras (run s4 [Add [B]]) = [A; unreg 8; B]
      /\ map (fun v => (v_rid v, len (v_data v))) (st_vlrs (run s4 [Add [B]])) = [(7, 3); (4, 576)]
      /\ st_extras (run s1 [Reread None]) = [unreg 32] /\ st_vlrs (run s1 [Reread None]) = [foreign])
  (* several live objects: sel = las[[1, -2]] (the second record, then the first), the history goes on with sel: add B, make
     a copy, remove a; las (two dimensions, 52-byte records) and the copy (three dimensions) stay what they were *)
  /\ (let w := wrun (mkW s1 []) [WSelect true [1; -2]; WOp (Add [B]); WCopy; WOp (Remove [[97]]); WNew RoundTrip] in
      wops_okb (mkW s1 []) [WSelect true [1; -2]; WOp (Add [B]); WCopy; WOp (Remove [[97]]); WNew RoundTrip] = true
      /\ map (fun s => extra_names (st_extras s)) (w_others w) = [[[97]; [99]]; [[97]; [99]; [98; 98]]; [[99]; [98; 98]]]
      /\ nth_error (w_others w) 0 = Some s1
      /\ extra_names (st_extras (w_cur w)) = [[99]; [98; 98]]
      /\ map (fun r => fst r) (st_recs (w_cur w)) = [repeat 2 20%nat; repeat 1 20%nat]
      /\ map (field_of [99]) (st_recs (w_cur w)) = map Some (rev big)
      /\ map (fun s => map (fun r => len (rec_bytes r)) (st_recs s)) (w_others w) = [[52; 52]; [62; 62]; [38; 38]]
      /\ snd (wstep (mkW s1 []) (WSelect false [2])) = Err EIndex)
  (* the caller: the VLR list of s1 ([foreign; own extra-bytes VLR]) is extended with the list of another file — its
     extra-bytes VLR (one dimension, B) right after the own one, then the foreign record again, then the own one once more —;
     the header announces 10 points for the 2 that are there; the caller keeps its params object, adds it, changes it, adds it
     again: one extra-bytes VLR of 3 descriptors at the end, both foreign records, two points, the first addition unchanged *)
  /\ (match eb_payload [B], st_vlrs s1 with
      | Ok pb, [f; own] =>
          let C2 := mkED [100] (TStd 4) (Some ([7], [8])) [] in
          let C3 := mkED [101] (TStd 4) (Some ([9], [10])) [] in
          let hist := [CEditVlrs [f; own; eb_vlr pb; f; own] false; CSetCount 10; CNewParam C2; CAddParams [0%nat];
                       CSetParam 0 C3; CAddParams [0%nat]; CW (WNew RoundTrip)] in
          let c := crun (mkCW (mkW s1 []) 2 false []) hist in
          cops_okb (mkCW (mkW s1 []) 2 false []) hist = true
          /\ st_extras (cw_cur c) = [A; C; C2; C3] /\ cw_count c = 2 /\ cw_dirty c = false
          /\ map (fun v => (v_rid v, len (v_data v))) (st_vlrs (cw_cur c)) = [(7, 3); (7, 3); (4, 768)]
          /\ map (fun r => len (rec_bytes r)) (st_recs (cw_cur c)) = [20 + 24 + 8 + 2 + 2; 20 + 24 + 8 + 2 + 2]
          /\ cw_dirty (crun (mkCW (mkW s1 []) 2 false []) [CEditVlrs [own; own; f] true]) = false
          /\ map v_rid (st_vlrs (cw_cur (crun (mkCW (mkW s1 []) 2 false []) [CEditVlrs [own; own; f] true]))) = [7; 4]
          /\ cw_count (crun (mkCW (mkW s1 []) 2 false []) [CRewrap [1] None; CSetCount 10; CW (WOp (Remove [[97]]))]) = 1
      | _, _ => False
      end)
  (* a LasData made from a format that already has the two dimensions: the VLR is there, before the foreign one *)
  /\ (match init_ex 0 [A; C] [repeat 3 52%nat] [foreign] false with
      | Ok s5 => map (fun v => (v_rid v, len (v_data v))) (st_vlrs s5) = [(4, 384); (7, 3)]
                 /\ map (field_of [99]) (st_recs s5) = [Some (repeat 3 8%nat)] /\ step s5 RoundTrip = (s5, Ok tt)
      | Err _ => False
      end).
Proof. vm_compute. repeat split; reflexivity. Qed.
