(* C13 — extra dimensions stay consistent across add / remove histories.
   Model: Model/ExtraDims.v.  A state is (format id, extra dimensions, per record: standard bytes and name -> raw bytes,
   VLR list); operations Add params | Remove names | Assign name raw-values | AssignStd raw-blocks |
   SetPoints format record-bytes (las.points = a record carrying its own PointFormat: a copy, the record of another
   LasData or of a re-read file, with any number of points) | RoundTrip.
   `ops_okb s ops` is the one hypothesis on inputs: the names an Add introduces are pairwise different, are not current
   extra dimensions and are not standard dimension names of the format (laspy fails inside numpy on a duplicate name
   after the header was already changed — DESIGN section 6, observation 13 — so nothing is claimed there).
   Add also requires legal parameters (edim_okb: one of the 30 types, scaled or not, or an opaque array of 4..255
   bytes; name of 1..32 bytes, description of 0..32 bytes, no NUL); an Add outside that domain is refused by the model
   and is not compared with the implementation. *)
From Coq Require Import String.
From Coq Require Import ZArith List Bool.
From LasV Require Import Lib.Base Lib.Layout Gen.GenDims Gen.GenExtraBytes Model.Las Model.ExtraDims Proofs.ExtraDimsProofs.
Import ListNotations.
Open Scope list_scope.
Open Scope Z_scope.

(* the invariant (record layout = format, legal and distinct names, exactly-one-VLR) holds after every history,
   of any length, from any state that satisfies it ... *)
Theorem C13_inv : forall ops s, Inv s -> ops_okb s ops = true -> Inv (run s ops).
Proof. exact run_inv. Qed.
Print Assumptions C13_inv.

(* ... in particular from a fresh LasData of any point format with any standard bytes and any foreign VLRs *)
Theorem C13_init : forall fmt stds vl std, std_size fmt = Some std -> 0 <= std ->
  (forall b, In b stds -> len b = std) -> filter is_eb_vlr vl = [] -> Inv (init fmt stds vl).
Proof. exact init_inv. Qed.
Print Assumptions C13_init.

(* (I2) after any history every record is exactly standard size + the sizes of the current extra dimensions *)
Theorem C13_record_length : forall s ops, Inv s -> ops_okb s ops = true ->
  exists std, std_size (st_fmt s) = Some std
              /\ forall r, In r (st_recs (run s ops)) -> len (rec_bytes r) = std + extras_size (st_extras (run s ops)).
Proof. exact run_record_length. Qed.
Print Assumptions C13_record_length.

(* (I3) after any history: no extra-bytes VLR at all when there is no extra dimension; otherwise exactly one, whose
   payload is the concatenation of the 192-byte descriptors of the current dimensions in order, and decoding that
   payload as the reader does gives back exactly the current dimensions (names, types, scales, offsets, descriptions) *)
Theorem C13_vlr_exactly_once : forall s ops, Inv s -> ops_okb s ops = true ->
  match st_extras (run s ops) with
  | [] => filter is_eb_vlr (st_vlrs (run s ops)) = []
  | ex => exists p, filter is_eb_vlr (st_vlrs (run s ops)) = [eb_vlr p]
                    /\ eb_payload ex = Ok p /\ len p = eb_struct_size * len ex
                    /\ dec_ebs (length p) p = Ok ex
  end.
Proof. exact run_vlr. Qed.
Print Assumptions C13_vlr_exactly_once.

(* the other VLRs are never touched by any operation and keep their order *)
Theorem C13_other_vlrs_untouched : forall s o, Inv s ->
  filter not_eb (st_vlrs (fst (step s o))) = filter not_eb (st_vlrs s).
Proof. exact other_vlrs_step. Qed.
Print Assumptions C13_other_vlrs_untouched.

(* names stay pairwise different, never a standard name, parameters stay legal *)
Theorem C13_names : forall s ops, Inv s -> ops_okb s ops = true ->
  NoDup (extra_names (st_extras (run s ops)))
  /\ (forall n, In n (extra_names (st_extras (run s ops))) -> ~ In n (std_names (st_fmt s)))
  /\ forallb edim_okb (st_extras (run s ops)) = true.
Proof. exact run_names. Qed.
Print Assumptions C13_names.

(* (I1) one step: an extra dimension the operation does not name is still there and has the same raw bytes in
   every record (reallocation copies raw bytes) ... *)
Theorem C13_step_keeps_others : forall s o n, Inv s -> In n (extra_names (st_extras s)) -> ~ In n (op_names o) ->
  In n (extra_names (st_extras (fst (step s o))))
  /\ map (field_of n) (st_recs (fst (step s o))) = map (field_of n) (st_recs s).
Proof. exact step_frame. Qed.
Print Assumptions C13_step_keeps_others.

(* ... whole histories: a dimension no operation names keeps its values through any sequence of adds, removes,
   assignments and round trips ... *)
Theorem C13_others_keep_values : forall ops s n, Inv s -> ops_okb s ops = true -> In n (extra_names (st_extras s)) ->
  (forall o, In o ops -> ~ In n (op_names o)) ->
  In n (extra_names (st_extras (run s ops)))
  /\ map (field_of n) (st_recs (run s ops)) = map (field_of n) (st_recs s).
Proof. exact run_frame. Qed.
Print Assumptions C13_others_keep_values.

(* ... and so do the bytes of the standard dimensions *)
Theorem C13_standard_bytes_kept : forall ops s, Inv s -> ops_okb s ops = true ->
  (forall o, In o ops -> op_touches_std o = false) ->
  map fst (st_recs (run s ops)) = map fst (st_recs s).
Proof. exact run_std_bytes. Qed.
Print Assumptions C13_standard_bytes_kept.

(* an operation that fails changes nothing at all *)
Theorem C13_failed_step_changes_nothing : forall s o, snd (step s o) <> Ok tt -> fst (step s o) = s.
Proof. exact failed_step_unchanged. Qed.
Print Assumptions C13_failed_step_changes_nothing.

(* the 192-byte descriptor codec: for each of the 30 types, scaled or not, and for opaque arrays of 4..255 bytes
   (sizes with bit 3 or 4 set included), any legal name and description: encoding succeeds, is 192 bytes, and the
   reader's decoding returns the dimension *)
Theorem C13_descriptor_roundtrip : forall d, edim_okb d = true ->
  exists bs, enc_eb d = Ok bs /\ len bs = eb_struct_size /\ forall rest, dec_eb (bs ++ rest) = Ok d.
Proof. exact descriptor_roundtrip. Qed.
Print Assumptions C13_descriptor_roundtrip.

(* write then read gives back the very same state: names, types, scales, offsets, descriptions, order, the raw
   values of every dimension in every record, and the VLR list *)
Theorem C13_roundtrip : forall s, Inv s -> exists w, write_state s = Ok w /\ read_state w = Ok s.
Proof. exact roundtrip_id. Qed.
Print Assumptions C13_roundtrip.

(* the header reader of the LAS file model (Model/Las.v, dec_header) derives from the VLR this model writes exactly
   the size of the extra dimensions *)
Theorem C13_reader_size_agrees : forall ex, forallb edim_okb ex = true -> forall p, eb_payload ex = Ok p ->
  forall fuel, (length ex <= fuel)%nat -> eb_total fuel p = Some (extras_size ex).
Proof. exact eb_total_payload. Qed.
Print Assumptions C13_reader_size_agrees.

(* removing a name that is not a current extra dimension (unknown or standard), or giving a name twice, is refused
   with LaspyException and nothing changes — for the whole list, wherever the bad name stands *)
Theorem C13_remove_bad : forall s names,
  (exists n, In n names /\ ~ In n (extra_names (st_extras s))) \/ ~ NoDup names ->
  step s (Remove names) = (s, Err ELaspy).
Proof. exact remove_bad. Qed.
Print Assumptions C13_remove_bad.

Theorem C13_remove_standard : forall s names n, Inv s -> In n (std_names (st_fmt s)) -> In n names ->
  step s (Remove names) = (s, Err ELaspy).
Proof. exact remove_standard. Qed.
Print Assumptions C13_remove_standard.

(* accepted operations do what they say *)
Theorem C13_remove_ok : forall s names, Inv s -> (forall n, In n names -> In n (extra_names (st_extras s))) -> NoDup names ->
  snd (step s (Remove names)) = Ok tt
  /\ st_extras (fst (step s (Remove names))) = filter (fun d => negb (mem_name (ed_name d) names)) (st_extras s).
Proof. exact remove_ok. Qed.
Print Assumptions C13_remove_ok.

Theorem C13_add_ok : forall s ps, Inv s -> forallb edim_okb ps = true ->
  snd (step s (Add ps)) = Ok tt /\ st_extras (fst (step s (Add ps))) = st_extras s ++ ps.
Proof. exact add_ok. Qed.
Print Assumptions C13_add_ok.

Theorem C13_assign_reads_back : forall s n vals, Inv s -> snd (step s (Assign n vals)) = Ok tt ->
  map (field_of n) (st_recs (fst (step s (Assign n vals)))) = map Some vals.
Proof. exact assign_reads_back. Qed.
Print Assumptions C13_assign_reads_back.

(* whole-record assignment between the steps of a history (las.points = las.points.copy(), = other.points, = the
   record of a re-read file ...): a record whose own format compares equal (PointFormat.__eq__) is taken byte for
   byte, with any number of points, format and VLRs stay — and because C13_inv, C13_add_ok, C13_remove_ok quantify
   over histories that contain SetPoints, the adds / removes that follow behave as after any other step *)
Theorem C13_set_points_ok : forall s ex recs std, Inv s -> std_size (st_fmt s) = Some std -> recs_okb std ex recs = true ->
  fmt_eqv ex (st_extras s) = true ->
  snd (step s (SetPoints ex recs)) = Ok tt
  /\ st_extras (fst (step s (SetPoints ex recs))) = st_extras s
  /\ st_vlrs (fst (step s (SetPoints ex recs))) = st_vlrs s
  /\ map rec_bytes (st_recs (fst (step s (SetPoints ex recs)))) = recs.
Proof. exact set_points_ok. Qed.
Print Assumptions C13_set_points_ok.

(* in particular a record of the very same extra dimensions (no NaN among scales / offsets) is always accepted *)
Theorem C13_set_points_same_format : forall s recs std, Inv s -> std_size (st_fmt s) = Some std ->
  forallb no_nan_scales (st_extras s) = true -> recs_okb std (st_extras s) recs = true ->
  snd (step s (SetPoints (st_extras s) recs)) = Ok tt
  /\ st_extras (fst (step s (SetPoints (st_extras s) recs))) = st_extras s
  /\ st_vlrs (fst (step s (SetPoints (st_extras s) recs))) = st_vlrs s
  /\ map rec_bytes (st_recs (fst (step s (SetPoints (st_extras s) recs)))) = recs.
Proof. exact set_points_same_format. Qed.
Print Assumptions C13_set_points_same_format.

(* a record of a different format is refused with a LaspyException (IncompatibleDataFormat) and nothing changes *)
Theorem C13_set_points_mismatch : forall s ex recs std, std_size (st_fmt s) = Some std -> recs_okb std ex recs = true ->
  fmt_eqv ex (st_extras s) = false -> step s (SetPoints ex recs) = (s, Err ELaspy).
Proof. exact set_points_mismatch. Qed.
Print Assumptions C13_set_points_mismatch.

(* a concrete history on point format 0, two records: add a scaled 3 x float64, an opaque 10-byte array (size with
   bit 3 set) and a uint64; assign 2^53+1 and 2^64-1; remove the middle one; refused removals (unknown, standard, a
   name given twice) change nothing; round trip; remove everything: no extra-bytes VLR is left *)
Example C13_nonvacuous :
  let A := mkED [97] (TStd 30) (Some ([1; 2; 3], [4; 5; 6])) [120; 121] in
  let B := mkED [98; 98] (TOpaque 10) None [] in
  let C := mkED [99] (TStd 7) None [100] in
  let foreign := mkVlr [109; 101] 7 [100] [1; 2; 3] in
  let s0 := init 0 [repeat 1 20%nat; repeat 2 20%nat] [foreign] in
  let big := [[1; 0; 0; 0; 0; 0; 32; 0]; [255; 255; 255; 255; 255; 255; 255; 255]] in
  let ops := [Add [A; B]; Add [C]; Assign [99] big; Remove [[98; 98]]] in
  let s1 := run s0 ops in
  ops_okb s0 (ops ++ [RoundTrip; Remove [[97]; [99]]; RoundTrip]) = true
  /\ extra_names (st_extras s1) = [[97]; [99]]
  /\ map (fun r => len (rec_bytes r)) (st_recs s1) = [20 + 24 + 8; 20 + 24 + 8]
  /\ map (field_of [99]) (st_recs s1) = map Some big
  /\ map (fun v => (v_rid v, len (v_data v))) (st_vlrs s1) = [(7, 3); (4, 384)]
  /\ (match st_vlrs s1 with [_; v] => dec_ebs 2 (v_data v) | _ => Err EOther end) = Ok [A; C]
  /\ step s1 (Remove [[97]; [122]]) = (s1, Err ELaspy)
  /\ step s1 (Remove [[97]; [88]]) = (s1, Err ELaspy)
  /\ step s1 (Remove [[99]; [97]; [99]]) = (s1, Err ELaspy)
  /\ step s1 RoundTrip = (s1, Ok tt)
  /\ (let pts := [repeat 7 52%nat; repeat 8 52%nat; repeat 9 52%nat] in     (* another record, three points *)
      let s2 := run s1 [SetPoints [A; C] pts; Add [B]; Remove [[97]]] in
      ops_okb s1 [SetPoints [A; C] pts; Add [B]; Remove [[97]]] = true
      /\ extra_names (st_extras s2) = [[99]; [98; 98]]
      /\ map rec_bytes (st_recs s2) = map (fun v => repeat v 28%nat ++ repeat 0 10%nat) [7; 8; 9]
      /\ map (fun v => (v_rid v, len (v_data v))) (st_vlrs s2) = [(7, 3); (4, 384)])
  /\ step s1 (SetPoints [A] [repeat 7 44%nat]) = (s1, Err ELaspy)
  /\ st_vlrs (run s1 [Remove [[97]; [99]]; RoundTrip]) = [foreign]
  /\ map rec_bytes (st_recs (run s1 [Remove [[99]; [97]]])) = [repeat 1 20%nat; repeat 2 20%nat].
Proof. vm_compute. repeat split; reflexivity. Qed.
