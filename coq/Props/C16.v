(* C16 — COPC HTTP fetching is schedule-independent and always terminates.
   The transition systems are in Model/Fetch.v; the worker loop and the main function are INTERPRETED from the instruction lists
   that tools/py2v_c16.py extracts from laspy/copc.py (Gen/GenFetch.v).  A schedule is any list of thread ids; `reach` covers
   every interleaving of the threads at their queue operations and request completions; all statements are for any number of
   ranges and any number >= 1 of workers, any file content and any set of failing requests. *)
From Coq Require Import ZArith List Bool Sorted Permutation.
From LasV Require Import Lib.Base Gen.GenFetch Model.Fetch Proofs.FetchProofs Proofs.FetchExecProofs Proofs.FetchPrologueProofs
  Proofs.FetchTransportProofs.
Import ListNotations.
Open Scope Z_scope.

(* ---- queue strategy ---- *)

(* no request fails: whenever main is done it has RETURNED (not raised) and the buffer holds the blocks in offset order —
   some offset-sorted permutation of the ranges in general, THE sorted list when the offsets are distinct *)
Theorem C16_queue_returns_blocks_by_offset : forall file fails ranges workers s, (1 <= workers)%nat ->
  reach gen_worker_prog file fails (init gen_main_prog ranges workers) s -> main_done s = true ->
  (forall r, In r ranges -> fails r = false) ->
  s_status s = MReturned /\
  (exists l, Permutation ranges l /\ StronglySorted (fun a b : range => fst a <= fst b) l /\ s_buf s = concat (map (slice file) l)) /\
  (NoDup (map fst ranges) -> s_buf s = concat (map (slice file) (sort_by_offset ranges))).
Proof. exact queue_safe_ok. Qed.
Print Assumptions C16_queue_returns_blocks_by_offset.

(* ... which is what the local file yields for the byte queries CopcReader builds (strictly increasing offsets) *)
Theorem C16_queue_equals_local_read : forall file fails ranges workers s, (1 <= workers)%nat ->
  StronglySorted (fun a b : range => fst a < fst b) ranges ->
  (forall r, In r ranges -> fails r = false) ->
  reach gen_worker_prog file fails (init gen_main_prog ranges workers) s -> main_done s = true ->
  s_status s = MReturned /\ s_buf s = local_read file ranges.
Proof. exact queue_equals_local. Qed.
Print Assumptions C16_queue_equals_local_read.

(* some request fails: whenever main is done it has RAISED, the exception of a failed request of this call; no data returned *)
Theorem C16_queue_failure_raises : forall file fails ranges workers s, (1 <= workers)%nat ->
  reach gen_worker_prog file fails (init gen_main_prog ranges workers) s -> main_done s = true ->
  (exists r, In r ranges /\ fails r = true) ->
  exists r, s_status s = MRaised r /\ In r ranges /\ fails r = true.
Proof. exact queue_safe_fail. Qed.
Print Assumptions C16_queue_failure_raises.

(* no deadlock: a reachable state in which no thread can move is one where main has returned/raised and EVERY worker has
   left its loop (none blocked) *)
Theorem C16_queue_no_deadlock : forall file fails ranges workers s, (1 <= workers)%nat ->
  reach gen_worker_prog file fails (init gen_main_prog ranges workers) s ->
  stuck gen_worker_prog file fails s -> main_done s = true /\ all_exited s = true.
Proof. exact queue_progress. Qed.
Print Assumptions C16_queue_no_deadlock.

(* a worker never waits: in every reachable state each worker still in its loop has an enabled step *)
Theorem C16_queue_worker_never_blocked : forall file fails ranges workers s i pc cur failed, (1 <= workers)%nat ->
  reach gen_worker_prog file fails (init gen_main_prog ranges workers) s ->
  nth_error (s_ws s) i = Some (WRun pc cur failed) ->
  exists s', step gen_worker_prog file fails s (S i) = Some s'.
Proof. exact queue_worker_never_blocked. Qed.
Print Assumptions C16_queue_worker_never_blocked.

(* termination: every step of every thread, from ANY state, strictly decreases the measure ... *)
Theorem C16_queue_terminates : forall file fails s t s', step gen_worker_prog file fails s t = Some s' ->
  (measure gen_worker_prog s' < measure gen_worker_prog s)%nat.
Proof. exact queue_terminates. Qed.
Print Assumptions C16_queue_terminates.

(* ... so no schedule, however long, contains more than 11 n + min(n, workers) + 5 enabled steps *)
Theorem C16_queue_step_bound : forall file fails ranges workers sched,
  (effective gen_worker_prog file fails (init gen_main_prog ranges workers) sched
   <= 11 * length ranges + Nat.min (length ranges) workers + 5)%nat.
Proof. exact queue_step_bound. Qed.
Print Assumptions C16_queue_step_bound.

(* regression witness: with the loop `while not q.empty(): q.get()` (test, then blocking take) there is a schedule, 2 ranges and
   2 workers, after which main has returned the right bytes and a worker is blocked for ever *)
Theorem C16_old_loop_refuted : exists sched,
  let fails := fun _ : range => false in
  let s := run old_worker_prog [7; 8] fails (init gen_main_prog [(0, 1); (1, 1)] 2) sched in
  main_done s = true /\ s_buf s = [7; 8] /\ all_exited s = false /\ stuck old_worker_prog [7; 8] fails s.
Proof. exact old_refuted. Qed.
Print Assumptions C16_old_loop_refuted.

(* ---- executor strategy ---- *)

(* once main has collected (or failed to), the outcome is a function of the request alone: the blocks in submission order =
   the local read, or the exception of the FIRST failing range in submission order — for every schedule *)
Theorem C16_exec_outcome : forall file fails ranges workers s o, (1 <= workers)%nat ->
  xreach gen_exec_stream_per_job gen_exec_collect gen_exec_job file fails (xinit ranges workers) s ->
  x_main s = XShutdown o \/ x_main s = XDone o ->
  o = match first_failing fails ranges with None => OReturned (local_read file ranges) | Some r => ORaised r end.
Proof. exact exec_safe. Qed.
Print Assumptions C16_exec_outcome.

(* when the with block has been left every pool thread has exited *)
Theorem C16_exec_pool_joined : forall file fails ranges workers s o, (1 <= workers)%nat ->
  xreach gen_exec_stream_per_job gen_exec_collect gen_exec_job file fails (xinit ranges workers) s ->
  x_main s = XDone o -> forallb is_xexit (x_ws s) = true.
Proof. exact exec_joined. Qed.
Print Assumptions C16_exec_pool_joined.

Theorem C16_exec_no_deadlock : forall file fails ranges workers s, (1 <= workers)%nat ->
  xreach gen_exec_stream_per_job gen_exec_collect gen_exec_job file fails (xinit ranges workers) s ->
  xstuck gen_exec_stream_per_job gen_exec_collect gen_exec_job file fails s -> exists o, x_main s = XDone o.
Proof. exact exec_progress. Qed.
Print Assumptions C16_exec_no_deadlock.

Theorem C16_exec_terminates : forall file fails ranges workers s t s', (1 <= workers)%nat ->
  xreach gen_exec_stream_per_job gen_exec_collect gen_exec_job file fails (xinit ranges workers) s ->
  xstep gen_exec_stream_per_job gen_exec_collect gen_exec_job file fails s t = Some s' ->
  (xmeasure gen_exec_job s' < xmeasure gen_exec_job s)%nat.
Proof. exact exec_terminates. Qed.
Print Assumptions C16_exec_terminates.

(* why each job needs its own stream, and why the results are taken by submission index *)
Theorem C16_exec_shared_stream_is_a_race : exists sched,
  let fails := fun _ : range => false in
  let file := [10; 11; 12; 13; 14; 15] in
  let ranges := [(0, 2); (2, 2)] in
  let s := xrun false BySubmission gen_exec_job file fails (xinit ranges 2) sched in
  x_main s = XDone (OReturned [12; 13; 14; 15]) /\ local_read file ranges = [10; 11; 12; 13].
Proof. exact exec_shared_stream_race. Qed.
Print Assumptions C16_exec_shared_stream_is_a_race.

Theorem C16_exec_completion_order_is_a_race : exists sched,
  let fails := fun _ : range => false in
  let file := [10; 11; 12; 13] in
  let ranges := [(0, 2); (2, 2)] in
  let s := xrun true ByCompletion gen_exec_job file fails (xinit ranges 2) sched in
  x_main s = XDone (OReturned [12; 13; 10; 11]) /\ local_read file ranges = [10; 11; 12; 13].
Proof. exact exec_completion_order_race. Qed.
Print Assumptions C16_exec_completion_order_is_a_race.

(* ---- one range request: HttpRangeStream.read as extracted from the source, against any server ---- *)

(* a request for (pos, n) fails exactly when one is made (n <> 0) and the server does not answer (connection error) or answers
   with ANY client / server error status 400..599 (incl. 416) — whatever body the error response carries *)
Theorem C16_request_fails_iff : forall server pos n,
  stream_fails gen_stream_read server (pos, n) =
  negb (n =? 0) && match server (pos, n) with None => true | Some r => (400 <=? r_status r) && (r_status r <? 600) end.
Proof. exact stream_fails_gen. Qed.
Print Assumptions C16_request_fails_iff.

(* the abstraction the transition systems use for a fetch (fails r / slice file r) is what read does: a failed request raises
   and leaves the stream where it was, any other one yields exactly the bytes of the range and moves the stream behind it *)
Theorem C16_request_spec : forall file server pos n, honest file server ->
  stream_read gen_stream_read server pos n =
  if stream_fails gen_stream_read server (pos, n) then RExc pos else RData (slice file (pos, n)) (pos + n).
Proof. exact stream_read_spec. Qed.
Print Assumptions C16_request_spec.

(* an empty range (the byte query of nodes without points) needs no request and cannot fail *)
Theorem C16_empty_range_needs_no_request : forall server pos,
  stream_read gen_stream_read server pos 0 = RData [] pos /\ stream_fails gen_stream_read server (pos, 0) = false.
Proof. exact stream_empty_range. Qed.
Print Assumptions C16_empty_range_needs_no_request.

(* ---- queue strategy, main's prologue step by step: every put and every thread start is a point where main can be preempted ---- *)

(* refinement: whatever is reachable when main's puts / starts interleave with the workers already started is reachable in the
   system above, where the prologue is one step (seen through pabs: ranges not yet put are queued, workers not yet started exist) *)
Theorem C16_queue_prologue_refines : forall file fails ranges workers ps,
  preach gen_worker_prog file fails (pinit gen_main_prog ranges workers) ps ->
  reach gen_worker_prog file fails (init gen_main_prog ranges workers) (pabs ps).
Proof. intros file fails ranges workers ps H. exact (proj2 (prologue_refines file fails ranges workers ps H)). Qed.
Print Assumptions C16_queue_prologue_refines.

(* no deadlock, step by step: when no thread can move main has queued every range, started every worker and returned / raised,
   and every worker has left its loop *)
Theorem C16_queue_steps_no_deadlock : forall file fails ranges workers ps, (1 <= workers)%nat ->
  preach gen_worker_prog file fails (pinit gen_main_prog ranges workers) ps -> pstuck gen_worker_prog file fails ps ->
  p_toput ps = [] /\ p_tostart ps = O /\ main_done (p_s ps) = true /\ all_exited (p_s ps) = true.
Proof. exact prologue_progress. Qed.
Print Assumptions C16_queue_steps_no_deadlock.

Theorem C16_queue_steps_terminate : forall file fails ranges workers ps t ps',
  preach gen_worker_prog file fails (pinit gen_main_prog ranges workers) ps ->
  pstep gen_worker_prog file fails ps t = Some ps' ->
  (pmeasure gen_worker_prog ps' < pmeasure gen_worker_prog ps)%nat.
Proof. exact prologue_terminates. Qed.
Print Assumptions C16_queue_steps_terminate.

(* ---- the strategies as CopcReader._fetch_all_chunks calls them: worker count = gen_fetch_workers http_num_threads (extracted
        from the call), requests answered by any server; ranges may be empty ---- *)

Theorem C16_http_query_queue : forall file server ranges n ps, (1 <= n)%nat ->
  StronglySorted (fun a b : range => fst a < fst b) ranges ->
  preach gen_worker_prog file (stream_fails gen_stream_read server) (pinit gen_main_prog ranges (gen_fetch_workers n)) ps ->
  main_done (p_s ps) = true ->
  if existsb (stream_fails gen_stream_read server) ranges
  then exists r, s_status (p_s ps) = MRaised r /\ In r ranges /\ snd r <> 0 /\
         (server r = None \/ exists resp, server r = Some resp /\ 400 <= r_status resp < 600)
  else s_status (p_s ps) = MReturned /\ s_buf (p_s ps) = local_read file ranges.
Proof. exact queue_http. Qed.
Print Assumptions C16_http_query_queue.

Theorem C16_http_query_executor : forall file server ranges n s o, (1 <= n)%nat ->
  xreach gen_exec_stream_per_job gen_exec_collect gen_exec_job file (stream_fails gen_stream_read server)
         (xinit ranges (gen_fetch_workers n)) s ->
  x_main s = XShutdown o \/ x_main s = XDone o ->
  o = match first_failing (stream_fails gen_stream_read server) ranges with
      | None => OReturned (local_read file ranges) | Some r => ORaised r end.
Proof. exact exec_http. Qed.
Print Assumptions C16_http_query_executor.

(* why the worker count handed to the strategies must stay >= 1 (a cap at the number of non-empty ranges breaks it): one empty
   range, no worker — main has queued the range, started nobody and waits in join() for ever *)
Theorem C16_zero_workers_deadlock :
  let fails := fun _ : range => false in
  let ps := prun gen_worker_prog [] fails (pinit gen_main_prog [(0, 0)] 0) [0; 0; 0]%nat in
  pstuck gen_worker_prog [] fails ps /\ main_done (p_s ps) = false /\ s_unf (p_s ps) = 1%nat.
Proof. exact zero_workers_deadlock. Qed.
Print Assumptions C16_zero_workers_deadlock.

(* ---- after the call: once the query has returned or raised nothing is done for it any more ---- *)

(* queue strategy: when main is done the queue is empty, every range taken has been marked done and no worker holds a range *)
Theorem C16_queue_quiet_when_done : forall file fails ranges workers s, (1 <= workers)%nat ->
  reach gen_worker_prog file fails (init gen_main_prog ranges workers) s -> main_done s = true ->
  s_q s = [] /\ s_unf s = O /\ forallb w_idle (s_ws s) = true.
Proof. exact queue_quiet. Qed.
Print Assumptions C16_queue_quiet_when_done.

(* ... and the only step any thread can still take is a worker finding the queue empty and leaving its loop: no request is
   issued, no result published, no task_done called after the call has returned or raised (the threads are not joined by
   http_queue_strategy: a worker may be on its way out when join() lets main go) *)
Theorem C16_queue_only_exits_after_done : forall file fails ranges workers s t s', (1 <= workers)%nat ->
  reach gen_worker_prog file fails (init gen_main_prog ranges workers) s -> main_done s = true ->
  step gen_worker_prog file fails s t = Some s' ->
  exists i, t = S i /\ s' = with_w s i WExit (s_q s) (s_unf s) (s_resq s).
Proof. exact queue_after_done. Qed.
Print Assumptions C16_queue_only_exits_after_done.

(* the same with main's puts and thread starts as steps of their own: every range was put, every worker started *)
Theorem C16_queue_steps_quiet_when_done : forall file fails ranges workers ps, (1 <= workers)%nat ->
  preach gen_worker_prog file fails (pinit gen_main_prog ranges workers) ps -> main_done (p_s ps) = true ->
  p_toput ps = [] /\ p_tostart ps = O /\ s_q (p_s ps) = [] /\ s_unf (p_s ps) = O /\ forallb w_idle (s_ws (p_s ps)) = true.
Proof. exact prologue_quiet. Qed.
Print Assumptions C16_queue_steps_quiet_when_done.

Theorem C16_queue_steps_only_exits_after_done : forall file fails ranges workers ps t ps', (1 <= workers)%nat ->
  preach gen_worker_prog file fails (pinit gen_main_prog ranges workers) ps -> main_done (p_s ps) = true ->
  pstep gen_worker_prog file fails ps t = Some ps' ->
  exists i, t = S i /\ ps' = mkP [] O (with_w (p_s ps) i WExit [] O (s_resq (p_s ps))).
Proof. exact prologue_after_done. Qed.
Print Assumptions C16_queue_steps_only_exits_after_done.

(* executor strategy: once the with block has been left no thread takes another step *)
Theorem C16_exec_nothing_after_done : forall file fails ranges workers s o, (1 <= workers)%nat ->
  xreach gen_exec_stream_per_job gen_exec_collect gen_exec_job file fails (xinit ranges workers) s ->
  x_main s = XDone o -> xstuck gen_exec_stream_per_job gen_exec_collect gen_exec_job file fails s.
Proof. exact exec_done_final. Qed.
Print Assumptions C16_exec_nothing_after_done.

(* ---- successive queries on ONE reader (gen_fetch_site: what _fetch_all_chunks keeps of a query for the next ones) ---- *)

(* the reader keeps nothing: every query of a session yields exactly what its own strategy run yields on its own ranges *)
Theorem C16_session_query_is_its_own_fetch : forall m qs,
  reader_session gen_fetch_site m qs = map (fun q => snd q (fst q)) qs.
Proof. exact session_direct. Qed.
Print Assumptions C16_session_query_is_its_own_fetch.

(* ... so, whatever the earlier queries were (other levels, other boxes, ranges with the same start and another length), with
   either strategy, any worker count >= 1, any schedule and any server behaviour during that query: each query yields the local
   read of its own ranges, or raises the error of one of its own failed requests *)
Theorem C16_session_each_query_equals_local : forall file (qs : list squery),
  Forall (fun q => StronglySorted (fun a b : range => fst a < fst b) (q_ranges q) /\
                   strategy_run file (q_server q) (q_ranges q) (q_fetch q (q_ranges q))) qs ->
  Forall2 (fun q o => query_spec file (q_server q) (q_ranges q) o) qs
          (reader_session gen_fetch_site [] (map (fun q => (q_ranges q, q_fetch q)) qs)).
Proof. exact session_each_query. Qed.
Print Assumptions C16_session_each_query_equals_local.

(* regression witness: a block cache in the reader keyed by the start offset of a range answers the second of two queries whose
   ranges start at the same offset with different lengths from the shorter block; keyed by (offset, size), or absent, it is right *)
Theorem C16_offset_keyed_block_cache_refuted :
  let file := [1; 2; 3; 4] in
  let honest := fun rs : list range => OReturned (local_read file rs) in
  let qs := [([(0, 2)], honest); ([(0, 4)], honest)] in
  reader_session (FsMemo true) [] qs = [OReturned [1; 2]; OReturned [1; 2]] /\
  reader_session (FsMemo false) [] qs = [OReturned [1; 2]; OReturned [1; 2; 3; 4]] /\
  reader_session gen_fetch_site [] qs = [OReturned [1; 2]; OReturned [1; 2; 3; 4]].
Proof. exact memo_by_offset_refuted. Qed.
Print Assumptions C16_offset_keyed_block_cache_refuted.

(* ---- the transport under a range request: the session of requests_retry_session (gen_retry: the Retry configuration extracted
        from it), attempt by attempt; send_cfg = (what the adapter's send yields, attempts made) ---- *)

(* every request makes at least one and at most 1 + total attempts, whatever the network does *)
Theorem C16_transport_attempts_bounded : forall net,
  (1 <= snd (send_cfg gen_retry net) <= S (rt_total gen_retry))%nat.
Proof. exact transport_attempts. Qed.
Print Assumptions C16_transport_attempts_bounded.

(* transient faults are masked: m <= total attempts refused / dropped / answered with a status of status_forcelist, then an answer
   that is not retried: THAT answer is the outcome of the request, after exactly m + 1 attempts *)
Theorem C16_transport_transient_fault_masked : forall net m,
  (m <= rt_total gen_retry)%nat ->
  (forall j, (j < m)%nat -> retryable (rt_statuses gen_retry) (net j) = true) ->
  retryable (rt_statuses gen_retry) (net m) = false ->
  send_cfg gen_retry net = (final (net m), S m).
Proof. exact transport_masked. Qed.
Print Assumptions C16_transport_transient_fault_masked.

(* 1 + total such attempts: the send raises (ConnectionError / RetryError) after exactly 1 + total attempts *)
Theorem C16_transport_retries_exhausted : forall net,
  (forall j, (j <= rt_total gen_retry)%nat -> retryable (rt_statuses gen_retry) (net j) = true) ->
  send_cfg gen_retry net = (TExhausted, S (rt_total gen_retry)).
Proof. exact transport_exhausted. Qed.
Print Assumptions C16_transport_retries_exhausted.

(* a server that answers every attempt alike: the session yields its response unless the status is one that is retried; no
   answer, a broken body or a retried status: session.get / the read of the body raises *)
Theorem C16_transport_persistent_fault : forall (a : range -> answer) r,
  via_retry gen_retry (fun r _ => a r) r =
  match a r with AResp x => if forced (rt_statuses gen_retry) (r_status x) then None else Some x | _ => None end.
Proof. exact transport_persistent. Qed.
Print Assumptions C16_transport_persistent_fault.

(* which range requests fail, seen from the network: one is made (n <> 0) and the adapter gives up, or the body breaks, or the
   answer that ends the attempts has a status 400..599 *)
Theorem C16_transport_request_fails_iff : forall net pos n,
  stream_fails gen_stream_read (via_retry gen_retry net) (pos, n) =
  negb (n =? 0) && match fst (send_cfg gen_retry (net (pos, n))) with
                   | TResp x => (400 <=? r_status x) && (r_status x <? 600)
                   | _ => true
                   end.
Proof. exact transport_request_fails_iff. Qed.
Print Assumptions C16_transport_request_fails_iff.

(* the two strategies over that transport: for every network behaviour (per range, per attempt), every schedule, every worker
   count >= 1 the query yields the local read, or raises for a range whose request failed in the sense above *)
Theorem C16_http_query_queue_over_transport : forall file net ranges n ps, (1 <= n)%nat ->
  StronglySorted (fun a b : range => fst a < fst b) ranges ->
  preach gen_worker_prog file (stream_fails gen_stream_read (via_retry gen_retry net)) (pinit gen_main_prog ranges (gen_fetch_workers n)) ps ->
  main_done (p_s ps) = true ->
  if existsb (stream_fails gen_stream_read (via_retry gen_retry net)) ranges
  then exists r, s_status (p_s ps) = MRaised r /\ In r ranges /\ stream_fails gen_stream_read (via_retry gen_retry net) r = true
  else s_status (p_s ps) = MReturned /\ s_buf (p_s ps) = local_read file ranges.
Proof. exact queue_over_transport. Qed.
Print Assumptions C16_http_query_queue_over_transport.

Theorem C16_http_query_executor_over_transport : forall file net ranges n s o, (1 <= n)%nat ->
  xreach gen_exec_stream_per_job gen_exec_collect gen_exec_job file (stream_fails gen_stream_read (via_retry gen_retry net))
         (xinit ranges (gen_fetch_workers n)) s ->
  x_main s = XShutdown o \/ x_main s = XDone o ->
  o = match first_failing (stream_fails gen_stream_read (via_retry gen_retry net)) ranges with
      | None => OReturned (local_read file ranges) | Some r => ORaised r end.
Proof. intros file net. exact (exec_http file (via_retry gen_retry net)). Qed.
Print Assumptions C16_http_query_executor_over_transport.

(* ---- what the transport keeps between requests, process-wide (gen_transport_kept, extracted from requests_retry_session,
        HttpRangeStream and the module level): a HISTORY of sends - of any number of queries, readers, streams, each send
        returning or raising - seen as the list of their `raises` flags in the order they end ---- *)

(* nothing is kept: after any history no send blocks and the state is what it was - a later query is a query on a fresh process *)
Theorem C16_history_transport_keeps_nothing : forall sends free,
  gen_transport_kept = TkNothing /\ slot_history gen_transport_kept free sends = Some free.
Proof. intros sends free. split; [exact transport_kept_nothing | exact (history_nothing_kept sends free)]. Qed.
Print Assumptions C16_history_transport_keeps_nothing.

(* contrast: a bound on the requests in flight is harmless when the slot comes back however the send ends ... *)
Theorem C16_history_slot_released_in_finally_ok : forall c sends, slot_history (TkSlots (S c) true) (S c) sends = Some (S c).
Proof. exact history_released_in_finally. Qed.
Print Assumptions C16_history_slot_released_in_finally_ok.

(* ... regression witness: when it comes back only if send RETURNS, fewer failed sends than slots show nothing, and once `capacity`
   sends have raised (spread over any queries, any successful sends in between) the next send - of a query on a healthy server -
   blocks for ever *)
Theorem C16_history_leaked_slots_refuted : forall c sends later,
  (length (filter (fun b => b) sends) < c -> slot_history (TkSlots c false) c sends <> None)%nat /\
  (length (filter (fun b => b) sends) = c -> slot_history (TkSlots c false) c (sends ++ false :: later) = None).
Proof. intros c sends later. split; [exact (history_leak_invisible c sends) | exact (history_leak_blocks c sends later)]. Qed.
Print Assumptions C16_history_leaked_slots_refuted.

(* the shape of the source the theorems above are about (regenerated from laspy/copc.py on every run) *)
Theorem C16_source_shape :
  gen_worker_prog = [ITake false; IFetch; IPutResult; IPutExc; ITaskDone] /\
  gen_main_prog = [MPutAll; MStart true; MJoin; MDrain; MSort; MAssemble] /\
  gen_stream_read = [SZeroEmpty; SRequest; SRaiseForStatus; SAdvance; SReturnContent] /\
  (forall n, gen_fetch_workers n = n) /\ gen_fetch_site = FsDirect /\ gen_transport_kept = TkNothing.
Proof. exact (conj (proj1 source_shape) (conj (proj2 source_shape) (conj sr_shape (conj fetch_workers_id (conj fetch_site_direct transport_kept_nothing))))). Qed.
Print Assumptions C16_source_shape.

(* 3 ranges queued out of offset order, 2 workers, the middle request fails / nothing fails; the higher offsets are answered first;
   and the same step by step against a server that answers the range at offset 0 with 416 and an empty body: worker 1 takes its
   first range while main is still starting worker 2 *)
Example C16_nonvacuous :
  let file := [0; 1; 2; 3; 4; 5; 6; 7; 8; 9] in
  let ranges := [(6, 2); (0, 3); (3, 1)] in
  let sched := [2; 1; 1; 1; 2; 2; 2; 2; 1; 1; 2; 2; 0; 2; 2; 2; 2; 1; 2; 0; 0; 0; 0; 0; 0; 0; 0]%nat in
  let ok := run gen_worker_prog file (fun _ => false) (init gen_main_prog ranges 2) sched in
  let ko := run gen_worker_prog file (fun r => fst r =? 0) (init gen_main_prog ranges 2) sched in
  let server := fun r : range => if fst r =? 0 then Some (mkResp 416 []) else Some (mkResp 206 (slice file r)) in
  let ps := prun gen_worker_prog file (stream_fails gen_stream_read server) (pinit gen_main_prog ranges 2)
                 ([0; 0; 0; 0; 0; 1; 0; 0; 2; 1; 1] ++ skipn 4 sched)%nat in
  let net := fun (r : range) (k : nat) =>
    if fst r =? 0 then (if Nat.ltb k 2 then ADropped else AResp (mkResp 206 (slice file r)))       (* dropped twice, then served *)
    else if fst r =? 3 then AResp (mkResp 502 [])                                                  (* 502 for ever *)
    else AResp (mkResp 206 (slice file r)) in
  (send_cfg gen_retry (net (0, 3)), send_cfg gen_retry (net (3, 1)), map (stream_fails gen_stream_read (via_retry gen_retry net)) ranges)
    = ((TResp (mkResp 206 [0; 1; 2]), 3%nat), (TExhausted, 4%nat), [false; false; true])
  /\ slot_history (TkSlots 2 false) 2 [true; false; true; false] = None
  /\ (s_status ok, s_buf ok, all_exited ok) = (MReturned, [0; 1; 2; 3; 6; 7], true)
  /\ (s_status ko, s_buf ko, all_exited ko) = (MRaised (0, 3), [], true)
  /\ (s_status (p_s ps), s_buf (p_s ps), all_exited (p_s ps), p_tostart ps, p_toput ps) = (MRaised (0, 3), [], true, O, []).
Proof. vm_compute. repeat split; reflexivity. Qed.
