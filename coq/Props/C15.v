(* C15 — COPC queries return exactly the points the octree stores in the box and levels.
   Model: Model/Copc.v (traversal with the implementation's stack discipline and the repaired page merge; key
   arithmetic, overlap test, filter and shape facts generated from laspy/copc.py into Gen/GenCopc.v).
   Numbers: all real quantities are exact multiples of 1/D (binary64 values are dyadic); float rounding of cube
   bounds and of log2 is not modelled.  `wf_tree`: a key is described once, parents exist, the page a reference
   points to describes its key, a page describing a node mentions that node's children, counts >= 0. *)
From Coq Require Import String.
From Coq Require Import ZArith List Bool Permutation.
From LasV Require Import Lib.Base Gen.GenCopc Model.Copc Proofs.CopcKeys Proofs.CopcDict Proofs.CopcTerm Proofs.CopcNodes
  Proofs.CopcPoints Proofs.CopcProofs Proofs.CopcWf Proofs.CopcReader.
Import ListNotations.
Open Scope list_scope.
Open Scope Z_scope.

(* the traversal returns, as a permutation, exactly the nodes of the selected levels whose cube overlaps the box
   (touching faces included) — any depth, sparsity, empty nodes (count 0), any split over pages *)
Theorem C15_nodes : forall t g ob lv, wf_tree t -> 0 <= g_side g -> forall fuel, (fuel_bound t <= fuel)%nat ->
  exists ns, load_octree fuel t g ob lv = Ok ns /\ Permutation ns (target t g ob lv).
Proof. exact load_octree_nodes. Qed.
Print Assumptions C15_nodes.

(* the query returns the multiset of the points of those nodes that pass the integer box filter
   MINS <= P <= MAXS (no filter without a box); 2-D boxes take their z range from the header *)
Theorem C15_points : forall t g qb hz0 hz1 q lv pts fuel,
  wf_tree t -> 0 <= g_side g -> (fuel_bound t <= fuel)%nat ->
  exists ps, query fuel t g qb hz0 hz1 q lv pts = Ok ps /\
    Permutation ps (result_of qb q (flat_map pts (target t g (ensure_3d qb hz0 hz1) (level_range lv)))).
Proof. exact query_points. Qed.
Print Assumptions C15_points.

(* every stored point of the selected levels that really lies inside the box (faces included) is returned, with its
   multiplicity: restricted to such points, the result IS the set of all points of the selected levels.
   (pts_ok: points lie in the cube of their node, are int32, and inside the header's z range) *)
Theorem C15_inside : forall t g c pts hz0 hz1,
  wf_tree t -> 0 <= g_side g -> csys_ok c -> pts_ok t c g hz0 hz1 pts ->
  forall qb b lv fuel, ensure_3d qb hz0 hz1 = Some b -> (fuel_bound t <= fuel)%nat ->
  exists ps, query fuel t g qb hz0 hz1 (exact_grid c b) lv pts = Ok ps /\
    Permutation (filter (inside c b) ps) (filter (inside c b) (level_points t (level_range lv) pts)).
Proof. exact query_inside. Qed.
Print Assumptions C15_inside.

(* nothing else is returned than points of the selected levels passing the integer filter (as a sub-multiset) ... *)
Theorem C15_upper : forall t g pts hz0 hz1, wf_tree t -> 0 <= g_side g ->
  forall qb lv q fuel, (fuel_bound t <= fuel)%nat ->
  exists ps rest, query fuel t g qb hz0 hz1 q lv pts = Ok ps /\
    Permutation (ps ++ rest) (result_of qb q (level_points t (level_range lv) pts)).
Proof. exact query_upper. Qed.
Print Assumptions C15_upper.

(* ... and a coordinate that passes the integer filter is at most half a step outside [q0, q1], for EVERY box:
   bounds beyond the int32 grid are clipped one step outside it, never onto its end points; a coordinate inside
   passes the filter *)
Theorem C15_half_step : forall q0 q1 X, 0 < snd q0 -> 0 < snd q1 -> gen_i32_min <= X <= gen_i32_max ->
  gen_keep1 (grid q0) (grid q1) X = true ->
  2 * fst q0 - snd q0 <= 2 * (X * snd q0) /\ 2 * (X * snd q1) <= 2 * fst q1 + snd q1.
Proof. exact keep1_half_step_all. Qed.
Print Assumptions C15_half_step.

Theorem C15_filter_exact : forall q0 q1 X, gen_i32_min <= X <= gen_i32_max ->
  (gen_keep1 (grid q0) (grid q1) X = true <-> rint (fst q0) (snd q0) <= X <= rint (fst q1) (snd q1)).
Proof. exact keep1_exact. Qed.
Print Assumptions C15_filter_exact.

Theorem C15_inside_kept : forall c b p, csys_ok c -> pt_i32 p -> inside c b p = true -> keep (exact_grid c b) p = true.
Proof. exact keep_inside. Qed.
Print Assumptions C15_inside_kept.

(* a box that contains the root cube (2-D: in x and y), however large — the grid bounds saturate at the int32
   range — returns all points of the selected levels *)
Theorem C15_enclosing : forall t g c pts hz0 hz1,
  wf_tree t -> 0 <= g_side g -> csys_ok c -> pts_ok t c g hz0 hz1 pts ->
  forall qb lv q fuel, encloses g qb -> (forall b, ensure_3d qb hz0 hz1 = Some b -> q = exact_grid c b) -> (fuel_bound t <= fuel)%nat ->
  exists ps, query fuel t g qb hz0 hz1 q lv pts = Ok ps /\ Permutation ps (level_points t (level_range lv) pts).
Proof. exact query_enclosing. Qed.
Print Assumptions C15_enclosing.

(* resolution: levels 0 .. L, L the first level whose spacing (spacing / 2^L) is at most the resolution *)
Theorem C15_resolution : forall sn sd rn rd, 0 < sn -> 0 < sd -> 0 < rn -> 0 < rd ->
  let L := res_level sn sd rn rd in
  (0 <= L /\ sn * rd <= rn * sd * 2 ^ L /\ (forall L', 0 <= L' < L -> rn * sd * 2 ^ L' < sn * rd))
  /\ (forall k, in_level (level_range (LvRes sn sd rn rd)) k = true <-> 0 <= kl k <= L).
Proof. exact resolution_spec. Qed.
Print Assumptions C15_resolution.

(* a reference whose page does not describe the key makes the query fail with LaspyException, in whatever state the
   traversal reaches it (self reference, page without the key, page holding a reference again) *)
Theorem C15_malformed : forall fuel t g ob lv h k st acc e,
  in_bounds g ob k = true -> below_stop lv k = true ->
  lookup k h = Some e -> is_ref e = true ->
  (forall e', lookup k (page_dict (page_at (t_pages t) (e_off e) (e_size e))) = Some e' -> is_ref e' = true) ->
  traverse (S fuel) t g ob lv h (k :: st) acc = Err ELaspy.
Proof. exact broken_reference. Qed.
Print Assumptions C15_malformed.

Theorem C15_malformed_root : forall fuel t g ob lv e,
  in_bounds g ob root_key = true -> below_stop lv root_key = true ->
  lookup root_key (page_dict (t_root t)) = Some e -> is_ref e = true ->
  (forall e', lookup root_key (page_dict (page_at (t_pages t) (e_off e) (e_size e))) = Some e' -> is_ref e' = true) ->
  load_octree (S fuel) t g ob lv = Err ELaspy.
Proof. exact broken_root_reference. Qed.
Print Assumptions C15_malformed_root.

(* it never loops: for EVERY hierarchy, well-formed or not, #references + 8 * #nodes + 1 steps suffice *)
Theorem C15_terminates : forall t g ob lv fuel, (fuel_bound t <= fuel)%nat -> load_octree fuel t g ob lv <> Err EFuel.
Proof. exact load_octree_terminates. Qed.
Print Assumptions C15_terminates.

(* an empty node (count 0) is a node: its children are visited *)
Theorem C15_empty_nodes : forall fuel t g ob lv h k st acc e,
  in_bounds g ob k = true -> below_stop lv k = true -> lookup k h = Some e -> e_cnt e = 0 ->
  traverse (S fuel) t g ob lv h (k :: st) acc =
  traverse fuel t g ob lv h (rev (children k) ++ st) (if in_level lv k then e :: acc else acc).
Proof. exact empty_node_expands. Qed.
Print Assumptions C15_empty_nodes.

(* grouping: the concatenated fetched ranges with the explicit chunk table decode (backend contract: the buffer is
   cut by the table's sizes) to the concatenation of the nodes' chunks in ascending offset order *)
Theorem C15_grouping : forall (A : Type) (dec : list Z -> Z -> list A) file ns, Forall (node_in_file file) ns ->
  fetch_and_decode dec file ns = flat_map (node_dec dec file) (sort_off ns) /\ ascending (sort_off ns).
Proof. exact grouping_spec. Qed.
Print Assumptions C15_grouping.

(* any source: local sources and the http executor strategy fill the buffer in the order of the byte queries, the http
   queue strategy gets the ranges back in ANY order and fills the buffer in ascending offset order.  When the chunks of
   the selected nodes do not overlap (`apart`, in offset order each ends before the next begins - any chunk order in the
   file, any levels), the byte queries ascend strictly, so both ways give the same buffer: the chunk table fits it and
   the decoded points are the nodes' points *)
Theorem C15_queue_order : forall ns arrival, apart (sort_off ns) ->
  Permutation arrival (byte_queries (groups (sort_off ns))) -> sort_q arrival = byte_queries (groups (sort_off ns)).
Proof. exact queue_order. Qed.
Print Assumptions C15_queue_order.

Theorem C15_any_source : forall (A : Type) (dec : list Z -> Z -> list A) file ns arrival,
  Forall (node_in_file file) ns -> apart (sort_off ns) ->
  Permutation arrival (byte_queries (groups (sort_off ns))) ->
  fetch_and_decode_queue dec file arrival ns = fetch_and_decode dec file ns
  /\ fetch_and_decode_queue dec file arrival ns = flat_map (node_dec dec file) (sort_off ns).
Proof. exact queue_strategy_spec. Qed.
Print Assumptions C15_any_source.

(* the caller's Bounds object is not modified by a query (a 2-D box stays 2-D): the same object handed to any sequence
   of queries, on the same file or on other files with other z ranges, gives for every query the answer of a Bounds
   object of its own - to which C15_points .. C15_enclosing apply *)
Theorem C15_shared_bounds : forall ss qb, session qb ss = (qb, map (query_fresh qb) ss).
Proof. exact session_shared_bounds. Qed.
Print Assumptions C15_shared_bounds.

(* ONE reader, many queries: the reader's cached hierarchy (updated in place by every page a query loads, kept when a query
   ends by an exception) and transient faults of the source at ANY read (hierarchy pages, chunk ranges).  Whatever queries
   were made before and however they ended, every query either ends by the fault injected into it or returns exactly
   (as a multiset) what C15_points says of a fresh reader: an aborted query never makes a later one lose or gain points *)
Theorem C15_reader_session : forall f qs, wf_tree (f_tree f) -> 0 <= g_side (f_geom f) ->
  Forall2 (step_ok f) qs (map snd (reader_session f (open_cache f) qs)).
Proof. exact reader_session_ok. Qed.
Print Assumptions C15_reader_session.

Theorem C15_reader_equals_fresh : forall f qs q, wf_tree (f_tree f) -> 0 <= g_side (f_geom f) -> r_fault q = None ->
  exists ps ps',
    last (map snd (reader_session f (open_cache f) (qs ++ [q]))) IOFault = Ans (Ok ps)
    /\ query (fuel_bound (f_tree f)) (f_tree f) (f_geom f) (r_box q) (f_hz0 f) (f_hz1 f) (r_grid q) (r_lv q) (f_pts f) = Ok ps'
    /\ Permutation ps ps'.
Proof. exact reader_equals_fresh. Qed.
Print Assumptions C15_reader_equals_fresh.

(* without a fault the stateful traversal IS the traversal of C15_nodes started from the cache; a fault fires at a page
   fetch before anything is merged (the cache is the one the query had reached) *)
Theorem C15_reader_traversal : forall t g ob lv fuel fault h st acc,
  (snd (traverse_rd fuel t g ob lv fault h st acc) = IOFault /\ fault <> None)
  \/ (snd (traverse_rd fuel t g ob lv fault h st acc) = Ans (traverse fuel t g ob lv h st acc)
      /\ (snd (fst (traverse_rd fuel t g ob lv fault h st acc)) <> None -> fault <> None)).
Proof. exact rd_outcome. Qed.
Print Assumptions C15_reader_traversal.

Theorem C15_fault_keeps_cache : forall fuel t g ob lv h k st acc e,
  in_bounds g ob k = true -> below_stop lv k = true -> lookup k h = Some e -> is_ref e = true ->
  traverse_rd (S fuel) t g ob lv (Some O) h (k :: st) acc = ((h, None), IOFault).
Proof. exact fault_at_first_read. Qed.
Print Assumptions C15_fault_keeps_cache.

(* a REFUSED query (broken page reference) takes nothing of the refused page over: the cache is the one the query had
   reached - so the refusal is not forgotten: a reader whose root reference is broken refuses every query that reaches the
   root, however often it is asked (no query after an aborted one returns a partial or a different result) *)
Theorem C15_refused_keeps_cache : forall fuel t g ob lv fault h k st acc e,
  in_bounds g ob k = true -> below_stop lv k = true -> lookup k h = Some e -> is_ref e = true ->
  fails_now fault = false -> page_describes k (page_at (t_pages t) (e_off e) (e_size e)) = false ->
  traverse_rd (S fuel) t g ob lv fault h (k :: st) acc = ((h, tick fault), Ans (Err ELaspy)).
Proof. exact refused_keeps_cache. Qed.
Print Assumptions C15_refused_keeps_cache.

Theorem C15_refused_forever : forall f qs h e, Forall (reaches_root f) qs ->
  lookup root_key h = Some e -> is_ref e = true ->
  page_describes root_key (page_at (t_pages (f_tree f)) (e_off e) (e_size e)) = false ->
  Forall (fun ho => ho = (h, Ans (Err ELaspy))) (reader_session f h qs).
Proof. exact refused_forever. Qed.
Print Assumptions C15_refused_forever.

(* the hypotheses are checkable: the executable checks the harness runs on every generated file imply them *)
Theorem C15_wf_check : forall t, wf_treeb t = true -> wf_tree t.
Proof. exact wf_treeb_sound. Qed.
Print Assumptions C15_wf_check.

Theorem C15_pts_check : forall t c g hz0 hz1 pts, pts_okb t c g hz0 hz1 pts = true -> pts_ok t c g hz0 hz1 pts.
Proof. exact pts_okb_sound. Qed.
Print Assumptions C15_pts_check.

Theorem C15_apart_check : forall l, apartb l = true -> apart l.
Proof. exact apartb_sound. Qed.
Print Assumptions C15_apart_check.

(* shape of the source the model relies on (checked by the translator) *)
Theorem C15_source_shape :
  gen_pop_from_end = true /\ gen_requeue_front = true /\ gen_merge_keeps_resolved = true /\ gen_groups_contiguous = true
  /\ gen_page_marker = -1 /\ gen_node_min_count = 0 /\ gen_childs_n = 8
  /\ gen_queue_sorts_by_offset = true /\ gen_ensure3d_fresh = true
  (* Bounds is a plain record (fields mins / maxs, methods overlaps / ensure_3d, no constructor hook): building a box -
     by the caller, by ensure_3d, for a voxel - has no error outcome, whatever the corners (a box without thickness is a box) *)
  /\ gen_bounds_plain = true
  (* the reader's state: the root page is read at hierarchy_root_offset (whether the hierarchy is a VLR in front of the points
     or an EVLR behind them, the root page first or not) - the `open_cache` of the model; self.root_page is the one cache the
     queries share - the `h` of reader_session; nothing else is stored on the reader outside __init__ and the decompression
     buffer is a fresh array of every call: the record a query returns is not touched by later queries (in the model results
     are values) *)
  /\ gen_root_page_at_offset = true /\ gen_cache_is_root_page = true /\ gen_query_keeps_no_buffer = true
  (* a loaded page is checked against the page-reference rule BEFORE its entries are merged (`page_describes`) *)
  /\ gen_page_checked_before_merge = true.
Proof. repeat split. Qed.
Print Assumptions C15_source_shape.

Definition ex_k1 := mkKey 1 0 0 0.
Definition ex_tree := mkTree
  [mkEntry root_key 100 10 2; mkEntry ex_k1 500 64 (-1); mkEntry (mkKey 1 1 1 1) 110 5 1]
  [((500, 64), [mkEntry ex_k1 0 0 0; mkEntry (mkKey 2 1 1 1) 50 7 3])].
Definition ex_pts (e : entry) : list pt :=
  if e_off e =? 100 then [mkPt 1 1 1 0; mkPt 7 7 7 1] else if e_off e =? 110 then [mkPt 5 5 5 2]
  else if e_off e =? 50 then [mkPt 2 2 2 3; mkPt 3 3 4 4; mkPt 3 3 3 5] else [].

Example C15_nonvacuous :
  query 34 ex_tree (mkGeom 0 0 0 8) (Box3 0 0 0 3 3 3) 0 8 (mkQ (0,1) (0,1) (0,1) (3,1) (3,1) (7,2)) LvAll ex_pts
  = Ok [mkPt 2 2 2 3; mkPt 3 3 4 4; mkPt 3 3 3 5; mkPt 1 1 1 0]
  /\ query 34 ex_tree (mkGeom 0 0 0 8) (Box2 0 0 3 3) 0 8 (mkQ (0,1) (0,1) (0,1) (3,1) (3,1) (8,1)) (LvRes 4 1 2 1) ex_pts
  = Ok [mkPt 1 1 1 0]
  /\ load_octree 3 (mkTree [mkEntry root_key 0 64 (-1)] [((0, 64), [mkEntry root_key 0 64 (-1)])]) (mkGeom 0 0 0 8) None None
  = Err ELaspy
  /\ session (Box2 0 0 3 3)
       [mkStep ex_tree (mkGeom 0 0 0 8) 0 2 (fun _ => mkQ (0,1) (0,1) (0,1) (3,1) (3,1) (2,1)) LvAll ex_pts;
        mkStep ex_tree (mkGeom 0 0 0 8) 0 8 (fun _ => mkQ (0,1) (0,1) (0,1) (3,1) (3,1) (8,1)) LvAll ex_pts]
     = (Box2 0 0 3 3, [Ok [mkPt 2 2 2 3; mkPt 1 1 1 0]; Ok [mkPt 2 2 2 3; mkPt 3 3 4 4; mkPt 3 3 3 5; mkPt 1 1 1 0]])
  /\ (let ns := [mkEntry (mkKey 0 0 0 0) 300 10 2; mkEntry (mkKey 1 0 0 0) 100 20 1; mkEntry (mkKey 2 0 0 0) 200 5 4] in
      byte_queries (groups (sort_off ns)) = [(100, 20); (200, 5); (300, 10)]
      /\ sort_q [(300, 10); (100, 20); (200, 5)] = byte_queries (groups (sort_off ns)) /\ apartb (sort_off ns) = true)
  /\ (let f := mkFile ex_tree (mkGeom 0 0 0 8) 0 8 ex_pts in let zq := mkQ (0,1) (0,1) (0,1) (3,1) (3,1) (7,2) in
      map snd (reader_session f (open_cache f)
        [mkRQ NoBox LvAll zq (Some 0%nat); mkRQ NoBox LvAll zq (Some 2%nat); mkRQ NoBox (LvInt 1) zq None;
         mkRQ (Box3 0 0 0 3 3 3) LvAll zq None])
      = [IOFault; IOFault; Ans (Ok [mkPt 5 5 5 2]); Ans (Ok [mkPt 2 2 2 3; mkPt 3 3 4 4; mkPt 3 3 3 5; mkPt 1 1 1 0])])
  /\ fuel_bound ex_tree = 34%nat /\ wf_treeb ex_tree = true
  /\ pts_okb ex_tree (mkCsys 1 (mkAxis 1 1 0) (mkAxis 1 1 0) (mkAxis 1 1 0)) (mkGeom 0 0 0 8) 0 8 ex_pts = true.
Proof. vm_compute. repeat split. Qed.
