(* C05 — the reader is a faithful cursor over the file's point sequence. *)
From Coq Require Import ZArith List Bool.
From LasV Require Import Lib.Base Gen.GenCursor Model.Cursor Proofs.CursorProofs.
Import ListNotations.
Open Scope Z_scope.

(* every finite history of read_points / seek / chunk iteration / read on a file of n >= 0 points: the outputs of
   the translated implementation equal those of the abstract cursor (empty slices identified), every returned
   slice lies inside [0, n], and the point source always stands where the cursor says *)
Theorem C05_refines : forall n ops, 0 <= n ->
  map norm_out (snd (crun (mkC n 0 0) ops)) = map norm_out (snd (srun (mkSp n 0) ops))
  /\ Forall (slice_in_bounds n) (snd (crun (mkC n 0 0) ops))
  /\ c_src (fst (crun (mkC n 0 0) ops)) = c_read (fst (crun (mkC n 0 0) ops)).
Proof. exact cursor_refines. Qed.
Print Assumptions C05_refines.

(* an empty file yields empty records (or StopIteration from the chunk iterator, refused seeks), never data *)
Theorem C05_empty_file : forall ops,
  Forall (fun o => match o with OSlice a b => a = b | OErr EStop => True | OErr EIndex => True | OErr EValue => True | _ => False end)
         (snd (crun (mkC 0 0 0) ops)).
Proof. exact cursor_empty. Qed.
Print Assumptions C05_empty_file.

(* the chunk iterator is `read_points(k)` that stops on the first empty record (shape checked by the translator) *)
Theorem C05_iterator_shape : gen_iter_stops_on_empty = true.
Proof. reflexivity. Qed.
Print Assumptions C05_iterator_shape.

Example C05_nonvacuous :
  snd (crun (mkC 10 0 0) [CRead 3; CSeek (-2) 2; CNext 5; CNext 5; CSeek 10 0; CSeek 4 1; CReadAll])
  = [OSlice 0 3; OSeek 8; OSlice 8 10; OErr EStop; OErr EIndex; OErr EIndex; OSlice 10 10].
Proof. vm_compute. reflexivity. Qed.
