(* C05 — the reader is a faithful cursor over the file's point sequence. *)
From Coq Require Import ZArith List Bool.
From LasV Require Import Lib.Base Gen.GenCursor Model.Cursor Proofs.CursorProofs Model.CursorBytes Proofs.CursorBytesProofs
  Model.CursorFault Proofs.CursorFaultProofs Model.CursorIter Proofs.CursorIterProofs.
Import ListNotations.
Open Scope Z_scope.

(* every finite history of read_points / seek / chunk iteration / read on a file of n >= 0 points: the outputs of
   the translated implementation equal those of the abstract cursor (empty slices identified), every returned
   slice lies inside [0, n], and the point source always stands where the cursor says *)
Theorem C05_refines : forall n ops, 0 <= n ->
  map norm_out (snd (crun (mkC n 0 0) ops)) = map norm_out (snd (srun (mkSp n 0) ops))
  /\ Forall (slice_in_bounds n) (snd (crun (mkC n 0 0) ops))
  /\ c_src (fst (crun (mkC n 0 0) ops)) = c_read (fst (crun (mkC n 0 0) ops)).
Proof. exact cursor_refines. Qed.
Print Assumptions C05_refines.

(* an empty file yields empty records (or StopIteration from the chunk iterator, refused seeks), never data *)
Theorem C05_empty_file : forall ops,
  Forall (fun o => match o with OSlice a b => a = b | OErr EStop => True | OErr EIndex => True | OErr EValue => True | _ => False end)
         (snd (crun (mkC 0 0 0) ops)).
Proof. exact cursor_empty. Qed.
Print Assumptions C05_empty_file.

(* the chunk iterator is `read_points(k)` that stops on the first empty record (shape checked by the translator) *)
Theorem C05_iterator_shape : gen_iter_stops_on_empty = true.
Proof. reflexivity. Qed.
Print Assumptions C05_iterator_shape.

(* byte level, any file (also one laspy did not write): the header announces offset off, record length L and count n; a reader
   that addresses the stream with stride L returns, for every history, exactly the bytes of the records named by the cursor
   (hence, with C05_refines, by the abstract cursor of the property) ... *)
Theorem C05_bytes : forall off L n ops,
  snd (brun off L (mkB n 0 off) ops) = map (out_bytes off L) (snd (crun (mkC n 0 0) ops)).
Proof. exact cursor_bytes. Qed.
Print Assumptions C05_bytes.

(* ... never a byte outside the n records of the point data, and the stream stands at the first byte of the cursor's record *)
Theorem C05_bytes_bounds : forall off L n ops, 0 <= n -> 0 <= L ->
  Forall (bytes_in_bounds off (off + n * L)) (snd (brun off L (mkB n 0 off) ops))
  /\ b_pos (fst (brun off L (mkB n 0 off) ops)) = off + b_read (fst (brun off L (mkB n 0 off) ops)) * L.
Proof. exact cursor_bytes_bounds. Qed.
Print Assumptions C05_bytes_bounds.

(* the stride the reader uses (header.point_format.size as rebuilt by read_from; compared with the header's record length on
   every file by the correspondence) must BE the record length: any other stride already fails on the first read of two records *)
Theorem C05_stride_necessary : forall off L st n, 2 <= n -> st <> L ->
  snd (brun off st (mkB n 0 off) [CRead 2]) <> map (out_bytes off L) (snd (crun (mkC n 0 0) [CRead 2])).
Proof. exact stride_necessary. Qed.
Print Assumptions C05_stride_necessary.

(* ---- histories with faults (the source raises once during a call, before consuming anything; the caller goes on) and with
   caller operations on the objects the reader handed out (Model/CursorFault.v) ---- *)

(* a call during which the source raised leaves the cursor AND the source position where they were (record and byte level);
   a call that does not reach the source (nothing left to read, refused seek target) cannot see the fault *)
Theorem C05_failed_call_is_noop : forall s op, touches (c_n s) (c_read s) op = true -> fstep s (FFail op) = (s, [OErr EOther]).
Proof. exact fault_noop. Qed.
Print Assumptions C05_failed_call_is_noop.
Theorem C05_failed_call_is_noop_bytes : forall off st s op,
  touches (b_n s) (b_read s) op = true -> bfstep off st s (FFail op) = (s, [BErr EOther]).
Proof. exact fault_noop_bytes. Qed.
Print Assumptions C05_failed_call_is_noop_bytes.
Theorem C05_fault_unseen : forall s op, touches (c_n s) (c_read s) op = false -> fstep s (FFail op) = fstep s (FOk op).
Proof. exact fault_unseen. Qed.
Print Assumptions C05_fault_unseen.

(* every history with faults and caller operations refines the abstract cursor in which a failed call is a no-op *)
Theorem C05_refines_with_faults : forall n fops, 0 <= n ->
  map norm_out (snd (frun (mkC n 0 0) fops)) = map norm_out (snd (sfrun (mkSp n 0) fops))
  /\ Forall (slice_in_bounds n) (snd (frun (mkC n 0 0) fops))
  /\ c_src (fst (frun (mkC n 0 0) fops)) = c_read (fst (frun (mkC n 0 0) fops)).
Proof. exact fault_refines. Qed.
Print Assumptions C05_refines_with_faults.

(* what such a history delivers is exactly what the history WITHOUT the failed calls and the caller operations delivers: no record
   is lost, none is delivered twice, and the reader ends in the same state *)
Theorem C05_faults_transparent : forall s fops,
  fst (frun s fops) = fst (crun s (erase s fops))
  /\ filter (fun o => negb (is_fault o)) (snd (frun s fops)) = snd (crun s (erase s fops)).
Proof. exact fault_erasure. Qed.
Print Assumptions C05_faults_transparent.

(* byte level: the bytes of the records the cursor names; after every call, failed or not, the stream stands at the cursor's record *)
Theorem C05_bytes_with_faults : forall off L n fops, 0 <= n ->
  snd (bfrun off L (mkB n 0 off) fops) = map (out_bytes off L) (snd (frun (mkC n 0 0) fops))
  /\ b_pos (fst (bfrun off L (mkB n 0 off) fops)) = off + b_read (fst (bfrun off L (mkB n 0 off) fops)) * L.
Proof. exact fault_bytes. Qed.
Print Assumptions C05_bytes_with_faults.

(* "ask the source, THEN advance the cursor" is necessary: a reader that advances first no longer delivers the file after one failed read *)
Theorem C05_cursor_after_source_necessary : forall n k, 1 <= n -> 1 <= k ->
  map norm_out (snd (frun_early (mkC n 0 0) [FFail (CRead k); FOk CReadAll]))
  <> map norm_out (snd (sfrun (mkSp n 0) [FFail (CRead k); FOk CReadAll])).
Proof. exact early_cursor_loses. Qed.
Print Assumptions C05_cursor_after_source_necessary.

(* ---- the complete iteration `for chunk in chunk_iterator(k)` and the life of the reader after it (Model/CursorIter.v) ---- *)

(* from any state a history reaches (source at the cursor, C05_refines), for every chunk size k >= 1: the chunks of the loop tile
   the rest of the file - consecutive, none empty, k records each except a shorter last one - and the loop leaves an ordinary
   reader state: cursor and source at the last record *)
Theorem C05_for_loop : forall s k, 1 <= k -> 0 <= c_read s <= c_n s ->
  fst (for_loop s k) = mkC (c_n s) (c_n s) (c_src s + (c_n s - c_read s))
  /\ tiles (c_src s) (c_src s + (c_n s - c_read s)) k (snd (for_loop s k)).
Proof. exact for_loop_spec. Qed.
Print Assumptions C05_for_loop.
(* the loop is next() until StopIteration: more next(k) calls than there are chunks give the chunks, then StopIteration only, and
   the same final state (so every theorem about histories speaks about histories with complete loops in them) *)
Theorem C05_for_loop_is_repeated_next : forall s k m, 1 <= k -> 0 <= c_read s <= c_n s ->
  (length (snd (for_loop s k)) < m)%nat ->
  crun s (repeat (CNext k) m) = (fst (for_loop s k), snd (for_loop s k) ++ repeat (OErr EStop) (m - length (snd (for_loop s k)))).
Proof. exact for_loop_is_repeated_next. Qed.
Print Assumptions C05_for_loop_is_repeated_next.
(* the reader outlives the loop: a seek to any point of the file afterwards is served *)
Theorem C05_seek_after_for_loop : forall s k pos, 1 <= k -> 0 <= c_read s <= c_n s -> 0 <= pos < c_n s ->
  cstep (fst (for_loop s k)) (CSeek pos 0) = (mkC (c_n s) pos pos, OSeek pos).
Proof. exact seek_after_loop. Qed.
Print Assumptions C05_seek_after_for_loop.
(* necessity: an iterator that closes the reader when exhausted refuses exactly those seeks *)
Theorem C05_closing_iterator_breaks : forall s k pos, 1 <= k -> 0 <= c_read s <= c_n s -> 0 <= pos < c_n s ->
  closed_after_loop_seek (fst (for_loop s k)) pos 0 <> snd (cstep (fst (for_loop s k)) (CSeek pos 0)).
Proof. exact closing_iterator_breaks. Qed.
Print Assumptions C05_closing_iterator_breaks.

Example C05_nonvacuous :
  snd (crun (mkC 10 0 0) [CRead 3; CSeek (-2) 2; CNext 5; CNext 5; CSeek 10 0; CSeek 4 1; CReadAll])
  = [OSlice 0 3; OSeek 8; OSlice 8 10; OErr EStop; OErr EIndex; OErr EIndex; OSlice 10 10]
  /\ snd (brun 300 37 (mkB 10 0 300) [CRead 3; CSeek (-2) 2; CNext 5; CNext 5; CSeek 4 0; CReadAll])
  = [BBytes 300 411; BSeek 8; BBytes 596 670; BErr EStop; BSeek 4; BBytes 448 670]
  /\ snd (bfrun 300 37 (mkB 10 0 300) [FOk (CRead 4); FFail (CRead 5); FCaller; FOk (CRead 5); FFail (CSeek 1 1); FFail (CSeek 1 0);
                                        FOk (CSeek 1 1); FFail CReadAll; FOk CReadAll; FFail CReadAll; FFail (CNext 2)])
  = [BBytes 300 448; BErr EOther; BBytes 448 633; BErr EIndex; BErr EOther; BErr EIndex; BErr EOther; BBytes 633 670; BBytes 670 670; BErr EStop]
  /\ erase (mkC 10 0 0) [FOk (CRead 4); FFail (CRead 5); FCaller; FOk (CRead 5); FFail CReadAll; FOk CReadAll; FFail CReadAll]
  = [CRead 4; CRead 5; CReadAll; CReadAll]
  /\ for_loop (mkC 10 3 3) 4 = (mkC 10 10 10, [OSlice 3 7; OSlice 7 10])
  /\ snd (crun (mkC 10 3 3) (repeat (CNext 4) 4 ++ [CSeek 0 0; CNext 4])) = [OSlice 3 7; OSlice 7 10; OErr EStop; OErr EStop; OSeek 0; OSlice 0 4].
Proof. vm_compute. repeat split; reflexivity. Qed.
