(* C05 — the reader is a faithful cursor over the file's point sequence. *)
From Coq Require Import ZArith List Bool.
From LasV Require Import Lib.Base Gen.GenCursor Model.Cursor Proofs.CursorProofs Model.CursorBytes Proofs.CursorBytesProofs.
Import ListNotations.
Open Scope Z_scope.

(* every finite history of read_points / seek / chunk iteration / read on a file of n >= 0 points: the outputs of
   the translated implementation equal those of the abstract cursor (empty slices identified), every returned
   slice lies inside [0, n], and the point source always stands where the cursor says *)
Theorem C05_refines : forall n ops, 0 <= n ->
  map norm_out (snd (crun (mkC n 0 0) ops)) = map norm_out (snd (srun (mkSp n 0) ops))
  /\ Forall (slice_in_bounds n) (snd (crun (mkC n 0 0) ops))
  /\ c_src (fst (crun (mkC n 0 0) ops)) = c_read (fst (crun (mkC n 0 0) ops)).
Proof. exact cursor_refines. Qed.
Print Assumptions C05_refines.

(* an empty file yields empty records (or StopIteration from the chunk iterator, refused seeks), never data *)
Theorem C05_empty_file : forall ops,
  Forall (fun o => match o with OSlice a b => a = b | OErr EStop => True | OErr EIndex => True | OErr EValue => True | _ => False end)
         (snd (crun (mkC 0 0 0) ops)).
Proof. exact cursor_empty. Qed.
Print Assumptions C05_empty_file.

(* the chunk iterator is `read_points(k)` that stops on the first empty record (shape checked by the translator) *)
Theorem C05_iterator_shape : gen_iter_stops_on_empty = true.
Proof. reflexivity. Qed.
Print Assumptions C05_iterator_shape.

(* byte level, any file (also one laspy did not write): the header announces offset off, record length L and count n; a reader
   that addresses the stream with stride L returns, for every history, exactly the bytes of the records named by the cursor
   (hence, with C05_refines, by the abstract cursor of the property) ... *)
Theorem C05_bytes : forall off L n ops,
  snd (brun off L (mkB n 0 off) ops) = map (out_bytes off L) (snd (crun (mkC n 0 0) ops)).
Proof. exact cursor_bytes. Qed.
Print Assumptions C05_bytes.

(* ... never a byte outside the n records of the point data, and the stream stands at the first byte of the cursor's record *)
Theorem C05_bytes_bounds : forall off L n ops, 0 <= n -> 0 <= L ->
  Forall (bytes_in_bounds off (off + n * L)) (snd (brun off L (mkB n 0 off) ops))
  /\ b_pos (fst (brun off L (mkB n 0 off) ops)) = off + b_read (fst (brun off L (mkB n 0 off) ops)) * L.
Proof. exact cursor_bytes_bounds. Qed.
Print Assumptions C05_bytes_bounds.

(* the stride the reader uses (header.point_format.size as rebuilt by read_from; compared with the header's record length on
   every file by the correspondence) must BE the record length: any other stride already fails on the first read of two records *)
Theorem C05_stride_necessary : forall off L st n, 2 <= n -> st <> L ->
  snd (brun off st (mkB n 0 off) [CRead 2]) <> map (out_bytes off L) (snd (crun (mkC n 0 0) [CRead 2])).
Proof. exact stride_necessary. Qed.
Print Assumptions C05_stride_necessary.

Example C05_nonvacuous :
  snd (crun (mkC 10 0 0) [CRead 3; CSeek (-2) 2; CNext 5; CNext 5; CSeek 10 0; CSeek 4 1; CReadAll])
  = [OSlice 0 3; OSeek 8; OSlice 8 10; OErr EStop; OErr EIndex; OErr EIndex; OSlice 10 10]
  /\ snd (brun 300 37 (mkB 10 0 300) [CRead 3; CSeek (-2) 2; CNext 5; CNext 5; CSeek 4 0; CReadAll])
  = [BBytes 300 411; BSeek 8; BBytes 596 670; BErr EStop; BSeek 4; BBytes 448 670].
Proof. vm_compute. split; reflexivity. Qed.
