(* C08 — VLRs and EVLRs are preserved verbatim and in order; known record types re-serialise to a payload that
   parses to the same content; payloads that cannot be parsed are kept as raw records, unchanged. *)
From Coq Require Import String.
From Coq Require Import ZArith List Bool.
From LasV Require Import Lib.Base Lib.Layout Gen.GenHeaderLayout Gen.GenKnown Spec.Asprs Model.Las Model.LasSpec
  Proofs.AsprsLayoutProofs Proofs.VlrProofs Model.Known Proofs.KnownProofs Proofs.KnownIOProofs Proofs.KnownEditProofs.
Import ListNotations.
Open Scope list_scope.
Open Scope Z_scope.

(* ---------------- the list codec (VLR: ext = false, EVLR: ext = true) ---------------- *)
(* any list of well-formed records, any length, followed by anything: read back equal, in order *)
Theorem C08_list_roundtrip : forall ext vl bs rest,
  forallb (wf_vlr ext) vl = true -> enc_vlrs ext vl = Ok bs ->
  dec_vlrs ext (length vl) (bs ++ rest) = Ok (vl, rest).
Proof. exact dec_enc_vlrs. Qed.
Print Assumptions C08_list_roundtrip.

(* well-formed lists are always written: 54 (60) header bytes plus the payload per record, nothing else *)
Theorem C08_list_encodes : forall ext vl, forallb (wf_vlr ext) vl = true ->
  exists bs, enc_vlrs ext vl = Ok bs
   /\ len bs = fold_right (fun v acc => (if ext then 60 else 54) + len (v_data v) + acc) 0 vl
   /\ bytes_ok bs = true.
Proof. exact enc_vlrs_ok. Qed.
Print Assumptions C08_list_encodes.

(* an over-long VLR payload anywhere in the list is refused, never truncated *)
Theorem C08_oversize_refused : forall vl v, In v vl -> len (v_data v) > 65535 -> is_ok (enc_vlrs false vl) = false.
Proof. exact enc_vlrs_oversize. Qed.
Print Assumptions C08_oversize_refused.

Theorem C08_list_append : forall ext a b ba bb, enc_vlrs ext a = Ok ba -> enc_vlrs ext b = Ok bb ->
  enc_vlrs ext (a ++ b) = Ok (ba ++ bb).
Proof. exact enc_vlrs_app. Qed.
Print Assumptions C08_list_append.

(* the record-header field sequences extracted from VLRList.write_to / read_from on this run are the
   specification's 54- and 60-byte layouts (user id 16 and description 32 bytes, fixed width, NUL padded) *)
Theorem C08_layout_vlr_write : vlr_write_layout_std = spec_vlr_layout false.
Proof. exact vlr_write_std. Qed.
Print Assumptions C08_layout_vlr_write.
Theorem C08_layout_evlr_write : vlr_write_layout_ext = spec_vlr_layout true.
Proof. exact vlr_write_ext. Qed.
Print Assumptions C08_layout_evlr_write.
Theorem C08_layout_vlr_read : vlr_read_layout_std = spec_vlr_layout false.
Proof. exact vlr_read_std. Qed.
Print Assumptions C08_layout_vlr_read.
Theorem C08_layout_evlr_read : vlr_read_layout_ext = spec_vlr_layout true.
Proof. exact vlr_read_ext. Qed.
Print Assumptions C08_layout_evlr_read.

(* ---------------- the dispatch of the running module ---------------- *)
Theorem C08_struct_sizes : lookup_entry_size = 16%nat /\ lookup_name_size = 15%nat /\ eb_struct_size = 192%nat
  /\ wf_struct_size = 26%nat /\ gk_header_size = 8%nat /\ gk_entry_size = 8%nat /\ double_size = 8%nat
  /\ factory_first_match_with_fallback = true.
Proof. exact struct_sizes. Qed.
Print Assumptions C08_struct_sizes.

(* every user id, every 16-bit record id: the generated table selects the class the specification names *)
Theorem C08_dispatch_spec : forall uid rid, 0 <= rid < 65536 -> find_class known_table uid rid = class_spec uid rid.
Proof. exact dispatch_spec. Qed.
Print Assumptions C08_dispatch_spec.

(* ---------------- per type: stability of the parsed content, byte identity, failure ---------------- *)
Theorem C08_lookup_stable : forall p l, bytes_ok p = true -> parse_lookup p = Some l ->
  exists q, ser_lookup l = Ok q /\ parse_lookup q = Some l /\ bytes_ok q = true.
Proof. exact lookup_stable. Qed.
Print Assumptions C08_lookup_stable.
Theorem C08_lookup_identity : forall p l, bytes_ok p = true -> wf_lookup_payload p = true -> parse_lookup p = Some l ->
  ser_lookup l = Ok p.
Proof. exact lookup_identity. Qed.
Print Assumptions C08_lookup_identity.
Theorem C08_lookup_bad_length : forall p, (length p mod lookup_entry_size <> 0)%nat -> parse_lookup p = None.
Proof. exact lookup_bad_length. Qed.
Print Assumptions C08_lookup_bad_length.

Theorem C08_extra_identity : forall p c, parse_extra p = Some c -> ser_extra c = p.
Proof. exact extra_identity. Qed.
Print Assumptions C08_extra_identity.
Theorem C08_extra_stable : forall p c, parse_extra p = Some c -> parse_extra (ser_extra c) = Some c.
Proof. exact extra_stable. Qed.
Print Assumptions C08_extra_stable.
Theorem C08_extra_parses : forall p, (length p mod eb_struct_size = 0)%nat -> exists c, parse_extra p = Some c.
Proof. exact extra_parses. Qed.
Print Assumptions C08_extra_parses.
Theorem C08_extra_bad_length : forall p, (length p mod eb_struct_size <> 0)%nat -> parse_extra p = None.
Proof. exact extra_bad_length. Qed.
Print Assumptions C08_extra_bad_length.

Theorem C08_doubles_identity : forall p c, parse_doubles p = Some c -> ser_doubles c = p.
Proof. exact doubles_identity. Qed.
Print Assumptions C08_doubles_identity.
Theorem C08_doubles_stable : forall p c, parse_doubles p = Some c -> parse_doubles (ser_doubles c) = Some c.
Proof. exact doubles_stable. Qed.
Print Assumptions C08_doubles_stable.
Theorem C08_doubles_parses : forall p, (length p mod double_size = 0)%nat -> exists c, parse_doubles p = Some c.
Proof. exact doubles_parses. Qed.
Print Assumptions C08_doubles_parses.
Theorem C08_doubles_bad_length : forall p, (length p mod double_size <> 0)%nat -> parse_doubles p = None.
Proof. exact doubles_bad_length. Qed.
Print Assumptions C08_doubles_bad_length.

Theorem C08_waveform_stable : forall p c, parse_wave p = Some c -> parse_wave (ser_wave c) = Some c.
Proof. exact wave_stable. Qed.
Print Assumptions C08_waveform_stable.
Theorem C08_waveform_identity : forall p c, length p = wf_struct_size -> parse_wave p = Some c -> ser_wave c = p.
Proof. exact wave_identity. Qed.
Print Assumptions C08_waveform_identity.
Theorem C08_waveform_short : forall p, (length p < wf_struct_size)%nat -> parse_wave p = None.
Proof. exact wave_short. Qed.
Print Assumptions C08_waveform_short.

Theorem C08_geokeys_stable : forall p g, parse_geokeys p = Some g -> parse_geokeys (ser_geokeys g) = Some g.
Proof. exact geokeys_stable. Qed.
Print Assumptions C08_geokeys_stable.
Theorem C08_geokeys_identity : forall p g, wf_geokeys_payload p = true -> parse_geokeys p = Some g -> ser_geokeys g = p.
Proof. exact geokeys_identity. Qed.
Print Assumptions C08_geokeys_identity.
Theorem C08_geokeys_short : forall p, (length p < gk_header_size)%nat -> parse_geokeys p = None.
Proof. exact geokeys_short. Qed.
Print Assumptions C08_geokeys_short.

(* join after split is the identity on every byte string *)
Theorem C08_ascii_join_split : forall p, join_nul (split_nul p) = p.
Proof. exact join_split_nul. Qed.
Print Assumptions C08_ascii_join_split.
Theorem C08_ascii_identity : forall p c, parse_ascii p = Some c -> ser_ascii c = p.
Proof. exact ascii_identity. Qed.
Print Assumptions C08_ascii_identity.
Theorem C08_ascii_stable : forall p c, parse_ascii p = Some c -> parse_ascii (ser_ascii c) = Some c.
Proof. exact ascii_stable. Qed.
Print Assumptions C08_ascii_stable.
Theorem C08_ascii_undecodable : forall p, ascii_ok p = false -> parse_ascii p = None.
Proof. exact ascii_undecodable. Qed.
Print Assumptions C08_ascii_undecodable.

Theorem C08_wkt_stable : forall p s, parse_wkt p = Some s -> parse_wkt (ser_wkt s) = Some s.
Proof. exact wkt_stable. Qed.
Print Assumptions C08_wkt_stable.
(* trailing NULs stripped on parse, exactly one ensured on write *)
Theorem C08_wkt_normal_form : forall p s, parse_wkt p = Some s -> ser_wkt s = strip_nul p ++ [0] /\ last s 1 <> 0.
Proof. exact wkt_normal_form. Qed.
Print Assumptions C08_wkt_normal_form.
Theorem C08_wkt_identity : forall p s, p = strip_nul p ++ [0] -> parse_wkt p = Some s -> ser_wkt s = p.
Proof. exact wkt_identity. Qed.
Print Assumptions C08_wkt_identity.
Theorem C08_wkt_undecodable : forall p, ascii_ok p = false -> parse_wkt p = None.
Proof. exact wkt_undecodable. Qed.
Print Assumptions C08_wkt_undecodable.

(* ---------------- vlr_factory ---------------- *)
(* whatever the reader hands out (raw or parsed): the record written for it is dispatched to the same class, parses
   to the same content, and carries the same user id, record id and description *)
Theorem C08_factory_stable : forall v v', bytes_ok (v_data v) = true -> kv_record (vlr_factory v) = Ok v' ->
  vlr_factory v' = vlr_factory v /\ v_uid v' = v_uid v /\ v_rid v' = v_rid v /\ v_desc v' = v_desc v
  /\ bytes_ok (v_data v') = true.
Proof. exact factory_stable. Qed.
Print Assumptions C08_factory_stable.

(* no class for the ids, or the class's parser fails: the raw record is kept and written back unchanged *)
Theorem C08_factory_fallback : forall v,
  (find_class known_table (v_uid v) (v_rid v) = None
   \/ exists cls lo, find_class known_table (v_uid v) (v_rid v) = Some (cls, lo) /\ parse_class cls (v_data v) = Some None) ->
  vlr_factory v = KRaw v /\ normalise v = Ok v.
Proof. exact factory_fallback. Qed.
Print Assumptions C08_factory_fallback.

Theorem C08_factory_unknown : forall v, 0 <= v_rid v < 65536 -> class_spec (v_uid v) (v_rid v) = None -> vlr_factory v = KRaw v.
Proof. exact factory_unknown. Qed.
Print Assumptions C08_factory_unknown.

(* ---------------- lists through the reader ---------------- *)
Theorem C08_read_after_write : forall ext vl bs rest, forallb (wf_vlr ext) vl = true -> enc_vlrs ext vl = Ok bs ->
  read_known ext (length vl) (bs ++ rest) = Ok (map vlr_factory vl, rest).
Proof. exact read_after_write. Qed.
Print Assumptions C08_read_after_write.

(* what was read, written again and read again: the same records in the same order *)
Theorem C08_next_generation : forall ext vl vl' bs' rest, forallb (wf_vlr ext) vl = true ->
  kv_records (map vlr_factory vl) = Ok vl' -> forallb (wf_vlr ext) vl' = true -> enc_vlrs ext vl' = Ok bs' ->
  read_known ext (length vl) (bs' ++ rest) = Ok (map vlr_factory vl, rest)
  /\ map v_uid vl' = map v_uid vl /\ map v_rid vl' = map v_rid vl /\ map v_desc vl' = map v_desc vl.
Proof. exact next_generation. Qed.
Print Assumptions C08_next_generation.

Theorem C08_normalise_wf : forall ext v v', wf_vlr ext v = true -> normalise v = Ok v' ->
  (if ext then len (v_data v') <? 2 ^ 64 else len (v_data v') <=? 65535) = true -> wf_vlr ext v' = true.
Proof. exact normalise_wf. Qed.
Print Assumptions C08_normalise_wf.

(* ---------------- the file around the lists ---------------- *)
(* A file = header (hs bytes; of it, the four fields that locate the records), VLRs, points, EVLRs. The writer is
   given a header of ANY origin and history (stale: e.g. read from a file that had EVLRs, or used for an earlier
   write), the two lists as they are now (after whatever insertions, removals, reorderings: any lists), any point
   bytes; EVLRs handed over or not (None = write_evlrs never called). What is read back are those two lists, in
   order, the EVLR list empty when none were written. *)
Theorem C08_file_roundtrip : forall hs v14 stale vl pts evl loc body,
  forallb (wf_vlr false) vl = true -> forallb (wf_vlr true) (opt_list evl) = true ->
  write_file hs v14 stale vl pts evl = Ok (loc, body) ->
  read_file hs v14 loc body
  = Ok (map vlr_factory vl, if v14 then Some (map vlr_factory (opt_list evl)) else None).
Proof. exact file_roundtrip. Qed.
Print Assumptions C08_file_roundtrip.

(* nothing of the header's past survives in the file written *)
Theorem C08_file_ignores_stale : forall hs v14 s1 s2 vl pts evl,
  write_file hs v14 s1 vl pts evl = write_file hs v14 s2 vl pts evl.
Proof. exact file_ignores_stale. Qed.
Print Assumptions C08_file_ignores_stale.

(* VLR bytes right after the header, EVLR bytes at the end, counted and located by the header; no EVLRs: 0 at 0 *)
Theorem C08_file_layout : forall hs v14 stale vl pts evl loc body,
  write_file hs v14 stale vl pts evl = Ok (loc, body) ->
  exists vb eb, enc_vlrs false vl = Ok vb /\ enc_vlrs true (opt_list evl) = Ok eb
    /\ body = vb ++ pts ++ eb /\ l_nvlr loc = len vl /\ l_offset loc = hs + len vb
    /\ (opt_list evl = [] \/ v14 = false -> l_nevlr loc = 0 /\ l_estart loc = 0)
    /\ (opt_list evl <> [] -> v14 = true /\ l_nevlr loc = len (opt_list evl) /\ l_estart loc = hs + len vb + len pts).
Proof. exact file_layout. Qed.
Print Assumptions C08_file_layout.

(* what a user got from a file, written again (through a header of any origin) and read again *)
Theorem C08_file_next_generation : forall hs stale vl el vl' el' pts loc body,
  forallb (wf_vlr false) vl = true -> forallb (wf_vlr true) el = true ->
  kv_records (map vlr_factory vl) = Ok vl' -> kv_records (map vlr_factory el) = Ok el' ->
  forallb (wf_vlr false) vl' = true -> forallb (wf_vlr true) el' = true ->
  write_file_known hs true stale (map vlr_factory vl) pts (Some (map vlr_factory el)) = Ok (loc, body) ->
  read_file hs true loc body = Ok (map vlr_factory vl, Some (map vlr_factory el)).
Proof. exact file_next_generation. Qed.
Print Assumptions C08_file_next_generation.

(* the statements of LasWriter.__init__ that touch its header, and of LasWriter.write_evlrs, extracted from the
   source on this run, are the ones write_file describes (deepcopy, LasZipVlr popped, partial_reset, ...; the two
   EVLR fields set under len(evlrs) > 0): the writer does nothing else to the record lists *)
Theorem C08_writer_ops_modelled : writer_header_ops = modelled_writer_header_ops
  /\ write_evlrs_version_guard = "self.header.version.minor < 4"%string
  /\ write_evlrs_guard = "len(evlrs) > 0"%string
  /\ write_evlrs_ops = modelled_write_evlrs_ops.
Proof. exact writer_ops_modelled. Qed.
Print Assumptions C08_writer_ops_modelled.

(* ---------------- every way of reading ---------------- *)
(* a 1.4 file written by anything: VLRs behind the header, points, ANY bytes between the last point and the first
   EVLR (gap), the EVLRs where the header says, any bytes behind them: both lists are read, in order *)
Theorem C08_file_read_located : forall hs off vl pts gap el tail vb eb,
  forallb (wf_vlr false) vl = true -> forallb (wf_vlr true) el = true ->
  enc_vlrs false vl = Ok vb -> enc_vlrs true el = Ok eb ->
  read_file hs true (mkLoc (len vl) off (len el) (hs + len vb + len pts + len gap)) (vb ++ pts ++ gap ++ eb ++ tail)
  = Ok (map vlr_factory vl, Some (map vlr_factory el)).
Proof. exact file_read_located. Qed.
Print Assumptions C08_file_read_located.

(* read_file = a source that can seek (laspy.read / laspy.open on a path, bytes or stream, EVLRs loaded at opening or
   deferred to read() / read_evlrs(), LasHeader.read_from, mmap); read_file_from = a source that can only be read
   forward and stands at pos when the EVLRs are wanted. On every file, from every position between the end of the
   header and the first EVLR, the two give the same lists (or fail alike) *)
Theorem C08_read_routes_agree : forall hs v14 loc pos body, hs <= pos -> pos <= l_estart loc ->
  read_file_from hs v14 loc pos body = read_file hs v14 loc body.
Proof. exact read_routes_agree. Qed.
Print Assumptions C08_read_routes_agree.

(* ---------------- append sessions as a way of writing ---------------- *)
(* LasAppender on a file laid out as VLRs, points, anything (gap, old EVLRs, more): whatever is appended (nothing,
   empty chunks, points) and whatever list .evlrs holds at close (kel), the file left is the one LasWriter writes
   from scratch for the records that were read, all the points and that list *)
Theorem C08_append_as_write : forall hs v14 loc vl vb vl' vb' pts trailing newpts kel,
  forallb (wf_vlr false) vl = true -> enc_vlrs false vl = Ok vb ->
  l_nvlr loc = len vl -> l_offset loc = hs + len vb -> 0 <= l_nevlr loc ->
  kv_records (map vlr_factory vl) = Ok vl' -> enc_vlrs false vl' = Ok vb' -> len vb' = len vb ->
  (v14 = false \/ (l_nevlr loc = 0 /\ opt_list kel = []) -> trailing = [] /\ l_estart loc = 0) ->
  append_file hs v14 loc (vb ++ pts ++ trailing) (len pts) newpts kel
  = write_file_known hs v14 loc (map vlr_factory vl) (pts ++ newpts) (if v14 then kel else None).
Proof. exact append_as_write. Qed.
Print Assumptions C08_append_as_write.

Theorem C08_append_roundtrip : forall hs loc vl vb vl' vb' pts trailing newpts kel el' loc' body',
  forallb (wf_vlr false) vl = true -> enc_vlrs false vl = Ok vb ->
  l_nvlr loc = len vl -> l_offset loc = hs + len vb -> 0 <= l_nevlr loc ->
  kv_records (map vlr_factory vl) = Ok vl' -> forallb (wf_vlr false) vl' = true ->
  enc_vlrs false vl' = Ok vb' -> len vb' = len vb ->
  (l_nevlr loc = 0 /\ opt_list kel = [] -> trailing = [] /\ l_estart loc = 0) ->
  kv_records (opt_list kel) = Ok el' -> forallb (wf_vlr true) el' = true ->
  append_file hs true loc (vb ++ pts ++ trailing) (len pts) newpts kel = Ok (loc', body') ->
  read_file hs true loc' body' = Ok (map vlr_factory vl, Some (map vlr_factory el'))
  /\ exists eb, enc_vlrs true el' = Ok eb /\ body' = vb' ++ (pts ++ newpts) ++ eb
     /\ l_nevlr loc' = len el' /\ (el' <> [] -> l_estart loc' = hs + len vb' + len (pts ++ newpts)).
Proof. exact append_roundtrip. Qed.
Print Assumptions C08_append_roundtrip.

Theorem C08_append_keeps_read_records : forall el el', forallb (wf_vlr true) el = true ->
  kv_records (map vlr_factory el) = Ok el' ->
  map vlr_factory el' = map vlr_factory el /\ map v_uid el' = map v_uid el /\ map v_rid el' = map v_rid el
  /\ map v_desc el' = map v_desc el.
Proof. exact append_keeps_read_records. Qed.
Print Assumptions C08_append_keeps_read_records.

(* VLRs that would not serialise to the room they have: refused, never a file with other records *)
Theorem C08_append_refused_resized : forall hs v14 loc vl vb vl' vb' rest npts newpts kel,
  forallb (wf_vlr false) vl = true -> enc_vlrs false vl = Ok vb -> l_nvlr loc = len vl -> l_offset loc = hs + len vb ->
  kv_records (map vlr_factory vl) = Ok vl' -> enc_vlrs false vl' = Ok vb' -> len vb' <> len vb ->
  append_file hs v14 loc (vb ++ rest) npts newpts kel = Err ELaspy.
Proof. exact append_refused_resized. Qed.
Print Assumptions C08_append_refused_resized.

(* ---------------- between reading and writing: the header re-synchronises / rebuilds its VLR list ---------------- *)
(* LasHeader._sync_extra_bytes_vlr (add / remove extra dimensions, point_format setter, set_version_and_point_format,
   laspy.convert, header.vlrs = ...): the records of the class it regenerates are taken out by CLASS, the generated one
   goes last; every other record stays, verbatim and in order *)
Theorem C08_sync_keeps_others : forall l gen, gen_ok gen ->
  extract_rest sync_extracted_class (sync_eb l gen) = extract_rest sync_extracted_class l.
Proof. exact sync_keeps_others. Qed.
Print Assumptions C08_sync_keeps_others.

(* a record that was kept raw (no class for its ids, or a payload its class refuses) survives whatever its ids are *)
Theorem C08_sync_keeps_raw : forall l gen v, In (KRaw v) l -> In (KRaw v) (sync_eb l gen).
Proof. exact sync_keeps_raw. Qed.
Print Assumptions C08_sync_keeps_raw.

Theorem C08_sync_keeps_record : forall l gen k, In k l -> kv_class k <> sync_extracted_class -> In k (sync_eb l gen).
Proof. exact sync_keeps_record. Qed.
Print Assumptions C08_sync_keeps_record.

(* any sequence of methods / property setters of the header (those that re-synchronise are read from the call graph
   of the class on every run; the vlrs setter also extracts the class it names) *)
Theorem C08_header_ops_keep_others : forall ms l, Forall (fun mg => gen_ok (snd mg)) ms ->
  extract_rest sync_extracted_class (extract_rest vlrs_setter_extracts (header_ops ms l))
  = extract_rest sync_extracted_class (extract_rest vlrs_setter_extracts l).
Proof. exact header_ops_keep_others. Qed.
Print Assumptions C08_header_ops_keep_others.

Theorem C08_header_ops_keep_raw : forall ms l v, In (KRaw v) l -> In (KRaw v) (header_ops ms l).
Proof. exact header_ops_keep_raw. Qed.
Print Assumptions C08_header_ops_keep_raw.

(* the statements of _sync_extra_bytes_vlr and of the vlrs setter that touch the list, extracted from the source on
   this run, are the ones sync_eb / set_vlrs describe *)
Theorem C08_sync_ops_modelled : sync_list_ops = modelled_sync_list_ops /\ vlrs_setter_ops = modelled_vlrs_setter_ops.
Proof. exact sync_ops_modelled. Qed.
Print Assumptions C08_sync_ops_modelled.

(* read, re-synchronised (no extra dimensions), written through a header of any origin, read: the records that were
   read the first time without those of the regenerated class, in order, and the EVLRs *)
Theorem C08_sync_then_file : forall hs stale vl el vl' el' pts loc body,
  let vl0 := filter (fun v => negb (String.eqb (kv_class (vlr_factory v)) sync_extracted_class)) vl in
  forallb (wf_vlr false) vl = true -> forallb (wf_vlr true) el = true ->
  kv_records (map vlr_factory vl0) = Ok vl' -> kv_records (map vlr_factory el) = Ok el' ->
  forallb (wf_vlr false) vl' = true -> forallb (wf_vlr true) el' = true ->
  write_file_known hs true stale (sync_eb (map vlr_factory vl) None) pts (Some (map vlr_factory el)) = Ok (loc, body) ->
  read_file hs true loc body = Ok (map vlr_factory vl0, Some (map vlr_factory el)).
Proof. exact sync_then_file. Qed.
Print Assumptions C08_sync_then_file.

(* ---------------- between reading and writing: the content of a parsed record is edited ---------------- *)
(* whatever text .string is set to (shorter, longer, a prefix of the old one, empty): written with one terminating NUL,
   read back as that text (without trailing NULs); nothing of the payload the record was parsed from is involved *)
Theorem C08_wkt_edit : forall s, ascii_ok s = true -> parse_wkt (ser_wkt s) = Some (strip_nul s).
Proof. exact wkt_edit. Qed.
Print Assumptions C08_wkt_edit.
Theorem C08_wkt_edit_exact : forall s, ascii_ok s = true -> last s 1 <> 0 -> parse_wkt (ser_wkt s) = Some s.
Proof. exact wkt_edit_exact. Qed.
Print Assumptions C08_wkt_edit_exact.

Theorem C08_ascii_edit : forall ss, ss <> [] -> Forall (fun s => no_nul s = true) ss -> ascii_ok (join_nul ss) = true ->
  parse_ascii (ser_ascii ss) = Some ss.
Proof. exact ascii_edit. Qed.
Print Assumptions C08_ascii_edit.
Theorem C08_ascii_edit_text : forall ss, ascii_ok (join_nul ss) = true ->
  exists ss', parse_ascii (ser_ascii ss) = Some ss' /\ join_nul ss' = join_nul ss.
Proof. exact ascii_edit_text. Qed.
Print Assumptions C08_ascii_edit_text.

Theorem C08_lookup_edit : forall l, Forall good_entry l -> NoDup (map fst l) ->
  exists q, ser_lookup l = Ok q /\ parse_lookup q = Some l.
Proof. exact lookup_edit. Qed.
Print Assumptions C08_lookup_edit.
Theorem C08_lookup_edit_too_long : forall l e, In e l -> (lookup_name_size < length (snd e))%nat -> is_ok (ser_lookup l) = false.
Proof. exact lookup_edit_too_long. Qed.
Print Assumptions C08_lookup_edit_too_long.

Theorem C08_doubles_edit : forall c, Forall (fun x => length x = double_size) c -> parse_doubles (ser_doubles c) = Some c.
Proof. exact doubles_edit. Qed.
Print Assumptions C08_doubles_edit.
Theorem C08_extra_edit : forall c, Forall (fun x => length x = eb_struct_size) c -> parse_extra (ser_extra c) = Some c.
Proof. exact extra_edit. Qed.
Print Assumptions C08_extra_edit.
Theorem C08_waveform_edit : forall c, length c = wf_struct_size -> parse_wave (ser_wave c) = Some c.
Proof. exact wave_edit. Qed.
Print Assumptions C08_waveform_edit.
Theorem C08_geokeys_edit : forall g, length (gk_head g) = (gk_header_size - 2)%nat ->
  Forall (fun c => length c = gk_entry_size) (gk_keys g) -> len (gk_keys g) < 65536 ->
  parse_geokeys (ser_geokeys g) = Some (mkGK (gk_head g) (len (gk_keys g)) (gk_keys g)).
Proof. exact geokeys_edit. Qed.
Print Assumptions C08_geokeys_edit.

(* the edited record as a whole, and the rest of the list *)
Theorem C08_edit_read_back : forall cls lo u r d c0 c b c',
  find_class known_table u r = Some (cls, lo) -> ser_content c = Ok b -> parse_class cls b = Some (Some c') ->
  kv_record (set_content (KKnown cls u r d c0) c) = Ok (mkVlr u r d b)
  /\ reread (set_content (KKnown cls u r d c0) c)
     = Ok (KKnown cls u (if String.eqb cls "WaveformPacketVlr" then r else lo) d c').
Proof. exact edit_read_back. Qed.
Print Assumptions C08_edit_read_back.
Theorem C08_edit_leaves_others : forall i c l j, j <> i -> nth_error (edit_at i c l) j = nth_error l j.
Proof. exact edit_at_others. Qed.
Print Assumptions C08_edit_leaves_others.

(* a lookup with a dirty name field and a repeated class id, a WKT without its NUL, an unknown record and a
   GeoAscii record that is not ASCII, as VLRs: read in order; the first two parsed and normalised, the others raw *)
Example C08_nonvacuous :
  let v1 := mkVlr UID_LASF_Spec 0 [100] ([5; 97; 0; 122] ++ zeros 12 ++ [6; 98] ++ zeros 14 ++ [5; 99] ++ zeros 14) in
  let v2 := mkVlr UID_LASF_Projection 2112 [] [97; 98] in
  let v3 := mkVlr [88] 7 [] [1; 2; 3] in
  let v4 := mkVlr UID_LASF_Projection 34737 [] [200] in
  let ks := [KKnown "ClassificationLookupVlr" UID_LASF_Spec 0 [100] (CLookup [(5, [99]); (6, [98])]);
             KKnown "WktCoordinateSystemVlr" UID_LASF_Projection 2112 [] (CWkt [97; 98]); KRaw v3; KRaw v4] in
  match enc_vlrs false [v1; v2; v3; v4] with
  | Ok bs => read_known false 4 bs = Ok (ks, [])
  | Err _ => False
  end
  /\ kv_records ks = Ok [mkVlr UID_LASF_Spec 0 [100] ([5; 99] ++ zeros 14 ++ [6; 98] ++ zeros 14);
                         mkVlr UID_LASF_Projection 2112 [] [97; 98; 0]; v3; v4]
  /\ is_ok (enc_vlrs false [mkVlr [88] 7 [] (zeros (Z.to_nat 65536))]) = false
  /\ is_ok (enc_vlrs true [mkVlr [88] 7 [] (zeros (Z.to_nat 65536))]) = true
  (* a 1.4 file written through a header that came from a file with 2 EVLRs at offset 1000, all EVLRs removed:
     the new header announces none and an empty list is read; with one EVLR: it is found behind the points *)
  /\ write_file 375 true (mkLoc 9 999 2 1000) [v3] [7; 7; 7] (Some [])
     = Ok (mkLoc 1 (375 + 57) 0 0, match enc_vlrs false [v3] with Ok b => b ++ [7; 7; 7] | Err _ => [] end)
  /\ match write_file 375 true (mkLoc 9 999 2 1000) [v1; v3] [7; 7; 7] (Some [v2]) with
     | Ok (loc, body) => l_nevlr loc = 1 /\ l_estart loc = len body + 375 - 62
         /\ read_file 375 true loc body = Ok ([List.hd (KRaw v3) ks; KRaw v3], Some [KKnown "WktCoordinateSystemVlr" UID_LASF_Projection 2112 [] (CWkt [97; 98])])
     | Err _ => False
     end
  (* the file [v3] + 3 point bytes + 5 bytes of something else + the EVLR v3, read with and without seeking; then an
     append session on it that appends nothing and replaces the EVLR by v4 followed by the one that was read: the file
     ends behind the two records, the gap is gone; with a VLR that grows when written again (v2): refused *)
  /\ match enc_vlrs false [v3], enc_vlrs true [v3] with
     | Ok vb, Ok eb =>
         let body := vb ++ [7; 7; 7] ++ [1; 2; 3; 4; 5] ++ eb in
         let loc := mkLoc 1 (375 + 57) 1 (375 + 57 + 3 + 5) in
         read_file 375 true loc body = Ok ([KRaw v3], Some [KRaw v3])
         /\ read_file_from 375 true loc (375 + 57 + 3) body = Ok ([KRaw v3], Some [KRaw v3])
         /\ match append_file 375 true loc body 3 [] (Some [KRaw v4; KRaw v3]) with
            | Ok (loc', body') => loc' = mkLoc 1 (375 + 57) 2 (375 + 57 + 3) /\ len body' = 57 + 3 + 61 + 63
                /\ read_file 375 true loc' body' = Ok ([KRaw v3], Some [KRaw v4; KRaw v3])
            | Err _ => False
            end
     | _, _ => False
     end
  /\ match enc_vlrs false [v2] with
     | Ok vb => append_file 375 true (mkLoc 1 (375 + len vb) 0 0) (vb ++ [7; 7; 7]) 3 [9] None = Err ELaspy
     | Err _ => False
     end
  (* a LASF_Spec/4 record whose payload is not a whole number of descriptors is kept raw; add_extra_dims on the header
     that holds it, a well-formed extra-bytes record and v3: the raw one and v3 stay where they are, the parsed one is
     replaced by the generated one, last; update() changes nothing *)
  /\ (let bad := mkVlr UID_LASF_Spec 4 [] [1; 2; 3] in
      let good := mkVlr UID_LASF_Spec 4 [] (zeros 192) in
      let g := KKnown "ExtraBytesVlr" UID_LASF_Spec 4 [] (CExtra [zeros 191 ++ [9]]) in
      vlr_factory bad = KRaw bad
      /\ header_op "add_extra_dims" (map vlr_factory [bad; good; v3]) (Some g) = [KRaw bad; KRaw v3; g]
      /\ header_op "vlrs" (map vlr_factory [good; bad; v3]) None = [KRaw bad; KRaw v3]
      /\ header_op "update" (map vlr_factory [bad; good]) None = map vlr_factory [bad; good])
  (* the WKT record read from v2 ("ab"), its string cut to "a", then emptied: written as "a\0" / "\0", read as "a" / "" *)
  /\ reread (set_content (vlr_factory v2) (CWkt [97])) = Ok (KKnown "WktCoordinateSystemVlr" UID_LASF_Projection 2112 [] (CWkt [97]))
  /\ kv_record (set_content (vlr_factory v2) (CWkt [])) = Ok (mkVlr UID_LASF_Projection 2112 [] [0]).
Proof. vm_compute. repeat split; reflexivity. Qed.
