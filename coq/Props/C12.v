(* C12 — point-format conversion preserves shared dimensions or fails loudly.
   `convert l tgt ver` (Model/Convert.v) for every source object l: any of the 11 standard formats, any number of points
   with any contents, any extra dimensions under ANY names that numpy accepts next to the packed fields of the source format
   (`wf_las`: the field names of the source record are pairwise distinct - names of standard dimensions of other formats, of
   bit-packed sub-fields, legacy aliases, "x" ... are all allowed), any VLR / EVLR lists; any target format and any explicit
   or implicit target version. `da`, `db` are the defaults of `nth`, irrelevant below the length. *)
From Coq Require Import String.
From Coq Require Import ZArith List Bool.
From LasV Require Import Lib.Base Gen.GenDims Model.SubField Model.HeaderOps Model.Convert Proofs.ConvertProofs.
Import ListNotations.
Open Scope list_scope.
Open Scope Z_scope.

(* point count *)
Theorem C12_count : forall l tgt ver l', convert l tgt ver = Ok l' -> length (l_pts l') = length (l_pts l).
Proof. exact convert_count. Qed.
Print Assumptions C12_count.

(* coordinates: the stored X, Y, Z of every point *)
Theorem C12_xyz : forall l tgt ver l' i da db, convert l tgt ver = Ok l' -> wf_las l -> (i < length (l_pts l))%nat ->
  forall c, In c ["X"%string; "Y"%string; "Z"%string] ->
  lookup c (fst (nth i (l_pts l') db)) = lookup c (fst (nth i (l_pts l) da)) /\ lookup c (fst (nth i (l_pts l) da)) <> None.
Proof. exact convert_xyz. Qed.
Print Assumptions C12_xyz.

(* every dimension of the target format, of every point: the source's value when the source format has a dimension of
   that name (plain field or bit-packed sub-field on either side), zero otherwise; a common dimension always has a value *)
Theorem C12_common_dims : forall l tgt ver l' i n da db, convert l tgt ver = Ok l' -> wf_las l -> (i < length (l_pts l))%nat ->
  In n (dim_names (l_fmt l')) ->
  dim_val (l_fmt l') (fst (nth i (l_pts l') db)) n =
    (if mem n (dim_names (l_fmt l)) then dim_val (l_fmt l) (fst (nth i (l_pts l) da)) n else Some 0)
  /\ (In n (dim_names (l_fmt l)) -> dim_val (l_fmt l) (fst (nth i (l_pts l) da)) n <> None).
Proof. exact convert_dims. Qed.
Print Assumptions C12_common_dims.

(* extra dimensions: descriptors (name, type, scale/offset, description) and the raw bytes of every point, whatever their
   names (a name that is also a standard dimension or sub-field of the source or target format included) *)
Theorem C12_extra_dims : forall l tgt ver l', convert l tgt ver = Ok l' -> wf_las l ->
  l_edims l' = l_edims l
  /\ forall i da db, (i < length (l_pts l))%nat -> snd (nth i (l_pts l') db) = snd (nth i (l_pts l) da).
Proof. exact convert_extra. Qed.
Print Assumptions C12_extra_dims.

(* VLRs: every VLR other than the extra-bytes record is kept, in order; the extra-bytes record is regenerated from the
   (unchanged) extra dimensions and placed last; a source whose list already has that shape keeps its list exactly *)
Theorem C12_vlrs : forall l tgt ver l', convert l tgt ver = Ok l' ->
  l_vlrs l' = user_vlrs (l_vlrs l) ++ eb_part (l_edims l)
  /\ user_vlrs (l_vlrs l') = user_vlrs (l_vlrs l)
  /\ filter (fun v : cvlr => fst v) (l_vlrs l') = eb_part (l_edims l')
  /\ (l_vlrs l = user_vlrs (l_vlrs l) ++ eb_part (l_edims l) -> l_vlrs l' = l_vlrs l).
Proof. exact convert_vlrs. Qed.
Print Assumptions C12_vlrs.

(* EVLRs: kept when the target version supports them (the object keeps them for older versions too; only the
   writer drops them) *)
Theorem C12_evlrs : forall l tgt ver l', convert l tgt ver = Ok l' ->
  (snd (l_ver l') >= 4 -> l_evlrs l' = l_evlrs l) /\ l_evlrs l' = l_evlrs l.
Proof. intros l tgt ver l' H. split; [intros _|]; exact (convert_evlrs l tgt ver l' H). Qed.
Print Assumptions C12_evlrs.

(* version: explicit = as requested; implicit = max(current, preferred for the target), never lower than the current
   one; the resulting (version, format) pair is always compatible *)
Theorem C12_version : forall l tgt ver l', convert l tgt ver = Ok l' ->
  compat_v (l_ver l') (l_fmt l') = true
  /\ l_fmt l' = match tgt with Some f => f | None => l_fmt l end
  /\ match ver with
     | Some w => l_ver l' = w
     | None => exists p, preferred (l_fmt l') = Some p /\ l_ver l' = vmax (l_ver l) p
               /\ (fst (l_ver l) < fst (l_ver l') \/ (fst (l_ver l) = fst (l_ver l') /\ snd (l_ver l) <= snd (l_ver l')))
     end.
Proof. exact convert_version. Qed.
Print Assumptions C12_version.

Theorem C12_incompatible_request : forall l tgt w,
  compat_v w (match tgt with Some f => f | None => l_fmt l end) = false -> convert l tgt (Some w) = Err ELaspy.
Proof. exact convert_incompatible. Qed.
Print Assumptions C12_incompatible_request.

(* narrowing: some point holds, in a dimension that the target packs into a bit field of the same name, a value above
   the field's maximum (classification 32..255 into 5 bits, return number / number of returns 8..15 into 3 bits):
   OverflowError, no result *)
Theorem C12_narrowing_raises : forall l tgt ver hs i d n v c m, wf_las l ->
  hstep (mkHS (l_ver l) (l_fmt l)) (HConvert tgt ver) = Ok hs -> ~ name_clash (hs_f hs) (l_edims l) ->
  (i < length (l_pts l))%nat ->
  In n (dim_names (hs_f hs)) -> dim_val (l_fmt l) (fst (nth i (l_pts l) d)) n = Some v ->
  sub_of (hs_f hs) n = Some (c, m) -> (v > sf_max m \/ v < 0) -> convert l tgt ver = Err EOverflow.
Proof. exact convert_narrowing. Qed.
Print Assumptions C12_narrowing_raises.

(* ... with a name clash the ValueError comes first: in no case is a value that does not fit answered by a result *)
Theorem C12_never_truncates : forall l tgt ver hs i d n v c m, wf_las l ->
  hstep (mkHS (l_ver l) (l_fmt l)) (HConvert tgt ver) = Ok hs -> (i < length (l_pts l))%nat ->
  In n (dim_names (hs_f hs)) -> dim_val (l_fmt l) (fst (nth i (l_pts l) d)) n = Some v ->
  sub_of (hs_f hs) n = Some (c, m) -> (v > sf_max m \/ v < 0) ->
  convert l tgt ver = Err EOverflow \/ convert l tgt ver = Err EValue.
Proof. exact convert_never_truncates. Qed.
Print Assumptions C12_never_truncates.

(* name clash: an extra dimension named like a packed field of the TARGET format (e.g. "nir" next to format 8, "gps_time"
   next to format 1, "classification" next to format 6) cannot be stored next to it: ValueError, no result - never a
   result without the extra dimension, never its values stored in the standard field. This is the only source of ValueError. *)
Theorem C12_name_clash_refused : forall l tgt ver hs e, wf_las l -> hstep (mkHS (l_ver l) (l_fmt l)) (HConvert tgt ver) = Ok hs ->
  In e (l_edims l) -> In (ed_name e) (storage_names (hs_f hs)) -> convert l tgt ver = Err EValue.
Proof. exact convert_clash_refused. Qed.
Print Assumptions C12_name_clash_refused.

Theorem C12_value_error_iff : forall l tgt ver hs, wf_las l -> hstep (mkHS (l_ver l) (l_fmt l)) (HConvert tgt ver) = Ok hs ->
  (convert l tgt ver = Err EValue <-> name_clash (hs_f hs) (l_edims l)).
Proof. exact convert_value_error_iff. Qed.
Print Assumptions C12_value_error_iff.

(* the three-way outcome once the version rule accepted the request *)
Theorem C12_outcome : forall l tgt ver hs, wf_las l -> hstep (mkHS (l_ver l) (l_fmt l)) (HConvert tgt ver) = Ok hs ->
  (name_clash (hs_f hs) (l_edims l) /\ convert l tgt ver = Err EValue)
  \/ (~ name_clash (hs_f hs) (l_edims l)
      /\ ((exists l', convert l tgt ver = Ok l' /\ forall p, In p (l_pts l) -> ~ point_misfit (l_fmt l) (hs_f hs) p)
          \/ (convert l tgt ver = Err EOverflow /\ exists p, In p (l_pts l) /\ point_misfit (l_fmt l) (hs_f hs) p))).
Proof. exact convert_outcome. Qed.
Print Assumptions C12_outcome.

(* the result is a well-formed object again (no repeated field name, every point complete): conversions compose *)
Theorem C12_result_wf : forall l tgt ver l', convert l tgt ver = Ok l' -> wf_las l -> wf_las l'.
Proof. exact convert_wf. Qed.
Print Assumptions C12_result_wf.

(* point-wise: point i of the result is the conversion of point i of the source alone, whatever the size of the record
   (no block of points is treated differently from another) *)
Theorem C12_pointwise : forall l tgt ver l' i, convert l tgt ver = Ok l' -> (i < length (l_pts l))%nat ->
  forall da db, convert_point (l_fmt l) (l_fmt l') (l_edims l) (nth i (l_pts l) da) = Ok (nth i (l_pts l') db).
Proof. exact convert_point_at. Qed.
Print Assumptions C12_pointwise.

(* ... and these are the only ways a conversion with an acceptable version fails; with C12_common_dims: never truncation *)
Theorem C12_fits_succeeds : forall l tgt ver hs, wf_las l -> hstep (mkHS (l_ver l) (l_fmt l)) (HConvert tgt ver) = Ok hs ->
  (forall e, In e (l_edims l) -> ~ In (ed_name e) (storage_names (hs_f hs))) ->
  (forall p n v c m, In p (l_pts l) -> In n (dim_names (hs_f hs)) -> dim_val (l_fmt l) (fst p) n = Some v ->
     sub_of (hs_f hs) n = Some (c, m) -> 0 <= v <= sf_max m) ->
  exists l', convert l tgt ver = Ok l'.
Proof. exact convert_fits. Qed.
Print Assumptions C12_fits_succeeds.

Theorem C12_errors : forall l tgt ver e, wf_las l -> convert l tgt ver = Err e -> e = ELaspy \/ e = EValue \/ e = EOverflow.
Proof. exact convert_errors. Qed.
Print Assumptions C12_errors.

(* lost dimensions: as a set, exactly the dimension names of the source absent from the target; no repetition *)
Theorem C12_lost : forall a b, NoDup (lost a b) /\ forall n, In n (lost a b) <-> (In n (dim_names a) /\ ~ In n (dim_names b)).
Proof. exact lost_spec. Qed.
Print Assumptions C12_lost.

(* the tables behind "same name => same storage": for all 121 pairs, a dimension readable from the source under a target
   dimension's name is a dimension of the source, of the same numpy dtype, or an integer going into a bit field *)
Theorem C12_tables : tables_ok = true.
Proof. exact tables_sweep. Qed.
Print Assumptions C12_tables.

(* the source: the model is a pure function, the caller's object is its argument (the implementation's immutability is
   checked by the harness: serialised source before/after, aliasing of header / VLR lists / arrays) *)
Theorem C12_source_unchanged : forall l tgt ver, fst (convert_io l tgt ver) = l /\ snd (convert_io l tgt ver) = convert l tgt ver.
Proof. intros l tgt ver. split; reflexivity. Qed.
Print Assumptions C12_source_unchanged.

(* the result is USED. Its point format lists the standard dimensions of the target followed by the extra dimensions of the
   source; every listed name resolves; a standard name to the standard dimension; the name of every extra dimension of the
   source (not shadowed by a standard dimension of the target) to THAT extra dimension, descriptor (type, scales, offsets)
   included - so that a scaled extra dimension is presented scaled and takes scaled values on the result as on the source *)
Theorem C12_names_resolve : forall l tgt ver l', convert l tgt ver = Ok l' -> wf_las l ->
  listed_names l' = dim_names (l_fmt l') ++ map ed_name (l_edims l)
  /\ (forall n, In n (listed_names l') -> resolve (l_fmt l') (l_edims l') n <> None)
  /\ (forall n, In n (dim_names (l_fmt l')) -> resolve (l_fmt l') (l_edims l') n = Some RStd)
  /\ (forall e, In e (l_edims l) -> ~ In (ed_name e) (dim_names (l_fmt l')) ->
        resolve (l_fmt l') (l_edims l') (ed_name e) = Some (RExt e)).
Proof. exact convert_resolve. Qed.
Print Assumptions C12_names_resolve.

(* ... and what record[name] of every point is computed from (the descriptor found under the name, the stored bytes) is, for
   EVERY name, what the source gives; every extra dimension of the source is found under its name in the result *)
Theorem C12_extra_dims_by_name : forall l tgt ver l' i da db, convert l tgt ver = Ok l' -> wf_las l -> (i < length (l_pts l))%nat ->
  (forall n, ext_value (l_edims l') (nth i (l_pts l') db) n = ext_value (l_edims l) (nth i (l_pts l) da) n)
  /\ (forall e, In e (l_edims l) -> exists b, ext_value (l_edims l') (nth i (l_pts l') db) (ed_name e) = Some (e, b)).
Proof. exact convert_ext_value. Qed.
Print Assumptions C12_extra_dims_by_name.

(* VLRs, record by record: whatever a record of the source describes (a waveform packet descriptor although the target format
   has no wave packets, georeferencing, a lookup table ...) it is a record of the result; only the extra-bytes record is rebuilt *)
Theorem C12_every_vlr_kept : forall l tgt ver l' v, convert l tgt ver = Ok l' -> In v (l_vlrs l) -> fst v = false -> In v (l_vlrs l').
Proof. exact convert_vlr_kept. Qed.
Print Assumptions C12_every_vlr_kept.

Definition ex_src : lasdata :=
  mkLas (1, 4) 6 [mkED "e" [1; 2] 2]
    [ ([("X"%string, -5); ("Y"%string, 7); ("Z"%string, 2147483647); ("intensity"%string, 65535); ("bit_fields"%string, 0x17);
        ("classification_flags"%string, 0xC5); ("classification"%string, 31); ("user_data"%string, 9); ("scan_angle"%string, -30000);
        ("point_source_id"%string, 4); ("gps_time"%string, 4607182418800017408)], [[254; 255]]) ]
    [(true, [9]); (false, [1; 2; 3])] (Some [[7]]).
Definition ex_bad : lasdata :=
  mkLas (1, 4) 6 [] [ (map (fun n => (n, if String.eqb n "classification" then 32 else 0)) (storage_names 6), []) ] [] None.

(* format 0 with extra dimensions named like a sub-field of the target ("overlap"), a legacy alias ("pt_src_id"), a
   sub-field of both ("synthetic"), a scaled coordinate ("x"), a standard dimension of another format ("nir") *)
Definition ex_names : lasdata :=
  mkLas (1, 2) 0 [mkED "overlap" [1] 1; mkED "pt_src_id" [2] 1; mkED "synthetic" [3] 1; mkED "x" [4] 1; mkED "nir" [5] 4]
    [ (map (fun n => (n, if String.eqb n "raw_classification" then 37 else 0)) (storage_names 0), [[1]; [2]; [3]; [4]; [5; 6; 7; 8]]) ]
    [] None.

Example C12_nonvacuous :
  convert ex_src (Some 1) None =
    Ok (mkLas (1, 4) 1 [mkED "e" [1; 2] 2]
         [ ([("X"%string, -5); ("Y"%string, 7); ("Z"%string, 2147483647); ("intensity"%string, 65535); ("bit_fields"%string, 0xCF);
             ("raw_classification"%string, 0xBF); ("scan_angle_rank"%string, 0); ("user_data"%string, 9);
             ("point_source_id"%string, 4); ("gps_time"%string, 4607182418800017408)], [[254; 255]]) ]
         [(false, [1; 2; 3]); (true, [1; 2])] (Some [[7]]))
  /\ convert ex_src (Some 1) (Some (1, 2)) <> convert ex_src (Some 1) None
  /\ convert ex_src (Some 6) (Some (1, 3)) = Err ELaspy
  /\ convert ex_bad (Some 0) None = Err EOverflow
  /\ (exists l', convert ex_names (Some 7) None = Ok l' /\ l_edims l' = l_edims ex_names
        /\ map snd (l_pts l') = [[[1]; [2]; [3]; [4]; [5; 6; 7; 8]]]
        /\ map (fun p => dim_val 7 (fst p) "overlap") (l_pts l') = [Some 0]
        /\ map (fun p => dim_val 7 (fst p) "classification") (l_pts l') = [Some 5]
        /\ map (fun p => dim_val 7 (fst p) "synthetic") (l_pts l') = [Some 1])
  /\ convert ex_names (Some 8) None = Err EValue /\ convert ex_names (Some 10) (Some (1, 4)) = Err EValue
  /\ convert ex_names (Some 8) (Some (1, 2)) = Err ELaspy
  /\ (exists l', convert ex_bad (Some 7) None = Ok l')
  /\ lost 6 0 = ["overlap"%string; "scanner_channel"%string; "scan_angle"%string; "gps_time"%string]
  /\ sub_of 0 "classification" = Some ("raw_classification"%string, 31) /\ sf_max 31 = 31 /\ sub_of 6 "classification" = None
  /\ sub_of 0 "return_number" = Some ("bit_fields"%string, 7) /\ sf_max 7 = 7 /\ sub_of 6 "return_number" = Some ("bit_fields"%string, 15)
  /\ resolve 7 (l_edims ex_names) "nir" = Some (RExt (mkED "nir" [5] 4)) /\ resolve 7 (l_edims ex_names) "overlap" = Some RStd
  /\ resolve 7 (l_edims ex_names) "gps_time" = Some RStd /\ resolve 0 (l_edims ex_names) "overlap" = Some (RExt (mkED "overlap" [1] 1))
  /\ resolve 7 (l_edims ex_names) "height" = None
  /\ ext_value (l_edims ex_src) (nth 0 (l_pts ex_src) ([], [])) "e" = Some (mkED "e" [1; 2] 2, [254; 255]).
Proof. vm_compute. repeat split; try reflexivity; try discriminate; eexists; repeat split; reflexivity. Qed.
