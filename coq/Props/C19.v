(* C19 — interrupted writes and truncated files never yield points that were not written. *)
From Coq Require Import String.
From Coq Require Import ZArith List Bool.
From LasV Require Import Lib.Base Lib.Layout Gen.GenHeaderLayout Gen.GenFormatBits Gen.GenDims Model.Las Model.LasSpec
  Model.LasFast Proofs.HeaderLen Proofs.VlrProofs Proofs.HeaderProofs Proofs.WriterProofs Proofs.RoundTripProofs Proofs.AppendProofs Proofs.CrashProofs Proofs.CrashAppendProofs Proofs.LasFastProofs Proofs.FaultProofs Proofs.FaultAppendProofs.
Import ListNotations.
Open Scope list_scope.
Open Scope Z_scope.

(* truncation at ANY byte of a valid file: the reader (structurally recursive on the bytes: it terminates) either fails
   or returns a prefix of the stored point sequence *)
Theorem C19_truncation : forall ap h vl fmt recs evl f h' n,
  file_of ap h vl fmt recs evl = Ok f -> final_hdr ap h vl fmt recs evl = Ok h' ->
  wf_header h' vl = true -> forallb (wf_vlr true) evl = true ->
  recs_ok (aint h' "point_size") recs = true -> 0 < aint h' "point_size" ->
  reads_prefix_or_fails (firstn n f) recs.
Proof. exact truncation_safe. Qed.
Print Assumptions C19_truncation.

(* the complete file reads back completely (the degenerate crash point "after the last write") *)
Theorem C19_complete : forall ap h vl fmt recs evl f h',
  file_of ap h vl fmt recs evl = Ok f -> final_hdr ap h vl fmt recs evl = Ok h' ->
  wf_header h' vl = true -> forallb (wf_vlr true) evl = true ->
  recs_ok (aint h' "point_size") recs = true -> 0 < aint h' "point_size" ->
  (evl = [] \/ aint h "version.minor" >= 4) -> len evl <= MAX_VLRS ->
  exists lf, read_file f = Ok lf /\ lf_points lf = recs.
Proof.
  intros ap h vl fmt recs evl f h' H1 H2 H3 H4 H5 H6 H7 H8.
  destruct (read_write_roundtrip ap h vl fmt recs evl f h' H1 H2 H3 H4 H5 H6 H7 H8) as (lf & A & B & _).
  exists lf. split; assumption.
Qed.
Print Assumptions C19_complete.

(* the writer's discipline: the in-place header rewrite has the length of the first header, so it never touches a point *)
Theorem C19_rewrite_in_place : forall h vl h' bs, enc_header h vl true = Ok (h', bs) ->
  aint h' "offset_to_point_data" = aint h "offset_to_point_data" /\ len bs = aint h "offset_to_point_data".
Proof. exact enc_header_same_size. Qed.
Print Assumptions C19_rewrite_in_place.

(* torn little-endian counter: overwritten byte by byte (low bytes first) from 0, it never exceeds the new count *)
Theorem C19_torn_counter : forall n v j, 0 <= v < 256 ^ Z.of_nat n -> (j <= n)%nat ->
  0 <= le_dec (firstn j (le_enc n v) ++ skipn j (le_enc n 0)) <= v.
Proof. exact torn_le_zero. Qed.
Print Assumptions C19_torn_counter.

(* EVERY crash image of a one-shot or chunked writer session - after k complete low-level writes and j bytes of the next,
   the in-place header rewrite included, all four versions - is refused or read as a prefix of the points being stored *)
Theorem C19_crash_safe : forall ap h vl fmt chunks evl hb0 eb h' hb1 k j,
  enc_header (with_stats h stats0) vl false = Ok hb0 ->
  enc_vlrs true evl = Ok eb ->
  final_hdr ap h vl fmt (concat chunks) evl = Ok h' ->
  enc_header (with_stats (fst hb0) (stats_of_header h')) vl true = Ok hb1 ->
  wf_header h' vl = true -> wf_header (fst hb0) vl = true -> forallb (wf_vlr true) evl = true ->
  recs_ok (aint h' "point_size") (concat chunks) = true -> 0 < aint h' "point_size" ->
  reads_prefix_or_fails (crash_image (write_trace (snd hb0) chunks eb (snd hb1)) k j) (concat chunks).
Proof. exact crash_safe. Qed.
Print Assumptions C19_crash_safe.

(* the same for an APPEND session on an existing file (the file of A): the chunk writes start where the old points end (over the old
   EVLRs), then the EVLRs, then the in-place header rewrite; every crash image is refused or read as a prefix of A ++ the appended points *)
Theorem C19_crash_safe_append : forall ap, ap_ok ap -> (forall s o x, 0 <= ap s o x) ->
  forall h vl fmt A evl Bs f0 f1 hA h1 eb k j,
  wf_las ap h vl fmt A evl -> wf_las ap h vl fmt (A ++ concat Bs) evl ->
  file_of ap h vl fmt A evl = Ok f0 -> final_hdr ap h vl fmt A evl = Ok hA ->
  file_of ap h vl fmt (A ++ concat Bs) evl = Ok f1 -> final_hdr ap h vl fmt (A ++ concat Bs) evl = Ok h1 ->
  enc_vlrs true evl = Ok eb ->
  let off := aint hA "offset_to_point_data" in
  reads_prefix_or_fails
    (crash_from f0 (append_trace (off + len (concat A)) Bs eb (firstn (Z.to_nat off) f1)) k j)
    (A ++ concat Bs).
Proof. exact crash_safe_append. Qed.
Print Assumptions C19_crash_safe_append.

(* FAULT SEQUENCES. Some write_points calls of a writer session FAIL: `stored` bytes (any; none for the faults laspy is judged on when
   the session goes on with more chunks) reach the destination at the current position, the call raises, the chunk is not counted and the
   next point write starts at the same position (fault_writes); the session goes on - more chunks, the EVLRs at ANY position `epos` at or
   behind the end of the accepted points (laspy: right behind what a torn last write left), the header rewrite. The harness checks this
   discipline on the traces of the implementation. Every crash image of such a session is refused or read as a prefix of the ACCEPTED points *)
Theorem C19_fault_safe : forall ap h vl fmt evs evl hb0 epos eb h' hb1 k j,
  enc_header (with_stats h stats0) vl false = Ok hb0 ->
  enc_vlrs true evl = Ok eb ->
  final_hdr ap h vl fmt (accepted evs) evl = Ok h' ->
  enc_header (with_stats (fst hb0) (stats_of_header h')) vl true = Ok hb1 ->
  recs_ok (aint h' "point_size") (accepted evs) = true -> 0 < aint h' "point_size" ->
  len (snd hb0) + len (concat (accepted evs)) <= epos ->
  reads_prefix_or_fails (crash_image (fault_trace (snd hb0) evs epos eb (snd hb1)) k j) (accepted evs).
Proof. exact fault_safe. Qed.
Print Assumptions C19_fault_safe.

(* in particular the file left when such a session has been closed normally *)
Theorem C19_fault_final : forall ap h vl fmt evs evl hb0 epos eb h' hb1,
  enc_header (with_stats h stats0) vl false = Ok hb0 ->
  enc_vlrs true evl = Ok eb ->
  final_hdr ap h vl fmt (accepted evs) evl = Ok h' ->
  enc_header (with_stats (fst hb0) (stats_of_header h')) vl true = Ok hb1 ->
  recs_ok (aint h' "point_size") (accepted evs) = true -> 0 < aint h' "point_size" ->
  len (snd hb0) + len (concat (accepted evs)) <= epos ->
  reads_prefix_or_fails (fold_left apply_write (fault_trace (snd hb0) evs epos eb (snd hb1)) []) (accepted evs).
Proof. exact fault_final_safe. Qed.
Print Assumptions C19_fault_final.

(* the same for an append session with torn chunk writes on the file of A *)
Theorem C19_fault_safe_append : forall ap, ap_ok ap -> (forall s o x, 0 <= ap s o x) ->
  forall h vl fmt A evl evs f0 f1 hA h1 epos eb k j,
  wf_las ap h vl fmt A evl -> wf_las ap h vl fmt (A ++ accepted evs) evl ->
  file_of ap h vl fmt A evl = Ok f0 -> final_hdr ap h vl fmt A evl = Ok hA ->
  file_of ap h vl fmt (A ++ accepted evs) evl = Ok f1 -> final_hdr ap h vl fmt (A ++ accepted evs) evl = Ok h1 ->
  enc_vlrs true evl = Ok eb ->
  let off := aint hA "offset_to_point_data" in
  off + len (concat A) + len (concat (accepted evs)) <= epos ->
  reads_prefix_or_fails
    (crash_from f0 (fault_append_trace (off + len (concat A)) evs epos eb (firstn (Z.to_nat off) f1)) k j)
    (A ++ accepted evs).
Proof. exact fault_safe_append. Qed.
Print Assumptions C19_fault_safe_append.

Theorem C19_executable_twin : forall src, read_file_f src = read_file src.
Proof. exact read_file_f_eq. Qed.
Print Assumptions C19_executable_twin.

(* non-vacuity of the fault-sequence statements: a concrete trace with a torn write between two accepted chunks *)
Example C19_nonvacuous :
  let r (x : Z) := le_enc 4 x ++ repeat 1 16 in
  (fault_writes 227 [FOk [r 5]; FTorn [9; 9; 9]; FOk [r 7; r 8]],
   len (accepted [FOk [r 5]; FTorn [9; 9; 9]; FOk [r 7; r 8]]))
  = ([(227, r 5); (247, [9; 9; 9]); (247, r 7 ++ r 8)], 3).
Proof. vm_compute. reflexivity. Qed.
