(* C19 — interrupted writes and truncated files never yield points that were not written. *)
From Coq Require Import String.
From Coq Require Import ZArith List Bool.
From LasV Require Import Lib.Base Lib.Layout Gen.GenHeaderLayout Gen.GenFormatBits Gen.GenDims Model.Las Model.LasSpec
  Model.LasFast Proofs.HeaderLen Proofs.VlrProofs Proofs.HeaderProofs Proofs.WriterProofs Proofs.RoundTripProofs Proofs.AppendProofs Proofs.CrashProofs Proofs.CrashAppendProofs Proofs.LasFastProofs Proofs.FaultProofs Proofs.FaultAppendProofs
  Model.LasDest Proofs.DestProofs Proofs.HistoryProofs.
Import ListNotations.
Open Scope list_scope.
Open Scope Z_scope.

(* truncation at ANY byte of a valid file: the reader (structurally recursive on the bytes: it terminates) either fails
   or returns a prefix of the stored point sequence *)
Theorem C19_truncation : forall ap h vl fmt recs evl f h' n,
  file_of ap h vl fmt recs evl = Ok f -> final_hdr ap h vl fmt recs evl = Ok h' ->
  wf_header h' vl = true -> forallb (wf_vlr true) evl = true ->
  recs_ok (aint h' "point_size") recs = true -> 0 < aint h' "point_size" ->
  reads_prefix_or_fails (firstn n f) recs.
Proof. exact truncation_safe. Qed.
Print Assumptions C19_truncation.

(* the complete file reads back completely (the degenerate crash point "after the last write") *)
Theorem C19_complete : forall ap h vl fmt recs evl f h',
  file_of ap h vl fmt recs evl = Ok f -> final_hdr ap h vl fmt recs evl = Ok h' ->
  wf_header h' vl = true -> forallb (wf_vlr true) evl = true ->
  recs_ok (aint h' "point_size") recs = true -> 0 < aint h' "point_size" ->
  (evl = [] \/ aint h "version.minor" >= 4) -> len evl <= MAX_VLRS ->
  exists lf, read_file f = Ok lf /\ lf_points lf = recs.
Proof.
  intros ap h vl fmt recs evl f h' H1 H2 H3 H4 H5 H6 H7 H8.
  destruct (read_write_roundtrip ap h vl fmt recs evl f h' H1 H2 H3 H4 H5 H6 H7 H8) as (lf & A & B & _).
  exists lf. split; assumption.
Qed.
Print Assumptions C19_complete.

(* the writer's discipline: the in-place header rewrite has the length of the first header, so it never touches a point *)
Theorem C19_rewrite_in_place : forall h vl h' bs, enc_header h vl true = Ok (h', bs) ->
  aint h' "offset_to_point_data" = aint h "offset_to_point_data" /\ len bs = aint h "offset_to_point_data".
Proof. exact enc_header_same_size. Qed.
Print Assumptions C19_rewrite_in_place.

(* torn little-endian counter: overwritten byte by byte (low bytes first) from 0, it never exceeds the new count *)
Theorem C19_torn_counter : forall n v j, 0 <= v < 256 ^ Z.of_nat n -> (j <= n)%nat ->
  0 <= le_dec (firstn j (le_enc n v) ++ skipn j (le_enc n 0)) <= v.
Proof. exact torn_le_zero. Qed.
Print Assumptions C19_torn_counter.

(* EVERY crash image of a one-shot or chunked writer session - after k complete low-level writes and j bytes of the next,
   the in-place header rewrite included, all four versions - is refused or read as a prefix of the points being stored *)
Theorem C19_crash_safe : forall ap h vl fmt chunks evl hb0 eb h' hb1 k j,
  enc_header (with_stats h stats0) vl false = Ok hb0 ->
  enc_vlrs true evl = Ok eb ->
  final_hdr ap h vl fmt (concat chunks) evl = Ok h' ->
  enc_header (with_stats (fst hb0) (stats_of_header h')) vl true = Ok hb1 ->
  wf_header h' vl = true -> wf_header (fst hb0) vl = true -> forallb (wf_vlr true) evl = true ->
  recs_ok (aint h' "point_size") (concat chunks) = true -> 0 < aint h' "point_size" ->
  reads_prefix_or_fails (crash_image (write_trace (snd hb0) chunks eb (snd hb1)) k j) (concat chunks).
Proof. exact crash_safe. Qed.
Print Assumptions C19_crash_safe.

(* the same for an APPEND session on an existing file (the file of A): the chunk writes start where the old points end (over the old
   EVLRs), then the EVLRs, then the in-place header rewrite; every crash image is refused or read as a prefix of A ++ the appended points *)
Theorem C19_crash_safe_append : forall ap, ap_ok ap -> (forall s o x, 0 <= ap s o x) ->
  forall h vl fmt A evl Bs f0 f1 hA h1 eb k j,
  wf_las ap h vl fmt A evl -> wf_las ap h vl fmt (A ++ concat Bs) evl ->
  file_of ap h vl fmt A evl = Ok f0 -> final_hdr ap h vl fmt A evl = Ok hA ->
  file_of ap h vl fmt (A ++ concat Bs) evl = Ok f1 -> final_hdr ap h vl fmt (A ++ concat Bs) evl = Ok h1 ->
  enc_vlrs true evl = Ok eb ->
  let off := aint hA "offset_to_point_data" in
  reads_prefix_or_fails
    (crash_from f0 (append_trace (off + len (concat A)) Bs eb (firstn (Z.to_nat off) f1)) k j)
    (A ++ concat Bs).
Proof. exact crash_safe_append. Qed.
Print Assumptions C19_crash_safe_append.

(* FAULT SEQUENCES. Some write_points calls of a writer session FAIL: `stored` bytes (any; none for the faults laspy is judged on when
   the session goes on with more chunks) reach the destination at the current position, the call raises, the chunk is not counted and the
   next point write starts at the same position (fault_writes); the session goes on - more chunks, the EVLRs at ANY position `epos` at or
   behind the end of the accepted points (laspy: right behind what a torn last write left), the header rewrite. The harness checks this
   discipline on the traces of the implementation. Every crash image of such a session is refused or read as a prefix of the ACCEPTED points *)
Theorem C19_fault_safe : forall ap h vl fmt evs evl hb0 epos eb h' hb1 k j,
  enc_header (with_stats h stats0) vl false = Ok hb0 ->
  enc_vlrs true evl = Ok eb ->
  final_hdr ap h vl fmt (accepted evs) evl = Ok h' ->
  enc_header (with_stats (fst hb0) (stats_of_header h')) vl true = Ok hb1 ->
  recs_ok (aint h' "point_size") (accepted evs) = true -> 0 < aint h' "point_size" ->
  len (snd hb0) + len (concat (accepted evs)) <= epos ->
  reads_prefix_or_fails (crash_image (fault_trace (snd hb0) evs epos eb (snd hb1)) k j) (accepted evs).
Proof. exact fault_safe. Qed.
Print Assumptions C19_fault_safe.

(* in particular the file left when such a session has been closed normally *)
Theorem C19_fault_final : forall ap h vl fmt evs evl hb0 epos eb h' hb1,
  enc_header (with_stats h stats0) vl false = Ok hb0 ->
  enc_vlrs true evl = Ok eb ->
  final_hdr ap h vl fmt (accepted evs) evl = Ok h' ->
  enc_header (with_stats (fst hb0) (stats_of_header h')) vl true = Ok hb1 ->
  recs_ok (aint h' "point_size") (accepted evs) = true -> 0 < aint h' "point_size" ->
  len (snd hb0) + len (concat (accepted evs)) <= epos ->
  reads_prefix_or_fails (fold_left apply_write (fault_trace (snd hb0) evs epos eb (snd hb1)) []) (accepted evs).
Proof. exact fault_final_safe. Qed.
Print Assumptions C19_fault_final.

(* the same for an append session with torn chunk writes on the file of A *)
Theorem C19_fault_safe_append : forall ap, ap_ok ap -> (forall s o x, 0 <= ap s o x) ->
  forall h vl fmt A evl evs f0 f1 hA h1 epos eb k j,
  wf_las ap h vl fmt A evl -> wf_las ap h vl fmt (A ++ accepted evs) evl ->
  file_of ap h vl fmt A evl = Ok f0 -> final_hdr ap h vl fmt A evl = Ok hA ->
  file_of ap h vl fmt (A ++ accepted evs) evl = Ok f1 -> final_hdr ap h vl fmt (A ++ accepted evs) evl = Ok h1 ->
  enc_vlrs true evl = Ok eb ->
  let off := aint hA "offset_to_point_data" in
  off + len (concat A) + len (concat (accepted evs)) <= epos ->
  reads_prefix_or_fails
    (crash_from f0 (fault_append_trace (off + len (concat A)) evs epos eb (firstn (Z.to_nat off) f1)) k j)
    (A ++ accepted evs).
Proof. exact fault_safe_append. Qed.
Print Assumptions C19_fault_safe_append.

Theorem C19_executable_twin : forall src, read_file_f src = read_file src.
Proof. exact read_file_f_eq. Qed.
Print Assumptions C19_executable_twin.

(* non-vacuity of the fault-sequence statements: a concrete trace with a torn write between two accepted chunks *)
Example C19_nonvacuous :
  let r (x : Z) := le_enc 4 x ++ repeat 1 16 in
  (fault_writes 227 [FOk [r 5]; FTorn [9; 9; 9]; FOk [r 7; r 8]],
   len (accepted [FOk [r 5]; FTorn [9; 9; 9]; FOk [r 7; r 8]]))
  = ([(227, r 5); (247, [9; 9; 9]); (247, r 7 ++ r 8)], 3).
Proof. vm_compute. reflexivity. Qed.

(* ------------------------------------------------------------------------------------------------------------------ *)
(* Round 5. (1) THE DESTINATION ALREADY HOLDS BYTES (an older LAS file: longer, shorter, same size, same or another version) when        *)
(* LasData.write(path) / laspy.open(path, mode='w') starts. Model/LasDest.v: the operations on the destination are positioned writes    *)
(* and truncations; open(path, 'wb+') empties it first (the harness records the mode, the contents right after the open and every       *)
(* operation of the implementation, and checks this). From the open on, every image - at every operation and every byte - is an image   *)
(* of the session on an empty destination, whatever `old` was: it is refused or read as a prefix of the NEW points.                     *)
(* ------------------------------------------------------------------------------------------------------------------ *)
Theorem C19_overwrite_image : forall old trace k j, dest_image old (overwrite_ops trace) (S k) j = crash_image trace k j.
Proof. exact overwrite_image. Qed.
Print Assumptions C19_overwrite_image.

Theorem C19_overwrite_safe : forall ap h vl fmt chunks evl hb0 eb h' hb1 old k j,
  enc_header (with_stats h stats0) vl false = Ok hb0 ->
  enc_vlrs true evl = Ok eb ->
  final_hdr ap h vl fmt (concat chunks) evl = Ok h' ->
  enc_header (with_stats (fst hb0) (stats_of_header h')) vl true = Ok hb1 ->
  wf_header h' vl = true -> wf_header (fst hb0) vl = true -> forallb (wf_vlr true) evl = true ->
  recs_ok (aint h' "point_size") (concat chunks) = true -> 0 < aint h' "point_size" ->
  reads_prefix_or_fails (dest_image old (overwrite_ops (write_trace (snd hb0) chunks eb (snd hb1))) (S k) j) (concat chunks).
Proof. exact overwrite_safe. Qed.
Print Assumptions C19_overwrite_safe.

Theorem C19_overwrite_fault_safe : forall ap h vl fmt evs evl hb0 epos eb h' hb1 old k j,
  enc_header (with_stats h stats0) vl false = Ok hb0 ->
  enc_vlrs true evl = Ok eb ->
  final_hdr ap h vl fmt (accepted evs) evl = Ok h' ->
  enc_header (with_stats (fst hb0) (stats_of_header h')) vl true = Ok hb1 ->
  recs_ok (aint h' "point_size") (accepted evs) = true -> 0 < aint h' "point_size" ->
  len (snd hb0) + len (concat (accepted evs)) <= epos ->
  reads_prefix_or_fails (dest_image old (overwrite_ops (fault_trace (snd hb0) evs epos eb (snd hb1))) (S k) j) (accepted evs).
Proof. exact overwrite_fault_safe. Qed.
Print Assumptions C19_overwrite_fault_safe.

(* the order matters: a writer that keeps the old file until its new header is in place (open 'rb+', header, truncate) and is interrupted
   inside that header leaves a file that READS AS THE OLD POINTS. Old file: the records 1, 2; being written: the record 9; interrupted
   after 100 bytes of the new header *)
Definition c19_h : assoc := [("version.major", VInt 1); ("version.minor", VInt 2); ("uuid", VBytes (repeat 0 16));
  ("system_identifier", VBytes [79; 84]); ("generating_software", VBytes []);
  ("point_format_id", VInt 0); ("point_size", VInt 20); ("scales[0]", VInt 4607182418800017408)]%string.
Example C19_keep_then_truncate_refuted :
  let apx := (fun s o x : Z => if x <? 0 then 0 else x) in
  let r (x : Z) := le_enc 4 x ++ repeat 0 16 in
  match file_of apx c19_h [] 0 [r 1; r 2] [], enc_header (with_stats c19_h stats0) [] false with
  | Ok old, Ok hb0 =>
      match read_file (dest_image old (keep_then_truncate_ops (snd hb0) [(len (snd hb0), r 9)]) 0 100),
            read_file (dest_image old (overwrite_ops [(0, snd hb0); (len (snd hb0), r 9)]) 1 100) with
      | Ok lf, Err _ => list_eqb (map (rec_coord 0) (lf_points lf)) [1; 2]
      | _, _ => false
      end
  | _, _ => false
  end = true.
Proof. vm_compute. reflexivity. Qed.

(* ------------------------------------------------------------------------------------------------------------------ *)
(* Round 5. (2) TWO-LEVEL HISTORIES: the image an interrupted session left is the original of a second append session.               *)
(* Such an image is a header announcing the records A (ANY statistics stA counting them), the records A, and ANY bytes g behind them -  *)
(* left-over records of the lost session, a torn record, half-overwritten EVLRs. The second session writes its points where the header  *)
(* says the points end (the harness checks this on the implementation), re-emits any EVLR bytes at or behind them, rewrites the header   *)
(* with any statistics counting A ++ accepted chunks. Every image of the second session is refused or read as a prefix of               *)
(* A ++ accepted chunks: nothing of g is ever returned as a point.                                                                  *)
(* ------------------------------------------------------------------------------------------------------------------ *)
Theorem C19_history_safe_append : forall W0 vl h0 b0 stA stB hA bA hB bB A evs g epos eb k j,
  enc_header W0 vl false = Ok (h0, b0) ->
  enc_header (with_stats h0 stA) vl true = Ok (hA, bA) ->
  enc_header (with_stats h0 stB) vl true = Ok (hB, bB) ->
  s_count stA = len A -> s_count stB = len (A ++ accepted evs) ->
  recs_ok (aint h0 "point_size") A = true -> recs_ok (aint h0 "point_size") (A ++ accepted evs) = true -> 0 < aint h0 "point_size" ->
  len bA + len (concat A) + len (concat (accepted evs)) <= epos ->
  reads_prefix_or_fails
    (crash_from (bA ++ concat A ++ g) (fault_append_trace (len bA + len (concat A)) evs epos eb bB) k j) (A ++ accepted evs).
Proof. exact history_safe_append. Qed.
Print Assumptions C19_history_safe_append.

(* both levels: session 1 (chunk events evs1, then anything) interrupted during its point writes, at a call or inside one; session 2
   appends on the image it left. Full statement wanted: ANY crash point of session 1, the header rewrite included; proved: the crash points
   before session 1 starts to rewrite its header (k1 < length evs1) and - by C19_history_safe_append with A := A ++ accepted evs1 - the
   images after the rewrite is complete. Missing: images torn INSIDE the header rewrite of session 1 as originals of session 2 (a header
   mixing two sets of statistics; the harness evaluates them on the implementation at every byte of the point count) *)
Theorem C19_two_level_safe_partial : forall W0 vl h0 b0 stA stB hA bA hB bB A g evs1 rest1 k1 j1 evs2 epos eb k2 j2,
  enc_header W0 vl false = Ok (h0, b0) ->
  enc_header (with_stats h0 stA) vl true = Ok (hA, bA) ->
  enc_header (with_stats h0 stB) vl true = Ok (hB, bB) ->
  s_count stA = len A -> s_count stB = len (A ++ accepted evs2) ->
  recs_ok (aint h0 "point_size") A = true -> recs_ok (aint h0 "point_size") (A ++ accepted evs2) = true -> 0 < aint h0 "point_size" ->
  len bA + len (concat A) + len (concat (accepted evs2)) <= epos ->
  (k1 < length evs1)%nat ->
  let image1 := crash_from (bA ++ concat A ++ g) (fault_writes (len bA + len (concat A)) evs1 ++ rest1) k1 j1 in
  reads_prefix_or_fails image1 A
  /\ reads_prefix_or_fails
       (crash_from image1 (fault_append_trace (len bA + len (concat A)) evs2 epos eb bB) k2 j2) (A ++ accepted evs2).
Proof. exact two_level_safe. Qed.
Print Assumptions C19_two_level_safe_partial.

(* non-vacuity: the file of record 1; a first append session torn after 7 bytes of its chunk (records 5, 6); a second append session
   storing record 9 on the image: it reads as 1, 9 - and an appender that wrote at the END of the image instead (behind the 7 left-over
   bytes) would produce a file whose second record is not record 9 *)
Example C19_two_level_example :
  let apx := (fun s o x : Z => if x <? 0 then 0 else x) in
  let r (x : Z) := le_enc 4 x ++ repeat 0 16 in
  match file_of apx c19_h [] 0 [r 1] [], file_of apx c19_h [] 0 [r 1; r 9] [] with
  | Ok f0, Ok f1 =>
      let image1 := crash_from f0 (fault_writes (len f0) [FOk [r 5; r 6]]) 0 7 in
      let good := crash_from image1 (fault_append_trace (len f0) [FOk [r 9]] (len f0 + 20) [] (firstn 227 f1)) 2 0 in
      let bad := crash_from image1 (fault_append_trace (len image1) [FOk [r 9]] (len image1 + 20) [] (firstn 227 f1)) 2 0 in
      match read_file image1, read_file good, read_file bad with
      | Ok l1, Ok l2, Ok l3 => list_eqb (map (rec_coord 0) (lf_points l1)) [1] && list_eqb (map (rec_coord 0) (lf_points l2)) [1; 9]
                               && negb (list_eqb (map (rec_coord 0) (lf_points l3)) [1; 9]) && (len image1 =? 227 + 20 + 7)
      | _, _, _ => false
      end
  | _, _ => false
  end = true.
Proof. vm_compute. reflexivity. Qed.

(* ---------------------------------------------------------------------------------- *)
(* Round 6: the session's OWN header edited while the session is open (Model/LasEnd.v) *)
(* ---------------------------------------------------------------------------------- *)
From LasV Require Import Model.AppendCap Model.LasEnd Proofs.EndProofs.

(* whatever the caller did to writer.header / appender.header since the session was opened (hb = what the header serialises to when the session
   is closed), the guarded in-place rewrite either refuses - nothing is written - or leaves every byte from the first point on, and the length
   of the file, as they were *)
Theorem C19_own_header_edited : forall off hb f f', 0 <= off <= len f ->
  guarded_rewrite off hb f = Ok f' -> tail_from off f' = tail_from off f /\ length f' = length f.
Proof. exact guarded_rewrite_keeps_points. Qed.
Print Assumptions C19_own_header_edited.

Theorem C19_own_header_resized_refused : forall off hb f, len hb <> off -> guarded_rewrite off hb f = Err ELaspy.
Proof. exact guarded_rewrite_refuses. Qed.
Print Assumptions C19_own_header_resized_refused.

(* ... and an interruption at any byte of an accepted rewrite shows the same point area; a reader that follows (offset, record size) is handed
   the same records before, during and after it *)
Theorem C19_own_header_rewrite_image : forall off hb f j, 0 <= off -> len hb = off ->
  tail_from off (rewrite_image hb f j) = tail_from off f.
Proof. exact rewrite_image_keeps_points. Qed.
Print Assumptions C19_own_header_rewrite_image.

Theorem C19_own_header_rewrite_records : forall off hb f j ps c n, 0 <= off -> len hb = off -> 0 <= ps -> 0 <= c ->
  read_records (rewrite_image hb f j) off ps c n = read_records f off ps c n.
Proof. exact rewrite_keeps_records. Qed.
Print Assumptions C19_own_header_rewrite_records.

(* the rewrite WITHOUT the guard is refuted: a header block grown by a whole number of records puts other bytes under the offset *)
Example C19_unguarded_rewrite_refuted :
  let f := [76; 65; 83; 70; 1; 2; 3; 4] in
  tail_from 4 (unguarded_rewrite [76; 65; 83; 70; 9; 9] f) <> tail_from 4 f
  /\ guarded_rewrite 4 [76; 65; 83; 70; 9; 9] f = Err ELaspy.
Proof. exact unguarded_rewrite_moves_points. Qed.

(* calls after the first close of an appender (a second close, close inside a with-block, more chunks) are inert: the file is the one the first
   close produced - to which C19_crash_safe_append / C19_fault_safe_append apply *)
Theorem C19_after_close_inert : forall ap closef calls post s,
  snd (arun_ops ap closef s (calls_of calls ++ AoClose :: post)) = Some (closef (acalls ap s calls)).
Proof. exact after_close_inert. Qed.
Print Assumptions C19_after_close_inert.

(* round 7 - what was being stored are points with REAL-WORLD coordinates (scale-aware records are re-quantised to the destination's grid before they
   are written): the header rewritten in place at close is the first header with the statistics replaced, so the scales / offsets and the fields
   that lay out the point block have, at every byte of the rewrite, the value they had when the first point was stored; a crash image inside the
   rewrite announces the stored raw coordinates under the scaling they were written in. (hb1 of C19_crash_safe / C19_crash_safe_append is
   enc_header of exactly this with_stats header.) The implementation is held to it by the harness: bytes 24..26, 94..100, 104..107, 131..179 of
   the first header vs the closed file, and x / y / z of every crash image of sessions fed with differently scaled records. *)
From LasV Require Import Proofs.RewriteScalingProofs.
Theorem C19_rewrite_keeps_scaling : forall h0 h' i,
  aint (with_stats h0 (stats_of_header h')) (axis_name "scales" i) = aint h0 (axis_name "scales" i) /\
  aint (with_stats h0 (stats_of_header h')) (axis_name "offsets" i) = aint h0 (axis_name "offsets" i).
Proof. exact rewrite_keeps_scaling. Qed.
Print Assumptions C19_rewrite_keeps_scaling.

Theorem C19_rewrite_keeps_layout : forall h0 h' n, In n interpretation_fields ->
  aint (with_stats h0 (stats_of_header h')) n = aint h0 n.
Proof. exact rewrite_keeps_layout. Qed.
Print Assumptions C19_rewrite_keeps_layout.

(* ... while the statistics are the new ones (the two theorems above are not about a rewrite that changes nothing) *)
Theorem C19_rewrite_sets_count : forall h0 h', aint (with_stats h0 (stats_of_header h')) "point_count" = aint h' "point_count".
Proof. exact rewrite_sets_count. Qed.
Print Assumptions C19_rewrite_sets_count.
