(* C11 — scaled coordinates obey x = X*scale + offset and never wrap.
   q_* : the arithmetic shapes of the source (Gen/GenScaling.v) over exact rationals; f_* : the same shapes over
   binary64 (Model/Scaling.v).  Histories run over a heap of numbered scale/offset arrays (aliasing between the
   header and the record); st/step/run are parametric in the arithmetic, q_run / f_run are the two instances. *)
From Coq Require Import ZArith QArith Qabs List Bool.
From LasV Require Import Lib.Base Gen.GenScaling Model.Scaling Proofs.ScalingProofs Proofs.ScalingFloat Proofs.ScalingSession Proofs.ScalingRoundtrip.
Import ListNotations.
Open Scope list_scope.
Open Scope Z_scope.

(* ---- the law, over exact rationals ---- *)

(* what a view shows for the stored integer X *)
Theorem C11_present_law : forall X s o, (q_present X s o == inject_Z X * s + o)%Q.
Proof. exact q_present_law. Qed.
Print Assumptions C11_present_law.

(* assigning v stores an integer whose presented value is at most half a step away from v ... *)
Theorem C11_half_step : forall v s o, (0 < s)%Q -> (Qabs (q_present (q_store v s o) s o - v) <= s / 2)%Q.
Proof. exact q_half_step. Qed.
Print Assumptions C11_half_step.

(* ... and no other integer is nearer *)
Theorem C11_nearest : forall v s o Y, (0 < s)%Q ->
  (Qabs (q_present (q_store v s o) s o - v) <= Qabs (q_present Y s o - v))%Q.
Proof. exact q_nearest. Qed.
Print Assumptions C11_nearest.

(* storing what is presented, under the same scaling, gives the integer back *)
Theorem C11_store_present : forall X s o, (0 < s)%Q -> q_store (q_present X s o) s o = X.
Proof. exact q_store_present. Qed.
Print Assumptions C11_store_present.

(* the range test of __setitem__ (regenerated from the source) accepts exactly the 32-bit integers, on the value that is stored *)
Theorem C11_checked : forall v s o X,
  q_store_checked v s o = Ok X <-> X = q_store v s o /\ - 2 ^ 31 <= X < 2 ^ 31.
Proof. exact q_checked_ok. Qed.
Print Assumptions C11_checked.

Theorem C11_checked_err : forall v s o e,
  q_store_checked v s o = Err e <-> e = EOverflow /\ ~ (- 2 ^ 31 <= q_store v s o < 2 ^ 31).
Proof. exact q_checked_err. Qed.
Print Assumptions C11_checked_err.

(* the same for the record-level rescaling (apply_new_scaling) *)
Theorem C11_rescale_checked : forall v s o X,
  q_restore_checked v s o = Ok X <-> X = q_restore v s o /\ - 2 ^ 31 <= X < 2 ^ 31.
Proof. exact q_rechecked_ok. Qed.
Print Assumptions C11_rescale_checked.

Theorem C11_rescale_checked_err : forall v s o e,
  q_restore_checked v s o = Err e <-> e = EOverflow /\ ~ (- 2 ^ 31 <= q_restore v s o < 2 ^ 31).
Proof. exact q_rechecked_err. Qed.
Print Assumptions C11_rescale_checked_err.

(* ---- binary64 ---- *)

(* whatever the doubles v, s, o (finite or not): an integer is stored only if it is the rounded quotient and fits;
   a wrapped value is never stored *)
Theorem C11_float_no_wrap : forall v s o X,
  f_store_checked v s o = Ok X <-> f_store v s o = Some X /\ - 2 ^ 31 <= X < 2 ^ 31.
Proof. exact f_checked_ok. Qed.
Print Assumptions C11_float_no_wrap.

Theorem C11_float_refuses : forall v s o e,
  f_store_checked v s o = Err e <->
  e = EOverflow /\ (f_store v s o = None \/ exists Y, f_store v s o = Some Y /\ ~ (- 2 ^ 31 <= Y < 2 ^ 31)).
Proof. exact f_checked_err. Qed.
Print Assumptions C11_float_refuses.

Theorem C11_float_rescale_no_wrap : forall v s o X,
  f_restore_checked v s o = Ok X <-> f_restore v s o = Some X /\ - 2 ^ 31 <= X < 2 ^ 31.
Proof. exact f_rechecked_ok. Qed.
Print Assumptions C11_float_rescale_no_wrap.

(* rounding to binary64 is the identity on binary64 values and moves any rational by at most half an ulp:
   relative error 2^-53 in the normal range *)
Theorem C11_float_rounding : forall q r, rnd64 q = Some r ->
  (Qabs (r - q) <= Qabs q * (1 # 2 ^ 53) + (1 # 2 ^ 1075))%Q.
Proof. exact rnd64_error. Qed.
Print Assumptions C11_float_rounding.

(* the composed binary64 bound: v stored under (s, o) and presented again - five roundings (v - o, the quotient, float(X),
   float(X) * s, ... + o), each within 2^-53 of its magnitude plus half the smallest subnormal, and numpy.round within one
   half - is within half a step of v plus an explicit slack, for ALL finite doubles v, s > 0, o for which the results are
   finite (in particular the stated ranges); X is the stored integer.  Second part: for a checked store |X| <= 2^31, so
   the slack is explicit in v, s, o alone. *)
Theorem C11_roundtrip_float_bound :
  (forall v s o X x, (0 < s)%Q ->
    f_store (Some v) (Some s) (Some o) = Some X ->
    f_present X (Some s) (Some o) = Some x ->
    (Qabs (x - v) <= s / 2 + (3 * Qabs (v - o) + 7 * (Qabs (inject_Z X) * s) + Qabs o) * (1 # 2 ^ 53) + 5 * (1 + s) * (1 # 2 ^ 1075))%Q)
  /\
  (forall v s o X x, (0 < s)%Q ->
    f_store_checked (Some v) (Some s) (Some o) = Ok X ->
    f_present X (Some s) (Some o) = Some x ->
    (Qabs (x - v) <= s / 2 + (3 * Qabs (v - o) + 7 * (inject_Z (2 ^ 31) * s) + Qabs o) * (1 # 2 ^ 53) + 5 * (1 + s) * (1 # 2 ^ 1075))%Q).
Proof. exact (conj f_roundtrip_bound f_roundtrip_bound_checked). Qed.
Print Assumptions C11_roundtrip_float_bound.

(* its two halves: the integer stored for v is within 1/2 + 3 * 2^-53 |q| (+ subnormal terms) of the exact quotient
   q = (v - o) / s - the tolerance 1/2 + 2^-51 |q| of the failing-input search is implied by it - and what is presented for
   a stored integer X is X*s + o up to three roundings *)
Theorem C11_store_float_bound :
  (forall v s o X, (0 < s)%Q -> f_store (Some v) (Some s) (Some o) = Some X ->
    (Qabs (inject_Z X - (v - o) / s) <= (1 # 2) + (3 * Qabs (v - o) * (1 # 2 ^ 53) + 2 * (1 # 2 ^ 1075)) / s + (1 # 2 ^ 1075))%Q)
  /\
  (forall X s o x, (0 < s)%Q -> f_present X (Some s) (Some o) = Some x ->
    (Qabs (x - (inject_Z X * s + o)) <= (7 * (Qabs (inject_Z X) * s) + Qabs o) * (1 # 2 ^ 53) + (3 + 4 * s) * (1 # 2 ^ 1075))%Q).
Proof. exact (conj f_store_bound_steps f_present_bound). Qed.
Print Assumptions C11_store_float_bound.

(* ---- histories: header edits, assignments, change_scaling, writes; both arithmetics ---- *)

(* every integer held by the record fits in 32 bits after any history (and the array ids stay valid) *)
Theorem C11_history_no_wrap_exact : forall ops s0, wf s0 -> wf (fst (q_run s0 ops)).
Proof. exact q_run_wf. Qed.
Print Assumptions C11_history_no_wrap_exact.

Theorem C11_history_no_wrap_float : forall ops s0, wf s0 -> wf (fst (f_run s0 ops)).
Proof. exact f_run_wf. Qed.
Print Assumptions C11_history_no_wrap_float.

(* las.<axis> = vals after any history: the record takes the header's arrays (also when the assignment fails), the
   integers stored are the nearest ones under the header's scaling, within half a step; a value that does not fit
   raises OverflowError and leaves the integers as they were *)
Theorem C11_assign_exact : forall ops s0 a vals, wf s0 -> (a < 3)%nat ->
  let s := fst (q_run s0 ops) in
  let sc := at3 Q 0%Q (get Q (heap s) (h_s s)) a in let off := at3 Q 0%Q (get Q (heap s) (h_o s)) a in
  let r := q_step s (Assign a vals) in
  let cols := grow (ints s) (length vals) in    (* zero points are appended first when vals is longer than the record *)
  heap (fst r) = heap s /\ h_s (fst r) = h_s s /\ h_o (fst r) = h_o s /\ r_s (fst r) = h_s s /\ r_o (fst r) = h_o s /\
  match snd r with
  | ONone => vals = [] /\ ints (fst r) = cols
             \/ exists xs, Forall2 (q_assigned_int sc off) vals xs
                           /\ length xs = length (nth a cols []) /\ ints (fst r) = set_at cols a xs
  | OErr e => ints (fst r) = ints s /\     (* a refused assignment does not leave the record grown *)
              (e = EOverflow /\ (exists v, In v vals /\ ~ fitsP (q_store v sc off))
               \/ e = EValue /\ length vals <> length (nth a cols []))
  | OFile _ => False
  end.
Proof. exact q_assign_after. Qed.
Print Assumptions C11_assign_exact.

Theorem C11_assign_float : forall ops s0 a vals, wf s0 -> (a < 3)%nat ->
  let s := fst (f_run s0 ops) in
  let sc := at3 fl None (get fl (heap s) (h_s s)) a in let off := at3 fl None (get fl (heap s) (h_o s)) a in
  let r := f_step s (Assign a vals) in
  let cols := grow (ints s) (length vals) in
  heap (fst r) = heap s /\ h_s (fst r) = h_s s /\ h_o (fst r) = h_o s /\ r_s (fst r) = h_s s /\ r_o (fst r) = h_o s /\
  match snd r with
  | ONone => vals = [] /\ ints (fst r) = cols
             \/ exists xs, Forall2 (fun v X => f_store v sc off = Some X /\ fitsP X) vals xs
                           /\ length xs = length (nth a cols []) /\ ints (fst r) = set_at cols a xs
  | OErr e => ints (fst r) = ints s /\
              (e = EOverflow /\ (exists v, In v vals /\ f_store_checked v sc off = Err EOverflow)
               \/ e = EValue /\ length vals <> length (nth a cols []))
  | OFile _ => False
  end.
Proof. exact f_assign_after. Qed.
Print Assumptions C11_assign_float.

(* las.xyz = value (the three columns of an (m, 3) array) is las.x = column 0, then las.y = column 1, then las.z = column 2,
   stopping at the first error: the record takes the header's arrays first, so C11_assign_* apply to each axis *)
Theorem C11_assign_xyz_exact : forall s vals,
  q_step s (AssignXYZ vals) =
  q_then_assign (q_then_assign (q_step s (Assign 0 (nth 0 vals []))) 1 (nth 1 vals [])) 2 (nth 2 vals []).
Proof. exact q_assign_xyz_seq. Qed.
Print Assumptions C11_assign_xyz_exact.

Theorem C11_assign_xyz_float : forall s vals,
  f_step s (AssignXYZ vals) =
  f_then_assign (f_then_assign (f_step s (Assign 0 (nth 0 vals []))) 1 (nth 1 vals [])) 2 (nth 2 vals []).
Proof. exact f_assign_xyz_seq. Qed.
Print Assumptions C11_assign_xyz_float.

Theorem C11_then_assign : forall T present store restore teqb d r a vals,
  then_assign T present store restore teqb d r a vals =
  match snd r with ONone => step T present store restore teqb d (fst r) (Assign a vals) | _ => r end.
Proof. exact then_assign_def. Qed.
Print Assumptions C11_then_assign.

(* las.change_scaling after any history: on success record (and header, for the arrays given) refer to the new
   arrays and every integer is the rescaled one (rescaled_int); on overflow OverflowError and integers, record and
   header references are as before; arrays that existed keep their contents *)
Theorem C11_change_scaling_exact : forall ops s0 ns no, wf s0 ->
  let s := fst (q_run s0 ops) in
  change_outcome Q q_present q_restore_checked 0%Q s ns no (q_step s (ChangeScaling ns no)).
Proof. exact q_change_scaling_after. Qed.
Print Assumptions C11_change_scaling_exact.

Theorem C11_change_scaling_float : forall ops s0 ns no, wf s0 ->
  let s := fst (f_run s0 ops) in
  change_outcome fl f_present f_restore_checked None s ns no (f_step s (ChangeScaling ns no)).
Proof. exact f_change_scaling_after. Qed.
Print Assumptions C11_change_scaling_float.

(* an integer produced by the exact rescaling is the nearest one, fits, and presents within half a step *)
Theorem C11_rescaled_half_step : forall rs ro ns no k X X',
  rescaled_int Q q_present q_restore_checked 0%Q rs ro ns no k X X' -> q_rescaled_int rs ro ns no k X X'.
Proof. exact q_rescaled_int_of. Qed.
Print Assumptions C11_rescaled_half_step.

(* las.write after any history (write_outcome): the caller's objects are as before (same_objects: integers, record
   and header references, contents of every existing array), whether the write succeeds or raises; the file carries
   the header's scaling; its integers fit in 32 bits and are the record's own when the scalings agree, the rescaled
   ones (file_axes / rescaled_int) otherwise; failure is OverflowError and happens only when some rescaled integer
   does not fit *)
Theorem C11_write_exact : forall ops s0, wf s0 ->
  let s := fst (q_run s0 ops) in
  write_outcome Q q_present q_restore_checked Qeq_bool 0%Q s (get Q (heap s) (h_s s)) (get Q (heap s) (h_o s)) (q_step s Write).
Proof. exact q_write_after. Qed.
Print Assumptions C11_write_exact.

Theorem C11_write_float : forall ops s0, wf s0 ->
  let s := fst (f_run s0 ops) in
  write_outcome fl f_present f_restore_checked fl_eqb None s (get fl (heap s) (h_s s)) (get fl (heap s) (h_o s)) (f_step s Write).
Proof. exact f_write_after. Qed.
Print Assumptions C11_write_float.

(* the same when the record is streamed into a writer / appender whose header has any other scaling ws, wo *)
Theorem C11_stream_exact : forall ops s0 ws wo, wf s0 ->
  let s := fst (q_run s0 ops) in
  write_outcome Q q_present q_restore_checked Qeq_bool 0%Q s ws wo (q_step s (StreamInto ws wo)).
Proof. exact q_stream_after. Qed.
Print Assumptions C11_stream_exact.

Theorem C11_stream_float : forall ops s0 ws wo, wf s0 ->
  let s := fst (f_run s0 ops) in
  write_outcome fl f_present f_restore_checked fl_eqb None s ws wo (f_step s (StreamInto ws wo)).
Proof. exact f_stream_after. Qed.
Print Assumptions C11_stream_float.

(* what the file presents is within half a step (of the writer's scaling) of what the record presented *)
Theorem C11_file_half_step : forall cols rs ro ws wo f,
  file_axes Q q_present q_restore_checked Qeq_bool 0%Q cols rs ro ws wo f ->
  nth 0 cols [] = [] /\ f_ints f = [[]; []; []]
  \/ forall k, (k < 3)%nat -> Forall2 (q_close rs ro ws wo k) (nth k cols []) (nth k (f_ints f) []).
Proof. exact q_file_half_step. Qed.
Print Assumptions C11_file_half_step.

(* the axis tables of the source: x, y, z use entry 0, 1, 2 of scales and offsets, in the views and in the rescaling *)
Theorem C11_axes : gen_view_axes = [(0, 0, 0); (1, 1, 1); (2, 2, 2)]%nat /\ gen_rescale_axes = [(0, 0, 0); (1, 1, 1); (2, 2, 2)]%nat.
Proof. exact (conj view_axes_table rescale_axes_table). Qed.
Print Assumptions C11_axes.

(* in the source, las.<axis> = v and las.xyz = v first make the record take the header's scale and offset arrays *)
Theorem C11_assignment_syncs : gen_setattr_syncs = true /\ gen_xyz_syncs = true /\ gen_xyz_axes = [0; 1; 2]%nat.
Proof. exact sync_tables. Qed.
Print Assumptions C11_assignment_syncs.

(* ---- sessions: a writer / appender kept open while the caller goes on editing its header and its record ---- *)
(* sst = the caller's LasData (base) + the open writer (wr: the ids of ITS scale/offset arrays, the integers written so far);
   sstep / srun: every operation above, every assignment route (las.x =, las['x'] =, las.points.x =, las.x[idx] =,
   las[['x','y','z']] =) with a value that may itself be a view (vsrc), in-place and replacing edits of the record's
   scaling, SOpenHdr / SOpenWith / SWrite / SClose.  swf: the record's integers fit in 32 bits and no array the open
   writer refers to is one the caller's header or record refers to. *)

(* in the source the writer deep-copies the header it is given, and a named dimension is assigned through its view, a view
   value being taken by its scaled values *)
Theorem C11_writer_owns_its_header : gen_writer_copies_header = true /\ gen_assign_by_scaled_values = true.
Proof. exact (conj eq_refl eq_refl). Qed.
Print Assumptions C11_writer_owns_its_header.

(* every integer of the record fits after any session history, and an open writer stays out of the caller's reach
   (exact and binary64 arithmetic) *)
Theorem C11_session_no_wrap :
  (forall ops ss, swf ss -> swf (fst (q_srun ss ops))) /\ (forall ops ss, swf ss -> swf (fst (f_srun ss ops))).
Proof. exact (conj q_srun_swf f_srun_swf). Qed.
Print Assumptions C11_session_no_wrap.

(* opening a writer with the caller's header: its arrays hold the header's scaling of that moment, nothing of the caller changes *)
Theorem C11_session_open :
  (forall ss, swf ss ->
    let s := base ss in let r := q_sstep ss SOpenHdr in
    snd r = ONone /\ same_objects s (base (fst r)) /\
    exists w, wr (fst r) = Some w /\ w_cols w = [[]; []; []]
      /\ get Q (heap (base (fst r))) (w_s w) = get Q (heap s) (h_s s) /\ get Q (heap (base (fst r))) (w_o w) = get Q (heap s) (h_o s))
  /\
  (forall ss, swf ss ->
    let s := base ss in let r := f_sstep ss SOpenHdr in
    snd r = ONone /\ same_objects s (base (fst r)) /\
    exists w, wr (fst r) = Some w /\ w_cols w = [[]; []; []]
      /\ get fl (heap (base (fst r))) (w_s w) = get fl (heap s) (h_s s) /\ get fl (heap (base (fst r))) (w_o w) = get fl (heap s) (h_o s)).
Proof. exact (conj q_open_hdr f_open_hdr). Qed.
Print Assumptions C11_session_open.

(* a writer given another header (ws, wo), or an appender on a file with that scaling which already holds pre *)
Theorem C11_session_open_with :
  (forall ss ws wo pre, swf ss ->
    let s := base ss in let r := q_sstep ss (SOpenWith ws wo pre) in
    snd r = ONone /\ same_objects s (base (fst r)) /\
    exists w, wr (fst r) = Some w /\ w_cols w = pre
      /\ get Q (heap (base (fst r))) (w_s w) = ws /\ get Q (heap (base (fst r))) (w_o w) = wo)
  /\
  (forall ss ws wo pre, swf ss ->
    let s := base ss in let r := f_sstep ss (SOpenWith ws wo pre) in
    snd r = ONone /\ same_objects s (base (fst r)) /\
    exists w, wr (fst r) = Some w /\ w_cols w = pre
      /\ get fl (heap (base (fst r))) (w_s w) = ws /\ get fl (heap (base (fst r))) (w_o w) = wo).
Proof. exact (conj q_open_with f_open_with). Qed.
Print Assumptions C11_session_open_with.

(* while the writer stays open (any operations but opening / closing: header edits in place or by replacement, edits of the
   record's scaling, assignments by any route, change_scaling, las.write, other writers, further chunks) the same writer is
   open and its scale and offset arrays hold exactly what they held *)
Theorem C11_session_frozen :
  (forall ops ss w, swf ss -> wr ss = Some w -> forallb keeps ops = true ->
    let ss' := fst (q_srun ss ops) in
    swf ss' /\ (exists c, wr ss' = Some (mkws (w_s w) (w_o w) c))
    /\ get Q (heap (base ss')) (w_s w) = get Q (heap (base ss)) (w_s w)
    /\ get Q (heap (base ss')) (w_o w) = get Q (heap (base ss)) (w_o w))
  /\
  (forall ops ss w, swf ss -> wr ss = Some w -> forallb keeps ops = true ->
    let ss' := fst (f_srun ss ops) in
    swf ss' /\ (exists c, wr ss' = Some (mkws (w_s w) (w_o w) c))
    /\ get fl (heap (base ss')) (w_s w) = get fl (heap (base ss)) (w_s w)
    /\ get fl (heap (base ss')) (w_o w) = get fl (heap (base ss)) (w_o w)).
Proof. exact (conj q_srun_frozen f_srun_frozen). Qed.
Print Assumptions C11_session_frozen.

(* one chunk (chunk_outcome): the caller's state is exactly as before; on success the integers appended to the file are those
   of file_axes under the WRITER's arrays (the record's own when the scalings agree, the rescaled ones otherwise, all in
   32 bits; C11_file_half_step applies); on overflow OverflowError and nothing is appended *)
Theorem C11_session_write :
  (forall ss w, swf ss -> wr ss = Some w -> q_chunk_outcome ss w (q_sstep ss SWrite))
  /\ (forall ss w, swf ss -> wr ss = Some w -> f_chunk_outcome ss w (f_sstep ss SWrite)).
Proof. exact (conj q_session_write f_session_write). Qed.
Print Assumptions C11_session_write.

(* closing: the file carries what the writer's arrays hold - by C11_session_frozen the scaling it was opened with - and
   the integers written chunk by chunk *)
Theorem C11_session_close :
  (forall ss w, wr ss = Some w ->
    q_sstep ss SClose = (mksst (base ss) None, OFile (mkfile (get Q (heap (base ss)) (w_s w)) (get Q (heap (base ss)) (w_o w)) (w_cols w))))
  /\
  (forall ss w, wr ss = Some w ->
    f_sstep ss SClose = (mksst (base ss) None, OFile (mkfile (get fl (heap (base ss)) (w_s w)) (get fl (heap (base ss)) (w_o w)) (w_cols w)))).
Proof. exact (conj q_session_close f_session_close). Qed.
Print Assumptions C11_session_close.

(* ---- the value assigned may itself be a view: it is taken by the coordinates it presents (any arithmetic) ---- *)
Theorem C11_assign_view_value : forall T present store restore teqb d ss a v,
  sstep T present store restore teqb d ss (SAttr a v)
  = with_base T ss (step T present store restore teqb d (base ss) (Assign a (vsrc_vals T present d (base ss) v)))
  /\ sstep T present store restore teqb d ss (SRecAttr a v)
  = with_base T ss (step T present store restore teqb d (base ss) (RecAssign a (vsrc_vals T present d (base ss) v)))
  /\ (forall xs sc off, vsrc_vals T present d (base ss) (VOther xs sc off) = map (fun X => present X sc off) xs)
  /\ (forall b idx, vsrc_vals T present d (base ss) (VSelf b idx) = pick (presented T present d (base ss) b) d idx).
Proof. exact view_value_spec. Qed.
Print Assumptions C11_assign_view_value.

(* a view on the same grid (same scale AND same offset) hands its integers over unchanged; on any other grid (another
   scale, or the same scale and another offset) the integer stored is the nearest one to the coordinate presented, within
   half a step, or the assignment is refused *)
Theorem C11_view_grid :
  (forall X s o, (0 < s)%Q -> q_store_checked (q_present X s o) s o = (if coord_fits X then Ok X else Err EOverflow))
  /\ (forall X sc off s o X', (0 < s)%Q -> q_store_checked (q_present X sc off) s o = Ok X' ->
       fitsP X' /\ (Qabs (q_present X' s o - q_present X sc off) <= s / 2)%Q).
Proof. exact (conj q_view_same_grid q_view_other_grid). Qed.
Print Assumptions C11_view_grid.

(* ---- augmented assignments on scaled views: las.x += d, las.points.x -= d, las['x'] *= d, las.x[idx] /= d ... ---- *)
(* in the source neither ArrayView nor ScaledArrayView defines an in-place operator, and the binary operators of a view are plain
   arithmetic on the coordinates it presents (np.array(self) <op> other): Python evaluates `view op d`, then assigns the result *)
Theorem C11_inplace_operators :
  gen_view_inplace_falls_back = true
  /\ (forall x y, f_view_op BAdd x y = f_add x y) /\ (forall x y, f_view_op BSub x y = f_sub x y)
  /\ (forall x y, f_view_op BMul x y = f_mul x y) /\ (forall x y, f_view_op BDiv x y = f_div x y)
  /\ (forall x y, q_view_op BAdd x y = x + y)%Q /\ (forall x y, q_view_op BSub x y = x - y)%Q
  /\ (forall x y, q_view_op BMul x y = x * y)%Q /\ (forall x y, q_view_op BDiv x y = x / y)%Q.
Proof. exact view_ops_shape. Qed.
Print Assumptions C11_inplace_operators.

(* hence every in-place route IS the assignment, by the same route, of the presented coordinates combined with the operand(s):
   C11_assign_* (nearest integers under the header's scaling or OverflowError, nothing stored on error), C11_session_no_wrap
   (every integer fits after ANY history that contains such operations) apply to it as to any other value (any arithmetic) *)
Theorem C11_inplace_is_assignment : forall T present store restore teqb d ss a idx g ds,
  let v := VSelfOp a idx g ds in
  let vals := map2 g (pick (presented T present d (base ss) a) d idx) ds in
  sstep T present store restore teqb d ss (SAttr a v) = with_base T ss (step T present store restore teqb d (base ss) (Assign a vals))
  /\ sstep T present store restore teqb d ss (SItem a v) = with_base T ss (lasdata_assign T store d false (base ss) a vals)
  /\ sstep T present store restore teqb d ss (SRecAttr a v) = with_base T ss (step T present store restore teqb d (base ss) (RecAssign a vals))
  /\ sstep T present store restore teqb d ss (SView a idx v) = with_base T ss (assign_view T store d (base ss) a idx vals).
Proof. exact inplace_routes. Qed.
Print Assumptions C11_inplace_is_assignment.

(* a non-finite operand (nan, +-inf) on at least one point: whatever the coordinates, the operator and the route, the result is
   OverflowError; the record-level routes leave the whole LasData as it was, the LasData-level routes (which first take the
   header's scaling / may grow the record) leave every stored integer as it was.  (None is the model's one non-finite value; for
   `/=` it stands for nan: x / +-inf is the finite +-0, i.e. x * 0.  A zero divisor gives None as well: f_div x (Some 0) = None.) *)
Theorem C11_inplace_nonfinite : forall ss a i ir b,
  let v := VSelfOp a (i :: ir) (f_view_op b) (repeat None (length (i :: ir))) in
  (let r := f_sstep ss (SRecAttr a v) in base (fst r) = base ss /\ snd r = OErr EOverflow)
  /\ (let r := f_sstep ss (SView a (i :: ir) v) in base (fst r) = base ss /\ snd r = OErr EOverflow)
  /\ (let r := f_sstep ss (SAttr a v) in ints (base (fst r)) = ints (base ss) /\ snd r = OErr EOverflow)
  /\ (let r := f_sstep ss (SItem a v) in ints (base (fst r)) = ints (base ss) /\ snd r = OErr EOverflow).
Proof. exact f_inplace_nonfinite. Qed.
Print Assumptions C11_inplace_nonfinite.

(* a concrete instance: header scale replaced (1e-2 -> 1e-3 as rationals), x assigned (the record takes the header's
   arrays), offset edited in place (seen through the alias), a write that rescales, a change_scaling that overflows,
   and the regression witness of the old unsound check in binary64 (v = 0x1.dcd650112e0bfp+29, s = 1e-9, o = 1e9) *)
Example C11_nonvacuous :
  let s0 := init Q [1 # 100; 1 # 100; 1 # 100]%Q [0; 0; 0]%Q [[100; 200]; [5; 6]; [7; 8]] in
  let ops := [HReplaceS [1 # 1000; 1 # 100; 1 # 100]%Q; Assign 0%nat [(5 # 4); (-3 # 1)]%Q; HMutateO 0%nat (1 # 1)%Q] in
  let s := fst (q_run s0 ops) in
  ints s = [[1250; -3000]; [5; 6]; [7; 8]]
  /\ presented Q q_present 0%Q s 0 = [(1250 # 1) * (1 # 1000) + (1 # 1); (-3000 # 1) * (1 # 1000) + (1 # 1)]%Q
  /\ snd (q_step s (StreamInto [1 # 2; 1 # 100; 1 # 100]%Q [0; 0; 0]%Q))
     = OFile (mkfile [1 # 2; 1 # 100; 1 # 100]%Q [0; 0; 0]%Q [[4; -4]; [5; 6]; [7; 8]])
  /\ snd (q_step s (ChangeScaling (Some [1 # 1000000000; 1 # 100; 1 # 100]%Q) None)) = OErr EOverflow
  (* laspy.create(); header.scales = ...; las.x = [..] grows the empty record, then las.write carries the header's scaling *)
  /\ (let e0 := init Q [1 # 100; 1 # 100; 1 # 100]%Q [0; 0; 0]%Q [[]; []; []] in
      let e := fst (q_run e0 [HReplaceS [1 # 1000; 1 # 1000; 1 # 1000]%Q; Assign 0%nat [(12345 # 10000); (-1 # 2000)]%Q]) in
      ints e = [[1234; 0]; [0; 0]; [0; 0]]
      /\ snd (q_step e Write) = OFile (mkfile [1 # 1000; 1 # 1000; 1 # 1000]%Q [0; 0; 0]%Q [[1234; 0]; [0; 0]; [0; 0]]))
  (* las.xyz = [[1.2345, 2.3456, 3.4567]] after header.scales = 0.001: stored under the header's scaling *)
  /\ (let e0 := init Q [1 # 100; 1 # 100; 1 # 100]%Q [0; 0; 0]%Q [[]; []; []] in
      let e := fst (q_run e0 [HReplaceS [1 # 1000; 1 # 1000; 1 # 1000]%Q; AssignXYZ [[12345 # 10000]; [23456 # 10000]; [34567 # 10000]]%Q]) in
      ints e = [[1234]; [2346]; [3457]] /\ r_s e = h_s e)
  (* a writer opened with the caller's header, a chunk, the caller's header edited IN PLACE (x scale 1e-3 -> 1/2, x offset 1 -> 500),
     a second chunk, close: the file carries the scaling of the opening, both chunks are on that grid *)
  /\ (let ss := mksst s None in
      let r := q_srun ss [SOpenHdr; SWrite; SBase (HMutateS 0%nat (1 # 2)%Q); SBase (HMutateO 0%nat (500 # 1)%Q); SWrite; SClose] in
      nth 5 (snd r) ONone = OFile (mkfile [1 # 1000; 1 # 100; 1 # 100]%Q [1; 0; 0]%Q [[1250; -3000; 1124000; -1001000]; [5; 6; 5; 6]; [7; 8; 7; 8]])
      /\ ints (base (fst r)) = ints s)
  (* dst.x = src.x between records of equal scale 1/100 and offsets 1200 / 0: the coordinate 1200.01 is stored as 1, not as 120001 *)
  /\ (let e0 := init Q [1 # 100; 1 # 100; 1 # 100]%Q [1200; 0; 0]%Q [[0]; [0]; [0]] in
      ints (base (fst (q_sstep (mksst e0 None) (SAttr 0%nat (VOther [120001] (1 # 100)%Q 0%Q))))) = [[1]; [0]; [0]]
      /\ snd (q_sstep (mksst e0 None) (SItem 0%nat (VOther [2147483647] (1 # 100)%Q (4000 # 1)%Q))) = OErr EOverflow)
  (* las.x += 1 with the first point 50 steps of 1/100 below the top of the window: OverflowError, not a wrapped integer;
     las.x += 1/5 fits: both integers move by 20 *)
  /\ (let e0 := init Q [1 # 100; 1 # 100; 1 # 100]%Q [0; 0; 0]%Q [[2147483597; 5]; [0; 0]; [0; 0]] in
      snd (q_sstep (mksst e0 None) (SAttr 0%nat (VSelfOp 0%nat [0; 1]%nat (q_view_op BAdd) [1; 1]%Q))) = OErr EOverflow
      /\ ints (base (fst (q_sstep (mksst e0 None) (SAttr 0%nat (VSelfOp 0%nat [0; 1]%nat (q_view_op BAdd) [1 # 5; 1 # 5]%Q)))))
         = [[2147483617; 25]; [0; 0]; [0; 0]])
  /\ f_store (Some (Qmake 0x1dcd650112e0bf (Z.to_pos (2 ^ 23)))) (Some (Qmake 0x112e0be826d695 (Z.to_pos (2 ^ 82))))
             (Some (inject_Z 1000000000)) = Some 2147483706
  /\ f_store_checked (Some (Qmake 0x1dcd650112e0bf (Z.to_pos (2 ^ 23)))) (Some (Qmake 0x112e0be826d695 (Z.to_pos (2 ^ 82))))
             (Some (inject_Z 1000000000)) = Err EOverflow.
Proof. vm_compute. repeat split; reflexivity. Qed.
