(* C10 — dimension views compute what numpy computes on the same values.
   The structure of ArrayView / SubFieldView / ScaledArrayView is Gen/GenViews.v (regenerated from laspy/point/dims.py on
   every run); masks are Gen/GenDims.v, the shift is the translation of packing.least_significant_bit_set.
   Scope (coordinator's decision, also ASSUMPTIONS of harness/props/c10.py): index forms int / slice / mask / index list /
   (.., j) / (i, ..) / (i, j) / (rows, cols); scales of any sign (C10_scaled_minmax: the grid route of max/min is guarded by the sign test);
   ordering and equality comparisons of scaled views are defined on the stored grid and excluded by the property. *)
From Coq Require Import String.
From Coq Require Import ZArith List Bool.
From LasV Require Import Lib.Base Gen.GenFormatBits Gen.GenDims Gen.GenViews Model.SubField Model.Views Proofs.ViewsProofs.
Import ListNotations.
Open Scope list_scope.
Open Scope Z_scope.

(* `field < c`, `<=`, `>`, `>=`: what SubFieldView computes on the masked, un-shifted byte is numpy's comparison of the
   field's value with c, for every sub-field of every format, every byte, every python int c (any sign and magnitude,
   in particular above the field's maximum), every numpy integer scalar of any width and signedness, and bools *)
Theorem C10_subfield_cmp : forall fmt name composed m b op x c,
  In (fmt, name, composed, m) all_sub_fields -> 0 <= b < 256 -> is_ordering op = true -> operand_int x = Some c ->
  sfv_cmp_elem m b op x = cmp_bool op (sf_get m b) c.
Proof. exact sfv_cmp_elem_correct. Qed.
Print Assumptions C10_subfield_cmp.

(* whole arrays, all six comparison operators through the operator's route (==, != are inherited from ArrayView):
   the boolean array has the length of the view and the values numpy computes on np.array(view) *)
Theorem C10_subfield_array : forall fmt name composed m bs op x c,
  In (fmt, name, composed, m) all_sub_fields -> Forall (fun b => 0 <= b < 256) bs -> is_comparison op = true ->
  operand_int x = Some c ->
  sfv_binop_arr m bs op x = np_cmp_const op (sf_materialise m bs) c.
Proof. exact sfv_binop_arr_correct. Qed.
Print Assumptions C10_subfield_array.

(* an integer array as right operand goes through the materialised path, element by element *)
Theorem C10_subfield_array_operand : forall m bs op cs,
  sfv_cmp_arrarr m bs op cs = np_cmp_arr op (sf_materialise m bs) cs.
Proof. exact sfv_cmp_arrarr_correct. Qed.
Print Assumptions C10_subfield_array_operand.

(* indexing a sub-field view by resolved positions (slice, mask, index list) commutes with materialisation *)
Theorem C10_subfield_index : forall m ps bs,
  option_map (sf_materialise m) (sfv_index ps bs) = np_index1 ps (sf_materialise m bs).
Proof. exact sfv_index_correct. Qed.
Print Assumptions C10_subfield_index.

(* every operator a class does not answer itself hands np.array(view) to numpy with the SAME operator:
   ArrayView all eleven; SubFieldView ==, != and arithmetic; ScaledArrayView arithmetic *)
Theorem C10_delegation : forall (Arr Opnd Res : Type) (np_binop : vbinop -> Arr -> Opnd -> Res) c op mat x own,
  delegated c op = true -> view_binop Arr Opnd Res np_binop c op mat x own = Some (np_binop op mat x).
Proof. exact delegation. Qed.
Print Assumptions C10_delegation.

(* ... and SubFieldView answers <, <=, >, >= with its own comparison of the same operator (C10_subfield_cmp) *)
Theorem C10_subfield_own_comparison : forall (Arr Opnd Res : Type) (np_binop : vbinop -> Arr -> Opnd -> Res) op mat x own,
  is_ordering op = true -> view_binop Arr Opnd Res np_binop CSubField op mat x own = Some (own op).
Proof. exact own_comparison. Qed.
Print Assumptions C10_subfield_own_comparison.

(* the view as the RIGHT operand of a python number / sequence (python's reflection).  Arithmetic: whatever reflected
   methods the three classes define in the regenerated tables (today none: TypeError, no result), an expression
   `x <op> view` that returns a result returns numpy's `x <op> np.array(view)` - same operator, operands in the written
   order.  (A reflected method of another shape, e.g. np.array(self) // other, is not representable in the tables: the
   translator fails closed.) *)
Theorem C10_reflected_arithmetic : forall (Arr Opnd Res : Type) (np_binop : vbinop -> Arr -> Opnd -> Res)
    (np_rbinop : vbinop -> Opnd -> Arr -> Res) c op x mat own r,
  is_comparison op = false ->
  view_on_right Arr Opnd Res np_binop np_rbinop c op x mat own = Some r -> r = np_rbinop op x mat.
Proof. exact reflected_arithmetic. Qed.
Print Assumptions C10_reflected_arithmetic.

(* comparisons: `x < view` is python's `view > x`, answered by the route of the mirrored operator ... *)
Theorem C10_reflected_comparison : forall (Arr Opnd Res : Type) (np_binop : vbinop -> Arr -> Opnd -> Res)
    (np_rbinop : vbinop -> Opnd -> Arr -> Res) c op x mat own,
  is_comparison op = true ->
  view_on_right Arr Opnd Res np_binop np_rbinop c op x mat own = view_binop Arr Opnd Res np_binop c (mirror op) mat x own.
Proof. exact reflected_comparison. Qed.
Print Assumptions C10_reflected_comparison.

(* ... which for a sub-field and an integer constant of any representation on the left is numpy's `c <op> np.array(view)` *)
Theorem C10_subfield_reflected_array : forall fmt name composed m bs op x c,
  In (fmt, name, composed, m) all_sub_fields -> Forall (fun b => 0 <= b < 256) bs -> is_comparison op = true ->
  operand_int x = Some c ->
  sfv_rbinop_arr m bs op x = np_rcmp_const op c (sf_materialise m bs).
Proof. exact sfv_rbinop_arr_correct. Qed.
Print Assumptions C10_subfield_reflected_array.

(* augmented assignment `v <op>= x` on a name bound to a view: no class defines an in-place operator (nor any operator
   method outside the eleven of C10_delegation and the reflected five), so python evaluates `v = v <op> x` *)
Theorem C10_inplace : forall (Arr Opnd Res : Type) (np_binop : vbinop -> Arr -> Opnd -> Res) c op mat x own,
  view_inplace Arr Opnd Res np_binop c op mat x own = view_binop Arr Opnd Res np_binop c op mat x own.
Proof. exact inplace_is_binop. Qed.
Print Assumptions C10_inplace.

(* max/min: np.array(self).max/min with the same reduction and the caller's arguments, except a one-element scaled view
   called without any argument (C10_scaled_minmax) *)
Theorem C10_reduce_routes : forall c multi args r,
  reduce_route c multi args r =
  match c with CScaled => if multi || args then RedMaterialised r else RedApplyGrid r | _ => RedMaterialised r end.
Proof. exact reduce_routes. Qed.
Print Assumptions C10_reduce_routes.

(* what np.array(view) is: (array & mask) >> lsb with the translated least_significant_bit_set, a sub-view keeps the mask;
   (array * scale) + offset with scale/offset along the last axis; the two numpy protocols convert views then apply *)
Theorem C10_view_shapes :
  sfv_value_is_masked_shifted = true /\ sfv_getitem_keeps_mask = true
  /\ sav_value_is_apply_scale = true /\ sav_apply_scale = ScaleMulAdd /\ sav_remove_scale = UnscaleSubDivRound
  /\ av_ufunc_converts_then_applies = true /\ av_function_converts_then_applies = true
  /\ av_convert_recurses_lists_tuples = true.
Proof. exact view_shapes. Qed.
Print Assumptions C10_view_shapes.

(* numpy functions and ufuncs (__array_function__, __array_ufunc__): numpy's callable receives the same expression
   with every view of the receiver's class, at any depth of lists/tuples, replaced by np.array(view); none is left *)
Theorem C10_array_function : forall (V A X R : Type) (mat : V -> A) (f : list (arg V A X) -> R) args,
  array_function V A X mat R f args = Some (f (map (materialised_expr V A X mat) args))
  /\ array_ufunc V A X mat R f args = Some (f (map (materialised_expr V A X mat) args))
  /\ Forall (fun a => own_views V A X a = 0%nat) (map (conv V A X mat) args).
Proof. exact array_function_spec. Qed.
Print Assumptions C10_array_function.

(* the optional keywords of a call (out=, where=, dtype=, casting=, axis=, initial= ...): only the positional arguments are
   converted, numpy's callable receives the keywords exactly as the caller gave them *)
Theorem C10_keywords : forall (V A X K R : Type) (mat : V -> A) (f : list (arg V A X) -> K -> R) args kw,
  array_ufunc_kw V A X K R mat f args kw = Some (f (map (materialised_expr V A X mat) args) kw)
  /\ array_function_kw V A X K R mat f args kw = Some (f (map (materialised_expr V A X mat) args) kw).
Proof. exact keywords_spec. Qed.
Print Assumptions C10_keywords.

(* np.<ufunc>(view, out=buffer, where=mask) on a sub-field view, g any elementwise function: the buffer receives what numpy
   computes on np.array(view) where the mask is True and KEEPS its contents where the mask is False (the idiom
   np.divide(a, las.return_number, out=fill, where=las.return_number != 0)) *)
Theorem C10_ufunc_where_out : forall (F : Type) (g : Z -> F) m bs mask out,
  length mask = length bs -> length out = length bs ->
  exists r, sfv_ufunc_where g m bs mask out = Some r /\ length r = length bs
    /\ forall i, nth_error r i = match nth_error mask i with
                                 | Some true => option_map g (nth_error (sf_materialise m bs) i)
                                 | Some false => nth_error out i
                                 | None => None
                                 end.
Proof. exact @sfv_ufunc_where_spec. Qed.
Print Assumptions C10_ufunc_where_out.

(* several views in one call (np.concatenate([a.x, b.x, c.return_number]), np.where(m, a.x, b.x), np.hypot(a.x, b.y) ...),
   of any classes, of any records, at any depth of lists/tuples: numpy's callable finally receives the same expression with
   EVERY view replaced by np.array(view) — each one materialised by itself, with its own mask / scale / offset — and no
   view is left *)
Theorem C10_several_views : forall (V A X R : Type) (cls : V -> vclass) (mat : V -> A) (f : list (marg V A X) -> R) args,
  dispatch V A X R cls mat (S (length (views_of V A X args))) f args = Some (f (map (mat_all V A X mat) args))
  /\ views_of V A X (map (mat_all V A X mat) args) = [].
Proof. exact dispatch_all. Qed.
Print Assumptions C10_several_views.

(* np.concatenate of scaled views of any records = np.concatenate of their materialisations ... *)
Theorem C10_concatenate : forall (S O F : Type) (ap : S -> O -> Z -> F) (pieces : list (sview S O F)),
  concatenate_views S O F ap pieces = np_concatenate F (map (materialise S O F ap) pieces).
Proof. exact concatenate_views_spec. Qed.
Print Assumptions C10_concatenate.

(* ... for x / y / z / one-element dimensions: position by position the stored integer of piece j with the scale and the
   offset of piece j *)
Theorem C10_concatenate_pieces : forall (S O F : Type) (ap : S -> O -> Z -> F) (pieces : list (sview S O F)),
  pieces <> [] -> forallb (is_v1 S O F) pieces = true ->
  concatenate_views S O F ap pieces = Some (A1 (flat_map (piece_values S O F ap) pieces)).
Proof. exact concat_pieces. Qed.
Print Assumptions C10_concatenate_pieces.

(* joining the stored integers and scaling once with the first piece's scaling gives that when every piece has the first
   piece's scale and offset — EQUAL, not nearly equal: see the last lines of C10_nonvacuous for offsets 1000 / 1001 *)
Theorem C10_concatenate_same_scaling : forall (S O F : Type) (ap : S -> O -> Z -> F) s o (pieces : list (sview S O F)),
  pieces <> [] -> Forall (fun v => exists xs, v = V1 xs s o) pieces ->
  concat_grid_first S O F ap pieces = concatenate_views S O F ap pieces.
Proof. exact grid_first_same_scaling. Qed.
Print Assumptions C10_concatenate_same_scaling.

(* scaled views, any grid, any scales/offsets (different per element), any values function ap:
   indexing then materialising = materialising then numpy indexing — same values, same shape, same IndexErrors *)
Theorem C10_scaled_index : forall (S O F : Type) (ap : S -> O -> Z -> F) ix (v : sview S O F),
  wf S O F v ->
  option_map (materialise S O F ap) (view_index S O F ap ix v) = np_index F ix (materialise S O F ap v).
Proof. exact scaled_index. Qed.
Print Assumptions C10_scaled_index.

(* a first-level result is either plain values (a numpy scalar / array: an integer index, one point's elements,
   v[i, cols], v[row list, col list]) or again a view of the kind a record hands out — never a 1-D view that carries
   one scale per position *)
Theorem C10_scaled_result_kinds : forall (S O F : Type) (ap : S -> O -> Z -> F) ix (v r : sview S O F),
  wf S O F v -> view_index S O F ap ix v = Some r -> is_value S O F r = true \/ wf S O F r.
Proof. exact index_closed. Qed.
Print Assumptions C10_scaled_result_kinds.

(* hence any sequence of index expressions (the view's own __getitem__ on views, numpy's on values) *)
Theorem C10_scaled_chain : forall (S O F : Type) (ap : S -> O -> Z -> F) ixs (v : sview S O F),
  wf S O F v ->
  option_map (materialise S O F ap) (chain S O F ap ixs v) = np_chain F ixs (materialise S O F ap v).
Proof. exact chain_values. Qed.
Print Assumptions C10_scaled_chain.

(* the view's own max/min = numpy's on the materialised values, with or without an `initial=` argument (the archetype
   of an argument expressed in scaled values), for scales of ANY sign: one element per point without argument is answered
   from the grid only for the scales the code's test `np.all(self.scale > 0)` (pos) accepts, and only those need the scaling
   to be monotone; the order is antisymmetric; everything else is computed on the materialised values *)
Theorem C10_scaled_minmax : forall (S O F : Type) (ap : S -> O -> Z -> F) (fle : F -> F -> bool) (pos : S -> bool),
  (forall s o x y, pos s = true -> x <= y -> fle (ap s o x) (ap s o y) = true) ->
  (forall a b, fle a b = true -> fle b a = true -> a = b) ->
  forall r init (v : sview S O F), wf S O F v ->
  view_reduce S O F ap fle pos r init v = np_reduce F fle r init (materialise S O F ap v).
Proof. exact scaled_minmax. Qed.
Print Assumptions C10_scaled_minmax.

(* ... also after any sequence of index expressions *)
Theorem C10_scaled_chain_minmax : forall (S O F : Type) (ap : S -> O -> Z -> F) (fle : F -> F -> bool) (pos : S -> bool),
  (forall s o x y, pos s = true -> x <= y -> fle (ap s o x) (ap s o y) = true) ->
  (forall a b, fle a b = true -> fle b a = true -> a = b) ->
  forall ixs r init (v : sview S O F), wf S O F v ->
  match chain S O F ap ixs v with Some x => view_reduce S O F ap fle pos r init x | None => None end
  = match np_chain F ixs (materialise S O F ap v) with Some a => np_reduce F fle r init a | None => None end.
Proof. exact chain_reduce. Qed.
Print Assumptions C10_scaled_chain_minmax.

(* the hypotheses of C10_scaled_minmax are satisfiable: x * s + o with s > 0 in exact arithmetic *)
Theorem C10_scaled_minmax_instance : forall r init (v : sview positive Z Z), wf positive Z Z v ->
  view_reduce positive Z Z ap_Z Z.leb pos_all r init v = np_reduce Z Z.leb r init (materialise positive Z Z ap_Z v).
Proof. exact scaled_minmax_Z. Qed.
Print Assumptions C10_scaled_minmax_instance.

(* ... and with scales of either sign or zero: x * s + o over Z, the code's test being 0 < s *)
Theorem C10_scaled_minmax_any_sign : forall r init (v : sview Z Z Z), wf Z Z Z v ->
  view_reduce Z Z Z ap_ZZ Z.leb pos_Z r init v = np_reduce Z Z.leb r init (materialise Z Z Z ap_ZZ v).
Proof. exact scaled_minmax_any_sign. Qed.
Print Assumptions C10_scaled_minmax_any_sign.

(* a negative scale: the view answers numpy's 21 / -39; answered from the grid without the test it would be -39 for max *)
Theorem C10_negative_scale_example :
  view_reduce Z Z Z ap_ZZ Z.leb pos_Z RMax None (V1 [4; -3; 9] (-5) 6) = Some 21
  /\ view_reduce Z Z Z ap_ZZ Z.leb pos_Z RMin None (V1 [4; -3; 9] (-5) 6) = Some (-39)
  /\ view_reduce Z Z Z ap_ZZ Z.leb (fun _ => true) RMax None (V1 [4; -3; 9] (-5) 6) = Some (-39).
Proof. exact negative_scale_example. Qed.
Print Assumptions C10_negative_scale_example.

Example C10_nonvacuous :
  In (0, "return_number"%string, "bit_fields"%string, 7) all_sub_fields
  /\ In (6, "number_of_returns"%string, "bit_fields"%string, 240) all_sub_fields
  (* return_number < 8 on a 3-bit field selects every point; number_of_returns < np.uint8(33) does not wrap *)
  /\ sfv_binop_arr 7 [0xFD; 0x00; 0x3F] OpLt (PyInt 8) = [Some true; Some true; Some true]
  /\ sfv_binop_arr 240 [0xF0; 0x10; 0x95] OpLt (NpInt 8 false 33) = [Some true; Some true; Some true]
  /\ sfv_binop_arr 240 [0xF0; 0x10; 0x95] OpGe (PyInt (-(2 ^ 70))) = [Some true; Some true; Some true]
  /\ sfv_binop_arr 240 [0xF0; 0x10; 0x95] OpEq (PyInt 9) = [Some false; Some false; Some true]
  (* 4 < return_number on the values 5, 0, 7: the constant on the left *)
  /\ sfv_rbinop_arr 7 [0xFD; 0x00; 0x3F] OpLt (PyInt 4) = [Some true; Some false; Some true]
  (* a 3-element scaled dimension with scales 1, 5, 20 and offsets 10, -2, 100 *)
  /\ option_map (materialise positive Z Z ap_Z)
       (view_index positive Z Z ap_Z (IxPair (ASel [2; 0]%nat) (AInt 1)) (V2 [[1; 2; 3]; [4; 5; 6]; [7; 8; 9]] [1; 5; 20]%positive [10; -2; 100]))
     = Some (A1 [38; 8])
  /\ option_map (materialise positive Z Z ap_Z)
       (view_index positive Z Z ap_Z (IxPair (ASel [1]%nat) (ASel [2; 0; 1]%nat)) (V2 [[1; 2; 3]; [4; 5; 6]; [7; 8; 9]] [1; 5; 20]%positive [10; -2; 100]))
     = Some (A2 3 [[220; 14; 23]])
  /\ view_index positive Z Z ap_Z (IxPair (AInt 0) (AInt 3)) (V2 [[1; 2; 3]] [1; 5; 20]%positive [10; -2; 100]) = None
  /\ view_reduce positive Z Z ap_Z Z.leb pos_all RMax None (V2 [[1; 2; 3]; [4; 5; 6]] [1; 5; 20]%positive [10; -2; 100]) = Some 220
  (* two elements stored with the SAME scale and different offsets: the largest stored integer (60) is in element 0,
     the largest value in element 1 - the extreme of the stored integers, scaled, is not the answer *)
  /\ view_reduce positive Z Z ap_Z Z.leb pos_all RMax None (V2 [[10; 1]; [60; 6]] [2; 2]%positive [0; 1000]) = Some 1012
  /\ view_reduce positive Z Z ap_Z Z.leb pos_all RMin None (V2 [[10; 1]; [60; 6]] [2; 2]%positive [1000; 0]) = Some 2
  /\ match chain positive Z Z ap_Z [IxPair (ASel [1; 0]%nat) (ASel [1; 0]%nat)] (V2 [[10; 1]; [60; 6]] [2; 2]%positive [0; 1000]) with
     | Some x => view_reduce positive Z Z ap_Z Z.leb pos_all RMax None x | None => None end = Some 1012
  /\ view_reduce positive Z Z ap_Z Z.leb pos_all RMin None (V1 [4; -3; 9] 5%positive 1) = Some (-14)
  /\ view_reduce positive Z Z ap_Z Z.leb pos_all RMax (Some 50) (V1 [4; -3; 9] 5%positive 1) = Some 50
  (* v[1, [2, 0]] is plain values; its max is a number *)
  /\ view_index positive Z Z ap_Z (IxPair (AInt 1) (ASel [2; 0]%nat)) (V2 [[1; 2; 3]; [4; 5; 6]] [1; 5; 20]%positive [10; -2; 100])
     = Some (VRow [220; 14])
  /\ match chain positive Z Z ap_Z [IxPair (AInt 1) (ASel [2; 0]%nat)] (V2 [[1; 2; 3]; [4; 5; 6]] [1; 5; 20]%positive [10; -2; 100]) with
     | Some x => view_reduce positive Z Z ap_Z Z.leb pos_all RMax None x | None => None end = Some 220
  /\ option_map (materialise positive Z Z ap_Z)
       (chain positive Z Z ap_Z [IxRow (AInt 1); IxInt 2] (V2 [[1; 2; 3]; [4; 5; 6]] [1; 5; 20]%positive [10; -2; 100]))
     = Some (Sc 220)
  (* np.add(return_number, 10, out=[-1, -2, -3], where=[True, False, True]) on bytes FD 00 3F: the middle position keeps -2 *)
  /\ sfv_ufunc_where (fun v => v + 10) 7 [0xFD; 0x00; 0x3F] [true; false; true] [-1; -2; -3] = Some [15; -2; 17]
  (* two tiles with the same scale and offsets 1000 / 1001: each piece is scaled with its own offset; joining the stored
     integers and scaling them with the first tile's offset is NOT numpy's answer *)
  /\ concatenate_views positive Z Z ap_Z [V1 [1; 2] 2%positive 1000; V1 [3] 2%positive 1001] = Some (A1 [1002; 1004; 1007])
  /\ concat_grid_first positive Z Z ap_Z [V1 [1; 2] 2%positive 1000; V1 [3] 2%positive 1001] = Some (A1 [1002; 1004; 1006])
  (* a scaled view, a sub-field view and a plain value in one call: two rounds of dispatch, nothing left unconverted *)
  /\ dispatch nat Z unit (list (marg nat Z unit)) (fun v => if Nat.even v then CScaled else CSubField) (fun v => Z.of_nat v * 10) 3
       (fun a => a) [MSeq [MView 1%nat; MView 2%nat]; MOther tt; MView 3%nat]
     = Some [MSeq [MArr 10; MArr 20]; MOther tt; MArr 30].
Proof.
  split; [apply nth_error_In with (n := 0%nat); vm_compute; reflexivity|].
  split; [apply nth_error_In with (n := 49%nat); vm_compute; reflexivity|].
  vm_compute. repeat split; reflexivity.
Qed.
