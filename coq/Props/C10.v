(* C10 — dimension views compute what numpy computes on the same values.
   The structure of ArrayView / SubFieldView / ScaledArrayView is Gen/GenViews.v (regenerated from laspy/point/dims.py on
   every run); masks are Gen/GenDims.v, the shift is the translation of packing.least_significant_bit_set.
   Scope (coordinator's decision, also ASSUMPTIONS of harness/props/c10.py): index forms int / slice / mask / index list /
   (.., j) / (i, ..) / (i, j) / (rows, cols); scales are positive (the monotonicity hypothesis of C10_scaled_minmax);
   ordering and equality comparisons of scaled views are defined on the stored grid and excluded by the property. *)
From Coq Require Import String.
From Coq Require Import ZArith List Bool.
From LasV Require Import Lib.Base Gen.GenFormatBits Gen.GenDims Gen.GenViews Model.SubField Model.Views Proofs.ViewsProofs.
Import ListNotations.
Open Scope list_scope.
Open Scope Z_scope.

(* `field < c`, `<=`, `>`, `>=`: what SubFieldView computes on the masked, un-shifted byte is numpy's comparison of the
   field's value with c, for every sub-field of every format, every byte, every python int c (any sign and magnitude,
   in particular above the field's maximum), every numpy integer scalar of any width and signedness, and bools *)
Theorem C10_subfield_cmp : forall fmt name composed m b op x c,
  In (fmt, name, composed, m) all_sub_fields -> 0 <= b < 256 -> is_ordering op = true -> operand_int x = Some c ->
  sfv_cmp_elem m b op x = cmp_bool op (sf_get m b) c.
Proof. exact sfv_cmp_elem_correct. Qed.
Print Assumptions C10_subfield_cmp.

(* whole arrays, all six comparison operators through the operator's route (==, != are inherited from ArrayView):
   the boolean array has the length of the view and the values numpy computes on np.array(view) *)
Theorem C10_subfield_array : forall fmt name composed m bs op x c,
  In (fmt, name, composed, m) all_sub_fields -> Forall (fun b => 0 <= b < 256) bs -> is_comparison op = true ->
  operand_int x = Some c ->
  sfv_binop_arr m bs op x = np_cmp_const op (sf_materialise m bs) c.
Proof. exact sfv_binop_arr_correct. Qed.
Print Assumptions C10_subfield_array.

(* an integer array as right operand goes through the materialised path, element by element *)
Theorem C10_subfield_array_operand : forall m bs op cs,
  sfv_cmp_arrarr m bs op cs = np_cmp_arr op (sf_materialise m bs) cs.
Proof. exact sfv_cmp_arrarr_correct. Qed.
Print Assumptions C10_subfield_array_operand.

(* indexing a sub-field view by resolved positions (slice, mask, index list) commutes with materialisation *)
Theorem C10_subfield_index : forall m ps bs,
  option_map (sf_materialise m) (sfv_index ps bs) = np_index1 ps (sf_materialise m bs).
Proof. exact sfv_index_correct. Qed.
Print Assumptions C10_subfield_index.

(* every operator a class does not answer itself hands np.array(view) to numpy with the SAME operator:
   ArrayView all eleven; SubFieldView ==, != and arithmetic; ScaledArrayView arithmetic *)
Theorem C10_delegation : forall (Arr Opnd Res : Type) (np_binop : vbinop -> Arr -> Opnd -> Res) c op mat x own,
  delegated c op = true -> view_binop Arr Opnd Res np_binop c op mat x own = Some (np_binop op mat x).
Proof. exact delegation. Qed.
Print Assumptions C10_delegation.

(* ... and SubFieldView answers <, <=, >, >= with its own comparison of the same operator (C10_subfield_cmp) *)
Theorem C10_subfield_own_comparison : forall (Arr Opnd Res : Type) (np_binop : vbinop -> Arr -> Opnd -> Res) op mat x own,
  is_ordering op = true -> view_binop Arr Opnd Res np_binop CSubField op mat x own = Some (own op).
Proof. exact own_comparison. Qed.
Print Assumptions C10_subfield_own_comparison.

(* max/min: np.array(self).max/min with the same reduction and the caller's arguments, except a one-element scaled view
   called without any argument (C10_scaled_minmax) *)
Theorem C10_reduce_routes : forall c multi args r,
  reduce_route c multi args r =
  match c with CScaled => if multi || args then RedMaterialised r else RedApplyGrid r | _ => RedMaterialised r end.
Proof. exact reduce_routes. Qed.
Print Assumptions C10_reduce_routes.

(* what np.array(view) is: (array & mask) >> lsb with the translated least_significant_bit_set, a sub-view keeps the mask;
   (array * scale) + offset with scale/offset along the last axis; the two numpy protocols convert views then apply *)
Theorem C10_view_shapes :
  sfv_value_is_masked_shifted = true /\ sfv_getitem_keeps_mask = true
  /\ sav_value_is_apply_scale = true /\ sav_apply_scale = ScaleMulAdd /\ sav_remove_scale = UnscaleSubDivRound
  /\ av_ufunc_converts_then_applies = true /\ av_function_converts_then_applies = true
  /\ av_convert_recurses_lists_tuples = true.
Proof. exact view_shapes. Qed.
Print Assumptions C10_view_shapes.

(* numpy functions and ufuncs (__array_function__, __array_ufunc__): numpy's callable receives the same expression
   with every view of the receiver's class, at any depth of lists/tuples, replaced by np.array(view); none is left *)
Theorem C10_array_function : forall (V A X R : Type) (mat : V -> A) (f : list (arg V A X) -> R) args,
  array_function V A X mat R f args = Some (f (map (materialised_expr V A X mat) args))
  /\ array_ufunc V A X mat R f args = Some (f (map (materialised_expr V A X mat) args))
  /\ Forall (fun a => own_views V A X a = 0%nat) (map (conv V A X mat) args).
Proof. exact array_function_spec. Qed.
Print Assumptions C10_array_function.

(* scaled views, any grid, any scales/offsets (different per element), any values function ap:
   indexing then materialising = materialising then numpy indexing — same values, same shape, same IndexErrors *)
Theorem C10_scaled_index : forall (S O F : Type) (ap : S -> O -> Z -> F) ix (v : sview S O F),
  wf S O F v ->
  option_map (materialise S O F ap) (view_index S O F ap ix v) = np_index F ix (materialise S O F ap v).
Proof. exact scaled_index. Qed.
Print Assumptions C10_scaled_index.

(* a first-level result is either plain values (a numpy scalar / array: an integer index, one point's elements,
   v[i, cols], v[row list, col list]) or again a view of the kind a record hands out — never a 1-D view that carries
   one scale per position *)
Theorem C10_scaled_result_kinds : forall (S O F : Type) (ap : S -> O -> Z -> F) ix (v r : sview S O F),
  wf S O F v -> view_index S O F ap ix v = Some r -> is_value S O F r = true \/ wf S O F r.
Proof. exact index_closed. Qed.
Print Assumptions C10_scaled_result_kinds.

(* hence any sequence of index expressions (the view's own __getitem__ on views, numpy's on values) *)
Theorem C10_scaled_chain : forall (S O F : Type) (ap : S -> O -> Z -> F) ixs (v : sview S O F),
  wf S O F v ->
  option_map (materialise S O F ap) (chain S O F ap ixs v) = np_chain F ixs (materialise S O F ap v).
Proof. exact chain_values. Qed.
Print Assumptions C10_scaled_chain.

(* the view's own max/min = numpy's on the materialised values, with or without an `initial=` argument (the archetype
   of an argument expressed in scaled values): one element per point without argument needs the scaling to be monotone
   (positive scale) and the order antisymmetric; everything else is computed on the materialised values *)
Theorem C10_scaled_minmax : forall (S O F : Type) (ap : S -> O -> Z -> F) (fle : F -> F -> bool),
  (forall s o x y, x <= y -> fle (ap s o x) (ap s o y) = true) ->
  (forall a b, fle a b = true -> fle b a = true -> a = b) ->
  forall r init (v : sview S O F), wf S O F v ->
  view_reduce S O F ap fle r init v = np_reduce F fle r init (materialise S O F ap v).
Proof. exact scaled_minmax. Qed.
Print Assumptions C10_scaled_minmax.

(* ... also after any sequence of index expressions *)
Theorem C10_scaled_chain_minmax : forall (S O F : Type) (ap : S -> O -> Z -> F) (fle : F -> F -> bool),
  (forall s o x y, x <= y -> fle (ap s o x) (ap s o y) = true) ->
  (forall a b, fle a b = true -> fle b a = true -> a = b) ->
  forall ixs r init (v : sview S O F), wf S O F v ->
  match chain S O F ap ixs v with Some x => view_reduce S O F ap fle r init x | None => None end
  = match np_chain F ixs (materialise S O F ap v) with Some a => np_reduce F fle r init a | None => None end.
Proof. exact chain_reduce. Qed.
Print Assumptions C10_scaled_chain_minmax.

(* the hypotheses of C10_scaled_minmax are satisfiable: x * s + o with s > 0 in exact arithmetic *)
Theorem C10_scaled_minmax_instance : forall r init (v : sview positive Z Z), wf positive Z Z v ->
  view_reduce positive Z Z ap_Z Z.leb r init v = np_reduce Z Z.leb r init (materialise positive Z Z ap_Z v).
Proof. exact scaled_minmax_Z. Qed.
Print Assumptions C10_scaled_minmax_instance.

Example C10_nonvacuous :
  In (0, "return_number"%string, "bit_fields"%string, 7) all_sub_fields
  /\ In (6, "number_of_returns"%string, "bit_fields"%string, 240) all_sub_fields
  (* return_number < 8 on a 3-bit field selects every point; number_of_returns < np.uint8(33) does not wrap *)
  /\ sfv_binop_arr 7 [0xFD; 0x00; 0x3F] OpLt (PyInt 8) = [Some true; Some true; Some true]
  /\ sfv_binop_arr 240 [0xF0; 0x10; 0x95] OpLt (NpInt 8 false 33) = [Some true; Some true; Some true]
  /\ sfv_binop_arr 240 [0xF0; 0x10; 0x95] OpGe (PyInt (-(2 ^ 70))) = [Some true; Some true; Some true]
  /\ sfv_binop_arr 240 [0xF0; 0x10; 0x95] OpEq (PyInt 9) = [Some false; Some false; Some true]
  (* a 3-element scaled dimension with scales 1, 5, 20 and offsets 10, -2, 100 *)
  /\ option_map (materialise positive Z Z ap_Z)
       (view_index positive Z Z ap_Z (IxPair (ASel [2; 0]%nat) (AInt 1)) (V2 [[1; 2; 3]; [4; 5; 6]; [7; 8; 9]] [1; 5; 20]%positive [10; -2; 100]))
     = Some (A1 [38; 8])
  /\ option_map (materialise positive Z Z ap_Z)
       (view_index positive Z Z ap_Z (IxPair (ASel [1]%nat) (ASel [2; 0; 1]%nat)) (V2 [[1; 2; 3]; [4; 5; 6]; [7; 8; 9]] [1; 5; 20]%positive [10; -2; 100]))
     = Some (A2 3 [[220; 14; 23]])
  /\ view_index positive Z Z ap_Z (IxPair (AInt 0) (AInt 3)) (V2 [[1; 2; 3]] [1; 5; 20]%positive [10; -2; 100]) = None
  /\ view_reduce positive Z Z ap_Z Z.leb RMax None (V2 [[1; 2; 3]; [4; 5; 6]] [1; 5; 20]%positive [10; -2; 100]) = Some 220
  (* two elements stored with the SAME scale and different offsets: the largest stored integer (60) is in element 0,
     the largest value in element 1 - the extreme of the stored integers, scaled, is not the answer *)
  /\ view_reduce positive Z Z ap_Z Z.leb RMax None (V2 [[10; 1]; [60; 6]] [2; 2]%positive [0; 1000]) = Some 1012
  /\ view_reduce positive Z Z ap_Z Z.leb RMin None (V2 [[10; 1]; [60; 6]] [2; 2]%positive [1000; 0]) = Some 2
  /\ match chain positive Z Z ap_Z [IxPair (ASel [1; 0]%nat) (ASel [1; 0]%nat)] (V2 [[10; 1]; [60; 6]] [2; 2]%positive [0; 1000]) with
     | Some x => view_reduce positive Z Z ap_Z Z.leb RMax None x | None => None end = Some 1012
  /\ view_reduce positive Z Z ap_Z Z.leb RMin None (V1 [4; -3; 9] 5%positive 1) = Some (-14)
  /\ view_reduce positive Z Z ap_Z Z.leb RMax (Some 50) (V1 [4; -3; 9] 5%positive 1) = Some 50
  (* v[1, [2, 0]] is plain values; its max is a number *)
  /\ view_index positive Z Z ap_Z (IxPair (AInt 1) (ASel [2; 0]%nat)) (V2 [[1; 2; 3]; [4; 5; 6]] [1; 5; 20]%positive [10; -2; 100])
     = Some (VRow [220; 14])
  /\ match chain positive Z Z ap_Z [IxPair (AInt 1) (ASel [2; 0]%nat)] (V2 [[1; 2; 3]; [4; 5; 6]] [1; 5; 20]%positive [10; -2; 100]) with
     | Some x => view_reduce positive Z Z ap_Z Z.leb RMax None x | None => None end = Some 220
  /\ option_map (materialise positive Z Z ap_Z)
       (chain positive Z Z ap_Z [IxRow (AInt 1); IxInt 2] (V2 [[1; 2; 3]; [4; 5; 6]] [1; 5; 20]%positive [10; -2; 100]))
     = Some (Sc 220).
Proof.
  split; [apply nth_error_In with (n := 0%nat); vm_compute; reflexivity|].
  split; [apply nth_error_In with (n := 49%nat); vm_compute; reflexivity|].
  vm_compute. repeat split; reflexivity.
Qed.
