(* C04 — chunked writing is equivalent to one-shot writing (uncompressed; the compressed half is C14). *)
From Coq Require Import String.
From Coq Require Import ZArith List Bool.
From LasV Require Import Lib.Base Lib.Layout Gen.GenHeaderLayout Gen.GenFormatBits Gen.GenDims Model.Las Model.LasSpec
  Proofs.HeaderLen Proofs.VlrProofs Proofs.HeaderProofs Proofs.WriterProofs Proofs.RoundTripProofs.
Import ListNotations.
Open Scope list_scope.
Open Scope Z_scope.

(* any accepted session of k >= 0 chunks (sizes >= 0), optional EVLRs, close: the destination holds byte for byte
   the one-shot file of the concatenation *)
Theorem C04_chunk_equiv : forall ap, ap_ok ap -> forall h vl fmt chunks evl s0 s outs,
  wopen h vl fmt = Ok s0 ->
  wrun ap s0 (chunk_ops chunks evl) = (s, outs) ->
  all_ok outs ->
  file_of ap h vl fmt (concat chunks) evl = Ok (w_file s).
Proof. exact writer_refines. Qed.
Print Assumptions C04_chunk_equiv.

Theorem C04_partition_irrelevant : forall ap, ap_ok ap -> forall h vl fmt chunks1 chunks2 evl s0 s1 o1 s2 o2,
  concat chunks1 = concat chunks2 ->
  wopen h vl fmt = Ok s0 ->
  wrun ap s0 (chunk_ops chunks1 evl) = (s1, o1) -> all_ok o1 ->
  wrun ap s0 (chunk_ops chunks2 evl) = (s2, o2) -> all_ok o2 ->
  w_file s1 = w_file s2.
Proof. exact chunking_irrelevant. Qed.
Print Assumptions C04_partition_irrelevant.

(* refusals leave the writer state, hence the file, exactly as it was *)
Theorem C04_after_done : forall ap s recs b, w_done s = true -> recs <> [] ->
  wstep ap s (WPoints recs b) = (s, Err ELaspy).
Proof. exact write_after_done. Qed.
Print Assumptions C04_after_done.

Theorem C04_wrong_format : forall ap s recs, recs <> [] -> wstep ap s (WPoints recs false) = (s, Err ELaspy).
Proof. exact write_wrong_format. Qed.
Print Assumptions C04_wrong_format.

Theorem C04_empty_chunk : forall ap s b, wstep ap s (WPoints [] b) = (s, Ok tt).
Proof. exact write_empty_chunk. Qed.
Print Assumptions C04_empty_chunk.

(* the final in-place header rewrite never moves the points *)
Theorem C04_rewrite_same_offset : forall h vl h' bs, enc_header h vl true = Ok (h', bs) ->
  aint h' "offset_to_point_data" = aint h "offset_to_point_data" /\ len bs = aint h "offset_to_point_data".
Proof. exact enc_header_same_size. Qed.
Print Assumptions C04_rewrite_same_offset.

(* non-vacuity: a concrete 1.2 header, two chunks and an empty one, accepted, equal to the one-shot file *)
Definition ex_h : assoc := [("version.major", VInt 1); ("version.minor", VInt 2); ("uuid", VBytes (repeat 0 16));
  ("system_identifier", VBytes [79; 84]); ("generating_software", VBytes []);
  ("point_format_id", VInt 0); ("point_size", VInt 20); ("scales[0]", VInt 4607182418800017408)]%string.
Definition ex_ap (s o x : Z) : Z := if x <? 0 then 0 else x.
Definition ex_r (x : Z) : list Z := le_enc 4 x ++ repeat 1 16.
Example C04_nonvacuous :
  match wopen ex_h [] 0 with
  | Ok s0 => let '(s, outs) := wrun ex_ap s0 (chunk_ops [[ex_r 5; ex_r 9]; []; [ex_r 2]] []) in
             forallb is_ok outs && match file_of ex_ap ex_h [] 0 [ex_r 5; ex_r 9; ex_r 2] [] with
                                   | Ok f => list_eqb f (w_file s) && (len f =? 227 + 60) | Err _ => false end
  | Err _ => false
  end = true.
Proof. vm_compute. reflexivity. Qed.
