(* C04 — chunked writing is equivalent to one-shot writing (uncompressed; the compressed half is C14). *)
From Coq Require Import String.
From Coq Require Import ZArith List Bool.
From LasV Require Import Lib.Base Lib.Layout Gen.GenHeaderLayout Gen.GenFormatBits Gen.GenDims Model.Las Model.LasSpec
  Model.WriterAlias Proofs.HeaderLen Proofs.VlrProofs Proofs.HeaderProofs Proofs.WriterProofs Proofs.RoundTripProofs
  Proofs.WriterAliasProofs Proofs.StatsFoldProofs Model.WriterFault Proofs.WriterFaultProofs.
Import ListNotations.
Open Scope list_scope.
Open Scope Z_scope.

(* any accepted session of k >= 0 chunks (sizes >= 0), optional EVLRs, close: the destination holds byte for byte
   the one-shot file of the concatenation *)
Theorem C04_chunk_equiv : forall ap, ap_ok ap -> forall h vl fmt chunks evl s0 s outs,
  wopen h vl fmt = Ok s0 ->
  wrun ap s0 (chunk_ops chunks evl) = (s, outs) ->
  all_ok outs ->
  file_of ap h vl fmt (concat chunks) evl = Ok (w_file s).
Proof. exact writer_refines. Qed.
Print Assumptions C04_chunk_equiv.

Theorem C04_partition_irrelevant : forall ap, ap_ok ap -> forall h vl fmt chunks1 chunks2 evl s0 s1 o1 s2 o2,
  concat chunks1 = concat chunks2 ->
  wopen h vl fmt = Ok s0 ->
  wrun ap s0 (chunk_ops chunks1 evl) = (s1, o1) -> all_ok o1 ->
  wrun ap s0 (chunk_ops chunks2 evl) = (s2, o2) -> all_ok o2 ->
  w_file s1 = w_file s2.
Proof. exact chunking_irrelevant. Qed.
Print Assumptions C04_partition_irrelevant.

(* refusals leave the writer state, hence the file, exactly as it was *)
Theorem C04_after_done : forall ap s recs b, w_done s = true -> recs <> [] ->
  wstep ap s (WPoints recs b) = (s, Err ELaspy).
Proof. exact write_after_done. Qed.
Print Assumptions C04_after_done.

Theorem C04_wrong_format : forall ap s recs, recs <> [] -> wstep ap s (WPoints recs false) = (s, Err ELaspy).
Proof. exact write_wrong_format. Qed.
Print Assumptions C04_wrong_format.

Theorem C04_empty_chunk : forall ap s b, wstep ap s (WPoints [] b) = (s, Ok tt).
Proof. exact write_empty_chunk. Qed.
Print Assumptions C04_empty_chunk.

(* the final in-place header rewrite never moves the points *)
Theorem C04_rewrite_same_offset : forall h vl h' bs, enc_header h vl true = Ok (h', bs) ->
  aint h' "offset_to_point_data" = aint h "offset_to_point_data" /\ len bs = aint h "offset_to_point_data".
Proof. exact enc_header_same_size. Qed.
Print Assumptions C04_rewrite_same_offset.

(* ---------------------------------------------------------------------------------------------------------------- *)
(* the same writer inside a session in which the caller keeps using ITS objects (Model/WriterAlias.v)                *)
(* ---------------------------------------------------------------------------------------------------------------- *)

(* "raises and leaves the file unchanged", for whole histories: the writer after ANY sequence of calls is the writer
   after the accepted calls alone (all of which are accepted again) *)
Theorem C04_refusals_leave_no_trace : forall ap ops s,
  fst (wrun ap s ops) = fst (wrun ap s (accepted_wops ap s ops))
  /\ all_ok (snd (wrun ap s (accepted_wops ap s ops))).
Proof. exact refusals_leave_no_trace. Qed.
Print Assumptions C04_refusals_leave_no_trace.

(* the caller's in-place edits of its header (any field, the VLR list, the global encoding, re-binding the point format) and
   of every PointFormat object no chunk of the session is built on can be erased: same writer state (file), same outcomes *)
Theorem C04_caller_edits_irrelevant : forall ap ops st,
  forallb (edit_avoids (chunk_addrs ops)) (edits_of ops) = true ->
  ss_w (fst (plain_run ap st ops)) = ss_w (fst (plain_run ap st (strip_edits ops)))
  /\ snd (plain_run ap st ops) = snd (plain_run ap st (strip_edits ops)).
Proof. exact caller_edits_irrelevant. Qed.
Print Assumptions C04_caller_edits_irrelevant.

(* an accepted session - chunks, optional EVLRs, close, with ANY caller edits in between - leaves byte for byte the
   one-shot file of the header AS IT WAS WHEN THE WRITER WAS OPENED *)
Theorem C04_session_writes_header_at_open : forall ap, ap_ok ap -> forall c d st0 ops chunks evl st outs,
  fmt_at c (cw_hfmt c) = Some d ->
  sopen c = Ok st0 ->
  resolve c d ops = chunk_ops chunks evl ->
  plain_run ap st0 ops = (st, outs) ->
  all_ok outs ->
  file_of ap (hdr_of (cw_h c) d) (cw_vlrs c) (fd_id d) (concat chunks) evl = Ok (w_file (ss_w st)).
Proof. exact session_writes_header_at_open. Qed.
Print Assumptions C04_session_writes_header_at_open.

(* no writer operation modifies the caller's objects: after the session they are what the caller's own edits made them *)
Theorem C04_caller_untouched : forall ap ops st,
  ss_c (fst (plain_run ap st ops)) = fold_left apply_cedit (edits_of ops) (ss_c st)
  /\ ss_d (fst (plain_run ap st ops)) = ss_d st.
Proof. exact caller_untouched. Qed.
Print Assumptions C04_caller_untouched.

(* the format check is by VALUE at the time of the call: a chunk whose format object currently differs is refused ... *)
Theorem C04_differing_format_refused : forall ap st recs a, recs <> [] ->
  chunk_same (ss_c st) (ss_d st) a = false ->
  sstep ap st (SChunk recs a) = (st, Some (Err ELaspy)).
Proof. exact differing_format_refused. Qed.
Print Assumptions C04_differing_format_refused.

(* ... even when it is the very OBJECT an earlier accepted chunk was built on, changed in place since ... *)
Theorem C04_mutated_format_object_refused : forall ap st a d' recs, recs <> [] ->
  fdesc_eqb d' (ss_d st) = false ->
  let st1 := fst (sstep ap st (SEdit (CFmt a d'))) in
  sstep ap st1 (SChunk recs a) = (st1, Some (Err ELaspy)).
Proof. exact mutated_format_object_refused. Qed.
Print Assumptions C04_mutated_format_object_refused.

(* ... and an equal value is treated exactly like the writer's own format, whichever object carries it *)
Theorem C04_equal_format_value_accepted : forall ap st recs a x,
  fmt_at (ss_c st) a = Some x -> fdesc_eqb x (ss_d st) = true ->
  sstep ap st (SChunk recs a)
  = (mkSS (ss_c st) (fst (wstep ap (ss_w st) (WPoints recs true))) (ss_d st), Some (snd (wstep ap (ss_w st) (WPoints recs true)))).
Proof. exact equal_format_value_accepted. Qed.
Print Assumptions C04_equal_format_value_accepted.

(* `with writer:` left by the first refused call or by the caller's own exception: __exit__ closes, and the file is that
   of the accepted calls followed by close *)
Theorem C04_with_block_left_by_exception : forall ap st ops,
  let pre := resolve (ss_c st) (ss_d st) (executed ap st ops) in
  ss_w (fst (fst (with_run ap st ops)))
  = fst (wrun ap (ss_w st) (accepted_wops ap (ss_w st) pre ++ [WClose])).
Proof. exact with_block_left_by_exception. Qed.
Print Assumptions C04_with_block_left_by_exception.

(* ---------------------------------------------------------------------------------------------------------------- *)
(* round 5: the running statistics (header.grow) under ANY block structure and for ANY value of the running box       *)
(* ---------------------------------------------------------------------------------------------------------------- *)

(* however a record is cut into blocks (of 2^20 points or of any other size, empty ones included), the point count after
   folding them in is the count before plus the number of points - not a multiple of it *)
Theorem C04_count_is_points_written : forall ap fmt h blocks st,
  s_count (fold_left (grow ap fmt h) blocks st) = s_count st + len (concat blocks).
Proof. exact fold_grow_count. Qed.
Print Assumptions C04_count_is_points_written.

(* block by block = at once, for the whole statistics record: count, extrema, the fifteen per-return counts *)
Theorem C04_statistics_blockwise : forall ap, ap_ok ap -> forall fmt h blocks st,
  length (s_max st) = 3%nat -> length (s_min st) = 3%nat ->
  fold_left (grow ap fmt h) blocks st = grow ap fmt h st (concat blocks).
Proof. exact fold_grow_blocks. Qed.
Print Assumptions C04_statistics_blockwise.

(* no value of the running box - all zeros after chunks lying on the origin, sentinels, anything - makes a later chunk
   forget it: maxima only go up, minima only go down (in the order of binary64) *)
Theorem C04_running_box_never_shrinks : forall ap fmt h blocks st i, (i < 3)%nat ->
  f64_key (nth i (s_max st) 0) <= f64_key (nth i (s_max (fold_left (grow ap fmt h) blocks st)) 0)
  /\ f64_key (nth i (s_min (fold_left (grow ap fmt h) blocks st)) 0) <= f64_key (nth i (s_min st) 0).
Proof. exact fold_grow_box_never_shrinks. Qed.
Print Assumptions C04_running_box_never_shrinks.

(* ... and the box after a chunk contains the image of that chunk's own largest and smallest stored integers *)
Theorem C04_box_contains_chunk : forall ap fmt h st r0 recs i, (i < 3)%nat ->
  let sc := aint h (axis_name "scales" i) in
  let off := aint h (axis_name "offsets" i) in
  let st' := grow ap fmt h st (r0 :: recs) in
  f64_key (ap sc off (zmax_list (rec_coord i r0) (map (rec_coord i) (r0 :: recs)))) <= f64_key (nth i (s_max st') 0)
  /\ f64_key (nth i (s_min st') 0) <= f64_key (ap sc off (zmin_list (rec_coord i r0) (map (rec_coord i) (r0 :: recs)))).
Proof. exact grow_box_contains_chunk. Qed.
Print Assumptions C04_box_contains_chunk.

(* non-vacuity: a concrete 1.2 header, two chunks and an empty one, accepted, equal to the one-shot file *)
Definition ex_h : assoc := [("version.major", VInt 1); ("version.minor", VInt 2); ("uuid", VBytes (repeat 0 16));
  ("system_identifier", VBytes [79; 84]); ("generating_software", VBytes []);
  ("point_format_id", VInt 0); ("point_size", VInt 20); ("scales[0]", VInt 4607182418800017408)]%string.
Definition ex_ap (s o x : Z) : Z := if x <? 0 then 0 else x.
Definition ex_r (x : Z) : list Z := le_enc 4 x ++ repeat 1 16.
Example C04_nonvacuous :
  match wopen ex_h [] 0 with
  | Ok s0 => let '(s, outs) := wrun ex_ap s0 (chunk_ops [[ex_r 5; ex_r 9]; []; [ex_r 2]] []) in
             forallb is_ok outs && match file_of ex_ap ex_h [] 0 [ex_r 5; ex_r 9; ex_r 2] [] with
                                   | Ok f => list_eqb f (w_file s) && (len f =? 227 + 60) | Err _ => false end
  | Err _ => false
  end = true.
Proof. vm_compute. reflexivity. Qed.

(* non-vacuity of the aliasing theorems: the caller changes an offset, the VLR list and - in place - the header's own format
   object between two accepted chunks, a record built on the changed object is refused, the block is then left by the
   caller's exception: the file is the one-shot file of the two accepted chunks under the header as it was at open *)
Definition ex_d : fdesc := mkFD 0 20 [].
Definition ex_c : cworld := mkCW ex_h [] 0 [ex_d; ex_d].
Definition ex_ops : list sop :=
  [SChunk [ex_r 5; ex_r 9] 1; SEdit (CSet "offsets[0]" (VInt 4611686018427387904)); SEdit (CVlrs [mkVlr [65] 7 [] [1; 2; 3]]);
   SEdit (CFmt 0 (mkFD 0 22 [1])); SChunk [ex_r 2] 1; SChunk [ex_r 7 ++ [0; 0]] 0; SChunk [ex_r 8] 1].
Example C04_alias_nonvacuous :
  match sopen ex_c with
  | Ok st0 => let '(st, outs, r) := with_run ex_ap st0 ex_ops in
              match file_of ex_ap (hdr_of ex_h ex_d) [] 0 [ex_r 5; ex_r 9; ex_r 2] [] with
              | Ok f => list_eqb f (w_file (ss_w st)) && (len outs =? 3) && is_ok r
                        && negb (list_eqb (map v_rid (cw_vlrs (ss_c st))) [])
              | Err _ => false end
  | Err _ => false
  end = true.
Proof. vm_compute. reflexivity. Qed.

(* non-vacuity of the round-5 theorems: a chunk lying exactly on the origin, an empty one, then a chunk whose box does not
   contain the origin: the origin stays in the box, the count is 3, and the file is the one-shot file *)
Definition ex_p (x : Z) : list Z := le_enc 4 x ++ le_enc 4 x ++ le_enc 4 x ++ repeat 1 8.
Example C04_origin_nonvacuous :
  match wopen ex_h [] 0 with
  | Ok s0 => let '(s, outs) := wrun ex_ap s0 (chunk_ops [[ex_p 0]; []; [ex_p 5; ex_p 9]] []) in
             forallb is_ok outs && list_eqb (s_min (w_st s)) [0; 0; 0] && list_eqb (s_max (w_st s)) [9; 9; 9] && (s_count (w_st s) =? 3)
             && match file_of ex_ap ex_h [] 0 [ex_p 0; ex_p 5; ex_p 9] [] with
                | Ok f => list_eqb f (w_file s) | Err _ => false end
  | Err _ => false
  end = true.
Proof. vm_compute. reflexivity. Qed.

(* ---------------------------------------------------------------------------------------------------------------------- *)
(* round 6: scale-aware chunks of any scaling, faults in the middle of write_evlrs / write_points (Model/WriterFault.v)       *)
(* ---------------------------------------------------------------------------------------------------------------------- *)

(* chunked writing of ScaleAwarePointRecords of ANY scalings = the one-shot file of the points in the writer's system: each chunk
   contributes its records as they are when its six scaling values EQUAL the header's, its re-expressed records otherwise *)
Theorem C04_scaled_chunks_equiv : forall ap, ap_ok ap -> forall h vl fmt (cl : list sachunk) evl s0 s outs,
  wopen h vl fmt = Ok s0 ->
  frun ap s0 (map (fun c => FScaled c true) cl ++ map FOp ((match evl with [] => [] | _ => [WEvlrs evl] end) ++ [WClose])) = (s, outs) ->
  all_ok outs ->
  file_of ap h vl fmt (concat (map (express (w_h s0)) cl)) evl = Ok (w_file s).
Proof. exact scaled_chunks_equiv. Qed.
Print Assumptions C04_scaled_chunks_equiv.

(* the decision has no tolerance: a chunk is stored un-re-expressed only when its scaling denotes the same six binary64 values
   (bit patterns equal up to the sign of zero) *)
Theorem C04_rescale_decision_exact : forall h c,
  all_veq (sa_scaling c) (scaling_of h) = true -> map f64_canon (sa_scaling c) = map f64_canon (scaling_of h).
Proof. exact stored_raw_only_if_same_values. Qed.
Print Assumptions C04_rescale_decision_exact.

Theorem C04_other_scaling_is_reexpressed : forall h c, all_veq (sa_scaling c) (scaling_of h) = false -> express h c = sa_resc c.
Proof. exact express_other. Qed.
Print Assumptions C04_other_scaling_is_reexpressed.

(* mixed sessions: any sequence of plain and scale-aware chunks is the writer session of what is stored for each *)
Theorem C04_scaled_session_lowers : forall ap ops s, forallb is_chunk ops = true ->
  frun ap s ops = wrun_list ap s (lower_all (w_h s) ops).
Proof. exact frun_chunks. Qed.
Print Assumptions C04_scaled_session_lowers.

(* a write_evlrs that FAILS - after any number k of bytes, or before anything could be encoded - leaves a finished writer:
   every later non-empty chunk, plain or scale-aware, raises and changes nothing *)
Theorem C04_failed_evlrs_finishes_writer : forall ap s l k recs b,
  aint (w_h s) "version.minor" <? 4 = false -> l <> [] -> recs <> [] ->
  let s' := fst (fstep ap s (FEvlrsFault l k)) in
  snd (fstep ap s (FEvlrsFault l k)) <> Ok tt
  /\ w_done s' = true /\ wstep ap s' (WPoints recs b) = (s', Err ELaspy)
  /\ forall c, fstep ap s' (FScaled c b) = (s', match express (w_h s') c with [] => Ok tt | _ => Err ELaspy end).
Proof. exact failed_evlrs_finishes. Qed.
Print Assumptions C04_failed_evlrs_finishes_writer.

(* ... and the header written at open and every accepted record stay where they are; the count is kept *)
Theorem C04_failed_evlrs_keeps_points : forall ap s l k s' o,
  fstep ap s (FEvlrsFault l k) = (s', o) -> 0 <= w_pos s -> (Z.to_nat (w_pos s) <= length (w_file s))%nat ->
  firstn (Z.to_nat (w_pos s)) (w_file s') = firstn (Z.to_nat (w_pos s)) (w_file s) /\ s_count (w_st s') = s_count (w_st s).
Proof. exact failed_evlrs_keeps_points. Qed.
Print Assumptions C04_failed_evlrs_keeps_points.

(* a chunk the destination refused (nothing stored) is not there *)
Theorem C04_chunk_refused_by_destination : forall ap s recs b, fst (fstep ap s (FPointsFault recs b)) = s.
Proof. exact refused_by_destination_is_noop. Qed.
Print Assumptions C04_chunk_refused_by_destination.

(* a close() whose header rewrite the destination refused: finished, file untouched, later chunks refused; closing again gives what the
   first close would have given *)
Theorem C04_failed_close_finishes_writer : forall ap s recs b, recs <> [] ->
  let s' := fst (fstep ap s FCloseFault) in
  w_file s' = w_file s /\ wstep ap s' (WPoints recs b) = (s', Err ELaspy).
Proof. exact failed_close_finishes. Qed.
Print Assumptions C04_failed_close_finishes_writer.

Theorem C04_close_after_failed_close : forall ap s,
  snd (fstep ap (fst (fstep ap s FCloseFault)) (FOp WClose)) = snd (fstep ap s (FOp WClose))
  /\ w_file (fst (fstep ap (fst (fstep ap s FCloseFault)) (FOp WClose))) = w_file (fst (fstep ap s (FOp WClose))).
Proof. exact close_after_failed_close. Qed.
Print Assumptions C04_close_after_failed_close.

(* non-vacuity: a chunk whose scaling equals the header's up to the sign of a zero offset is stored as it is, a chunk refused by the
   destination leaves no trace, a chunk whose x scale is one ulp larger is stored re-expressed; a failed write_evlrs on a 1.4 header
   finishes the writer *)
Definition ex_sc_same : list Z := [4607182418800017408; 0; 0; 0; 9223372036854775808; 0].
Definition ex_sc_ulp : list Z := [4607182418800017409; 0; 0; 0; 0; 0].
Definition ex_h14 : assoc := aset ex_h "version.minor" (VInt 4).
Example C04_fault_nonvacuous :
  match wopen ex_h [] 0 with
  | Ok s0 => let '(s, outs) := frun ex_ap s0 [FScaled (mkSA ex_sc_same [ex_r 5] [ex_r 6]) true; FPointsFault [ex_r 1] true;
                                             FScaled (mkSA ex_sc_ulp [ex_r 7] [ex_r 8]) true; FOp WClose] in
             match file_of ex_ap ex_h [] 0 [ex_r 5; ex_r 8] [] with
             | Ok f => list_eqb f (w_file s) && (len outs =? 4) | Err _ => false end
  | Err _ => false
  end
  && match wopen ex_h14 [] 0 with
     | Ok s0 => let '(s, outs) := frun ex_ap s0 [FOp (WPoints [ex_r 5] true); FEvlrsFault [mkVlr [65] 7 [] [1; 2; 3]] 30; FOp (WPoints [ex_r 9] true)] in
                w_done s && (len (w_file s) =? 375 + 20 + 30) && negb (forallb is_ok (tl outs))
     | Err _ => false
     end = true.
Proof. vm_compute. reflexivity. Qed.
