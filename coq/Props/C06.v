(* C06 — appending is equivalent to having written the concatenation. *)
From Coq Require Import String.
From Coq Require Import ZArith List Bool.
From LasV Require Import Lib.Base Lib.Layout Gen.GenHeaderLayout Gen.GenFormatBits Gen.GenDims Model.Las Model.LasSpec Model.LasFast
  Proofs.HeaderLen Proofs.VlrProofs Proofs.HeaderProofs Proofs.WriterProofs Proofs.AppendProofs Proofs.LasFastProofs
  Proofs.CrashProofs Proofs.CrashAppendProofs Proofs.FaultProofs Proofs.FaultAppendProofs.
Import ListNotations.
Open Scope list_scope.
Open Scope Z_scope.

(* an append session with chunks Bs (empty ones included) on the one-shot file of A (0..n points, any version/format, with or
   without VLRs and EVLRs) yields BYTE FOR BYTE the one-shot file of A ++ concat Bs: same point sequence, exact statistics,
   VLRs unchanged, EVLRs re-emitted after the new points with the pointer updated *)
Theorem C06_append_equiv : forall ap, ap_ok ap -> (forall s o x, 0 <= ap s o x) ->
  forall h vl fmt A evl Bs f0 f1,
  wf_las ap h vl fmt A evl -> wf_las ap h vl fmt (A ++ concat Bs) evl ->
  file_of ap h vl fmt A evl = Ok f0 ->
  file_of ap h vl fmt (A ++ concat Bs) evl = Ok f1 ->
  arun ap f0 Bs = Ok f1.
Proof. exact append_equiv. Qed.
Print Assumptions C06_append_equiv.

(* several successive sessions compose *)
Theorem C06_sessions : forall ap, ap_ok ap -> (forall s o x, 0 <= ap s o x) ->
  forall h vl fmt A evl Bs Cs f0 f1 f2,
  wf_las ap h vl fmt A evl -> wf_las ap h vl fmt (A ++ concat Bs) evl -> wf_las ap h vl fmt ((A ++ concat Bs) ++ concat Cs) evl ->
  file_of ap h vl fmt A evl = Ok f0 -> file_of ap h vl fmt (A ++ concat Bs) evl = Ok f1 ->
  file_of ap h vl fmt ((A ++ concat Bs) ++ concat Cs) evl = Ok f2 ->
  arun ap f0 Bs = Ok f1 /\ arun ap f1 Cs = Ok f2 /\ arun ap f0 (Bs ++ Cs) = Ok f2.
Proof. exact append_sessions. Qed.
Print Assumptions C06_sessions.

(* records of another point format are refused without touching anything; an empty chunk is a no-op *)
Theorem C06_wrong_format : forall ap s recs, recs <> [] -> apoints ap s recs false = (s, Err ELaspy).
Proof. exact append_wrong_format. Qed.
Print Assumptions C06_wrong_format.

Theorem C06_empty_chunk : forall ap s b, apoints ap s [] b = (s, Ok tt).
Proof. exact append_empty_chunk. Qed.
Print Assumptions C06_empty_chunk.

(* the executable appender run against the implementation is the one the theorems speak about *)
Theorem C06_executable_twin : forall ap src chunks, arun_f ap src chunks = arun ap src chunks.
Proof. exact arun_f_eq. Qed.
Print Assumptions C06_executable_twin.

(* fix 58dc68d: the appender truncates after the relocated EVLRs; whenever nothing lies beyond them (every original written by
   laspy) this is exactly the appender of the theorems above; the extracted driver runs the truncating one *)
Theorem C06_truncating_twin : forall s, 0 <= a_pos s ->
  (forall eb e es, a_evlrs s = Some (e :: es) -> enc_vlrs true (e :: es) = Ok eb -> len (a_file s) <= a_pos s + len eb) ->
  aclose_t s = aclose s.
Proof. exact aclose_t_eq. Qed.
Print Assumptions C06_truncating_twin.

(* an append session some of whose chunk writes FAIL (some bytes - none for the faults laspy is judged on when more chunks follow - stored,
   the call raises, the chunk not counted, the next point write at the same position - Proofs/FaultProofs.v) and which is then continued
   and closed, the EVLRs re-emitted anywhere at or behind the end of the accepted points: whatever image the destination shows, the final
   file included, a reader refuses it or gets a prefix of the original points followed by the ACCEPTED chunks - never anything else *)
Theorem C06_faulted_append : forall ap, ap_ok ap -> (forall s o x, 0 <= ap s o x) ->
  forall h vl fmt A evl evs f0 f1 hA h1 epos eb k j,
  wf_las ap h vl fmt A evl -> wf_las ap h vl fmt (A ++ accepted evs) evl ->
  file_of ap h vl fmt A evl = Ok f0 -> final_hdr ap h vl fmt A evl = Ok hA ->
  file_of ap h vl fmt (A ++ accepted evs) evl = Ok f1 -> final_hdr ap h vl fmt (A ++ accepted evs) evl = Ok h1 ->
  enc_vlrs true evl = Ok eb ->
  let off := aint hA "offset_to_point_data" in
  off + len (concat A) + len (concat (accepted evs)) <= epos ->
  reads_prefix_or_fails
    (crash_from f0 (fault_append_trace (off + len (concat A)) evs epos eb (firstn (Z.to_nat off) f1)) k j)
    (A ++ accepted evs).
Proof. exact fault_safe_append. Qed.
Print Assumptions C06_faulted_append.

(* non-vacuity: a concrete 1.2 file of one point, an append session of two chunks (one empty): byte for byte the one-shot file of the three
   points; the same session with a torn write in between is described by fault_append_trace *)
Definition c06_h : assoc := [("version.major", VInt 1); ("version.minor", VInt 2); ("uuid", VBytes (repeat 0 16));
  ("system_identifier", VBytes [79; 84]); ("generating_software", VBytes []);
  ("point_format_id", VInt 0); ("point_size", VInt 20); ("scales[0]", VInt 4607182418800017408)]%string.
Definition c06_ap (s o x : Z) : Z := if x <? 0 then 0 else x.
Definition c06_r (x b : Z) : list Z := le_enc 4 x ++ repeat 0 10 ++ [b] ++ repeat 0 5.
Example C06_nonvacuous :
  match file_of c06_ap c06_h [] 0 [c06_r 5 6] [], file_of c06_ap c06_h [] 0 [c06_r 5 6; c06_r 9 7; c06_r 2 1] [] with
  | Ok f0, Ok f1 => match arun c06_ap f0 [[c06_r 9 7; c06_r 2 1]; []] with
                    | Ok f => list_eqb f f1 && (len f1 =? 227 + 60)
                    | Err _ => false
                    end
                    && (len (fault_append_trace 247 [FOk [c06_r 9 7]; FTorn []; FOk [c06_r 2 1]] 287 [] (firstn 227 f1)) =? 4)
  | _, _ => false
  end = true.
Proof. vm_compute. reflexivity. Qed.

(* the binary64 formula inside the model (task AP): ap := ap64, no ap_ok hypothesis, header scalings in the domain *)
From LasV Require Import Model.F64Bits Proofs.ApInstance.
Theorem C06_append_equiv_binary64 : forall h vl fmt A evl Bs f0 f1, good_header h ->
  wf_las ap64 h vl fmt A evl -> wf_las ap64 h vl fmt (A ++ concat Bs) evl ->
  file_of ap64 h vl fmt A evl = Ok f0 ->
  file_of ap64 h vl fmt (A ++ concat Bs) evl = Ok f1 ->
  arun ap64 f0 Bs = Ok f1.
Proof. exact append_equiv_binary64. Qed.
Print Assumptions C06_append_equiv_binary64.

(* ------------------------------------------------------------------------------------------------------------------ *)
(* Round 5. THE CAPACITY OF THE FILE and REFUSED CALLS followed by re-use (Model/AppendCap.v, Proofs/CapacityProofs.v).                 *)
(* ------------------------------------------------------------------------------------------------------------------ *)
From LasV Require Import Model.AppendCap Proofs.CapacityProofs.

(* the decision function the driver runs next to the implementation (sparse files announcing 2^32 - 1 - n points) *)
Theorem C06_capacity_rule : forall maj mnr count n, takes_more maj mnr count n = true <-> count + n <= max_point_count maj mnr.
Proof. exact takes_more_spec. Qed.
Print Assumptions C06_capacity_rule.

(* a non-empty chunk of the file's format is accepted EXACTLY when the total stays within the capacity of the version - a total equal to
   the maximum is accepted -, and is then stored at the current position and counted; otherwise it is refused and nothing changes *)
Theorem C06_capacity : forall ap s recs, recs <> [] ->
  let maj := aint (a_h s) "version.major" in let mnr := aint (a_h s) "version.minor" in
  (takes_more maj mnr (s_count (a_st s)) (len recs) = true ->
     snd (apoints ap s recs true) = Ok tt
     /\ s_count (a_st (fst (apoints ap s recs true))) = s_count (a_st s) + len recs
     /\ a_file (fst (apoints ap s recs true)) = write_at (a_file s) (a_pos s) (concat recs)
     /\ a_pos (fst (apoints ap s recs true)) = a_pos s + len (concat recs))
  /\ (takes_more maj mnr (s_count (a_st s)) (len recs) = false -> apoints ap s recs true = (s, Err ELaspy)).
Proof. exact append_accepts_iff. Qed.
Print Assumptions C06_capacity.

(* appending is refused exactly when the one-shot writer would refuse the total: at equal version and count both decide alike *)
Theorem C06_capacity_same_rule : forall ap (s : astate) (w : wstate) recs, recs <> [] -> w_done w = false ->
  aint (w_h w) "version.major" = aint (a_h s) "version.major" -> aint (w_h w) "version.minor" = aint (a_h s) "version.minor" ->
  s_count (w_st w) = s_count (a_st s) ->
  (snd (apoints ap s recs true) = Ok tt <-> snd (wstep ap w (WPoints recs true)) = Ok tt).
Proof. exact capacity_same_rule. Qed.
Print Assumptions C06_capacity_same_rule.

(* any refused call (too many points, another point format) leaves the appender as it was ... *)
Theorem C06_refused_unchanged : forall ap s recs same e, snd (apoints ap s recs same) = Err e -> fst (apoints ap s recs same) = s.
Proof. exact append_refused_unchanged. Qed.
Print Assumptions C06_refused_unchanged.

(* ... so a session with refused calls in it - followed by the same record again, or a part of it that fits - yields the file of the
   session made of the accepted chunks only (to which C06_append_equiv applies) *)
Theorem C06_refused_calls_file : forall ap src s calls,
  aopen src = Ok s -> aclose (acalls ap s calls) = arun ap src (taken ap s calls).
Proof. exact refused_calls_file. Qed.
Print Assumptions C06_refused_calls_file.

(* non-vacuity: a 1.2 file announcing 2^32 - 4 points takes 3 more (reaching 2^32 - 1 exactly) and not 4; a 1.4 file takes them *)
Example C06_capacity_example :
  (takes_more 1 2 (2 ^ 32 - 4) 3, takes_more 1 2 (2 ^ 32 - 4) 4, takes_more 1 4 (2 ^ 32 - 4) 4, takes_more 1 2 (2 ^ 32 - 1) 1)
  = (true, false, true, false).
Proof. vm_compute. reflexivity. Qed.

(* ---------------------------------------------------------------------------------- *)
(* Round 6: histories of CALLS that contain close() (Model/LasEnd.v)                   *)
(* ---------------------------------------------------------------------------------- *)
From LasV Require Import Model.AppendCap Model.LasEnd Proofs.EndProofs.

(* whatever follows the first close - a second close (explicit close inside a with-block), more chunks, more closes - the file of the session is
   the file its first close produced from the calls before it (for any closing function: aclose_t of the code as it is, aclose) *)
Theorem C06_history_with_closes : forall ap closef ops s,
  snd (arun_ops ap closef s ops) = if has_close ops then Some (closef (acalls ap s (before_close ops))) else None.
Proof. exact arun_ops_spec. Qed.
Print Assumptions C06_history_with_closes.

Theorem C06_after_close_inert : forall ap closef calls post s,
  snd (arun_ops ap closef s (calls_of calls ++ AoClose :: post)) = Some (closef (acalls ap s calls)).
Proof. exact after_close_inert. Qed.
Print Assumptions C06_after_close_inert.

(* ... hence, with refused calls anywhere and anything after the first close, it is the append of the chunks ACCEPTED before the first close
   (to which C06_append_equiv applies: byte for byte the one-shot file) *)
Theorem C06_ended_session_file : forall ap src s calls post, aopen src = Ok s ->
  snd (arun_ops ap (aclose) s (calls_of calls ++ AoClose :: post)) = Some (arun ap src (taken ap s calls)).
Proof. exact ended_session_file. Qed.
Print Assumptions C06_ended_session_file.
