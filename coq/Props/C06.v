(* C06 — appending is equivalent to having written the concatenation (placeholder until Proofs/AppendProofs.v lands:
   the refusal theorems are computation on the model). *)
From Coq Require Import String.
From Coq Require Import ZArith List Bool.
From LasV Require Import Lib.Base Lib.Layout Model.Las Model.LasSpec.
Import ListNotations.
Open Scope list_scope.
Open Scope Z_scope.

Theorem C06_wrong_format : forall ap s recs, recs <> [] -> apoints ap s recs false = (s, Err ELaspy).
Proof. intros ap s [|r recs] H; [congruence|reflexivity]. Qed.
Print Assumptions C06_wrong_format.

Theorem C06_empty_chunk : forall ap s b, apoints ap s [] b = (s, Ok tt).
Proof. reflexivity. Qed.
Print Assumptions C06_empty_chunk.
