(* C06 — appending is equivalent to having written the concatenation. *)
From Coq Require Import String.
From Coq Require Import ZArith List Bool.
From LasV Require Import Lib.Base Lib.Layout Gen.GenHeaderLayout Gen.GenFormatBits Gen.GenDims Model.Las Model.LasSpec Model.LasFast
  Proofs.HeaderLen Proofs.VlrProofs Proofs.HeaderProofs Proofs.WriterProofs Proofs.AppendProofs Proofs.LasFastProofs.
Import ListNotations.
Open Scope list_scope.
Open Scope Z_scope.

(* an append session with chunks Bs (empty ones included) on the one-shot file of A (0..n points, any version/format, with or
   without VLRs and EVLRs) yields BYTE FOR BYTE the one-shot file of A ++ concat Bs: same point sequence, exact statistics,
   VLRs unchanged, EVLRs re-emitted after the new points with the pointer updated *)
Theorem C06_append_equiv : forall ap, ap_ok ap -> (forall s o x, 0 <= ap s o x) ->
  forall h vl fmt A evl Bs f0 f1,
  wf_las ap h vl fmt A evl -> wf_las ap h vl fmt (A ++ concat Bs) evl ->
  file_of ap h vl fmt A evl = Ok f0 ->
  file_of ap h vl fmt (A ++ concat Bs) evl = Ok f1 ->
  arun ap f0 Bs = Ok f1.
Proof. exact append_equiv. Qed.
Print Assumptions C06_append_equiv.

(* several successive sessions compose *)
Theorem C06_sessions : forall ap, ap_ok ap -> (forall s o x, 0 <= ap s o x) ->
  forall h vl fmt A evl Bs Cs f0 f1 f2,
  wf_las ap h vl fmt A evl -> wf_las ap h vl fmt (A ++ concat Bs) evl -> wf_las ap h vl fmt ((A ++ concat Bs) ++ concat Cs) evl ->
  file_of ap h vl fmt A evl = Ok f0 -> file_of ap h vl fmt (A ++ concat Bs) evl = Ok f1 ->
  file_of ap h vl fmt ((A ++ concat Bs) ++ concat Cs) evl = Ok f2 ->
  arun ap f0 Bs = Ok f1 /\ arun ap f1 Cs = Ok f2 /\ arun ap f0 (Bs ++ Cs) = Ok f2.
Proof. exact append_sessions. Qed.
Print Assumptions C06_sessions.

(* records of another point format are refused without touching anything; an empty chunk is a no-op *)
Theorem C06_wrong_format : forall ap s recs, recs <> [] -> apoints ap s recs false = (s, Err ELaspy).
Proof. exact append_wrong_format. Qed.
Print Assumptions C06_wrong_format.

Theorem C06_empty_chunk : forall ap s b, apoints ap s [] b = (s, Ok tt).
Proof. exact append_empty_chunk. Qed.
Print Assumptions C06_empty_chunk.

(* the executable appender run against the implementation is the one the theorems speak about *)
Theorem C06_executable_twin : forall ap src chunks, arun_f ap src chunks = arun ap src chunks.
Proof. exact arun_f_eq. Qed.
Print Assumptions C06_executable_twin.

(* fix 58dc68d: the appender truncates after the relocated EVLRs; whenever nothing lies beyond them (every original written by
   laspy) this is exactly the appender of the theorems above; the extracted driver runs the truncating one *)
Theorem C06_truncating_twin : forall s, 0 <= a_pos s ->
  (forall eb e es, a_evlrs s = Some (e :: es) -> enc_vlrs true (e :: es) = Ok eb -> len (a_file s) <= a_pos s + len eb) ->
  aclose_t s = aclose s.
Proof. exact aclose_t_eq. Qed.
Print Assumptions C06_truncating_twin.
