(* C02 — the on-disk layout is the ASPRS LAS layout; an independent decoder agrees.
   Specification side: Spec/Asprs.v (header, VLR header) and Spec/AsprsPoints.v (point formats 0-10, extra bytes),
   typed in from the ASPRS tables.  laspy side: the tables regenerated from the source on every run
   (Gen/GenHeaderLayout.v, Gen/GenDims.v, Gen/GenC02.v) turned into layouts by Model/PointLayout.v. *)
From Coq Require Import String.
From Coq Require Import ZArith List Bool.
From LasV Require Import Lib.Base Lib.Layout Gen.GenFormatBits Gen.GenDims Gen.GenHeaderLayout Gen.GenC02
  Spec.Asprs Spec.AsprsPoints Model.SubField Model.PointLayout Proofs.PointLayoutProofs
  Model.RecordPlace Proofs.RecordPlaceProofs.
Import ListNotations.
Open Scope list_scope.
Open Scope Z_scope.

(* ---------------- layouts: generated = specified ---------------- *)

(* every point format 0..10: laspy's numpy fields (names, byte offsets, widths, signedness / float-ness) and
   bit fields (as bit ranges) are the specification's items at the running sum of their sizes; record lengths agree;
   (the last conjunct: every item is a legal field type — signed fields >= 1 byte, bit fields tile bits 0..7) *)
Theorem C02_point_layout : forall f, 0 <= f <= 10 ->
  exists its, spec_items f = Some its
    /\ gen_std_layout f = Some (with_offsets 0 its)
    /\ gen_record_length f = Some (spec_record_length f)
    /\ total_width its = spec_record_length f
    /\ forallb (fun it => type_ok (snd it)) its = true.
Proof. exact std_layout_spec. Qed.
Print Assumptions C02_point_layout.

Theorem C02_record_lengths :
  map spec_record_length [0; 1; 2; 3; 4; 5; 6; 7; 8; 9; 10] = [20; 28; 26; 34; 57; 63; 30; 36; 38; 59; 67]
  /\ map gen_record_length [0; 1; 2; 3; 4; 5; 6; 7; 8; 9; 10] = map Some [20; 28; 26; 34; 57; 63; 30; 36; 38; 59; 67]
  /\ map (fun f => option_map total_width (spec_items f)) [0; 1; 2; 3; 4; 5; 6; 7; 8; 9; 10]
     = map Some [20; 28; 26; 34; 57; 63; 30; 36; 38; 59; 67].
Proof. exact record_lengths. Qed.
Print Assumptions C02_record_lengths.

(* laspy knows exactly the formats 0..10 *)
Theorem C02_formats : map (fun r => fst (fst r)) point_formats = [0; 1; 2; 3; 4; 5; 6; 7; 8; 9; 10]
  /\ map fst sub_fields = [0; 1; 2; 3; 4; 5; 6; 7; 8; 9; 10].
Proof. exact formats_are_0_to_10. Qed.
Print Assumptions C02_formats.

(* the masks of COMPOSED_FIELDS are the masks of the specification's bit ranges, same bytes, same names *)
Theorem C02_masks : forall f, 0 <= f <= 10 -> gen_masks f = spec_masks f.
Proof. exact masks_spec. Qed.
Print Assumptions C02_masks.

(* ... and laspy's mask arithmetic (Model/SubField.v: get = (b & m) >> lsb(m), put = clear then or) means
   "bits lo..hi of the byte" as the specification words it, for every sub-field, every byte, every value *)
Theorem C02_subfield_semantics : forall fmt name composed m, In (fmt, name, composed, m) all_sub_fields ->
  exists lo hi, spec_bit_range fmt composed name = Some (lo, hi)
    /\ m = mask_of_range lo hi
    /\ sf_max m = 2 ^ (hi - lo + 1) - 1
    /\ forall b, 0 <= b < 256 ->
         sf_get m b = (b / 2 ^ lo) mod 2 ^ (hi - lo + 1)
         /\ forall v, 0 <= v < 2 ^ (hi - lo + 1) ->
              sf_put m b v = b - ((b / 2 ^ lo) mod 2 ^ (hi - lo + 1)) * 2 ^ lo + v * 2 ^ lo.
Proof. exact sf_semantics. Qed.
Print Assumptions C02_subfield_semantics.

(* extra bytes: the type table of the writer (extradims) and of the reader (ExtraBytesStruct.dtype/num_elements)
   are Table 25: ids 1..10 uchar, char, ushort, short, ulong, long, ulonglong, longlong, float, double, 11..20 [2], 21..30 [3] *)
Theorem C02_extra_types : gen_eb_types = Some spec_eb_types /\ gen_eb_struct_types = Some spec_eb_types.
Proof. exact eb_types_spec. Qed.
Print Assumptions C02_extra_types.

Theorem C02_extra_types_table : spec_eb_types =
  [(1, TU 1, 1%nat); (2, TI 1, 1%nat); (3, TU 2, 1%nat); (4, TI 2, 1%nat); (5, TU 4, 1%nat);
   (6, TI 4, 1%nat); (7, TU 8, 1%nat); (8, TI 8, 1%nat); (9, TF 4, 1%nat); (10, TF 8, 1%nat);
   (11, TU 1, 2%nat); (12, TI 1, 2%nat); (13, TU 2, 2%nat); (14, TI 2, 2%nat); (15, TU 4, 2%nat);
   (16, TI 4, 2%nat); (17, TU 8, 2%nat); (18, TI 8, 2%nat); (19, TF 4, 2%nat); (20, TF 8, 2%nat);
   (21, TU 1, 3%nat); (22, TI 1, 3%nat); (23, TU 2, 3%nat); (24, TI 2, 3%nat); (25, TU 4, 3%nat);
   (26, TI 4, 3%nat); (27, TU 8, 3%nat); (28, TI 8, 3%nat); (29, TF 4, 3%nat); (30, TF 8, 3%nat)].
Proof. exact eb_types_table. Qed.
Print Assumptions C02_extra_types_table.

(* the whole record, every format, EVERY list of extra-bytes descriptors (any number, any types, undocumented
   byte blocks of any size): laspy's layout is the specification's (both refuse the same descriptor lists) *)
Theorem C02_full_layout : forall f ebs, 0 <= f <= 10 -> gen_point_layout f ebs = spec_point_layout f ebs.
Proof. exact full_layout_spec. Qed.
Print Assumptions C02_full_layout.

Theorem C02_layout_well_formed : forall f ebs L, 0 <= f <= 10 -> spec_point_layout f ebs = Some L -> layout_ok L = true.
Proof. exact spec_layout_ok. Qed.
Print Assumptions C02_layout_well_formed.

(* record length = 20, 28, 26, 34, 57, 63, 30, 36, 38, 59, 67 plus the extra bytes *)
Theorem C02_record_length_with_extra_bytes : forall f ebs its, 0 <= f <= 10 ->
  eb_items_of spec_eb_types ebs = Some its ->
  exists L, spec_point_layout f ebs = Some L /\ layout_len L = spec_record_length f + total_width its.
Proof. exact spec_layout_len. Qed.
Print Assumptions C02_record_length_with_extra_bytes.

(* ---------------- the codec, once for every well-formed layout ---------------- *)

(* what was encoded is decoded — each field found AT ITS BYTE OFFSET, each bit field at its bit range — for all
   in-range values (encoding succeeds exactly on those, C02_in_range_encodes): every bit-field value, signed
   extremes, any 32/64-bit float pattern *)
Theorem C02_codec_dec_enc : forall L vals bs, layout_ok L = true -> enc_point L vals = Ok bs -> dec_point L bs = Ok vals.
Proof. exact dec_enc_point. Qed.
Print Assumptions C02_codec_dec_enc.

(* every byte string of the record's length is the image of exactly the values it decodes to *)
Theorem C02_codec_enc_dec : forall L bytes vals, layout_ok L = true -> dec_point L bytes = Ok vals -> enc_point L vals = Ok bytes.
Proof. exact enc_dec_point. Qed.
Print Assumptions C02_codec_enc_dec.

Theorem C02_in_range_encodes : forall f ebs L vals, spec_point_layout f ebs = Some L ->
  values_ok L vals = true <-> exists bs, spec_enc_point f ebs vals = Ok bs.
Proof. exact in_range_encodes. Qed.
Print Assumptions C02_in_range_encodes.

(* ---------------- both directions of the property ---------------- *)

(* the specification's decoder recovers what the laspy-layout encoder wrote ... *)
Theorem C02_spec_reads_laspy : forall f ebs vals bs, 0 <= f <= 10 ->
  gen_enc_point f ebs vals = Ok bs -> spec_dec_point f ebs bs = Ok vals.
Proof. exact spec_reads_laspy. Qed.
Print Assumptions C02_spec_reads_laspy.

(* ... and the laspy-layout decoder presents what the specification's encoder wrote *)
Theorem C02_laspy_reads_spec : forall f ebs vals bs, 0 <= f <= 10 ->
  spec_enc_point f ebs vals = Ok bs -> gen_dec_point f ebs bs = Ok vals.
Proof. exact laspy_reads_spec. Qed.
Print Assumptions C02_laspy_reads_spec.

(* every record image: one reading, the same on both sides, in range, and re-encoded to the same bytes by both *)
Theorem C02_one_reading : forall f ebs L bytes, 0 <= f <= 10 -> spec_point_layout f ebs = Some L ->
  len bytes = layout_len L -> bytes_ok bytes = true ->
  exists vals, spec_dec_point f ebs bytes = Ok vals /\ gen_dec_point f ebs bytes = Ok vals
    /\ values_ok L vals = true
    /\ spec_enc_point f ebs vals = Ok bytes /\ gen_enc_point f ebs vals = Ok bytes.
Proof. exact one_reading. Qed.
Print Assumptions C02_one_reading.

(* ---------------- public header block, (E)VLR header, extra-bytes descriptor ---------------- *)

(* the field sequences extracted from LasHeader.write_to / read_from are the specification's, sizes 227/227/235/375 *)
Theorem C02_header_layout : forall minor, (1 <= minor <= 4)%nat ->
  gen_hdr_write minor = spec_write_layout minor /\ gen_hdr_read minor = spec_read_layout minor
  /\ layout_width (fixed_part (spec_write_layout minor)) = spec_header_size minor
  /\ layout_width (fixed_part (spec_read_layout minor)) = spec_header_size minor.
Proof. exact header_layouts. Qed.
Print Assumptions C02_header_layout.

Theorem C02_header_sizes : las_headers_size = [(1, 1, 227); (1, 2, 227); (1, 3, 235); (1, 4, 375)]
  /\ map spec_header_size [1; 2; 3; 4]%nat = [227; 227; 235; 375].
Proof. exact header_sizes_spec. Qed.
Print Assumptions C02_header_sizes.

Theorem C02_header_spec_reads_laspy : forall minor vals bs rest, (1 <= minor <= 4)%nat ->
  wf_fields (fixed_part (gen_hdr_write minor)) vals = true ->
  enc_fields (fixed_part (gen_hdr_write minor)) vals = Ok bs ->
  spec_dec_header minor (bs ++ rest) = (combine (layout_names (spec_hdr_layout minor)) vals, rest)
  /\ len bs = spec_header_size minor.
Proof. exact header_spec_reads_laspy. Qed.
Print Assumptions C02_header_spec_reads_laspy.

Theorem C02_header_laspy_reads_spec : forall minor vals bs rest, (1 <= minor <= 4)%nat ->
  wf_fields (spec_hdr_layout minor) vals = true -> spec_enc_header minor vals = Ok bs ->
  dec_fields (fixed_part (gen_hdr_read minor)) (bs ++ rest)
    = (combine (layout_names (fixed_part (gen_hdr_read minor))) vals, rest)
  /\ len bs = spec_header_size minor.
Proof. exact header_laspy_reads_spec. Qed.
Print Assumptions C02_header_laspy_reads_spec.

(* VLR header 54 bytes, EVLR header 60 bytes: Tables 6 and 26 *)
Theorem C02_vlr_layout : forall ext,
  gen_vlr_write ext = spec_vlr_layout ext /\ gen_vlr_read ext = spec_vlr_layout ext
  /\ layout_width (fixed_part (spec_vlr_layout ext)) = (if ext then 60 else 54).
Proof. exact vlr_layouts. Qed.
Print Assumptions C02_vlr_layout.

Theorem C02_vlr_header_round_trip : forall ext vals bs rest,
  wf_fields (fixed_part (gen_vlr_write ext)) vals = true ->
  enc_fields (fixed_part (gen_vlr_write ext)) vals = Ok bs ->
  spec_dec_vlr_header ext (bs ++ rest) = (combine (layout_names (spec_vlr_hdr_layout ext)) vals, rest)
  /\ (wf_fields (spec_vlr_hdr_layout ext) vals = true /\ spec_enc_vlr_header ext vals = Ok bs
      /\ dec_fields (fixed_part (gen_vlr_read ext)) (bs ++ rest)
         = (combine (layout_names (fixed_part (gen_vlr_read ext))) vals, rest))
  /\ len bs = (if ext then 60 else 54).
Proof. exact vlr_header_round_trip. Qed.
Print Assumptions C02_vlr_header_round_trip.

(* the ctypes structure ExtraBytesStruct is Table 24 (192 bytes, packed, same order and widths), the option bits are
   no_data 1, min 2, max 4, scale 8, offset 16, and the descriptors travel in VLR ("LASF_Spec", 4) *)
Theorem C02_eb_descriptor :
  gen_eb_descriptor = Some spec_eb_descriptor
  /\ layout_width spec_eb_descriptor = spec_eb_descriptor_size /\ eb_struct_size = spec_eb_descriptor_size
  /\ eb_option_bits = spec_eb_option_bits /\ eb_vlr_id = spec_eb_vlr.
Proof. exact eb_descriptor_spec. Qed.
Print Assumptions C02_eb_descriptor.

Theorem C02_eb_descriptor_round_trip : forall L vals bs rest, gen_eb_descriptor = Some L ->
  wf_fields L vals = true -> enc_fields L vals = Ok bs ->
  spec_dec_eb_descriptor (bs ++ rest) = (combine (layout_names spec_eb_descriptor) vals, rest)
  /\ spec_enc_eb_descriptor vals = Ok bs /\ len bs = 192.
Proof. exact eb_descriptor_round_trip. Qed.
Print Assumptions C02_eb_descriptor_round_trip.

(* ---------------- the record length of the header delimits the records ---------------- *)

(* LasHeader.read_from, the block that builds the point format of a file (translated on every run into
   Gen/GenC02.v resolve_record): from the header's Point Data Record Length [ps], the format's record length [std], the
   number of bytes the Extra Bytes VLR describes [d] and whether there is such a VLR, laspy decides exactly as the
   specification reads a file: the descriptors apply and the remaining [ps - std - d] bytes of every record are
   undocumented bytes; records too short for what must be in them are refused *)
Theorem C02_record_resolution : forall ps std d hv, resolve_record ps std d hv = spec_resolve_record ps std d hv.
Proof. exact resolve_spec. Qed.
Print Assumptions C02_record_resolution.

(* ... so nothing of a record is dropped: format + described bytes + undocumented bytes = the header's record length *)
Theorem C02_resolution_fills_record : forall ps std d hv u t, spec_resolve_record ps std d hv = Ok (u, t) ->
  0 <= t /\ std + (if u then d else 0) + t = ps.
Proof. exact resolve_fills. Qed.
Print Assumptions C02_resolution_fills_record.

(* layouts with [t] undocumented trailing bytes: laspy's (one dimension of t unsigned bytes after the described ones) is the
   specification's; t = 0 gives the layouts above; all well formed *)
Theorem C02_full_layout_with_undocumented_bytes : forall f ebs t, 0 <= f <= 10 ->
  gen_point_layout_rl f ebs t = spec_point_layout_rl f ebs t.
Proof. exact full_layout_rl. Qed.
Print Assumptions C02_full_layout_with_undocumented_bytes.

Theorem C02_no_undocumented_bytes : forall f ebs, spec_point_layout_rl f ebs 0 = spec_point_layout f ebs.
Proof. exact spec_layout_rl_0. Qed.
Print Assumptions C02_no_undocumented_bytes.

Theorem C02_spec_reads_laspy_undocumented : forall f ebs t vals bs, 0 <= f <= 10 ->
  gen_enc_point_rl f ebs t vals = Ok bs -> spec_dec_point_rl f ebs t bs = Ok vals.
Proof. exact spec_reads_laspy_rl. Qed.
Print Assumptions C02_spec_reads_laspy_undocumented.

Theorem C02_laspy_reads_spec_undocumented : forall f ebs t vals bs, 0 <= f <= 10 ->
  spec_enc_point_rl f ebs t vals = Ok bs -> gen_dec_point_rl f ebs t bs = Ok vals.
Proof. exact laspy_reads_spec_rl. Qed.
Print Assumptions C02_laspy_reads_spec_undocumented.

(* the records of a file as laspy lays them out from (format, Extra Bytes VLR, record length of the header), for EVERY
   record length, descriptor list, with or without VLR: it is the specification's layout, well formed, its records are
   exactly as long as the header says, and over it each side decodes what the other encoded; every record image of that
   length has one reading *)
Theorem C02_record_layout_of_file : forall f ebs hv ps L, 0 <= f <= 10 -> gen_record_layout f ebs hv ps = Ok L ->
  spec_record_layout f ebs hv ps = Ok L /\ layout_ok L = true /\ layout_len L = ps
  /\ (forall vals bs, enc_point L vals = Ok bs -> dec_point L bs = Ok vals /\ len bs = ps)
  /\ (forall bytes, len bytes = ps -> bytes_ok bytes = true ->
        exists vals, dec_point L bytes = Ok vals /\ enc_point L vals = Ok bytes).
Proof. exact record_both_directions. Qed.
Print Assumptions C02_record_layout_of_file.

(* laspy and the specification also refuse the same files (record shorter than format + described bytes) *)
Theorem C02_record_layout_same_outcome : forall f ebs hv ps, 0 <= f <= 10 ->
  gen_record_layout f ebs hv ps = spec_record_layout f ebs hv ps.
Proof. exact record_layout_spec. Qed.
Print Assumptions C02_record_layout_same_outcome.

(* LAS 1.4: bytes 107..130 of the header (legacy number of point records / of points by return) are written as the
   constant 0 by laspy, which the specification's rule allows for every format and count; a non-zero legacy count is
   allowed only below format 6 *)
Theorem C02_legacy_counts :
  map snd (firstn 6 (skipn 15 (gen_hdr_write 4))) = repeat "zero"%string 6
  /\ map (fun x => fst (fst x)) (firstn 6 (skipn 15 (gen_hdr_write 4))) = repeat KUInt 6
  /\ layout_width (firstn 15 (gen_hdr_write 4)) = 107 /\ layout_width (firstn 21 (gen_hdr_write 4)) = 131
  /\ (forall fmt count, spec_legacy_ok fmt count 0 = true)
  /\ (forall fmt count legacy, spec_legacy_ok fmt count legacy = true -> 6 <= fmt -> legacy = 0).
Proof. exact legacy_counts. Qed.
Print Assumptions C02_legacy_counts.

(* ---------------- where the records are: offset_to_point_data + i * record_length ---------------- *)

(* a file laid out as the specification says — [off] bytes of header, VLRs and whatever precedes the points, the records one
   after the other, ANY bytes behind them (padding, waveform data packets, EVLRs): record i is the [ps] bytes at off + i * ps *)
Theorem C02_record_position : forall (pre post : list Z) (recs : list (list Z)) off ps i,
  len pre = off -> Forall (fun r => len r = ps) recs -> 0 <= i < len recs ->
  record_at (pre ++ concat recs ++ post) off ps i = nth (Z.to_nat i) recs [].
Proof. exact record_in_run. Qed.
Print Assumptions C02_record_position.

(* ... and the specification's decoder, cutting the announced records out there, recovers the values of every record the
   laspy-layout encoder produced (any format, extra-bytes descriptors, undocumented bytes) *)
Theorem C02_decoder_finds_all_records : forall f ebs t (pre post : list Z) (recs valss : list (list Z)) off ps,
  0 <= f <= 10 -> len pre = off -> Forall (fun r => len r = ps) recs ->
  Forall2 (fun vals r => gen_enc_point_rl f ebs t vals = Ok r) valss recs ->
  spec_dec_records f ebs t (pre ++ concat recs ++ post) off ps (len recs) = Ok valss.
Proof. exact decoder_finds_all_records. Qed.
Print Assumptions C02_decoder_finds_all_records.

(* LasAppender.__init__ (the branch for uncompressed files, translated from the source on every run into Gen/GenC02.v
   append_start over the header's fields and the file's length): the stream is left at the end of the point records the header
   announces — for every version, with or without EVLRs, whatever the file's length *)
Theorem C02_appender_start : forall off n ps flen minor nev sfe, append_start off n ps flen minor nev sfe = off + n * ps.
Proof. exact append_start_spec. Qed.
Print Assumptions C02_appender_start.

(* an append session (any number of append_points calls, empty ones included) on ANY file that holds the n records its
   header announces, whatever follows them: the file's records stay, appended record j is record n + j of the file, the
   bytes before the first record (header block, VLRs) are not touched by the point writes *)
Theorem C02_append_places_records : forall (file : list Z) off n ps minor nev sfe (chunks : list (list (list Z))),
  0 <= off -> 0 <= n -> 0 < ps -> off + n * ps <= len file ->
  Forall (Forall (fun r => len r = ps)) chunks ->
  let file' := append_session file off n ps minor nev sfe chunks in
  (forall i, 0 <= i < n -> record_at file' off ps i = record_at file off ps i)
  /\ (forall j, 0 <= j < len (concat chunks) -> record_at file' off ps (n + j) = nth (Z.to_nat j) (concat chunks) [])
  /\ take off file' = take off file.
Proof. exact append_places_records. Qed.
Print Assumptions C02_append_places_records.

Theorem C02_decoder_reads_appended : forall f ebs t (file : list Z) off n ps minor nev sfe (chunks : list (list (list Z))),
  0 <= f <= 10 -> 0 <= off -> 0 <= n -> 0 < ps -> off + n * ps <= len file ->
  Forall (Forall (fun r => len r = ps)) chunks ->
  forall j vals, 0 <= j < len (concat chunks) ->
    gen_enc_point_rl f ebs t vals = Ok (nth (Z.to_nat j) (concat chunks) []) ->
    spec_dec_point_rl f ebs t (record_at (append_session file off n ps minor nev sfe chunks) off ps (n + j)) = Ok vals.
Proof. exact decoder_reads_appended. Qed.
Print Assumptions C02_decoder_reads_appended.

(* a record replaced in place (assignment through the memory map): it is the record the decoder finds, every other record,
   everything before the first and behind the last record and the file's length stay *)
Theorem C02_edit_in_place : forall (file : list Z) off n ps i (rec : list Z),
  0 <= off -> 0 < ps -> 0 <= i < n -> off + n * ps <= len file -> len rec = ps ->
  let file' := edit_record file off ps i rec in
  record_at file' off ps i = rec
  /\ (forall k, 0 <= k < n -> k <> i -> record_at file' off ps k = record_at file off ps k)
  /\ take off file' = take off file
  /\ drop (off + n * ps) file' = drop (off + n * ps) file
  /\ len file' = len file.
Proof. exact edit_in_place. Qed.
Print Assumptions C02_edit_in_place.

(* ---------------- a header between two files ---------------- *)

(* A header that was read from one file and is handed to a writer (LasData.write after an edit, laspy.open(mode="w", header=..)):
   the EVLR fields of the new file's header (model of LasWriter.__init__ -> LasHeader.partial_reset, LasWriter.write_evlrs,
   translated on every run) are what THIS writer was given — none when write_evlrs was not called or got an empty list, k records
   right behind the points otherwise — for every value the two fields had before *)
Theorem C02_writer_announces_its_own_evlrs : forall minor had_start had_count end_of_points given r,
  writer_evlr_fields minor had_start had_count end_of_points given = Some r ->
  r = match given with
      | Some k => if 0 <? k then (end_of_points, k) else (0, 0)
      | None => (0, 0)
      end.
Proof. exact writer_announces_its_own_evlrs. Qed.
Print Assumptions C02_writer_announces_its_own_evlrs.

Theorem C02_writer_evlrs_need_1_4 : forall minor hs hc e k, minor < 4 -> writer_evlr_fields minor hs hc e (Some k) = None.
Proof. exact writer_evlrs_need_1_4. Qed.
Print Assumptions C02_writer_evlrs_need_1_4.

Theorem C02_writer_evlrs_accepted : forall minor hs hc e given, 4 <= minor -> exists r, writer_evlr_fields minor hs hc e given = Some r.
Proof. exact writer_evlrs_accepted. Qed.
Print Assumptions C02_writer_evlrs_accepted.

(* every method of LasHeader that binds the header's point format or adds / removes extra dimensions of it (read from the source on
   every run: Gen/GenC02.v point_format_writers) rebuilds the Extra Bytes VLR from the dimensions the point format has afterwards:
   the record length a header announces and its 192-byte descriptors come from one list *)
Theorem C02_point_format_writers_sync : point_format_writers_sync = true.
Proof. exact point_format_writers_all_sync. Qed.
Print Assumptions C02_point_format_writers_sync.

(* ---------------- a record handed to a header that was not made from it ---------------- *)

(* LasWriter.write_points, LasAppender.append_points, LasData(header, points) and the LasData.points setter refuse a record
   whose point format is not PointFormat.__eq__ to the header's before anything of it is stored (read from the source on
   every run: Gen/GenC02.v handover_guards, point_format_eq, dim_info_eq) *)
Theorem C02_handover_guarded :
  handover_guards = ["LasWriter.write_points"; "LasAppender.append_points"; "LasData.__init__"; "LasData.points"]%string.
Proof. exact handover_guards_all. Qed.
Print Assumptions C02_handover_guarded.

(* what such a hand-over accepts: the header's point format id and, POSITION BY POSITION, the header's extra dimensions —
   same name, kind, width and number of elements (hence the same Extra Bytes descriptors, in the same order), numerically
   the same scales and offsets.  The same set of dimensions in another order, a type of equal size, a different name or
   other scales never pass. *)
Theorem C02_accepted_record_same_layout : forall hid hdims rid rdims, handover_accepts hid hdims rid rdims = true ->
  hid = rid /\ map dim_shape hdims = map dim_shape rdims /\ map dim_name hdims = map dim_name rdims
  /\ ebs_of_dims hdims = ebs_of_dims rdims /\ Forall2 same_scaling rdims hdims.
Proof. exact accepted_record_same_layout. Qed.
Print Assumptions C02_accepted_record_same_layout.

(* ... so the bytes of an accepted record — laid out by the record's OWN dimensions, stored as they are — are read back by the
   specification's decoder, under the descriptors the HEADER declares in the file, as the values that were assigned; the
   names line up: what was assigned through a named dimension is found under that name *)
Theorem C02_accepted_record_decodes : forall hid hdims rid rdims ebs vals bs, 0 <= hid <= 10 ->
  handover_accepts hid hdims rid rdims = true ->
  ebs_of_dims rdims = Some ebs -> gen_enc_point rid ebs vals = Ok bs ->
  ebs_of_dims hdims = Some ebs /\ map dim_name hdims = map dim_name rdims /\ spec_dec_point hid ebs bs = Ok vals.
Proof. exact accepted_record_decodes. Qed.
Print Assumptions C02_accepted_record_decodes.

(* ---------------- assignments into the elements of an extra dimension ---------------- *)

(* whatever the key (whole dimension, [:, k], [mask, k], [index list, k], [i, k], [slice, slice], whole points, a sub-view) and
   the form of the value, an assignment names distinct (point, element) positions with a stored value each: afterwards each
   of them holds its value, every other element of every point is what it was, the shape is unchanged *)
Theorem C02_element_assignment : forall (g : grid) (sel : list (nat * nat * Z)), NoDup (map sel_pos sel) ->
  (forall i k v, In (i, k, v) sel -> (i < length g)%nat -> (k < length (nth i g []))%nat -> get_elem (assign_elems g sel) i k = v)
  /\ (forall i k, ~ In (i, k) (map sel_pos sel) -> get_elem (assign_elems g sel) i k = get_elem g i k)
  /\ map (@length Z) (assign_elems g sel) = map (@length Z) g.
Proof. exact element_assignment. Qed.
Print Assumptions C02_element_assignment.

(* assignments made one after the other *)
Theorem C02_element_assignments_compose : forall a g b, assign_elems g (a ++ b) = assign_elems (assign_elems g a) b.
Proof. exact assign_elems_app. Qed.
Print Assumptions C02_element_assignments_compose.

(* ---------------- payloads of the other records the specification lays out ---------------- *)

(* the classification lookup record (ClassNumber unsigned char, Description char[15]; a complete table: 256 records, 4096 bytes),
   the 26-byte waveform packet descriptor, the GeoKeyDirectory header and key entry: laspy's struct format / ctypes structures
   (regenerated from the running module; parse_record_data found to enter EVERY record of the payload) are the specification's *)
Theorem C02_known_payload_layouts :
  gen_known_payload "lookup" = Some spec_lookup_record
  /\ gen_known_payload "waveform" = Some spec_waveform_descriptor
  /\ gen_known_payload "geokeys_header" = Some spec_geokeys_header
  /\ gen_known_payload "geokey" = Some spec_geokey_entry
  /\ layout_width spec_lookup_record = 16 /\ spec_lookup_table_records * layout_width spec_lookup_record = spec_lookup_table_size
  /\ layout_width spec_waveform_descriptor = 26 /\ layout_width spec_geokeys_header = 8 /\ layout_width spec_geokey_entry = 8.
Proof. exact known_payloads_spec. Qed.
Print Assumptions C02_known_payload_layouts.

(* what laspy's structure writes for in-range values, the specification's decoder reads, whole payload record consumed *)
Theorem C02_known_payload_round_trip : forall name L vals bs, gen_known_payload name = Some L ->
  wf_fields L vals = true -> enc_fields L vals = Ok bs ->
  spec_dec_known name bs = Ok (combine (spec_known_names name) vals, []) /\ spec_enc_known name vals = Ok bs.
Proof. exact known_payload_round_trip. Qed.
Print Assumptions C02_known_payload_round_trip.

(* the classification lookup table as a whole: any table of distinct class numbers 0..255 whose descriptions are at most 15
   non-NUL bytes -- BLANK descriptions included, e.g. the complete 256-record table with most classes unnamed -- is what
   parsing its bytes yields, record for record and in order, and its bytes are 16 per record *)
Theorem C02_lookup_table_round_trip : forall t, lookup_wf [] t = true ->
  lookup_parse (lookup_bytes t) = Some t /\ len (lookup_bytes t) = 16 * len t.
Proof. exact lookup_table_round_trip. Qed.
Print Assumptions C02_lookup_table_round_trip.

(* a format-6 record with one int16[2] extra dimension: every bit field at its maximum, signed extremes, a NaN payload
   in gps_time; 34 bytes; the laspy-layout encoder and the specification's decoder; an out-of-range return number refused *)
Example C02_nonvacuous :
  let ebs := [("e"%string, 14, 0)] in
  let vals := [-2147483648; 2147483647; -1; 65535; 15; 15; 1; 1; 1; 1; 3; 1; 1; 255; 0; -32768; 65535; 0x7FF8000000000001; -32768; 32767] in
  let bytes := [0; 0; 0; 128; 255; 255; 255; 127; 255; 255; 255; 255; 255; 255; 255; 255; 255; 0; 0; 128; 255; 255;
                1; 0; 0; 0; 0; 0; 248; 127; 0; 128; 255; 127] in
  gen_enc_point 6 ebs vals = Ok bytes /\ spec_dec_point 6 ebs bytes = Ok vals /\ len bytes = 30 + 4
  /\ spec_enc_point 6 ebs (-2147483648 :: 2147483647 :: -1 :: 65535 :: 16 :: skipn 5 vals) = Err EOverflow
  /\ spec_dec_point 6 ebs (tl bytes) = Err EShort
  (* a format-1 file whose VLR describes one uint16 while the records are 34 = 28 + 2 + 4 bytes long: 4 undocumented
     bytes per record, 21 leaves; without the VLR 6 undocumented bytes; a 29-byte record cannot hold the uint16 *)
  /\ gen_record_summary 1 [("h"%string, 3, 0)] true 34 = Ok (21, 34)
  /\ resolve_record 34 28 2 true = Ok (true, 4) /\ resolve_record 34 28 2 false = Ok (false, 6)
  /\ resolve_record 28 28 2 true = Ok (false, 0) /\ resolve_record 29 28 2 true = Err ELaspy
  /\ spec_dec_point_rl 1 [("h"%string, 3, 0)] 2 (repeat 0 28 ++ [1; 2; 7; 9]) = Ok (repeat 0 16 ++ [513; 7; 9])
  (* a "file" with 2 bytes before its one 2-byte record and 3 foreign bytes behind it: two appended records overwrite them and
     extend the file; with 6 foreign bytes one appended record leaves the last 4; record 2 is found at 2 + 2 * 2 *)
  /\ append_session [9; 9; 1; 2; 7; 7; 7] 2 1 2 2 0 0 [[[3; 4]]; []; [[5; 6]]] = [9; 9; 1; 2; 3; 4; 5; 6]
  /\ append_session [9; 9; 1; 2; 7; 7; 7; 7; 7; 7] 2 1 2 4 0 0 [[[3; 4]]] = [9; 9; 1; 2; 3; 4; 7; 7; 7; 7]
  /\ record_at [9; 9; 1; 2; 3; 4; 5; 6] 2 2 2 = [5; 6]
  /\ edit_record [9; 9; 1; 2; 3; 4; 7] 2 2 1 [8; 8] = [9; 9; 1; 2; 8; 8; 7]
  (* a 1.4 header read from a file with 2 EVLRs at byte 525, written again: no EVLR given -> none announced; one given -> one, right
     behind the points that end at 400; a 1.2 writer refuses *)
  /\ writer_evlr_fields 4 525 2 400 None = Some (0, 0) /\ writer_evlr_fields 4 525 2 400 (Some 1) = Some (400, 1)
  /\ writer_evlr_fields 4 525 2 400 (Some 0) = Some (0, 0) /\ writer_evlr_fields 2 0 0 400 (Some 1) = None
  (* a header that declares (amplitude: uint16, reflectance: float32): a record with the same list is taken; the same set in the
     other order, an int16 amplitude, a reflectance with a scale are refused; the descriptors are data_type 3 and 9, five
     unsigned bytes are data_type 0 with options 5 *)
  /\ (let amp := ("amplitude"%string, 1, 16, 1, false, ""%string, @None (list Z), @None (list Z)) in
      let refl := ("reflectance"%string, 2, 32, 1, false, ""%string, @None (list Z), @None (list Z)) in
      handover_accepts 3 [amp; refl] 3 [amp; refl] = true /\ handover_accepts 3 [amp; refl] 3 [refl; amp] = false
      /\ handover_accepts 3 [amp; refl] 1 [amp; refl] = false /\ handover_accepts 3 [amp; refl] 3 [amp] = false
      /\ handover_accepts 3 [amp; refl] 3 [("amplitude"%string, 0, 16, 1, false, ""%string, None, None); refl] = false
      /\ handover_accepts 3 [amp; ("r"%string, 1, 32, 1, false, ""%string, Some [0], Some [0x3FE0000000000000])] 3
                             [amp; ("r"%string, 1, 32, 1, false, ""%string, Some [0], Some [0x3FF0000000000000])] = false
      /\ handover_accepts 3 [amp; ("r"%string, 1, 32, 1, false, ""%string, Some [0x8000000000000000], Some [0x3FE0000000000000])] 3
                             [amp; ("r"%string, 1, 32, 1, false, ""%string, Some [0], Some [0x3FE0000000000000])] = true
      /\ ebs_of_dims [amp; refl; ("raw"%string, 1, 40, 5, false, ""%string, None, None)]
         = Some [("amplitude"%string, 3, 0); ("reflectance"%string, 9, 0); ("raw"%string, 0, 5)])
  (* a lookup table with a blank description between two named classes: 48 bytes, three records read back *)
  /\ lookup_parse (lookup_bytes [(2, [103; 114]); (7, []); (9, [119])]) = Some [(2, [103; 114]); (7, []); (9, [119])]
  /\ len (lookup_bytes [(2, [103; 114]); (7, []); (9, [119])]) = 48
  /\ spec_dec_known "waveform" ([8; 1; 88; 0; 0; 0; 232; 3; 0; 0] ++ repeat 0 16)
     = Ok ([("bits_per_sample"%string, VInt 8); ("waveform_compression_type"%string, VInt 1); ("number_of_samples"%string, VInt 88);
            ("temporal_sample_spacing"%string, VInt 1000); ("digitizer_gain"%string, VInt 0); ("digitizer_offset"%string, VInt 0)], [])
  (* normal[mask, 1] = .. then normal[[1], 0] = .. on three points of int16[3] *)
  /\ assign_elems [[1; 2; 3]; [4; 5; 6]; [7; 8; 9]] [(0%nat, 1%nat, 20); (2%nat, 1%nat, 80); (1%nat, 0%nat, 40)] = [[1; 20; 3]; [40; 5; 6]; [7; 80; 9]].
Proof. vm_compute. repeat split; reflexivity. Qed.
