(* C18 — stream ownership (closefd) is honoured on every path, including failures.
   Model: Model/Ownership.v interpreting the skeleton regenerated from the source (Gen/GenOwnership.v: the except clauses
   of open_las, the close methods of LasReader/LasWriter/LasAppender and of the point readers the reader delegates to,
   the lazily created point source, LasData._write_to's closefd, the stream operations of header reading, how
   LasHeader.read_evlrs and LasReader.read ask a stream whether it can seek).
   A stream is one of three kinds (seekcap): it answers seekable() with True, with False, or it has no `seekable`
   attribute at all - a source that offers only read(). *)
From Coq Require Import ZArith List Bool.
From LasV Require Import Lib.Base Gen.GenCursor Gen.GenOwnership Model.Ownership Proofs.OwnershipProofs.
Import ListNotations.
Open Scope Z_scope.

(* Every history of events on a stream (of any of the three kinds) that stands anywhere when laspy first gets it: sessions in mode r/w/a with closefd true/false, opening
   that succeeds or fails with a LaspyException or with another exception (empty source, bad signature, truncated header,
   undecodable VLR, incompatible header, non-seekable stream for append), reads/seeks/full reads that do or do not create
   the point source (the real one or the empty-file one) or that FAIL after a successful open (a point area that ends
   inside a record, EVLRs left for read() that cannot be decoded), exceptions in the with-body, explicit close,
   LasData.write, laspy.read (whose read() may fail after its open succeeded), several sessions one after the other, the
   caller moving the stream in between. Each time laspy lets go of a stream that was open when it got it,
   the stream is closed iff the caller said closefd (obs_ok; for LasData.write the "closefd" is false).
   The histories include the failures of the stream's own methods (read/readinto/seek/tell/write/flush/truncate raising
   OSError, any other Exception, or a BaseException that is not one): while opening (outcome OFault), under an operation
   on the handle (EOpFault, followed by anything: further operations, the exception leaving the with block, a normal
   exit, close()), inside laspy.read after its open (EReadLasFault), inside LasData.write, and inside the close method
   itself (EEndFault); for that last case obs_ok states one direction (a stream laspy was told to leave open is left
   open), the other one is C18_iff_close_fault_partial.
   The single exit excluded by obs_ok is HPrecondition — mode w asserting that the destination is seekable BEFORE its
   try block — which is not among the failures the property lists (invalid content, unusable header); what happens there
   is C18_w_nonseekable_untouched. *)
Theorem C18_iff : forall cap p evs, Forall obs_ok (st_log (run (init_at cap p) evs)).
Proof. exact ownership_iff. Qed.
Print Assumptions C18_iff.

(* the same, as the boolean the extracted model evaluates during the correspondence runs *)
Theorem C18_iff_bool : forall cap p evs, forallb obs_okb (st_log (run (init_at cap p) evs)) = true.
Proof. exact ownership_iff_b. Qed.
Print Assumptions C18_iff_bool.

(* FULL STATEMENT (not provable of the model of the current source, see below):
     forall cap p evs, Forall obs_ok_full (st_log (run (init_at cap p) evs))
   i.e. the iff also when the close method itself raises because the stream failed under it (with-exit or close() in
   mode w / a: the header is rewritten, the EVLRs are moved). PARTIAL: it is proved under the hypothesis that every
   statement of the generated close methods that may use the stream is followed, when it raises, by the close action
   (close_faults_safeb, a boolean computed from Gen/GenOwnership.v: gen_close_*_faults). MISSING: LasWriter.close and
   LasAppender.close of the current source run `if self.closefd: self.dest.close()` only after the header rewrite
   succeeded (no try/finally): close_faults_safeb computes to false, a stream handed over with closefd=True is left open
   when close() fails. The oracle of harness/props/c18.py reports that as a failing input (kind
   "mode=w|a closefd=True -> closed=False after a stream fault in close"). Once the close action sits in a `finally`, the
   hypothesis is `reflexivity`. *)
Theorem C18_iff_close_fault_partial : close_faults_safeb = true ->
  forall cap p evs, Forall obs_ok_full (st_log (run (init_at cap p) evs)).
Proof. intros H cap p evs. exact (ownership_iff_full cap p evs H). Qed.
Print Assumptions C18_iff_close_fault_partial.

(* the close method itself raises (the j-th of its statements that may use the stream), after any history: the handle is
   gone; a stream laspy was told to leave open is open; a stream laspy owns is closed under the same hypothesis *)
Theorem C18_close_fault : forall cap p evs via j x h, st_h (run (init_at cap p) evs) = Some h ->
  let r := step (run (init_at cap p) evs) (EEndFault via j x) in
  snd r = RRaised x ->
  st_h (fst r) = None /\ (h_declared h = false -> s_closed (st_s (fst r)) = false)
  /\ (close_faults_safeb = true -> s_closed (st_s (fst r)) = h_declared h).
Proof. exact close_fault_gone. Qed.
Print Assumptions C18_close_fault.

(* a reader's close cannot fail half-way: neither LasReader.close nor the point readers' close it delegates to has a
   statement that uses the stream other than the close itself *)
Theorem C18_reader_close_no_fault_point : forall cf hp ss,
  gen_close_reader_faults cf hp ss = [] /\ gen_close_uncompressed_faults cf hp ss = [] /\ gen_close_empty_faults cf hp ss = [].
Proof. exact reader_close_no_fault_point. Qed.
Print Assumptions C18_reader_close_no_fault_point.

(* a stream operation fails while the constructor runs, in any mode, with any class of exception (an Exception or not):
   the open raises it, no handle, closed iff closefd *)
Theorem C18_open_fault : forall t m cf re f x, st_h t = None -> s_closed (st_s t) = false ->
  (gen_open_pre_assert_seekable m = true -> s_seekable (st_s t) = true) ->
  (is_a m = true -> s_seekable (st_s t) = true) ->
  let r := step t (EOpen m cf re f (OFault x)) in
  snd r = RRaised x /\ st_h (fst r) = None /\ s_closed (st_s (fst r)) = cf.
Proof. exact open_fault. Qed.
Print Assumptions C18_open_fault.

(* a stream operation fails under an operation on the handle (read_points, read, seek, chunk iteration, write_points,
   append_points, write_evlrs): the operation raises and lets go of nothing - the stream is as it was, the handle keeps
   its closefd ... *)
Theorem C18_op_fault_keeps : forall t h x, st_h t = Some h ->
  let r := step t (EOpFault x) in
  snd r = RRaised x /\ st_s (fst r) = st_s t /\
  exists h', st_h (fst r) = Some h' /\ h_closefd h' = h_closefd h /\ h_declared h' = h_declared h /\ h_mode h' = h_mode h.
Proof. exact op_fault_keeps. Qed.
Print Assumptions C18_op_fault_keeps.

(* ... and when the handle is then let go of - the exception leaves the with block, or it was caught inside and the block
   is left normally, or close() is called - after any history: closed iff closefd *)
Theorem C18_op_fault_then_gone : forall cap p evs x e h, is_end e = true -> st_h (run (init_at cap p) evs) = Some h ->
  let t := fst (step (run (init_at cap p) evs) (EOpFault x)) in
  st_h (fst (step t e)) = None /\ s_closed (st_s (fst (step t e))) = h_declared h.
Proof. exact op_fault_then_gone. Qed.
Print Assumptions C18_op_fault_then_gone.

(* laspy.read whose read() fails because the stream did, after its open succeeded: closed iff closefd *)
Theorem C18_read_las_fault : forall cap p evs cf f x,
  st_h (run (init_at cap p) evs) = None -> s_closed (st_s (run (init_at cap p) evs)) = false ->
  st_h (fst (step (run (init_at cap p) evs) (EReadLasFault cf f x))) = None /\
  s_closed (st_s (fst (step (run (init_at cap p) evs) (EReadLasFault cf f x)))) = cf.
Proof. exact read_las_fault_closes. Qed.
Print Assumptions C18_read_las_fault.

(* opening fails (whatever the mode, the failure and the class of the exception): no handle, closed iff closefd *)
Theorem C18_failed_open : forall t m cf re f o x, st_h t = None -> s_closed (st_s t) = false ->
  (gen_open_pre_assert_seekable m = true -> s_seekable (st_s t) = true) ->
  snd (step t (EOpen m cf re f o)) = RRaised x ->
  st_h (fst (step t (EOpen m cf re f o))) = None /\ s_closed (st_s (fst (step t (EOpen m cf re f o)))) = cf.
Proof. exact failed_open. Qed.
Print Assumptions C18_failed_open.

(* which opens fail (open_exn: the content or the header is what it is - or, for a reader that loads the EVLRs while
   opening, these cannot be decoded, or the stream cannot even be asked whether it can seek: `stream.seekable()` on an
   object without that attribute) and which give a handle: the handle carries the caller's closefd, has no point source yet, and the
   stream is still open *)
Theorem C18_open_outcome : forall t m cf re f o, st_h t = None -> s_closed (st_s t) = false ->
  (gen_open_pre_assert_seekable m = true -> s_seekable (st_s t) = true) ->
  (is_a m = true -> s_seekable (st_s t) = true) ->
  match open_exn m o f re (s_cap (st_s t)) with
  | Some x => snd (step t (EOpen m cf re f o)) = RRaised x
  | None => snd (step t (EOpen m cf re f o)) = RDone /\
            exists h, st_h (fst (step t (EOpen m cf re f o))) = Some h /\ h_mode h = m /\ h_closefd h = cf /\ h_ps h = PNone /\
                      s_closed (st_s (fst (step t (EOpen m cf re f o)))) = false
  end.
Proof. exact open_outcome. Qed.
Print Assumptions C18_open_outcome.

(* normal exit, explicit close, exception in the with-body, after any history (point source created or not, by a read,
   a seek, read() on an empty file with deferred EVLRs, or direct access): closed iff closefd, and the handle is gone *)
Theorem C18_handle_gone : forall cap p evs e h, is_end e = true -> st_h (run (init_at cap p) evs) = Some h ->
  st_h (fst (step (run (init_at cap p) evs) e)) = None /\
  s_closed (st_s (fst (step (run (init_at cap p) evs) e))) = h_declared h /\ h_closefd h = h_declared h.
Proof. exact handle_gone. Qed.
Print Assumptions C18_handle_gone.

(* LasData.write never closes the caller's stream (in any state, whatever happens to the write) *)
Theorem C18_write_keeps_open : forall t o,
  s_closed (st_s (fst (step t (ELasDataWrite o)))) = s_closed (st_s t) /\ st_h (fst (step t (ELasDataWrite o))) = st_h t.
Proof. exact write_keeps_open. Qed.
Print Assumptions C18_write_keeps_open.

(* laspy.read(stream, closefd): closed iff closefd whether reading succeeds, opening fails, or read() fails after the
   open succeeded (any f: torn point area, undecodable EVLRs left for read()) *)
Theorem C18_read_las : forall cap p evs cf f o,
  st_h (run (init_at cap p) evs) = None -> s_closed (st_s (run (init_at cap p) evs)) = false ->
  st_h (fst (step (run (init_at cap p) evs) (EReadLas cf f o))) = None /\
  s_closed (st_s (fst (step (run (init_at cap p) evs) (EReadLas cf f o)))) = cf.
Proof. exact read_las_closes. Qed.
Print Assumptions C18_read_las.

(* after a successful open for reading the stream stands at the first point record: offset_to_point_data bytes after
   the position it had when it was handed over (wherever that is: the content need not start at byte 0 of the stream),
   with or without EVLR preloading, with or without EVLRs, seekable or not *)
Theorem C18_position : forall t cf re f o, st_h t = None -> s_closed (st_s t) = false ->
  227 <= f_offset f -> s_pos (st_s t) + f_offset f <= f_size f ->
  snd (step t (EOpen MR cf re f o)) = RDone ->
  s_pos (st_s (fst (step t (EOpen MR cf re f o)))) = s_pos (st_s t) + f_offset f.
Proof. exact open_position. Qed.
Print Assumptions C18_position.

(* the hypothesis `snd .. = RDone` is not vacuous: a well-formed file whose EVLRs decode opens on every stream that can be
   asked whether it can seek - with the question spelt `getattr(stream, "seekable", lambda: False)()` that is every stream *)
Theorem C18_open_succeeds : forall t cf re f, st_h t = None -> s_closed (st_s t) = false -> f_evlr_bad f = false ->
  query gen_read_evlrs_query (s_cap (st_s t)) <> None ->
  snd (step t (EOpen MR cf re f OOk)) = RDone.
Proof. exact open_ok_succeeds. Qed.
Print Assumptions C18_open_succeeds.

(* ... so that points are consumed without seeking: the first read_points(n) succeeds and ends right after its k
   records (base = where the content starts in the stream) *)
Theorem C18_points_follow : forall t h n base, st_h t = Some h -> h_mode h = MR -> h_ps h = PNone -> h_read h = 0 ->
  let f := h_file h in
  f_laz f = None -> s_pos (st_s t) = base + f_offset f -> 0 < f_count f -> 0 <= f_psize f -> base + f_offset f + f_count f * f_psize f <= f_size f ->
  let k := if n <? 0 then f_count f else Z.min n (f_count f) in
  snd (step t (EReadPoints n)) = RDone /\
  s_pos (st_s (fst (step t (EReadPoints n)))) = base + f_offset f + k * f_psize f.
Proof. exact points_follow. Qed.
Print Assumptions C18_points_follow.

(* failures after a successful open. A point area that ends inside a record: read() / read_points(-1) raise and the
   stream stays open (the handle is still there; C18_handle_gone / C18_read_las say what its end does) *)
Theorem C18_torn_points_raise : forall t h base, st_h t = Some h -> h_mode h = MR -> h_ps h = PNone -> h_read h = 0 ->
  let f := h_file h in
  f_laz f = None -> s_pos (st_s t) = base + f_offset f -> 0 < f_count f -> 0 < f_psize f ->
  base + f_offset f <= f_size f < base + f_offset f + f_count f * f_psize f ->
  (f_size f - (base + f_offset f)) mod f_psize f <> 0 ->
  snd (step t EReadAll) = RRaised XOther /\ snd (step t (EReadPoints (-1))) = RRaised XOther
  /\ s_closed (st_s (fst (step t EReadAll))) = s_closed (st_s t).
Proof. exact torn_points_raise. Qed.
Print Assumptions C18_torn_points_raise.

(* EVLRs that cannot be decoded fail where they are loaded: at opening (closed iff closefd) when asked for on a stream
   that can seek, in read() - once the points are read - otherwise (the stream being one that can be asked) *)
Theorem C18_bad_evlrs_fail_where_loaded : forall t cf re f, st_h t = None -> s_closed (st_s t) = false ->
  f_evlr_bad f = true -> f_laz f = None -> 4 <= f_minor f -> 0 < f_nevlrs f ->
  query gen_read_evlrs_query (s_cap (st_s t)) <> None ->
  let r := step t (EOpen MR cf re f OOk) in
  if re && s_seekable (st_s t)
  then snd r = RRaised XOther /\ st_h (fst r) = None /\ s_closed (st_s (fst r)) = cf
  else snd r = RDone /\ exists h, st_h (fst r) = Some h /\ h_pending_evlrs h = true /\
       forall s, snd (do_read_all (set_ps (set_read h (f_count f)) (PReal true)) s) = RRaised XOther.
Proof. exact bad_evlrs_fail_where_loaded. Qed.
Print Assumptions C18_bad_evlrs_fail_where_loaded.

(* a source that offers only read() (no `seekable` attribute) handed to a reader of a 1.4 file that announces EVLRs.
   Both spellings of the question are stated, the generated term says which one the source uses:
   `getattr(stream, "seekable", lambda: False)()` - it is a legal source that cannot seek: the open succeeds with or
   without preloading, the stream stays open, the handle carries the caller's closefd, the EVLRs are left for read(),
   which (asking in the same way) takes them where the stream stands after the last point;
   `stream.seekable()` - preloading fails with AttributeError inside the try of open_las: the stream is closed iff
   closefd (C18_iff covers both; this says which of its cases such a source falls into) *)
Theorem C18_read_only_source : forall t cf re f, st_h t = None -> s_closed (st_s t) = false -> s_cap (st_s t) = CapAbsent ->
  f_evlr_bad f = false -> f_laz f = None -> 4 <= f_minor f -> 0 < f_nevlrs f ->
  let r := step t (EOpen MR cf re f OOk) in
  match gen_read_evlrs_query with
  | QGetattrFalse =>
      snd r = RDone /\ s_closed (st_s (fst r)) = false /\
      exists h, st_h (fst r) = Some h /\ h_closefd h = cf /\ h_pending_evlrs h = true /\
        match gen_reader_read_query with
        | QGetattrFalse => forall s, s_cap s = CapAbsent ->
            do_read_all (set_ps (set_read h (f_count f)) (PReal true)) s =
            (clear_pending (set_ps (set_read h (f_count f)) (PReal true)), set_pos s (rd (f_size f) (s_pos s) (f_evlr_bytes f)), RDone)
        | QCall => forall s, s_cap s = CapAbsent -> snd (do_read_all (set_ps (set_read h (f_count f)) (PReal true)) s) = RRaised XOther
        end
  | QCall => if re then snd r = RRaised XOther /\ st_h (fst r) = None /\ s_closed (st_s (fst r)) = cf
             else snd r = RDone /\ s_closed (st_s (fst r)) = false
  end.
Proof. exact read_only_source. Qed.
Print Assumptions C18_read_only_source.

(* LAZ-FLAGGED FILES WHOSE POINT READER CANNOT BE BUILT (f_laz f = Some x: no backend selected / available - LaspyException -, or
   the backend's constructor raises x). Every theorem above that quantifies over `f` includes them: the file opens for reading
   (C18_open_succeeds: the point source is lazy, the header can be looked at), the stream stands at the first point record
   (C18_position), and however the session ends the stream is closed iff closefd (C18_iff, C18_handle_gone, C18_read_las).
   What the operations in between do: whatever needs the point source - read_points, read, seek, .point_source - raises x and
   changes NOTHING: no point source is kept, the stream is open and stands where it stood, the handle still carries the
   caller's closefd (a second attempt fails in the same way) *)
Theorem C18_laz_unreadable : forall t h x, st_h t = Some h -> h_mode h = MR -> h_ps h = PNone ->
  f_laz (h_file h) = Some x -> 0 <= h_read h < f_count (h_file h) ->
  (forall n, step t (EReadPoints n) = (t, RRaised x)) /\ step t EReadAll = (t, RRaised x)
  /\ step t EPointSource = (t, RRaised x)
  /\ (forall pos wh pr idx, gen_seek (f_count (h_file h)) (h_read h) pos wh = Ok (pr, idx) -> step t (ESeek pos wh) = (t, RRaised x)).
Proof. exact laz_unreadable. Qed.
Print Assumptions C18_laz_unreadable.

(* an appender refuses such a file while it is being constructed, inside the try of open_las: closed iff closefd *)
Theorem C18_laz_append_refused : forall t cf re f x, st_h t = None -> s_closed (st_s t) = false -> s_seekable (st_s t) = true ->
  f_laz f = Some x ->
  let r := step t (EOpen MA cf re f OOk) in
  snd r = RRaised gen_appender_laz_exn /\ st_h (fst r) = None /\ s_closed (st_s (fst r)) = cf.
Proof. exact laz_append_refused. Qed.
Print Assumptions C18_laz_append_refused.

(* A WHOLE READ SESSION, after any history: an open for reading that gives a handle (any file: with or without points, EVLRs,
   LAZ-flagged or not, torn, any offset_to_point_data), then ANY operations on the reader (reader_op: read_points, seek, read,
   .point_source, an operation under which the stream fails) whatever each of them does - succeeds, fails on the content,
   fails because the LAZ point reader cannot be built, fails because the stream did -, then the with statement is left
   (normally or by an exception) or close() is called: the handle is gone and the stream is closed iff the caller said closefd *)
Theorem C18_read_session : forall cap p evs cf re f o ops e h, is_end e = true -> forallb reader_op ops = true ->
  st_h (run (init_at cap p) evs) = None ->
  st_h (fst (step (run (init_at cap p) evs) (EOpen MR cf re f o))) = Some h ->
  let t2 := run (init_at cap p) (evs ++ EOpen MR cf re f o :: ops) in
  st_h (fst (step t2 e)) = None /\ s_closed (st_s (fst (step t2 e))) = cf.
Proof. exact read_session. Qed.
Print Assumptions C18_read_session.

(* closing builds nothing: no close method reaches the point source through the lazy property (`self.point_source.close()` would
   build it - for a LAZ-flagged file: try to, and raise - just to close it; Model/Ownership.v close_handle / close_exn say what
   that would do). Hence leaving the with statement normally and calling close() succeed (the stream itself not failing), and
   an exception of the with-body is the one that leaves the with statement: for every handle, whatever the file *)
Theorem C18_close_builds_nothing : (forall m cf hp, existsb is_lazy (close_prog m cf hp true) = false) /\ forall h, close_exn h = None.
Proof. exact (conj close_does_not_build close_never_raises_by_itself). Qed.
Print Assumptions C18_close_builds_nothing.

Theorem C18_ends_do_not_raise : forall t h, st_h t = Some h ->
  snd (step t EExit) = RDone /\ snd (step t EClose) = RDone /\ forall x, snd (step t (EBodyRaises x)) = RRaised x.
Proof. exact ends_do_not_raise. Qed.
Print Assumptions C18_ends_do_not_raise.

(* the exit C18_iff leaves out: mode w on a destination that answers no (or cannot answer) is refused before the try; the
   stream is untouched *)
Theorem C18_w_nonseekable_untouched : forall t m cf re f o, st_h t = None ->
  gen_open_pre_assert_seekable m = true -> s_seekable (st_s t) = false ->
  st_s (fst (step t (EOpen m cf re f o))) = st_s t /\ st_h (fst (step t (EOpen m cf re f o))) = None.
Proof. exact precondition_untouched. Qed.
Print Assumptions C18_w_nonseekable_untouched.

(* A handle that is only DROPPED - no close(), no with statement: the reader / writer / appender becomes unreachable and is
   collected (a caller that keeps its stream, closefd=False, has no reason to do more; laspy's own command line tool does this with
   sys.stdin.buffer) - after ANY history: the stream is exactly as it was (open or closed, where it stood), whatever closefd is and
   whether a point source had been created (points read, a seek) or not; no handle is left; the log gets no entry (it is not a moment
   at which laspy lets go). No class has a finalizer, and no function other than the close methods lets go of a stream
   (gen_only_close_closes in C18_skeleton_shapes: a `__del__` that closes is a translation failure). *)
Theorem C18_dropped_handle_leaves_stream : forall cap p evs,
  st_s (run (init_at cap p) (evs ++ [EDrop])) = st_s (run (init_at cap p) evs)
  /\ st_h (run (init_at cap p) (evs ++ [EDrop])) = None
  /\ st_log (run (init_at cap p) (evs ++ [EDrop])) = st_log (run (init_at cap p) evs).
Proof. exact drop_after_any_history. Qed.
Print Assumptions C18_dropped_handle_leaves_stream.

(* A SECOND close: close() - or the exit of a with statement - once more on a reader / writer / appender that was closed before and that
   the caller still holds (EReclose, interpreting the close methods as generated for an object whose own closed flag, if the class
   keeps one, is set). After ANY history and any end of the session (with-exit, close(), the with-body raising), closing the same
   object again leaves the stream closed iff the caller said closefd. *)
Theorem C18_close_twice : forall cap p evs e h, is_end e = true -> st_h (run (init_at cap p) evs) = Some h ->
  let t1 := fst (step (run (init_at cap p) evs) e) in
  s_closed (st_s (fst (step t1 (EReclose (h_mode h) (h_declared h) (h_ps h))))) = h_declared h.
Proof. exact close_twice. Qed.
Print Assumptions C18_close_twice.

(* ... in particular the second close of an object that was given closefd=False never closes, whatever its class, its point source
   and the state of the stream *)
Theorem C18_second_close_unasked : forall t m p, st_h t = None ->
  s_closed (st_s (fst (step t (EReclose m false p)))) = s_closed (st_s t).
Proof. exact reclose_keeps_unasked. Qed.
Print Assumptions C18_second_close_unasked.

(* the appender keeps a flag (LasAppender.closed: False since __init__, set by close() on every path before the stream is released):
   its second close does nothing at all - nothing is written back again, nothing is closed again, no statement of it can fail - and
   points given to a closed appender are refused with a LaspyException before anything is touched *)
Theorem C18_closed_appender : forall t, st_h t = None ->
  (forall cf p, step t (EReclose MA cf p) = (t, RDone) /\ forall hp ss, gen_close_appender_again_faults cf hp ss = [])
  /\ step t (EUseClosed MA) = (t, RRaised XLaspy).
Proof. intros t Eh. split; [intros cf p; exact (appender_reclose_noop t cf p Eh) | exact (closed_appender_refuses t Eh)]. Qed.
Print Assumptions C18_closed_appender.

(* The "only if" half at EVERY moment of a history, not only at the moments laspy lets go of the stream: when laspy is never told to
   close (closefd=False at every open, in every mode, and at every laspy.read; LasData.write), then whatever happens - reads, seeks,
   writes, the point source created or not, failing opens, failures of the stream under any operation, close methods that fail
   half-way, handles that are closed, closed twice, left by an exception, or only dropped, any number of sessions - the caller's
   stream is open. *)
Theorem C18_never_told_never_closed : forall cap p evs, forallb asks_no_close evs = true ->
  s_closed (st_s (run (init_at cap p) evs)) = false.
Proof. exact never_told_never_closed. Qed.
Print Assumptions C18_never_told_never_closed.

(* shapes checked by the translator: __exit__ is self.close() for the three classes; the point source is created lazily
   on the reader's own source; header reading touches the caller's stream by the prefetch, then read_evlrs under the flag;
   no function of the modules a stream travels through other than open_las, read_las, the close/__exit__ methods and
   LasData._write_to calls .close()/.__exit__()/.detach() or puts an object it did not create in a `with` statement (an
   operation on a handle - read_points, seek, write_points .. - and what it calls never lets go of the stream) *)
Theorem C18_skeleton_shapes :
  (forall m, gen_exit_closes m = true) /\ gen_point_source_lazy = true /\ gen_read_from_prefetch_then_evlrs = true
  /\ gen_only_close_closes = true
  /\ gen_prefetch_ops = [SRead 227; SReadToOffset]          (* the second read is not bounded: it reaches the first point record *)
  /\ (forall count_pos, gen_point_source_kind count_pos true = if count_pos then PKBackend true else PKEmpty true).
Proof.
  refine (conj gen_exit_closes_all (conj eq_refl (conj eq_refl (conj eq_refl (conj eq_refl _))))).
  intros [|]; reflexivity.
Qed.
Print Assumptions C18_skeleton_shapes.

(* an empty 1.4 file with one EVLR, opened without preloading on a seekable stream with closefd: read() creates the
   empty-file point reader and the close is delegated to it; then a second stream: failing append (bad VLR, non-Laspy
   exception) with closefd, and a reader with closefd=false that reads, is closed explicitly, LasData.write, laspy.read;
   a non-seekable stream handed over at byte 64 whose last record is cut: open leaves it at 64 + 227, read() raises,
   the stream stays open (closefd=false); laspy.read with closefd on what is left (nothing) fails and closes;
   a source that offers only read(), handed over at byte 10: mode w refuses it before its try (closefd or not, it stays
   open), mode a fails inside its try (closefd=false: stays open), a reader takes it, reads the 5 records, cannot seek,
   the with-body raises (closefd=false: open), laspy.read with closefd on the rest fails and closes;
   a LAZ-flagged file whose point reader cannot be built; a file whose first point record lies beyond 227 + 1 MiB *)
Example C18_nonvacuous :
  let f0 := mkF 375 0 30 4 1 375 100 475 false None in
  let f1 := mkF 227 5 20 2 0 0 0 327 false None in
  let f2 := mkF 227 5 20 2 0 0 0 (64 + 310) false None in     (* 64 bytes of something else first; the last record is cut *)
  let f3 := mkF 227 5 20 2 0 0 0 (10 + 327) false None in
  let f4 := mkF 281 5 20 2 0 0 0 381 false (Some XLaspy) in   (* LAZ-flagged, no backend: building the point reader raises LaspyException *)
  let f5 := mkF 1048804 3 20 2 0 0 0 (64 + 1048804 + 60) false None in   (* the first point record is 227 + 1 MiB + 1 into the content *)
  (map (fun '(r, t) => (r, s_closed (st_s t), s_pos (st_s t), match st_h t with Some h => Some (h_ps h) | None => None end))
       (trace (init CapYes) [EOpen MR true false f0 OOk; EReadAll; EExit; EOpen MR true true f0 OOk]),
   map (fun '(r, t) => (r, s_closed (st_s t), s_pos (st_s t)))
       (trace (init CapYes) [EOpen MA true true f1 OBadVlr]),
   map (fun '(r, t) => (r, s_closed (st_s t), s_pos (st_s t)))
       (trace (init CapYes) [EOpen MR false true f1 OOk; EReadPoints 2; ESeek 4 0; EClose; ELasDataWrite OOk; ERewind 0; EReadLas true f1 OOk]),
   map (fun '(r, t) => (r, s_closed (st_s t), s_pos (st_s t)))
       (trace (init_at CapNo 64) [EOpen MR false true f2 OOk; EReadPoints 2; EReadAll; EExit; EReadLas true f2 OEmpty]),
   map (fun '(r, t) => (r, s_closed (st_s t), s_pos (st_s t)))
       (trace (init_at CapAbsent 10) [EOpen MW true true f1 OOk; EOpen MA false true f1 OOk; EOpen MR false true f3 OOk; EReadPoints 5;
                                      ESeek 0 0; EBodyRaises XLaspy; EReadLas true f3 OBadSig]),
   (* failures of the stream itself: under read_points of a reader with closefd=false (caught, a further read, then the
      with-body raises: still open), then a KeyboardInterrupt-like failure while opening with closefd: closed;
      a writer with closefd=false whose write fails, then whose close fails: open; an append open with closefd that fails
      with a LaspyException of the stream: closed; laspy.read on a non-seekable stream whose read() fails: open / closed *)
   map (fun '(r, t) => (r, s_closed (st_s t), match st_h t with Some h => Some (h_ps h) | None => None end))
       (trace (init CapYes) [EOpen MR false true f1 OOk; EOpFault XOther; EReadPoints 1; EBodyRaises XOther; ERewind 0;
                             EOpen MR true true f1 (OFault XBase)]),
   map (fun '(r, t) => (r, s_closed (st_s t), map (fun o => (o_how o, o_closefd o, o_closed o)) (st_log t)))
       (trace (init CapYes) [EOpen MW false true f1 OOk; EWrite; EOpFault XOther; EEndFault true 0 XOther;
                             EOpen MA true true f1 (OFault XLaspy)]),
   map (fun '(r, t) => (r, s_closed (st_s t)))
       (trace (init CapNo) [EReadLasFault false f1 XOther; EReadLasFault true f1 XBase]),
   (* a LAZ-flagged file of 5 points whose point reader cannot be built, closefd: the open gives a handle and leaves the stream
      at the first point record; read_points, .point_source, read(), seek raise and change nothing; the with-exit closes.
      On another stream: an appender with closefd=false is refused (open), laspy.read with closefd fails and closes *)
   map (fun '(r, t) => (r, s_closed (st_s t), s_pos (st_s t), match st_h t with Some h => Some (h_ps h) | None => None end))
       (trace (init CapYes) [EOpen MR true true f4 OOk; EReadPoints 2; EPointSource; EReadAll; ESeek 1 0; EExit]),
   map (fun '(r, t) => (r, s_closed (st_s t)))
       (trace (init CapYes) [EOpen MA false true f4 OOk; EReadLas true f4 OOk]),
   (* more than 227 + 1 MiB before the first point record, on a stream that cannot seek, handed over at byte 64 *)
   map (fun '(r, t) => (r, s_pos (st_s t))) (trace (init_at CapNo 64) [EOpen MR false true f5 OOk; EReadPoints 1]),
   (* a reader with closefd=false reads two points (its point source exists) and is only dropped: the stream is open where it stood,
      no handle, nothing logged; a second reader on it with closefd, dropped too: open as well; then closed by a third one's exit *)
   map (fun '(r, t) => (r, s_closed (st_s t), s_pos (st_s t), match st_h t with Some h => Some (h_ps h) | None => None end, length (st_log t)))
       (trace (init CapYes) [EOpen MR false true f1 OOk; EReadPoints 2; EDrop; ERewind 0; EOpen MR true true f1 OOk; EReadPoints 1; EDrop;
                             EDrop; ERewind 0; EOpen MR true true f1 OOk; EExit]),
   (* an appender with closefd=false: points, close(), close() again (nothing), points again (refused), then the same with closefd:
      the stream is closed by the first close and stays so *)
   map (fun '(r, t) => (r, s_closed (st_s t), length (st_log t)))
       (trace (init CapYes) [EOpen MA false true f1 OOk; EWrite; EClose; EReclose MA false PNone; EUseClosed MA;
                             EOpen MA true true f1 OOk; EExit; EReclose MA true PNone; EUseClosed MA; EReclose MR true (PReal true)]))
  = ([(RDone, false, 375, Some PNone); (RDone, false, 375, Some (PNull true)); (RDone, true, 375, None); (RRaised XOther, true, 375, None)],
     [(RRaised XOther, true, 0)],
     [(RDone, false, 227); (RDone, false, 267); (RDone, false, 307); (RDone, false, 307); (RDone, false, 307); (RDone, false, 0); (RDone, true, 327)],
     [(RDone, false, 291); (RDone, false, 331); (RRaised XOther, false, 374); (RDone, false, 374); (RRaised XLaspy, true, 374)],
     [(RRaised XOther, false, 10); (RRaised XOther, false, 10); (RDone, false, 237); (RDone, false, 337); (RRaised XOther, false, 337);
      (RRaised XLaspy, false, 337); (RRaised XLaspy, true, 337)],
     [(RDone, false, Some PNone); (RRaised XOther, false, Some (PReal true)); (RDone, false, Some (PReal true));
      (RRaised XOther, false, None); (RDone, false, None); (RRaised XBase, true, None)],
     [(RDone, false, []); (RDone, false, []); (RRaised XOther, false, []);
      (RRaised XOther, false, [(HCloseFault, false, false)]);
      (RRaised XLaspy, true, [(HCloseFault, false, false); (HFailedOpen, true, true)])],
     [(RRaised XOther, false); (RRaised XBase, true)],
     [(RDone, false, 281, Some PNone); (RRaised XLaspy, false, 281, Some PNone); (RRaised XLaspy, false, 281, Some PNone);
      (RRaised XLaspy, false, 281, Some PNone); (RRaised XLaspy, false, 281, Some PNone); (RDone, true, 281, None)],
     [(RRaised XLaspy, false); (RRaised XLaspy, true)],
     [(RDone, 64 + 1048804); (RDone, 64 + 1048804 + 20)],
     [(RDone, false, 227, Some PNone, 0%nat); (RDone, false, 267, Some (PReal true), 0%nat); (RDone, false, 267, None, 0%nat);
      (RDone, false, 0, None, 0%nat); (RDone, false, 227, Some PNone, 0%nat); (RDone, false, 247, Some (PReal true), 0%nat);
      (RDone, false, 247, None, 0%nat); (RIgnored, false, 247, None, 0%nat); (RDone, false, 0, None, 0%nat);
      (RDone, false, 227, Some PNone, 0%nat); (RDone, true, 227, None, 1%nat)],
     [(RDone, false, 0%nat); (RDone, false, 0%nat); (RDone, false, 1%nat); (RDone, false, 1%nat); (RRaised XLaspy, false, 1%nat);
      (RDone, false, 1%nat); (RDone, true, 2%nat); (RDone, true, 2%nat); (RRaised XLaspy, true, 2%nat); (RDone, true, 2%nat)]).
Proof. vm_compute. reflexivity. Qed.
