(* C01 — lossless write/read round trip of point records. *)
From Coq Require Import String.
From Coq Require Import ZArith List Bool.
From LasV Require Import Lib.Base Lib.Layout Gen.GenHeaderLayout Gen.GenFormatBits Gen.GenDims Model.Las Model.LasSpec
  Model.LasFast Proofs.HeaderLen Proofs.VlrProofs Proofs.HeaderProofs Proofs.WriterProofs Proofs.RoundTripProofs Proofs.AppendProofs Proofs.LasFastProofs.
Import ListNotations.
Open Scope list_scope.
Open Scope Z_scope.

(* any version 1.1-1.4, any compatible format, any record length (standard + extra bytes), any record contents
   (recs_ok only asks every record to have point_size bytes), any count including 0 and 1, any VLR/EVLR lists:
   what is written is read back byte for byte, with the same header fields (version, format, scales, offsets, count ...) *)
Theorem C01_roundtrip : forall ap h vl fmt recs evl f h',
  file_of ap h vl fmt recs evl = Ok f -> final_hdr ap h vl fmt recs evl = Ok h' ->
  wf_header h' vl = true -> forallb (wf_vlr true) evl = true ->
  recs_ok (aint h' "point_size") recs = true -> 0 < aint h' "point_size" ->
  (evl = [] \/ aint h "version.minor" >= 4) -> len evl <= MAX_VLRS ->
  exists lf, read_file f = Ok lf
    /\ lf_points lf = recs
    /\ rh_vlrs (lf_h lf) = vl
    /\ rh_evlrs (lf_h lf) = (if aint h' "version.minor" >=? 4 then Some evl else None)
    /\ aint (rh_fields (lf_h lf)) "point_count" = len recs
    /\ rh_psize (lf_h lf) = aint h' "point_size"
    /\ rh_offset (lf_h lf) = aint h' "offset_to_point_data"
    /\ (forall n, In n (header_field_names (aint h' "version.minor")) -> aget (rh_fields (lf_h lf)) n = Some (wval h' n)).
Proof. exact read_write_roundtrip. Qed.
Print Assumptions C01_roundtrip.

(* records of the right length are recovered from their concatenation whatever their bytes *)
Theorem C01_records : forall ps recs, (0 < ps)%nat -> Forall (fun r => length r = ps) recs ->
  forall fuel, (length (concat recs) <= fuel)%nat -> chunks_of fuel ps (concat recs) = recs.
Proof. exact RoundTripProofs.chunks_of_concat. Qed.
Print Assumptions C01_records.

(* the header codec on its own: every field in its domain survives *)
Theorem C01_header : forall h vl es h' bs rest,
  enc_header h vl es = Ok (h', bs) -> wf_header h' vl = true ->
  exists rh, dec_header (bs ++ rest) false = Ok rh
    /\ rh_vlrs rh = vl
    /\ rh_offset rh = len bs
    /\ rh_psize rh = aint h' "point_size"
    /\ rh_fmt rh = compressed_id_to_uncompressed (aint h' "point_format_id")
    /\ (forall n, In n (header_field_names (aint h' "version.minor")) -> aget (rh_fields rh) n = Some (wval h' n))
    /\ abytes (rh_fields rh) "extra_header_bytes" = abytes h' "extra_header_bytes"
    /\ abytes (rh_fields rh) "extra_vlr_bytes" = abytes h' "extra_vlr_bytes".
Proof. exact dec_enc_header. Qed.
Print Assumptions C01_header.

(* writing the object that was read back produces the same file, byte for byte *)
Theorem C01_rewrite_idempotent : forall ap, ap_ok ap -> (forall s o x, 0 <= ap s o x) ->
  forall h vl fmt recs evl f lf,
  wf_las ap h vl fmt recs evl ->
  file_of ap h vl fmt recs evl = Ok f -> read_file f = Ok lf ->
  file_of ap (rh_fields (lf_h lf)) (rh_vlrs (lf_h lf)) (rh_fmt (lf_h lf)) (lf_points lf)
          (match rh_evlrs (lf_h lf) with Some l => l | None => [] end) = Ok f.
Proof. exact rewrite_idempotent. Qed.
Print Assumptions C01_rewrite_idempotent.

(* the reader run against the implementation (clamped lengths) is the reader of the theorems *)
Theorem C01_executable_twin : forall src, read_file_f src = read_file src.
Proof. exact read_file_f_eq. Qed.
Print Assumptions C01_executable_twin.
