(* C01 — lossless write/read round trip of point records. *)
From Coq Require Import String.
From Coq Require Import ZArith List Bool.
From LasV Require Import Lib.Base Lib.Layout Gen.GenHeaderLayout Gen.GenFormatBits Gen.GenDims Model.Las Model.LasSpec
  Model.LasFast Model.WriterAlias Model.DataAlias Proofs.HeaderLen Proofs.VlrProofs Proofs.HeaderProofs Proofs.WriterProofs Proofs.RoundTripProofs
  Proofs.AppendProofs Proofs.LasFastProofs Proofs.WriterAliasProofs Proofs.DataAliasProofs
  Model.Cursor Model.RecView Proofs.RecViewProofs Model.ReadBack Proofs.ReadBackProofs.
Import ListNotations.
Open Scope list_scope.
Open Scope Z_scope.

(* any version 1.1-1.4, any compatible format, any record length (standard + extra bytes), any record contents
   (recs_ok only asks every record to have point_size bytes), any count including 0 and 1, any VLR/EVLR lists:
   what is written is read back byte for byte, with the same header fields (version, format, scales, offsets, count ...) *)
Theorem C01_roundtrip : forall ap h vl fmt recs evl f h',
  file_of ap h vl fmt recs evl = Ok f -> final_hdr ap h vl fmt recs evl = Ok h' ->
  wf_header h' vl = true -> forallb (wf_vlr true) evl = true ->
  recs_ok (aint h' "point_size") recs = true -> 0 < aint h' "point_size" ->
  (evl = [] \/ aint h "version.minor" >= 4) -> len evl <= MAX_VLRS ->
  exists lf, read_file f = Ok lf
    /\ lf_points lf = recs
    /\ rh_vlrs (lf_h lf) = vl
    /\ rh_evlrs (lf_h lf) = (if aint h' "version.minor" >=? 4 then Some evl else None)
    /\ aint (rh_fields (lf_h lf)) "point_count" = len recs
    /\ rh_psize (lf_h lf) = aint h' "point_size"
    /\ rh_offset (lf_h lf) = aint h' "offset_to_point_data"
    /\ (forall n, In n (header_field_names (aint h' "version.minor")) -> aget (rh_fields (lf_h lf)) n = Some (wval h' n)).
Proof. exact read_write_roundtrip. Qed.
Print Assumptions C01_roundtrip.

(* records of the right length are recovered from their concatenation whatever their bytes *)
Theorem C01_records : forall ps recs, (0 < ps)%nat -> Forall (fun r => length r = ps) recs ->
  forall fuel, (length (concat recs) <= fuel)%nat -> chunks_of fuel ps (concat recs) = recs.
Proof. exact RoundTripProofs.chunks_of_concat. Qed.
Print Assumptions C01_records.

(* the header codec on its own: every field in its domain survives *)
Theorem C01_header : forall h vl es h' bs rest,
  enc_header h vl es = Ok (h', bs) -> wf_header h' vl = true ->
  exists rh, dec_header (bs ++ rest) false = Ok rh
    /\ rh_vlrs rh = vl
    /\ rh_offset rh = len bs
    /\ rh_psize rh = aint h' "point_size"
    /\ rh_fmt rh = compressed_id_to_uncompressed (aint h' "point_format_id")
    /\ (forall n, In n (header_field_names (aint h' "version.minor")) -> aget (rh_fields rh) n = Some (wval h' n))
    /\ abytes (rh_fields rh) "extra_header_bytes" = abytes h' "extra_header_bytes"
    /\ abytes (rh_fields rh) "extra_vlr_bytes" = abytes h' "extra_vlr_bytes".
Proof. exact dec_enc_header. Qed.
Print Assumptions C01_header.

(* writing the object that was read back produces the same file, byte for byte *)
Theorem C01_rewrite_idempotent : forall ap, ap_ok ap -> (forall s o x, 0 <= ap s o x) ->
  forall h vl fmt recs evl f lf,
  wf_las ap h vl fmt recs evl ->
  file_of ap h vl fmt recs evl = Ok f -> read_file f = Ok lf ->
  file_of ap (rh_fields (lf_h lf)) (rh_vlrs (lf_h lf)) (rh_fmt (lf_h lf)) (lf_points lf)
          (match rh_evlrs (lf_h lf) with Some l => l | None => [] end) = Ok f.
Proof. exact rewrite_idempotent. Qed.
Print Assumptions C01_rewrite_idempotent.

(* the reader run against the implementation (clamped lengths) is the reader of the theorems *)
Theorem C01_executable_twin : forall src, read_file_f src = read_file src.
Proof. exact read_file_f_eq. Qed.
Print Assumptions C01_executable_twin.

(* ---------------------------------------------------------------------------------------------------------------- *)
(* LasData objects DERIVED from one another (Model/DataAlias.v): a LasData refers to a header object that refers to   *)
(* a point format object; las[...] / convert / reading back take a deep copy                                         *)
(* ---------------------------------------------------------------------------------------------------------------- *)

(* whatever the history - selections of selections, conversions, edits of any object - no two LasData ever refer to the
   same header object, no two headers to the same point format object *)
Theorem C01_separation_invariant : forall ap ops f vl evl d recs, sep (fst (drun ap (world_of f vl evl d recs) ops)).
Proof. exact reachable_sep. Qed.
Print Assumptions C01_separation_invariant.

(* an operation on one LasData (add_extra_dim on a selection, a header setter, ...) leaves every other LasData what it was:
   header fields, VLRs, EVLRs, point format, records *)
Theorem C01_operation_leaves_other_objects : forall ap w op j v, sep w -> target op <> Some j ->
  view w j = Some v -> view (fst (dstep ap w op)) j = Some v.
Proof. exact dstep_frame. Qed.
Print Assumptions C01_operation_leaves_other_objects.

(* hence the ORIGINAL still writes, after any history on the objects derived from it, the file it wrote before *)
Theorem C01_write_unaffected_by_other_objects : forall ap ops w j v, sep w ->
  (forall op, In op ops -> target op <> Some j) -> view w j = Some v ->
  write_obj ap (fst (drun ap w ops)) j = write_obj ap w j.
Proof. exact write_unaffected_by_other_objects. Qed.
Print Assumptions C01_write_unaffected_by_other_objects.

(* a derived object starts out with the VALUES of the one it was derived from *)
Theorem C01_derived_object_is_a_copy : forall w i f v, view w i = Some v ->
  view (derive w i f) (length (dw_objs w)) = Some (mkDV (dv_fields v) (dv_vlrs v) (dv_evlrs v) (dv_fmt v) (f (dv_recs v))).
Proof. exact derived_object_is_a_copy. Qed.
Print Assumptions C01_derived_object_is_a_copy.

(* round 7: clouds made INDEPENDENTLY while others are live (laspy.create(), LasData(LasHeader()) with the defaults, laspy.read):
   a new LasData on a new header object and a new format object; it holds what it was made with *)
Theorem C01_created_object_is_as_given : forall w f vl evl d recs,
  view (create w f vl evl d recs) (length (dw_objs w)) = Some (mkDV f vl evl d recs).
Proof. exact created_object_is_as_given. Qed.
Print Assumptions C01_created_object_is_as_given.

(* ... and whatever is made and done afterwards that is not an operation on that cloud itself - a second cloud made the same way,
   the second cloud's header edited through any setter, further clouds made, selected, converted - it writes the file of exactly
   what it was made with (DCreate is one of the operations `ops` ranges over) *)
Theorem C01_created_cloud_keeps_its_file : forall ap w f vl evl d recs ops, sep w ->
  (forall op, In op ops -> target op <> Some (length (dw_objs w))) ->
  write_obj ap (fst (drun ap (create w f vl evl d recs) ops)) (length (dw_objs w)) = write_view ap (mkDV f vl evl d recs).
Proof. exact created_cloud_keeps_its_file. Qed.
Print Assumptions C01_created_cloud_keeps_its_file.

(* what any of these objects writes is the one-shot file of what it refers to: C01_roundtrip / C01_rewrite_idempotent apply *)
Theorem C01_write_is_file_of : forall ap w j v, view w j = Some v ->
  write_obj ap w j = file_of ap (hdr_of (dv_fields v) (dv_fmt v)) (dv_vlrs v) (fd_id (dv_fmt v)) (dv_recs v)
                             (if aint (dv_fields v) "version.minor" >=? 4 then dv_evlrs v else []).
Proof. exact write_is_file_of. Qed.
Print Assumptions C01_write_is_file_of.

(* the streaming route: whatever the caller does to the header it handed in while the writer is open, the file is the
   one-shot file of the header as it was at open (Model/WriterAlias.v) - to which C01_roundtrip applies *)
Theorem C01_stream_is_one_shot_of_header_at_open : forall ap, ap_ok ap -> forall c d st0 ops chunks evl st outs,
  fmt_at c (cw_hfmt c) = Some d ->
  sopen c = Ok st0 ->
  resolve c d ops = chunk_ops chunks evl ->
  plain_run ap st0 ops = (st, outs) ->
  all_ok outs ->
  file_of ap (hdr_of (cw_h c) d) (cw_vlrs c) (fd_id d) (concat chunks) evl = Ok (w_file (ss_w st)).
Proof. exact session_writes_header_at_open. Qed.
Print Assumptions C01_stream_is_one_shot_of_header_at_open.

(* non-vacuity: a selection is taken, extended by an extra dimension and given another offset; the original writes the same
   bytes as before, the selection writes records of the new size *)
Definition ex1_h : assoc := [("version.major", VInt 1); ("version.minor", VInt 2); ("uuid", VBytes (repeat 0 16));
  ("system_identifier", VBytes [79; 84]); ("generating_software", VBytes []); ("scales[0]", VInt 4607182418800017408)]%string.
Definition ex1_ap (s o x : Z) : Z := if x <? 0 then 0 else x.
Definition ex1_r (x : Z) : list Z := le_enc 4 x ++ repeat 1 16.
Definition ex1_w : dworld := world_of ex1_h [] [] (mkFD 0 20 []) [ex1_r 5; ex1_r 9; ex1_r 2].
Definition ex1_ops : list dop :=
  [DWrite 0; DSelect 0 [2; 0]%nat;
   DEdit 1 (mkDE [("offsets[0]", VInt 4611686018427387904)]%string None None (Some (mkFD 0 22 [7])) (Some [ex1_r 2 ++ [0; 0]; ex1_r 5 ++ [0; 0]]));
   DWrite 0; DWrite 1].
Example C01_alias_nonvacuous :
  match snd (drun ex1_ap ex1_w ex1_ops) with
  | [Ok a; Ok b; Ok c] => list_eqb a b && (len a =? 227 + 60) && (len c =? 227 + 44) && negb (list_eqb a c)
  | _ => false
  end = true.
Proof. vm_compute. reflexivity. Qed.

(* ---------------------------------------------------------------------------------------------------------------- *)
(* round 5: every way of BUILDING the two objects that are written, and the gate that pairs them (Model/Pairing.v,    *)
(* on the extra-dimension model of C13, Model/ExtraDims.v)                                                            *)
(* ---------------------------------------------------------------------------------------------------------------- *)
From LasV Require Import Gen.GenExtraBytes Model.ExtraDims Proofs.ExtraDimsProofs Model.Pairing Proofs.PairingProofs.

(* a record paired with a header through any entry point (LasData(header, points=), las.points =, write_points): when the
   gate accepts, what is written is read back as the very object - the header's format (names, types, order, scales,
   descriptions), the records byte for byte, and under every dimension NAME the value the caller's record held under it
   (caller_view cuts the bytes by the RECORD's own format) - whichever builder made the header (eb_last, others) *)
Theorem C01_paired_object_round_trips : forall gh hex others eb_last gr rex recs std,
  std_size gh = Some std ->
  forallb edim_okb hex = true -> nodupb (extra_names hex) = true ->
  forallb (fun n => negb (mem_name n (rec_names gh))) (extra_names hex) = true ->
  filter is_eb_vlr others = [] ->
  recs_okb std rex recs = true ->
  gate gh hex gr rex = true ->
  exists s w, pair_up gh hex others eb_last gr rex recs = Ok s
    /\ write_state s = Ok w /\ read_state w = Ok s
    /\ pair_write_read gh hex others eb_last gr rex recs = Ok s
    /\ st_fmt s = gh /\ st_extras s = hex
    /\ w_recs w = recs
    /\ st_recs s = caller_view std rex recs
    /\ filter not_eb (st_vlrs s) = others.
Proof. exact paired_round_trip. Qed.
Print Assumptions C01_paired_object_round_trips.

(* the gate refuses a record whose extra dimensions have other names - or the SAME names in another order ... *)
Theorem C01_gate_refuses_other_names : forall gh hex gr rex,
  extra_names rex <> extra_names hex -> gate gh hex gr rex = false.
Proof. exact gate_refuses_other_names. Qed.
Print Assumptions C01_gate_refuses_other_names.

(* ... or another width or element count anywhere (u4 / 2u2 / 4 opaque bytes under one name) ... *)
Theorem C01_gate_refuses_other_layout : forall gh hex gr rex,
  map (fun d => (et_size (ed_type d), et_elems (ed_type d))) rex <> map (fun d => (et_size (ed_type d), et_elems (ed_type d))) hex ->
  gate gh hex gr rex = false.
Proof. exact gate_refuses_other_layout. Qed.
Print Assumptions C01_gate_refuses_other_layout.

(* ... or another point format id; and a refused pairing is an error, nothing is built *)
Theorem C01_gate_refuses_other_id : forall gh hex gr rex, gr <> gh -> gate gh hex gr rex = false.
Proof. exact gate_refuses_other_id. Qed.
Print Assumptions C01_gate_refuses_other_id.

Theorem C01_refused_pairing_is_an_error : forall gh hex others eb_last gr rex recs,
  gate gh hex gr rex = false -> pair_up gh hex others eb_last gr rex recs = Err ELaspy.
Proof. exact refused_pairing_is_an_error. Qed.
Print Assumptions C01_refused_pairing_is_an_error.

(* a header built from a PointFormat that already carries extra dimensions - constructor, create, setter, convert, copy,
   read - has exactly one extra-bytes VLR, whose decoding gives those dimensions in order, with no later call needed; and
   writing then reading gives the object back *)
Theorem C01_built_header_describes_format : forall gh hex recs others eb_last std,
  std_size gh = Some std ->
  forallb edim_okb hex = true -> nodupb (extra_names hex) = true ->
  forallb (fun n => negb (mem_name n (rec_names gh))) (extra_names hex) = true ->
  (forall b, In b recs -> len b = std + extras_size hex) -> filter is_eb_vlr others = [] ->
  exists s, init_ex gh hex recs others eb_last = Ok s
    /\ st_extras s = hex
    /\ match hex with
       | [] => filter is_eb_vlr (st_vlrs s) = []
       | _ => exists p, filter is_eb_vlr (st_vlrs s) = [eb_vlr p] /\ eb_payload hex = Ok p /\ dec_ebs (length p) p = Ok hex
       end
    /\ exists w, write_state s = Ok w /\ read_state w = Ok s.
Proof. exact built_header_describes_format. Qed.
Print Assumptions C01_built_header_describes_format.

(* why the gate must look at the ORDER: identifying the extra dimensions by name pairs a record laid out (b, a) with a
   header describing (a, b), and the reader then finds b's value under "a" *)
Theorem C01_by_name_gate_exchanges_values :
  gate_by_name 0 [cx_a; cx_b] 0 [cx_b; cx_a] = true
  /\ gate 0 [cx_a; cx_b] 0 [cx_b; cx_a] = false
  /\ field_of [97] (split_rec 20 [cx_b; cx_a] cx_point) = Some [2; 0]
  /\ field_of [97] (split_rec 20 [cx_a; cx_b] cx_point) = Some [1; 0].
Proof. exact by_name_gate_exchanges_values. Qed.
Print Assumptions C01_by_name_gate_exchanges_values.

(* non-vacuity: a header of format 0 built from a format with a scaled int16 pair and 5 opaque bytes, a user VLR after the
   extra-bytes VLR, two points: the pairing is accepted, written, and read back with both dimensions and their values *)
Definition ex5_d1 : edim := mkED [104; 49] (TStd 14) (Some ([4602678819172646912; 4607182418800017408], [0; 4621819117588971520])) [100].
Definition ex5_d2 : edim := mkED [111; 112] (TOpaque 5) None [].
Definition ex5_pt (k : Z) : list Z := repeat k 20 ++ [k; 0; k + 1; 0] ++ repeat (k + 2) 5.
Example C01_pairing_nonvacuous :
  match pair_write_read 0 [ex5_d1; ex5_d2] [mkVlr [85] 7 [] [1; 2; 3]] false 0 [ex5_d1; ex5_d2] [ex5_pt 3; ex5_pt 9] with
  | Ok s => (length (st_extras s) =? 2)%nat && (length (st_vlrs s) =? 2)%nat
            && match st_recs s with
               | [r1; r2] => match field_of [104; 49] r2, field_of [111; 112] r1 with
                             | Some a, Some b => list_eqb a [9; 0; 10; 0] && list_eqb b [5; 5; 5; 5; 5]
                             | _, _ => false end
               | _ => false end
  | Err _ => false
  end = true.
Proof. vm_compute. reflexivity. Qed.

(* ---------------------------------------------------------------------------------------------------------------------- *)
(* round 6: selections that are views (Model/RecView.v); reading sessions with chunk iterators (Model/ReadBack.v)              *)
(* ---------------------------------------------------------------------------------------------------------------------- *)

(* writing never modifies what it is given, over whole histories: a history of selections (views and copies), edits through any
   object and writes of any object leaves the world - every buffer, and which buffer and positions every object presents - that
   the same history WITHOUT its writes leaves *)
Theorem C01_writes_transparent : forall ops w, fst (vrun w ops) = fst (vrun w (filter (fun op => negb (is_write op)) ops)).
Proof. exact writes_transparent. Qed.
Print Assumptions C01_writes_transparent.

Theorem C01_write_is_the_presented_records : forall w i, snd (vstep w (VWrite i)) = Some (concat (records_at w i)).
Proof. exact write_is_presented. Qed.
Print Assumptions C01_write_is_the_presented_records.

(* a slice stays a view of the object it was taken from through everything that is done afterwards - writes of either object
   included: at any later time it presents the records its parent presents at the selected positions *)
Theorem C01_view_stays_view : forall w i sel o ops, nth_error (vw_objs w) i = Some o ->
  Forall (fun k => (k < length (vo_idx o))%nat) sel ->
  let j := length (vw_objs w) in
  let w2 := fst (vrun (fst (vstep w (VView i sel))) ops) in
  records_at w2 j = pick [] (records_at w2 i) sel.
Proof. exact view_stays_view. Qed.
Print Assumptions C01_view_stays_view.

(* a mask / index-list selection is a copy: it lives in a buffer of its own, and an edit through an object over one buffer is not
   seen by an object over another *)
Theorem C01_copy_has_fresh_buffer : forall w i sel o, nth_error (vw_objs w) i = Some o ->
  nth_error (vw_objs (fst (vstep w (VCopy i sel)))) (length (vw_objs w)) = Some (mkVO (length (vw_bufs w)) (seq 0 (length sel))).
Proof. exact copy_has_fresh_buffer. Qed.
Print Assumptions C01_copy_has_fresh_buffer.

Theorem C01_edit_unseen_over_other_buffer : forall w i off vals o j oj, nth_error (vw_objs w) i = Some o ->
  nth_error (vw_objs w) j = Some oj -> vo_buf oj <> vo_buf o ->
  records_at (fst (vstep w (VEdit i off vals))) j = records_at w j.
Proof. exact edit_unseen_over_other_buffer. Qed.
Print Assumptions C01_edit_unseen_over_other_buffer.

(* reading back through chunk iterators: after ANY history on the reader (reads, seeks, steps of this or of another iterator),
   draining an iterator of chunk size k <> 0 gives consecutive non-empty pieces covering exactly [cursor, n) ... *)
Theorem C01_drain_after_any_history : forall n k ops fuel, 0 <= n -> k <> 0 -> n < Z.of_nat fuel ->
  let s := after n ops in
  tiles (sp_c s) n (snd (drain fuel s k)) /\ sp_c (fst (drain fuel s k)) = n.
Proof. exact drain_after_any_history. Qed.
Print Assumptions C01_drain_after_any_history.

(* ... so a second pass (seek(0), then the same or a new iterator) reads every record again *)
Theorem C01_second_pass_reads_everything : forall n k ops fuel, 0 < n -> k <> 0 -> n < Z.of_nat fuel ->
  let s := fst (spec_step (after n ops) (CSeek 0 0)) in
  tiles 0 n (snd (drain fuel s k)) /\ sp_c (fst (drain fuel s k)) = n.
Proof. exact second_pass_reads_everything. Qed.
Print Assumptions C01_second_pass_reads_everything.

(* ... and pieces that tile [a, b) carry exactly the records a .. b-1, in order *)
Theorem C01_tiles_carry_the_records : forall (recs : list (list Z)) l a b, 0 <= a -> tiles a b l ->
  concat (map (piece recs) l) = firstn (Z.to_nat (b - a)) (skipn (Z.to_nat a) recs).
Proof. exact (@tiles_carry_the_records (list Z)). Qed.
Print Assumptions C01_tiles_carry_the_records.

(* non-vacuity: a cloud of four 2-byte records; s1 = cloud[::2] is written, then edited: the cloud sees the edit at records 0 and 2,
   a copy made before does not; a reader of 5 points: one step of an iterator of chunk size 2, seek(0), then draining the same
   iterator gives [0,2) [2,4) [4,5) *)
Example C01_view_nonvacuous :
  let w0 := vworld_of [[1; 1]; [2; 2]; [3; 3]; [4; 4]] in
  let '(w, outs) := vrun w0 [VCopy 0 [0%nat; 2%nat]; VView 0 [0%nat; 2%nat]; VWrite 2; VEdit 2 1 [[9]; [8]]; VWrite 0; VWrite 1] in
  outs = [[1; 1; 3; 3]; [1; 9; 2; 2; 3; 8; 4; 4]; [1; 1; 3; 3]]
  /\ snd (drain 9 (fst (spec_step (after 5 [CNext 2]) (CSeek 0 0))) 2) = [(0, 2); (2, 4); (4, 5)].
Proof. vm_compute. split; reflexivity. Qed.
