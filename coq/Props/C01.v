(* C01 — lossless write/read round trip of point records. *)
From Coq Require Import String.
From Coq Require Import ZArith List Bool.
From LasV Require Import Lib.Base Lib.Layout Gen.GenHeaderLayout Gen.GenFormatBits Gen.GenDims Model.Las Model.LasSpec
  Model.LasFast Model.WriterAlias Model.DataAlias Proofs.HeaderLen Proofs.VlrProofs Proofs.HeaderProofs Proofs.WriterProofs Proofs.RoundTripProofs
  Proofs.AppendProofs Proofs.LasFastProofs Proofs.WriterAliasProofs Proofs.DataAliasProofs.
Import ListNotations.
Open Scope list_scope.
Open Scope Z_scope.

(* any version 1.1-1.4, any compatible format, any record length (standard + extra bytes), any record contents
   (recs_ok only asks every record to have point_size bytes), any count including 0 and 1, any VLR/EVLR lists:
   what is written is read back byte for byte, with the same header fields (version, format, scales, offsets, count ...) *)
Theorem C01_roundtrip : forall ap h vl fmt recs evl f h',
  file_of ap h vl fmt recs evl = Ok f -> final_hdr ap h vl fmt recs evl = Ok h' ->
  wf_header h' vl = true -> forallb (wf_vlr true) evl = true ->
  recs_ok (aint h' "point_size") recs = true -> 0 < aint h' "point_size" ->
  (evl = [] \/ aint h "version.minor" >= 4) -> len evl <= MAX_VLRS ->
  exists lf, read_file f = Ok lf
    /\ lf_points lf = recs
    /\ rh_vlrs (lf_h lf) = vl
    /\ rh_evlrs (lf_h lf) = (if aint h' "version.minor" >=? 4 then Some evl else None)
    /\ aint (rh_fields (lf_h lf)) "point_count" = len recs
    /\ rh_psize (lf_h lf) = aint h' "point_size"
    /\ rh_offset (lf_h lf) = aint h' "offset_to_point_data"
    /\ (forall n, In n (header_field_names (aint h' "version.minor")) -> aget (rh_fields (lf_h lf)) n = Some (wval h' n)).
Proof. exact read_write_roundtrip. Qed.
Print Assumptions C01_roundtrip.

(* records of the right length are recovered from their concatenation whatever their bytes *)
Theorem C01_records : forall ps recs, (0 < ps)%nat -> Forall (fun r => length r = ps) recs ->
  forall fuel, (length (concat recs) <= fuel)%nat -> chunks_of fuel ps (concat recs) = recs.
Proof. exact RoundTripProofs.chunks_of_concat. Qed.
Print Assumptions C01_records.

(* the header codec on its own: every field in its domain survives *)
Theorem C01_header : forall h vl es h' bs rest,
  enc_header h vl es = Ok (h', bs) -> wf_header h' vl = true ->
  exists rh, dec_header (bs ++ rest) false = Ok rh
    /\ rh_vlrs rh = vl
    /\ rh_offset rh = len bs
    /\ rh_psize rh = aint h' "point_size"
    /\ rh_fmt rh = compressed_id_to_uncompressed (aint h' "point_format_id")
    /\ (forall n, In n (header_field_names (aint h' "version.minor")) -> aget (rh_fields rh) n = Some (wval h' n))
    /\ abytes (rh_fields rh) "extra_header_bytes" = abytes h' "extra_header_bytes"
    /\ abytes (rh_fields rh) "extra_vlr_bytes" = abytes h' "extra_vlr_bytes".
Proof. exact dec_enc_header. Qed.
Print Assumptions C01_header.

(* writing the object that was read back produces the same file, byte for byte *)
Theorem C01_rewrite_idempotent : forall ap, ap_ok ap -> (forall s o x, 0 <= ap s o x) ->
  forall h vl fmt recs evl f lf,
  wf_las ap h vl fmt recs evl ->
  file_of ap h vl fmt recs evl = Ok f -> read_file f = Ok lf ->
  file_of ap (rh_fields (lf_h lf)) (rh_vlrs (lf_h lf)) (rh_fmt (lf_h lf)) (lf_points lf)
          (match rh_evlrs (lf_h lf) with Some l => l | None => [] end) = Ok f.
Proof. exact rewrite_idempotent. Qed.
Print Assumptions C01_rewrite_idempotent.

(* the reader run against the implementation (clamped lengths) is the reader of the theorems *)
Theorem C01_executable_twin : forall src, read_file_f src = read_file src.
Proof. exact read_file_f_eq. Qed.
Print Assumptions C01_executable_twin.

(* ---------------------------------------------------------------------------------------------------------------- *)
(* LasData objects DERIVED from one another (Model/DataAlias.v): a LasData refers to a header object that refers to   *)
(* a point format object; las[...] / convert / reading back take a deep copy                                         *)
(* ---------------------------------------------------------------------------------------------------------------- *)

(* whatever the history - selections of selections, conversions, edits of any object - no two LasData ever refer to the
   same header object, no two headers to the same point format object *)
Theorem C01_separation_invariant : forall ap ops f vl evl d recs, sep (fst (drun ap (world_of f vl evl d recs) ops)).
Proof. exact reachable_sep. Qed.
Print Assumptions C01_separation_invariant.

(* an operation on one LasData (add_extra_dim on a selection, a header setter, ...) leaves every other LasData what it was:
   header fields, VLRs, EVLRs, point format, records *)
Theorem C01_operation_leaves_other_objects : forall ap w op j v, sep w -> target op <> Some j ->
  view w j = Some v -> view (fst (dstep ap w op)) j = Some v.
Proof. exact dstep_frame. Qed.
Print Assumptions C01_operation_leaves_other_objects.

(* hence the ORIGINAL still writes, after any history on the objects derived from it, the file it wrote before *)
Theorem C01_write_unaffected_by_other_objects : forall ap ops w j v, sep w ->
  (forall op, In op ops -> target op <> Some j) -> view w j = Some v ->
  write_obj ap (fst (drun ap w ops)) j = write_obj ap w j.
Proof. exact write_unaffected_by_other_objects. Qed.
Print Assumptions C01_write_unaffected_by_other_objects.

(* a derived object starts out with the VALUES of the one it was derived from *)
Theorem C01_derived_object_is_a_copy : forall w i f v, view w i = Some v ->
  view (derive w i f) (length (dw_objs w)) = Some (mkDV (dv_fields v) (dv_vlrs v) (dv_evlrs v) (dv_fmt v) (f (dv_recs v))).
Proof. exact derived_object_is_a_copy. Qed.
Print Assumptions C01_derived_object_is_a_copy.

(* what any of these objects writes is the one-shot file of what it refers to: C01_roundtrip / C01_rewrite_idempotent apply *)
Theorem C01_write_is_file_of : forall ap w j v, view w j = Some v ->
  write_obj ap w j = file_of ap (hdr_of (dv_fields v) (dv_fmt v)) (dv_vlrs v) (fd_id (dv_fmt v)) (dv_recs v)
                             (if aint (dv_fields v) "version.minor" >=? 4 then dv_evlrs v else []).
Proof. exact write_is_file_of. Qed.
Print Assumptions C01_write_is_file_of.

(* the streaming route: whatever the caller does to the header it handed in while the writer is open, the file is the
   one-shot file of the header as it was at open (Model/WriterAlias.v) - to which C01_roundtrip applies *)
Theorem C01_stream_is_one_shot_of_header_at_open : forall ap, ap_ok ap -> forall c d st0 ops chunks evl st outs,
  fmt_at c (cw_hfmt c) = Some d ->
  sopen c = Ok st0 ->
  resolve c d ops = chunk_ops chunks evl ->
  plain_run ap st0 ops = (st, outs) ->
  all_ok outs ->
  file_of ap (hdr_of (cw_h c) d) (cw_vlrs c) (fd_id d) (concat chunks) evl = Ok (w_file (ss_w st)).
Proof. exact session_writes_header_at_open. Qed.
Print Assumptions C01_stream_is_one_shot_of_header_at_open.

(* non-vacuity: a selection is taken, extended by an extra dimension and given another offset; the original writes the same
   bytes as before, the selection writes records of the new size *)
Definition ex1_h : assoc := [("version.major", VInt 1); ("version.minor", VInt 2); ("uuid", VBytes (repeat 0 16));
  ("system_identifier", VBytes [79; 84]); ("generating_software", VBytes []); ("scales[0]", VInt 4607182418800017408)]%string.
Definition ex1_ap (s o x : Z) : Z := if x <? 0 then 0 else x.
Definition ex1_r (x : Z) : list Z := le_enc 4 x ++ repeat 1 16.
Definition ex1_w : dworld := world_of ex1_h [] [] (mkFD 0 20 []) [ex1_r 5; ex1_r 9; ex1_r 2].
Definition ex1_ops : list dop :=
  [DWrite 0; DSelect 0 [2; 0]%nat;
   DEdit 1 (mkDE [("offsets[0]", VInt 4611686018427387904)]%string None None (Some (mkFD 0 22 [7])) (Some [ex1_r 2 ++ [0; 0]; ex1_r 5 ++ [0; 0]]));
   DWrite 0; DWrite 1].
Example C01_alias_nonvacuous :
  match snd (drun ex1_ap ex1_w ex1_ops) with
  | [Ok a; Ok b; Ok c] => list_eqb a b && (len a =? 227 + 60) && (len c =? 227 + 44) && negb (list_eqb a c)
  | _ => false
  end = true.
Proof. vm_compute. reflexivity. Qed.
