(* C07 — header fields survive serialisation and the layout arithmetic is exact. *)
From Coq Require Import String.
From Coq Require Import ZArith List Bool.
From LasV Require Import Lib.Base Lib.Layout Gen.GenHeaderLayout Gen.GenFormatBits Gen.GenDims Model.Las Model.LasSpec Model.HeaderOps
  Proofs.HeaderLen Proofs.VlrProofs Proofs.HeaderProofs Proofs.HeaderMisc Proofs.HeaderOpsProofs Model.HeaderObj Proofs.HeaderObjProofs
  Model.HeaderAttr Proofs.HeaderAttrProofs Model.HeaderSession Proofs.HeaderSessionProofs
  Model.HeaderRoute Proofs.HeaderRouteProofs.
Import ListNotations.
Open Scope list_scope.
Open Scope Z_scope.

(* every field in its legal domain (wf_header: u16/u32/u64 ranges, all 2^16 encodings, 16-byte GUID, strings of length 0..32
   without NUL, any 64-bit pattern for the doubles, arbitrary extra bytes, well-formed VLRs) is reproduced exactly *)
Theorem C07_header_roundtrip : forall h vl es h' bs rest,
  enc_header h vl es = Ok (h', bs) -> wf_header h' vl = true ->
  exists rh, dec_header (bs ++ rest) false = Ok rh
    /\ rh_vlrs rh = vl
    /\ rh_offset rh = len bs
    /\ rh_psize rh = aint h' "point_size"
    /\ rh_fmt rh = compressed_id_to_uncompressed (aint h' "point_format_id")
    /\ (forall n, In n (header_field_names (aint h' "version.minor")) -> aget (rh_fields rh) n = Some (wval h' n))
    /\ abytes (rh_fields rh) "extra_header_bytes" = abytes h' "extra_header_bytes"
    /\ abytes (rh_fields rh) "extra_vlr_bytes" = abytes h' "extra_vlr_bytes".
Proof. exact dec_enc_header. Qed.
Print Assumptions C07_header_roundtrip.

(* 227 / 227 / 235 / 375 plus the user's extra bytes; only versions 1.1-1.4 are written *)
Theorem C07_size : forall h vl es h' bs,
  enc_header h vl es = Ok (h', bs) ->
  aint h' "header_size" = nth (Z.to_nat (aint h "version.minor")) [0; 227; 227; 235; 375] 0 + len (abytes h "extra_header_bytes")
  /\ 1 <= aint h "version.minor" <= 4 /\ aint h "version.major" = 1.
Proof. exact header_size_exact. Qed.
Print Assumptions C07_size.

Theorem C07_offset_identity : forall h vl es h' bs, enc_header h vl es = Ok (h', bs) ->
  exists vb hs0, enc_vlrs false vl = Ok vb
    /\ header_size_tbl (aint h "version.major") (aint h "version.minor") = Some hs0
    /\ aint h' "header_size" = hs0 + len (abytes h "extra_header_bytes")
    /\ aint h' "offset_to_point_data" = aint h' "header_size" + len vb + len (abytes h "extra_vlr_bytes").
Proof. exact enc_header_offset. Qed.
Print Assumptions C07_offset_identity.

Theorem C07_written_length : forall h vl es h' bs, enc_header h vl es = Ok (h', bs) -> len bs = aint h' "offset_to_point_data".
Proof. exact enc_header_len. Qed.
Print Assumptions C07_written_length.

(* rewriting an updated header in place: same offset, or refused - the file is never silently shifted *)
Theorem C07_rewrite_same_offset : forall h vl h' bs, enc_header h vl true = Ok (h', bs) ->
  aint h' "offset_to_point_data" = aint h "offset_to_point_data" /\ len bs = aint h "offset_to_point_data".
Proof. exact enc_header_same_size. Qed.
Print Assumptions C07_rewrite_same_offset.

Theorem C07_rewrite_refused : forall h vl vb hs0,
  aint h "point_count" <= max_point_count (aint h "version.major") (aint h "version.minor") ->
  enc_vlrs false vl = Ok vb ->
  header_size_tbl (aint h "version.major") (aint h "version.minor") = Some hs0 ->
  hs0 + len (abytes h "extra_header_bytes") + len vb + len (abytes h "extra_vlr_bytes") <> aint h "offset_to_point_data" ->
  enc_header h vl true = Err ELaspy.
Proof. exact enc_header_refuses_shift. Qed.
Print Assumptions C07_rewrite_refused.

(* system identifier / generating software: every length 0..32, the full 32 bytes included *)
Theorem C07_strings : forall s w rest, no_nul s = true -> bytes_ok s = true -> (length s <= w)%nat ->
  dec_field KStr w (null_pad s w false ++ rest) = (VBytes s, rest) /\ length (null_pad s w false) = w.
Proof. exact string_roundtrip. Qed.
Print Assumptions C07_strings.

(* every date 0001-01-01 .. 9999-12-31 survives as (day of year, year); the day of year fits the u16 field *)
Theorem C07_date : forall y m d, valid_date y m d = true -> of_yday y (yday y m d) = Some (y, m, d).
Proof. exact of_yday_yday. Qed.
Print Assumptions C07_date.
Theorem C07_date_range : forall y m d, valid_date y m d = true -> 1 <= yday y m d <= (if leap y then 366 else 365).
Proof. exact yday_range. Qed.
Print Assumptions C07_date_range.

(* no sequence of constructor / setter / create / convert calls yields an incompatible (version, format) pair:
   a failing call leaves the header as it was, and the writer refuses an incompatible header *)
Theorem C07_never_incompatible : forall ops s, hcompat s = true -> hcompat (hrun s ops) = true.
Proof. exact never_incompatible. Qed.
Print Assumptions C07_never_incompatible.
Theorem C07_created_compatible : forall v f s, hstep (mkHS (0, 0) 0) (HNew v f) = Ok s -> forall ops, hcompat (hrun s ops) = true.
Proof. exact created_compatible. Qed.
Print Assumptions C07_created_compatible.
Theorem C07_writer_refuses : forall s, hcompat s = false -> hstep s HOpenWriter = Err ELaspy.
Proof. exact writer_refuses. Qed.
Print Assumptions C07_writer_refuses.
Theorem C07_convert_keeps_version : forall s f s', hstep s (HConvert f None) = Ok s' ->
  fst (hs_v s) < fst (hs_v s') \/ (fst (hs_v s) = fst (hs_v s') /\ snd (hs_v s) <= snd (hs_v s')).
Proof. exact convert_keeps_version. Qed.
Print Assumptions C07_convert_keeps_version.

(* the header OBJECT carries more than its fields (loaded EVLR list of any length, the LasData / points it is attached to, where it came
   from): none of it reaches the bytes ... *)
Theorem C07_aux_state_irrelevant : forall o o' es,
  ho_fields o = ho_fields o' -> ho_vlrs o = ho_vlrs o' -> write_obj o es = write_obj o' es.
Proof. exact write_obj_aux_irrelevant. Qed.
Print Assumptions C07_aux_state_irrelevant.

(* ... and every plain field (not the three computed by the layout arithmetic) is read back as the value of THAT attribute *)
Theorem C07_field_own_value : forall o es h' bs rest n,
  write_obj o es = Ok (h', bs) -> wf_header h' (ho_vlrs o) = true ->
  In n (header_field_names (aint (ho_fields o) "version.minor")) -> derived_name n = false ->
  exists rh, dec_header (bs ++ rest) false = Ok rh /\ aget (rh_fields rh) n = Some (wval (ho_fields o) n).
Proof. exact field_own_value. Qed.
Print Assumptions C07_field_own_value.

(* two header objects that agree on a field read it back equal, whatever else differs (other fields, VLRs, padding, EVLR list, flags) *)
Theorem C07_field_independent : forall o1 o2 es1 es2 h1 b1 h2 b2 r1 r2 n,
  write_obj o1 es1 = Ok (h1, b1) -> write_obj o2 es2 = Ok (h2, b2) ->
  wf_header h1 (ho_vlrs o1) = true -> wf_header h2 (ho_vlrs o2) = true ->
  In n (header_field_names (aint (ho_fields o1) "version.minor")) -> In n (header_field_names (aint (ho_fields o2) "version.minor")) ->
  derived_name n = false -> aget (ho_fields o1) n = aget (ho_fields o2) n ->
  exists rh1 rh2, dec_header (b1 ++ r1) false = Ok rh1 /\ dec_header (b2 ++ r2) false = Ok rh2
    /\ aget (rh_fields rh1) n = aget (rh_fields rh2) n.
Proof. exact field_independent. Qed.
Print Assumptions C07_field_independent.

(* ---- every assignment to a public attribute of a header (Model/HeaderAttr.v; the harness enumerates the attributes by introspection) ---- *)

(* no sequence of API calls and assignments `header.<any public attribute> = value` yields an incompatible pair, and the pair is
   compatible after each single step of such a history *)
Theorem C07_never_incompatible_any_assignment : forall ops s, hcompat s = true -> hcompat (hrun2 s ops) = true.
Proof. exact never_incompatible2. Qed.
Print Assumptions C07_never_incompatible_any_assignment.
Theorem C07_compatible_after_each_step : forall ops s, hcompat s = true -> Forall (fun r => hcompat (snd r) = true) (htrace2 s ops).
Proof. exact trace_compatible2. Qed.
Print Assumptions C07_compatible_after_each_step.
(* an assignment to any attribute other than `version` and `point_format` does not reach the pair, refused or stored *)
Theorem C07_assignment_elsewhere_keeps_pair : forall s a x, a <> AVersion -> a <> APointFormat -> hrun1_2 s (HAssign a x) = s.
Proof. exact assign_elsewhere_keeps_pair. Qed.
Print Assumptions C07_assignment_elsewhere_keeps_pair.
Theorem C07_api_histories_unchanged : forall ops s, hrun2 s (map HApi ops) = hrun s ops.
Proof. exact hrun2_api. Qed.
Print Assumptions C07_api_histories_unchanged.
(* the check is needed at EVERY mutation point: one attribute storing a version unchecked leaves the legal pairs *)
Theorem C07_unchecked_attribute_breaks : hcompat (mkHS (1, 4) 6) = true /\ hcompat (hstep_unchecked (mkHS (1, 4) 6) (1, 2)) = false.
Proof. exact unchecked_attribute_breaks. Qed.
Print Assumptions C07_unchecked_attribute_breaks.

(* ---- in-place rewrite: the header object of an open writer / appender edited between open and close (Model/HeaderSession.v) ---- *)

(* no edit of the public API reaches the offset the object remembers from the first write *)
Theorem C07_edits_keep_offset : forall es o, forallb edit_public es = true ->
  aint (ho_fields (apply_edits o es)) "offset_to_point_data" = aint (ho_fields o) "offset_to_point_data".
Proof. exact edits_keep_offset. Qed.
Print Assumptions C07_edits_keep_offset.
(* whatever was edited: an accepted rewrite has the length and the offset of the first write ... *)
Theorem C07_session_keeps_offset : forall o o1 bs1 es h2 bs2,
  open_session o = Ok (o1, bs1) -> forallb edit_public es = true ->
  close_session (apply_edits o1 es) = Ok (h2, bs2) ->
  len bs2 = len bs1 /\ aint h2 "offset_to_point_data" = len bs1.
Proof. exact session_keeps_offset. Qed.
Print Assumptions C07_session_keeps_offset.
(* ... so the file after close() is a block of the same length followed by exactly what followed the first header (the point
   records, the EVLRs): refused and untouched, or rewritten in front of the first point record - never over it *)
Theorem C07_session_never_overwrites_points : forall o o1 bs1 es rest,
  open_session o = Ok (o1, bs1) -> forallb edit_public es = true ->
  exists hdr', file_after_close (bs1 ++ rest) (apply_edits o1 es) = hdr' ++ rest /\ length hdr' = length bs1.
Proof. exact session_never_overwrites. Qed.
Print Assumptions C07_session_never_overwrites_points.
(* an edit that changes the size of the header + VLR block is refused at close *)
Theorem C07_session_refuses_resize : forall o o1 bs1 es vb hs0,
  open_session o = Ok (o1, bs1) -> forallb edit_public es = true ->
  let f := ho_fields (apply_edits o1 es) in
  aint f "point_count" <= max_point_count (aint f "version.major") (aint f "version.minor") ->
  enc_vlrs false (ho_vlrs (apply_edits o1 es)) = Ok vb ->
  header_size_tbl (aint f "version.major") (aint f "version.minor") = Some hs0 ->
  hs0 + len (abytes f "extra_header_bytes") + len vb + len (abytes f "extra_vlr_bytes") <> len bs1 ->
  close_session (apply_edits o1 es) = Err ELaspy.
Proof. exact session_refuses_resize. Qed.
Print Assumptions C07_session_refuses_resize.
(* necessity: an edit of the VLR list that refreshes the remembered offset from the new list leaves the guard nothing to compare with *)
Theorem C07_refreshing_edit_defeats_guard : forall o vl vb hs0,
  let f := ho_fields (set_vlrs_refreshing o vl) in
  enc_vlrs false vl = Ok vb ->
  header_size_tbl (aint (ho_fields o) "version.major") (aint (ho_fields o) "version.minor") = Some hs0 ->
  hs0 + len (abytes f "extra_header_bytes") + len vb + len (abytes f "extra_vlr_bytes") = aint f "offset_to_point_data".
Proof. exact refreshing_edit_defeats_guard. Qed.
Print Assumptions C07_refreshing_edit_defeats_guard.

(* ---- every ROUTE that puts a header into a file (Model/HeaderRoute.v): LasWriter() / laspy.open(mode='w') / LasData.write open a
   writer on a private copy of the caller's header whose statistics are reset; close() of a writer / an appender pours the statistics
   gathered on the way into its header object and rewrites it in place ---- *)

(* whatever the statistics and however it is written (first serialisation or in-place rewrite): every field that is neither
   derived by write_to nor computed by the route is read back from the file as the caller's header held it *)
Theorem C07_route_keeps_caller_fields : forall o st es h' bs rest n,
  enc_header (with_stats (ho_fields o) st) (ho_vlrs o) es = Ok (h', bs) -> wf_header h' (ho_vlrs o) = true ->
  In n (header_field_names (aint (ho_fields o) "version.minor")) -> derived_name n = false -> route_computed n = false ->
  exists rh, dec_header (bs ++ rest) false = Ok rh /\ aget (rh_fields rh) n = Some (wval (ho_fields o) n).
Proof. exact route_keeps_caller_fields. Qed.
Print Assumptions C07_route_keeps_caller_fields.
Theorem C07_route_open_keeps : forall o h' bs rest n,
  route_open o = Ok (h', bs) -> wf_header h' (ho_vlrs o) = true ->
  In n (header_field_names (aint (ho_fields o) "version.minor")) -> derived_name n = false -> route_computed n = false ->
  exists rh, dec_header (bs ++ rest) false = Ok rh /\ aget (rh_fields rh) n = Some (wval (ho_fields o) n).
Proof. exact route_open_keeps. Qed.
Print Assumptions C07_route_open_keeps.
Theorem C07_route_close_keeps : forall o st h' bs rest n,
  route_close o st = Ok (h', bs) -> wf_header h' (ho_vlrs o) = true ->
  In n (header_field_names (aint (ho_fields o) "version.minor")) -> derived_name n = false -> route_computed n = false ->
  exists rh, dec_header (bs ++ rest) false = Ok rh /\ aget (rh_fields rh) n = Some (wval (ho_fields o) n).
Proof. exact route_close_keeps. Qed.
Print Assumptions C07_route_close_keeps.
(* the caller's fields, by name, in the versions that have them: everything but the statistics and the EVLR bookkeeping - the
   waveform pointer of 1.3 / 1.4 included (the names the routes reset are compared with LasHeader.partial_reset on every run) *)
Theorem C07_caller_fields :
  filter (fun n => negb (derived_name n) && negb (route_computed n)) (header_field_names 4)
  = ["file_source_id"; "global_encoding"; "uuid"; "version.major"; "version.minor"; "system_identifier"; "generating_software";
     "creation_yday"; "creation_year"; "point_format_id"; "point_size"; "scales[0]"; "scales[1]"; "scales[2]"; "offsets[0]"; "offsets[1]";
     "offsets[2]"; "start_of_waveform"]%string
  /\ existsb (String.eqb "start_of_waveform") (header_field_names 3) = true
  /\ existsb (String.eqb "start_of_waveform") (header_field_names 2) = false.
Proof. vm_compute. repeat split; reflexivity. Qed.
Print Assumptions C07_caller_fields.
(* LasData.update_header() (explicit, or through `las.points = ...`) is a data-sync operation: from 1.4 on it defines the waveform
   pointer as 0, so on the routes through it the pointer is computed, not the caller's; everything else it does not compute stays,
   and before 1.4 it computes the statistics only *)
Theorem C07_update_header_keeps : forall h st n, sync_computed (aint h "version.minor") n = false ->
  aget (update_header_fields h st) n = aget h n.
Proof. exact update_header_keeps. Qed.
Print Assumptions C07_update_header_keeps.
Theorem C07_sync_computed_before_14 : forall mnr n, mnr < 4 -> sync_computed mnr n = route_computed n.
Proof. exact sync_computed_before_14. Qed.
Print Assumptions C07_sync_computed_before_14.
(* necessity: a reset that also clears one of the caller's fields loses every non-zero value of it *)
Theorem C07_reset_of_caller_field_loses_it : forall h n z, String.eqb n "zero" = false -> String.eqb n "signature" = false ->
  aget h n = Some (VInt z) -> z <> 0 -> wval (reset_also n h) n <> wval h n.
Proof. exact reset_also_loses. Qed.
Print Assumptions C07_reset_of_caller_field_loses_it.

Example C07_nonvacuous :
  valid_date 2024 12 31 = true /\ yday 2024 12 31 = 366 /\ of_yday 2023 59 = Some (2023, 2, 28)
  /\ hcompat (hrun (mkHS (1, 2) 3) [HSetFormat 6; HConvert (Some 6) None; HSetVersion (1, 2); HSetFormat 0]) = true
  /\ hrun (mkHS (1, 2) 3) [HSetFormat 6; HConvert (Some 6) None; HSetVersion (1, 2); HSetFormat 0] = mkHS (1, 4) 0
  /\ existsb (String.eqb "number_of_evlrs") (header_field_names 4) = true /\ derived_name "number_of_evlrs" = false
  /\ forallb (fun n => negb (derived_name n) || existsb (String.eqb n) ["offset_to_point_data"; "header_size"; "number_of_vlrs"]%string)
       (header_field_names 4) = true
  /\ map (fun r => (fst r, hs_v (snd r), hs_f (snd r)))
        (htrace2 (mkHS (1, 4) 6) [HAssign AReadOnly (XVersion (1, 2)); HAssign APlain (XVersion (1, 2)); HAssign AVersion (XVersion (1, 2));
                                  HAssign APointFormat (XFormat 3); HAssign AVersion (XVersion (1, 2)); HAssign APointFormat XOther])
      = [(false, (1, 4), 6); (true, (1, 4), 6); (false, (1, 4), 6); (true, (1, 4), 3); (true, (1, 2), 3); (false, (1, 2), 3)]
  /\ edit_public (ESetVlrs []) = true /\ edit_public (ESetField "extra_header_bytes" (VBytes [1; 2])) = true
  /\ edit_public (ESetField "offset_to_point_data" (VInt 0)) = false.
Proof. vm_compute. repeat split; reflexivity. Qed.
